(* C10 — Coefficient fields implement exact modular arithmetic.
   Property theorems only: each is closed by [exact <lemma of C10_Proofs>] and followed by Print Assumptions.
   The algorithm models (zp_add, zp_sub, zp_mul, ...) are the statement-by-statement transcriptions in C10_Model.v
   of the private helpers of the field classes; the spec_* functions are exact arithmetic on Z. *)
From Coq Require Import ZArith List Znumtheory.
Require Import C10_Model C10_Proofs C10_Proofs2.
Local Open Scope Z_scope.

(* every binary operation on reduced operands equals the exact result reduced, for every modulus below 2^32
   (hence every prime below 2^16 and every product of a prime range that fits unsigned int) *)
Theorem C10_add_exact : forall a b p, 1 < p < W32 -> 0 <= a < p -> 0 <= b < p -> zp_add a b p = (a + b) mod p.
Proof. exact zp_add_correct. Qed.
Print Assumptions C10_add_exact.

Theorem C10_subtract_exact : forall a b p, 1 < p < W32 -> 0 <= a < p -> 0 <= b < p -> zp_sub a b p = (a - b) mod p.
Proof. exact zp_sub_correct. Qed.
Print Assumptions C10_subtract_exact.

Theorem C10_multiply_exact : forall a b p, 1 < p < W32 -> 0 <= a < p -> 0 <= b < p -> zp_mul a b p = (a * b) mod p.
Proof. exact zp_mul_correct. Qed.
Print Assumptions C10_multiply_exact.

Theorem C10_multiply_small_multifield_exact :
  forall a b p, 1 < p < W32 -> 0 <= a < p -> 0 <= b < p -> mfs_mul a b p = (a * b) mod p.
Proof. exact mfs_mul_correct. Qed.
Print Assumptions C10_multiply_small_multifield_exact.

(* converting any machine integer, negative ones included, yields its residue *)
Theorem C10_convert_unsigned : forall e p, 0 < p -> 0 <= e -> zp_get_value_u e p = e mod p.
Proof. exact zp_get_value_u_correct. Qed.
Print Assumptions C10_convert_unsigned.

Theorem C10_convert_signed : forall w e p, 1 < p < 2147483648 -> zp_get_value_s w e p = e mod p.
Proof. exact zp_get_value_s_correct. Qed.
Print Assumptions C10_convert_signed.

(* the conversion as it stood before the repair in /repo is refuted (witness: -7 in characteristic 5) *)
Theorem C10_convert_signed_unrepaired_refuted :
  exists e p, 1 < p < 65536 /\ - 2147483648 <= e < 2147483648 /\ zp_get_value_s_unrepaired e p <> e mod p.
Proof. exact zp_get_value_s_unrepaired_refuted. Qed.
Print Assumptions C10_convert_signed_unrepaired_refuted.

(* fused operations *)
Theorem C10_multiply_and_add_exact : forall e m a p,
  1 < p < 65536 -> 0 <= e < p -> 0 <= m < p -> 0 <= a < p -> zp_mad e m a p = (e * m + a) mod p.
Proof. exact zp_mad_correct. Qed.
Print Assumptions C10_multiply_and_add_exact.

Theorem C10_add_and_multiply_exact : forall e a m p,
  1 < p < W32 -> 0 <= e < p -> 0 <= a < p -> 0 <= m < p -> zp_aam e a m p = ((e + a) * m) mod p.
Proof. exact zp_aam_correct. Qed.
Print Assumptions C10_add_and_multiply_exact.

Theorem C10_add_and_multiply_unrepaired_refuted : exists e a m p,
  1 < p < 65536 /\ 0 <= e < p /\ 0 <= a < p /\ 0 <= m < p /\ zp_aam_unrepaired e a m p <> ((e + a) * m) mod p.
Proof. exact zp_aam_unrepaired_refuted. Qed.
Print Assumptions C10_add_and_multiply_unrepaired_refuted.

Theorem C10_small_multifield_multiply_and_add_exact : forall e m a p,
  1 < p < W32 -> 0 <= e < p -> 0 <= m < p -> 0 <= a < p -> mfs_mad e m a p = (e * m + a) mod p.
Proof. exact mfs_mad_correct. Qed.
Print Assumptions C10_small_multifield_multiply_and_add_exact.

Theorem C10_small_multifield_add_and_multiply_exact : forall e a m p,
  1 < p < W32 -> 0 <= e < p -> 0 <= a < p -> 0 <= m < p -> mfs_aam e a m p = ((e + a) * m) mod p.
Proof. exact mfs_aam_correct. Qed.
Print Assumptions C10_small_multifield_add_and_multiply_exact.

Theorem C10_small_multifield_fused_unrepaired_refuted : exists e m a p,
  1 < p < W32 /\ 0 <= e < p /\ 0 <= m < p /\ 0 <= a < p /\ mfs_mad_unrepaired e m a p <> (e * m + a) mod p.
Proof. exact mfs_mad_unrepaired_refuted. Qed.
Print Assumptions C10_small_multifield_fused_unrepaired_refuted.

(* the cohomology engine's Field_Zp: for p <= 46337 the int computations do not overflow and are exact *)
Theorem C10_cohomology_plus_times_equal_exact : forall x y w p,
  1 < p <= 46337 -> 0 <= x < p -> 0 <= y < p -> 0 <= w < p ->
  fits_int (w * y) /\ fits_int (x + w * y) /\ fz_plus_times_equal x y w p = (x + w * y) mod p.
Proof. exact fz_plus_times_equal_correct. Qed.
Print Assumptions C10_cohomology_plus_times_equal_exact.

Theorem C10_cohomology_times_minus_exact : forall x y p,
  1 < p <= 46337 -> 0 <= x < p -> 0 <= y < p ->
  fits_int (- x * y) /\ fz_times_minus x y p = (- (x * y)) mod p.
Proof. exact fz_times_minus_correct. Qed.
Print Assumptions C10_cohomology_times_minus_exact.

Theorem C10_cohomology_multifield_times_minus_exact : forall x y P, 0 < P -> mf_times_minus x y P = (- (x * y)) mod P.
Proof. exact mf_times_minus_correct. Qed.
Print Assumptions C10_cohomology_multifield_times_minus_exact.

Theorem C10_cohomology_multifield_times_minus_unrepaired_refuted :
  exists x y P, 0 < P /\ 0 <= x < P /\ 0 <= y < P /\ mf_times_minus_unrepaired x y P <> (- (x * y)) mod P.
Proof. exact mf_times_minus_unrepaired_refuted. Qed.
Print Assumptions C10_cohomology_multifield_times_minus_unrepaired_refuted.

(* x times its inverse is 1: whatever the O(p^2) table construction stores is an inverse, and for a prime
   characteristic it stores one for every non-zero residue (no refusal) *)
Theorem C10_inverse_table_sound : forall p i v, 1 < p < 65536 -> 0 < i < p ->
  zp_inverse_entry i p = Some v -> spec_is_inverse p i v = true.
Proof. exact zp_inverse_entry_sound. Qed.
Print Assumptions C10_inverse_table_sound.

Theorem C10_inverse_table_complete_for_primes : forall p i, prime p -> p < 65536 -> 0 < i < p ->
  exists v, zp_inverse_entry i p = Some v /\ spec_is_inverse p i v = true.
Proof. exact zp_inverse_entry_complete. Qed.
Print Assumptions C10_inverse_table_complete_for_primes.

(* the partial inverse of the small multi-fields as it stood (gcd with the whole product) is refuted *)
Theorem C10_small_partial_inverse_unrepaired_refuted :
  exists primes x Q, primes = primes_between 2 5 /\ Q = 6 /\
    let '(v, T) := mfs_pinv_unrepaired primes x Q in spec_pinv_ok primes x Q v T = false.
Proof. exact mfs_pinv_unrepaired_refuted. Qed.
Print Assumptions C10_small_partial_inverse_unrepaired_refuted.

(* Full statements not (yet) proved in Coq; they are evaluated on every generated input by the correspondence run
   (the oracle prints MODELDIFF when an algorithm model leaves the specification):
   - mfs_pinv / mf_pinv satisfy spec_pinv_ok for every x and every Q dividing the product (Chinese remainders). *)
(* a characteristic that is not a prime greater than 1 is refused (the table loop throws when inv * i reaches p for
   the smallest divisor i), and every prime below 2^16 is accepted *)
Theorem C10_composite_refused : forall p, 1 < p < 65536 -> ~ prime p -> zp_set_characteristic p = false.
Proof. exact composite_refused. Qed.
Print Assumptions C10_composite_refused.
Theorem C10_prime_accepted : forall p, prime p -> p < 65536 -> zp_set_characteristic p = true.
Proof. exact prime_accepted. Qed.
Print Assumptions C10_prime_accepted.
Theorem C10_cohomology_composite_refused : forall p, ~ prime p -> fz_init p = false.
Proof. exact fz_composite_refused. Qed.
Print Assumptions C10_cohomology_composite_refused.
(* the extended-Euclid inverse of Zp_field_element<p> and of the small multi-fields is an inverse, for every prime below
   2^31 (the loop is modelled with fuel 100; the proof shows it is never exhausted: the product of the two operands
   halves at every step) *)
Theorem C10_egcd_inverse_exact : forall p x, prime p -> p < 2147483648 -> 0 < x < p ->
  spec_is_inverse p x (egcd_inverse x p) = true.
Proof. exact egcd_inverse_correct. Qed.
Print Assumptions C10_egcd_inverse_exact.
Definition C10_partial_inverse_full : Prop :=
  forall lo hi x Q, let ps := primes_between lo hi in
  ps <> nil -> 0 <= x < product ps -> (Q | product ps) -> 0 < Q ->
  let '(v, T) := mf_pinv ps x Q in spec_pinv_ok ps x Q v T = true.
