(* C11 - Ripser computes the persistence of the Rips filtration, for every input form.
   Models: C11_Model.v (specification: Rips flag filtration + certified pairing = the oracle; leaf algorithm models of
   Compressed_distance_matrix, log2up, Bitfield_encoding, Cns_encoding, get_simplex_vertices, entry_with_coeff_t, help1);
   proofs: C11_Proofs.v; pairing: Reduce.v / ReduceExec.v.
   NOT proved here: the Ripser reduction engine (Persistent_cohomology of ripser.h: clearing, apparent / emergent pairs,
   coboundary enumerators, union-find).  Its output is COMPARED with the oracle [barcode] on every generated input. *)
From Coq Require Import ZArith List Bool Znumtheory.
Require Import Reduce ReduceExec C11_Model C11_Proofs.
Import ListNotations.
Open Scope Z_scope.

(* ---------------------------------------------------------------- the oracle *)
(* the pairing the oracle reads the barcode from is canonical: any reduction R = D.V of the same boundary matrix that passes the
   verified checker has exactly these lows, for every prime p *)
Theorem C11_oracle_pairing_canonical : forall (p : Z) (M : dmatrix) (T : option Z) (n dim_max : nat) cols l R V, prime p ->
  let F := filtration M T n dim_max in
  let D := dense_of_sparse (length F) cols in
  boundary_matrix F = Some cols -> certified_lows p D = Some l ->
  check_RU p (length D) D R V = true -> lows p (length D) R = l.
Proof. intros p M T n dim_max cols l R V Hp F D _ H1 H2. exact (certified_lows_canonical p D R V l Hp H1 H2). Qed.
Print Assumptions C11_oracle_pairing_canonical.

(* whenever the oracle answers, its matrix is the boundary matrix of an order of the simplices in which every face precedes its
   cofaces (checked at run time by [faces_precede]) and the pairing has been certified *)
Theorem C11_oracle_answers_are_certified : forall (p : Z) (M : dmatrix) (T : option Z) (n dim_max : nat) (l : list interval),
  barcode p M T n dim_max = Some l ->
  exists cols lw, boundary_matrix (filtration M T n dim_max) = Some cols /\
    (forall j col r c, nth_error cols j = Some col -> In (r, c) col -> (r < j)%nat) /\
    certified_lows p (dense_of_sparse (length (filtration M T n dim_max)) cols) = Some lw.
Proof. exact barcode_some. Qed.
Print Assumptions C11_oracle_answers_are_certified.

(* the complex of the oracle is the flag complex of the threshold graph, truncated at dimension dim_max + 1: its simplices are exactly
   the non-empty subsequences of 0..n-1 with at most dim_max + 2 elements that are pairwise joined by an edge of length <= T ... *)
Theorem C11_oracle_complex_is_flag_complex : forall (M : dmatrix) (T : option Z) (n dim_max : nat) (s : list nat),
  In s (simplices M T n dim_max) <->
  s <> [] /\ subseq s (seq 0 n) /\ (length s <= dim_max + 2)%nat /\ pairwise (edge_ok M T) s = true.
Proof. exact simplices_spec. Qed.
Print Assumptions C11_oracle_complex_is_flag_complex.

(* ... and the filtration lists exactly these simplices, each with its diameter *)
Theorem C11_oracle_filtration_members : forall (M : dmatrix) (T : option Z) (n dim_max : nat) (d : Z) (s : list nat),
  In (d, s) (filtration M T n dim_max) <-> In s (simplices M T n dim_max) /\ d = diam M s.
Proof. exact filtration_spec. Qed.
Print Assumptions C11_oracle_filtration_members.

(* the filtration value of a simplex: 0 for a vertex, else the largest dissimilarity between two of its vertices *)
Theorem C11_oracle_diameter : forall (M : dmatrix) (s : list nat),
  0 <= diam M s /\
  (forall pre v post w, s = pre ++ v :: post -> In w post -> dget M v w <= diam M s) /\
  (diam M s = 0 \/ exists pre v post w, s = pre ++ v :: post /\ In w post /\ diam M s = dget M v w).
Proof. exact diam_spec. Qed.
Print Assumptions C11_oracle_diameter.

(* the oracle on a concrete instance: the 4-cycle with diagonals of length 2, over Z_3: three finite bars and one infinite bar in
   dimension 0, one bar [1,2) in dimension 1 *)
Example C11_oracle_example :
  barcode 3 [[0;1;2;1];[1;0;1;2];[2;1;0;1];[1;2;1;0]] None 4 1 =
  Some [(0%nat, 0, Some 1); (0%nat, 0, Some 1); (0%nat, 0, Some 1); (1%nat, 1, Some 2); (0%nat, 0, None)].
Proof. vm_compute. reflexivity. Qed.

(* B (not proved; evaluated on every dense input small enough by running the oracle with and without the rule):
   with no threshold, truncating at the enclosing radius does not change the barcode *)
Definition C11_enclosing_radius_cone_full : Prop :=
  forall p M n dim_max r, prime p -> enclosing_radius M n = Some r ->
  (forall i j, (i < n)%nat -> (j < n)%nat -> dget M i j = dget M j i /\ 0 <= dget M i j /\ dget M i i = 0) ->
  forall l1 l2, barcode p M None n dim_max = Some l1 -> barcode p M (Some r) n dim_max = Some l2 ->
  forall x, count_occ (fun a b : interval => ltac:(repeat decide equality)) l1 x =
            count_occ (fun a b : interval => ltac:(repeat decide equality)) l2 x.

(* ---------------------------------------------------------------- Compressed_distance_matrix (both layouts) *)
Theorem C11_compressed_zero_diagonal : forall (lower : bool) (n i : nat), cm_index lower n i i = None.
Proof. exact cm_diag. Qed.
Print Assumptions C11_compressed_zero_diagonal.

Theorem C11_compressed_symmetric : forall (lower : bool) (n i j : nat), cm_index lower n i j = cm_index lower n j i.
Proof. exact cm_sym. Qed.
Print Assumptions C11_compressed_symmetric.

Theorem C11_compressed_in_range : forall (lower : bool) (n i j : nat), (i < n)%nat -> (j < n)%nat -> i <> j ->
  exists k, cm_index lower n i j = Some k /\ 0 <= k /\ 2 * k + 2 <= Z.of_nat n * (Z.of_nat n - 1).
Proof. exact cm_range. Qed.
Print Assumptions C11_compressed_in_range.

(* each cell of the vector of n(n-1)/2 distances belongs to exactly one unordered pair *)
Theorem C11_compressed_index_injective : forall (lower : bool) (n i j i' j' : nat), (i < j < n)%nat -> (i' < j' < n)%nat ->
  cm_index lower n i j = cm_index lower n i' j' -> i = i' /\ j = j'.
Proof. exact cm_inj. Qed.
Print Assumptions C11_compressed_index_injective.

Theorem C11_compressed_index_surjective : forall (lower : bool) (n : nat) (k : Z),
  0 <= k -> 2 * k + 2 <= Z.of_nat n * (Z.of_nat n - 1) ->
  exists i j, (i < j < n)%nat /\ cm_index lower n i j = Some k.
Proof. exact cm_surj. Qed.
Print Assumptions C11_compressed_index_surjective.

(* ---------------------------------------------------------------- log2up *)
Theorem C11_log2up_enough_bits : forall n x : Z, 0 <= x < n -> x < 2 ^ log2up n.
Proof. exact log2up_spec. Qed.
Print Assumptions C11_log2up_enough_bits.

(* ---------------------------------------------------------------- Bitfield_encoding, any bits_per_vertex b >= 0 *)
Theorem C11_bitfield_roundtrip : forall (b : Z), 0 <= b -> forall (vs : list Z) (n : Z),
  vs <> [] -> (forall v, In v vs -> 0 <= v < 2 ^ b) ->
  decode (Bitfield b) (simplex_index (Bitfield b) vs) (length vs) n = vs /\
  0 <= simplex_index (Bitfield b) vs < 2 ^ (b * Z.of_nat (length vs)).
Proof. exact bitfield_roundtrip. Qed.
Print Assumptions C11_bitfield_roundtrip.

Example C11_bitfield_roundtrip_nonvacuous :
  decode (Bitfield 6) (simplex_index (Bitfield 6) [1; 4; 7; 39]) 4 40 = [1; 4; 7; 39].
Proof. vm_compute. reflexivity. Qed.

(* coefficient packing of entry_with_coeff_t with c coefficient bits *)
Theorem C11_coefficient_packing_roundtrip : forall c idx coeff : Z, 0 <= c -> 0 <= idx -> 1 <= coeff <= 2 ^ c ->
  unpack_index c (pack c idx coeff) = idx /\ unpack_coeff c (pack c idx coeff) = coeff.
Proof. exact pack_roundtrip. Qed.
Print Assumptions C11_coefficient_packing_roundtrip.

Theorem C11_coefficient_packing_no_overflow : forall c w idx coeff : Z, 0 <= c -> 0 <= w -> 0 <= idx < 2 ^ w ->
  1 <= coeff <= 2 ^ c -> 0 <= pack c idx coeff < 2 ^ (w + c).
Proof. exact pack_bound. Qed.
Print Assumptions C11_coefficient_packing_no_overflow.

(* ---------------------------------------------------------------- Cns_encoding *)
(* the table filled row by row with B[j][i] = B[j-1][i-1] + B[j][i-1] holds the binomial coefficients *)
Theorem C11_cns_table_is_binomial : forall i j : nat, binom_tab i j = binom i j.
Proof. exact binom_tab_eq. Qed.
Print Assumptions C11_cns_table_is_binomial.

(* the binary search: for ANY downward-closed predicate true at the bottom, get_max returns the largest element of [bottom, top]
   satisfying it *)
Theorem C11_get_max_returns_largest : forall (pred : Z -> bool),
  (forall w w', w <= w' -> pred w = false -> pred w' = false) ->
  forall top bottom : Z, bottom <= top -> pred bottom = true ->
  let r := get_max top bottom pred in
  bottom <= r <= top /\ pred r = true /\ forall w, r < w <= top -> pred w = false.
Proof. exact get_max_spec. Qed.
Print Assumptions C11_get_max_returns_largest.

(* k-subsets of [0,n) (strictly increasing lists) -> [0, C(n,k)): range, and decoding (get_simplex_vertices with the binary
   search) recovers the vertices: the map is injective *)
Theorem C11_cns_roundtrip : forall (vs : list Z) (n : Z), vs <> [] -> increasing 0 vs -> (forall v, In v vs -> v < n) ->
  decode Cns (simplex_index Cns vs) (length vs) n = vs /\
  0 <= simplex_index Cns vs < binom (Z.to_nat n) (length vs).
Proof. exact cns_roundtrip. Qed.
Print Assumptions C11_cns_roundtrip.

Theorem C11_cns_injective : forall (vs ws : list Z) (n : Z), vs <> [] -> ws <> [] -> increasing 0 vs -> increasing 0 ws ->
  (forall v, In v vs -> v < n) -> (forall v, In v ws -> v < n) -> length vs = length ws ->
  simplex_index Cns vs = simplex_index Cns ws -> vs = ws.
Proof. exact cns_injective. Qed.
Print Assumptions C11_cns_injective.

Theorem C11_cns_surjective : forall (k : nat) (n N : Z), (1 <= k)%nat -> 0 <= N < binom (Z.to_nat n) k ->
  exists vs, length vs = k /\ increasing 0 vs /\ (forall v, In v vs -> v < n) /\ simplex_index Cns vs = N.
Proof. exact cns_surjective. Qed.
Print Assumptions C11_cns_surjective.

Example C11_cns_roundtrip_nonvacuous :
  increasing 0 [1; 4; 7; 39] /\ decode Cns (simplex_index Cns [1; 4; 7; 39]) 4 40 = [1; 4; 7; 39] /\
  simplex_index Cns [1; 4; 7; 39] = 82293.
Proof. vm_compute. repeat split; intro; discriminate. Qed.

(* ---------------------------------------------------------------- the dispatcher help1 *)
(* when help1 selects bitfield-64 or bitfield-128, every simplex it can be asked for (at most dim_max+2 vertices below n, any
   coefficient 1..modulus-1) fits the word and is read back exactly *)
Theorem C11_dispatch_no_overflow : forall (n dim_max modulus : Z) (vs : list Z) (coeff : Z),
  2 <= modulus -> dispatch n dim_max modulus <> C128 ->
  vs <> [] -> Z.of_nat (length vs) <= clamp_dim n dim_max + 2 ->
  (forall v, In v vs -> 0 <= v < n) -> 1 <= coeff <= modulus - 1 ->
  let c := dispatch n dim_max modulus in
  let e := encoding_of c n in
  let cb := log2up (modulus - 1) in
  let idx := simplex_index e vs in
  let content := pack cb idx coeff in
  0 <= idx < 2 ^ (width c - cb) /\ 0 <= content < 2 ^ width c /\
  unpack_index cb content = idx /\ unpack_coeff cb content = coeff /\
  decode e (unpack_index cb content) (length vs) n = vs.
Proof. exact dispatch_no_overflow. Qed.
Print Assumptions C11_dispatch_no_overflow.

(* the dimension handed to the encodings and to the engine (dimension_t = int8_t) never overflows: dim_max + 2 <= 127; it is the
   requested one whenever that is at most n - 2 and 125 *)
Theorem C11_clamped_dimension_fits_int8 : forall n dim_max : Z,
  clamp_dim n dim_max + 2 <= 127 /\ clamp_dim n dim_max <= dim_max /\
  (dim_max <= n - 2 -> dim_max <= 125 -> clamp_dim n dim_max = dim_max).
Proof. exact clamp_dim_fits. Qed.
Print Assumptions C11_clamped_dimension_fits_int8.

Example C11_dispatch_nonvacuous :
  dispatch 40 9 3 = B128 /\ dispatch 40 8 3 = B64 /\ dispatch 40 20 2 = C128 /\ dispatch 16 14 2 = B64 /\ dispatch 16 14 3 = B128.
Proof. vm_compute. repeat split. Qed.

(* when it selects cns-128: as soon as C(n, |vs|) leaves room for the coefficient bits, nothing overflows 128 bits *)
Theorem C11_cns_no_overflow : forall (n modulus : Z) (vs : list Z) (coeff : Z),
  2 <= modulus -> vs <> [] -> increasing 0 vs -> (forall v, In v vs -> v < n) -> 1 <= coeff <= modulus - 1 ->
  let cb := log2up (modulus - 1) in
  binom (Z.to_nat n) (length vs) <= 2 ^ (128 - cb) -> cb <= 128 ->
  let idx := simplex_index Cns vs in
  let content := pack cb idx coeff in
  0 <= content < 2 ^ 128 /\ unpack_index cb content = idx /\ unpack_coeff cb content = coeff /\
  decode Cns (unpack_index cb content) (length vs) n = vs.
Proof. exact cns_no_overflow. Qed.
Print Assumptions C11_cns_no_overflow.

(* the entry the Cns constructor inspects, C(n, min(n/2, k)), is the largest entry of the columns 0..k of row n *)
Theorem C11_cns_largest_table_entry : forall (n k j : nat), (j <= k)%nat -> binom n j <= binom n (Nat.min (n / 2) k).
Proof. exact binom_max_entry. Qed.
Print Assumptions C11_cns_largest_table_entry.

(* hence the guard "num_extra_bits() >= bits for the coefficient" (Rips_filtration constructor) protects every simplex with at most
   k vertices *)
Theorem C11_cns_dispatch_no_overflow : forall (n k modulus : Z) (vs : list Z) (coeff : Z),
  2 <= modulus -> 0 <= n -> 0 <= k -> vs <> [] -> increasing 0 vs -> (forall v, In v vs -> v < n) ->
  1 <= coeff <= modulus - 1 -> Z.of_nat (length vs) <= k ->
  let cb := log2up (modulus - 1) in
  cb <= extra_bits C128 n k ->
  let idx := simplex_index Cns vs in
  let content := pack cb idx coeff in
  0 <= content < 2 ^ 128 /\ unpack_index cb content = idx /\ unpack_coeff cb content = coeff /\
  decode Cns (unpack_index cb content) (length vs) n = vs.
Proof. exact cns_dispatch_no_overflow. Qed.
Print Assumptions C11_cns_dispatch_no_overflow.

Example C11_cns_dispatch_nonvacuous : log2up (7 - 1) <= extra_bits C128 40 27 /\ extra_bits C128 131 102 = 0 /\ extra_bits C128 132 102 < 0.
Proof. vm_compute. repeat split; intro; discriminate. Qed.

(* if that entry is below 2^128 then every entry of rows 0..n, columns 0..k is: no addition of the table construction wraps *)
Theorem C11_cns_table_entries_bounded : forall (n k : nat) (W : Z), binom n (Nat.min (n / 2) k) < W ->
  forall i j, (i <= n)%nat -> (j <= k)%nat -> 0 <= binom i j < W.
Proof. exact binom_table_bounded. Qed.
Print Assumptions C11_cns_table_entries_bounded.
(* the overflow test of the constructor itself, on a W-bit unsigned type (every addition wraps; after row i >= 2 the entry
   B[min(i/2,k)][i] is compared with the one above it): the constructor returns exactly when the largest entry fits, and then the
   columns 0..k of its last row are the binomial coefficients; otherwise it throws *)
Theorem C11_cns_constructor_overflow_test : forall (W : Z) (k : nat), 2 <= W -> forall i : nat,
  match cns_ctor_rows W k i with
  | Some r => binom i (Nat.min (i / 2) k) < W /\ forall j, (j <= k)%nat -> nth j r 0 = binom i j
  | None => W <= binom i (Nat.min (i / 2) k)
  end.
Proof. exact cns_ctor_spec. Qed.
Print Assumptions C11_cns_constructor_overflow_test.

Theorem C11_cns_constructor_accepts_iff : forall k n : nat,
  cns_ctor_ok k n = true <-> binom n (Nat.min (n / 2) k) < 2 ^ 128.
Proof. exact cns_ctor_ok_iff. Qed.
Print Assumptions C11_cns_constructor_accepts_iff.

Example C11_cns_constructor_boundary : cns_ctor_ok 102 131 = true /\ cns_ctor_ok 102 132 = false /\ cns_ctor_ok 20 200 = true.
Proof. vm_compute. repeat split. Qed.
