(* Properties_C12.v — C12: edge collapse preserves the persistent homology of the flag filtration.
   Algorithm model: C12_Model.v part 1 (transcription of Flag_complex_edge_collapser.h); specification model: part 2
   (barcode of the flag filtration through ReduceExec.certified_lows).  Proofs: C12_Proofs.v. *)
From Coq Require Import ZArith List Bool Sorting.Sorted.
Require Import Reduce ReduceExec C12_Model C12_Proofs C12_Tables C12_Conn C12_Dom.
Import ListNotations.
Local Open Scope Z_scope.

(* The sweep over one edge vector terminates: the fuel of the model's state machine is never exhausted, for either
   neighbour-table variant and any edge vector (any order, any repetitions). *)
Theorem C12_sweep_terminates : forall (dense : bool) (es : list edge),
  exists out, process_edges dense es = Some out.
Proof. exact process_edges_total. Qed.
Print Assumptions C12_sweep_terminates.

(* Every returned edge is an input edge (same endpoints, same orientation) and its value is >= its input value. *)
Theorem C12_collapse_edges_subset_values_ge : forall (dense : bool) (es : list edge) (out : list oedge) (u v : Z) (t' : fv),
  process_edges dense es = Some out -> In (u, v, t') out ->
  exists t, In (u, v, t) es /\ fv_le (Fin t) t' = true.
Proof. exact collapse_edges_subset. Qed.
Print Assumptions C12_collapse_edges_subset_values_ge.

(* Every returned value is the (finite) value of some input edge. *)
Theorem C12_collapse_values_are_input_values : forall (dense : bool) (es : list edge) (out : list oedge) (u v : Z) (t' : fv),
  process_edges dense es = Some out -> In (u, v, t') out ->
  exists u0 v0 z, In (u0, v0, z) es /\ t' = Fin z.
Proof. exact collapse_values_are_input_values. Qed.
Print Assumptions C12_collapse_values_are_input_values.

(* No edge is returned twice (edges identified as unordered pairs) when the input has no repeated edge. *)
Theorem C12_collapse_no_duplicates : forall (dense : bool) (es : list edge) (out : list oedge),
  process_edges dense es = Some out -> NoDup (map ekey es) -> NoDup (map okey out).
Proof. exact collapse_no_duplicates. Qed.
Print Assumptions C12_collapse_no_duplicates.

(* The same three clauses for the entry point (sort by decreasing value, then the sweep); since the clauses above hold
   for every order of the vector they hold for whatever order the library's unstable sort produces. *)
Theorem C12_entry_point_total : forall (dense : bool) (es : list edge),
  exists out, flag_complex_collapse_edges dense es = Some out.
Proof. exact collapse_total. Qed.
Print Assumptions C12_entry_point_total.

Theorem C12_entry_point_subset_ge_values : forall (dense : bool) (es : list edge) (out : list oedge) (u v : Z) (t' : fv),
  flag_complex_collapse_edges dense es = Some out -> In (u, v, t') out ->
  (exists t, In (u, v, t) es /\ fv_le (Fin t) t' = true) /\ (exists u0 v0 z, In (u0, v0, z) es /\ t' = Fin z).
Proof. exact collapse_sorted_subset. Qed.
Print Assumptions C12_entry_point_subset_ge_values.

Theorem C12_entry_point_no_duplicates : forall (dense : bool) (es : list edge) (out : list oedge),
  flag_complex_collapse_edges dense es = Some out -> NoDup (map ekey es) -> NoDup (map okey out).
Proof. exact collapse_sorted_no_duplicates. Qed.
Print Assumptions C12_entry_point_no_duplicates.

(* The two bodies of is_dominated_by (default: merge walk over the sorted neighbourhood of c;
   GUDHI_COLLAPSE_USE_DENSE_ARRAY: look-ups in the n*n table) compute the same predicate whenever the dense table holds,
   for the tested vertices, what the neighbourhood of c holds (+inf where absent). *)
Theorem C12_dominated_iff : forall (s : state) (f : fv) (en : list Z) (c : Z),
  f <> PInf ->
  StronglySorted Z.lt en -> StronglySorted Z.lt (map fst (nb_get s c)) ->
  (forall v, In v en -> dense_get s v c = lookup_inf (nb_get s c) v) ->
  is_dominated_by true s en c f = is_dominated_by false s en c f.
Proof. exact dominated_iff. Qed.
Print Assumptions C12_dominated_iff.

(* ... and so do the two bodies of the "does the new neighbour break the domination" test of the push-forward loop. *)
Theorem C12_breaks_iff : forall (s : state) (d w : Z) (fw : fv),
  fw <> PInf -> dense_get s d w = lookup_inf (nb_get s d) w ->
  breaks true s d w fw = breaks false s d w fw.
Proof. exact breaks_iff. Qed.
Print Assumptions C12_breaks_iff.

(* non-vacuity of the hypotheses of C12_dominated_iff / C12_breaks_iff: the state read from a concrete graph is coherent
   (checked on all vertex pairs), its neighbourhoods are sorted, and the edge (0,2) of the triangle-with-tail below is
   dominated by 1 at its own time 3 in both variants (and removed) *)
Definition ex_graph : list edge := [(2, 3, 4); (0, 2, 3); (1, 2, 2); (0, 1, 1)].
Example C12_dominated_iff_nonvacuous :
  let s := read_edges ex_graph in
  forallb (fun c => forallb (fun v => fv_eqb (dense_get s v c) (lookup_inf (nb_get s c) v)) [0; 1; 2; 3]) [0; 1; 2; 3] = true
  /\ map (fun c => map fst (nb_get s c)) [0; 1; 2; 3] = [[0; 1; 2]; [0; 1; 2]; [0; 1; 2; 3]; [2; 3]]
  /\ is_dominated_by true s [1] 1 (Fin 3) = true /\ is_dominated_by false s [1] 1 (Fin 3) = true
  /\ process_edges true ex_graph = Some [(2, 3, Fin 4); (1, 2, Fin 2); (0, 1, Fin 1)]
  /\ process_edges false ex_graph = Some [(2, 3, Fin 4); (1, 2, Fin 2); (0, 1, Fin 1)].
Proof. vm_compute. repeat split; reflexivity. Qed.

(* On every simple graph (no repeated edge, no loop, labels >= 0) the whole sweep returns the same list with the default
   neighbour table and with GUDHI_COLLAPSE_USE_DENSE_ARRAY: the dense table stays a faithful copy of the sorted
   neighbourhoods through read_edges, delay_neighbor and remove_neighbor, so every domination test agrees. *)
Theorem C12_table_variants_agree : forall (es : list edge),
  NoDup (map ekey es) -> (forall u v t, In (u, v, t) es -> 0 <= u /\ 0 <= v /\ u <> v) ->
  process_edges true es = process_edges false es.
Proof. exact tables_agree'. Qed.
Print Assumptions C12_table_variants_agree.

Theorem C12_table_variants_agree_entry_point : forall (es : list edge),
  NoDup (map ekey es) -> (forall u v t, In (u, v, t) es -> 0 <= u /\ 0 <= v /\ u <> v) ->
  flag_complex_collapse_edges true es = flag_complex_collapse_edges false es.
Proof. exact tables_agree_entry_point'. Qed.
Print Assumptions C12_table_variants_agree_entry_point.

Example C12_table_variants_agree_nonvacuous :
  NoDup (map ekey ex_graph) /\ (forall u v t, In (u, v, t) ex_graph -> 0 <= u /\ 0 <= v /\ u <> v).
Proof.
  split.
  - vm_compute. repeat constructor; cbn; intuition congruence.
  - intros u v t [H|[H|[H|[H|[]]]]]; inversion H; subst; repeat split; discriminate.
Qed.

(* the hypothesis "no repeated edge" is needed: with the edge {0,1} given twice the flat_map keeps one value and the dense
   table the other, and the two variants return different lists (same divergence observed on the C++ builds; such an
   input is not a graph and is outside the property) *)
Example C12_table_variants_need_simple_graph :
  let es := [(0, 1, 5); (2, 3, 3); (0, 2, 1); (0, 3, 1); (1, 2, 1); (1, 3, 1); (0, 4, 1); (1, 4, 1); (0, 1, 1)] in
  process_edges true es <> process_edges false es.
Proof. vm_compute. discriminate. Qed.

(* What the two building blocks compute, in terms of the graph "edges present at time t" (cn_member u v nu nv w f: w is a
   common neighbour of u and v other than u, v, and f is the time from which both edges uw and vw are present):
   common_neighbors returns in e_ngb exactly the common neighbours present at time f_event and in e_ngb_later exactly
   the others, each with the time it appears ... *)
Theorem C12_common_neighbors_spec : forall (u v : Z) (fe : fv) (nu nv : ngb),
  StronglySorted Z.lt (map fst nu) -> StronglySorted Z.lt (map fst nv) ->
  forall w,
    (In w (fst (common_neighbors u v fe nu nv)) <-> exists f, cn_member u v nu nv w f /\ fv_gt f fe = false) /\
    (forall f, In (f, w) (snd (common_neighbors u v fe nu nv)) <-> cn_member u v nu nv w f /\ fv_gt f fe = true).
Proof. exact common_neighbors_spec. Qed.
Print Assumptions C12_common_neighbors_spec.

(* ... and is_dominated_by e_ngb c f holds exactly when every vertex of e_ngb lies in the closed neighbourhood of c at time f
   (the edge-domination condition N(e) subset N[c] of Boissonnat-Pritam, on the current, delayed graph). *)
Theorem C12_is_dominated_by_spec : forall (s : state) (en : list Z) (c : Z) (f : fv),
  f <> PInf -> StronglySorted Z.lt en -> StronglySorted Z.lt (map fst (nb_get s c)) ->
  (is_dominated_by false s en c f = true <-> forall w, In w en -> fv_le (lookup_inf (nb_get s c) w) f = true).
Proof. exact is_dominated_by_spec. Qed.
Print Assumptions C12_is_dominated_by_spec.

(* Dimension 0 of the decisive clause, proved: at every time tau the graph of the returned edges (edges with value <= tau)
   has exactly the same connected components as the input graph at time tau - for every simple graph, either table, any
   order of the vector.  (connL L tau = reflexive-symmetric-transitive closure of "joined by an edge of L of value <= tau";
   lift = the input edge with its value seen as an fv.)  Reason, proved in C12_Conn.v: while an edge uv is delayed from t to
   t' (or removed, t' = +inf) the sweep holds, at every time in [t,t'), a common neighbour c of u and v in the current
   graph (sweep_common_neighbour), so u-c-v replaces the edge; the neighbour table is shown to represent exactly
   "returned edges so far + edges still to process" throughout (repr).
   With the standard fact that the 0-dimensional persistence diagram of a filtered graph is determined by the components
   at each time (births at the vertex value, deaths at the merge times) this is the H_0 part of the property. *)
Theorem C12_collapse_preserves_components_partial : forall (dense : bool) (es : list edge) (out : list oedge),
  NoDup (map ekey es) -> (forall u v t, In (u, v, t) es -> 0 <= u /\ 0 <= v /\ u <> v) ->
  process_edges dense es = Some out ->
  forall (tau : Z) (a b : Z), connL (map lift es) (Fin tau) a b <-> connL out (Fin tau) a b.
Proof. exact components_preserved_any. Qed.
Print Assumptions C12_collapse_preserves_components_partial.

Theorem C12_entry_point_preserves_components_partial : forall (dense : bool) (es : list edge) (out : list oedge),
  NoDup (map ekey es) -> (forall u v t, In (u, v, t) es -> 0 <= u /\ 0 <= v /\ u <> v) ->
  flag_complex_collapse_edges dense es = Some out ->
  forall (tau : Z) (a b : Z), connL (map lift es) (Fin tau) a b <-> connL out (Fin tau) a b.
Proof. exact components_preserved_entry_point. Qed.
Print Assumptions C12_entry_point_preserves_components_partial.

(* instance: in ex_graph the edge (0,2,3) is removed, yet 0 and 2 are joined from time 2 on through 1, before and after *)
Example C12_components_example :
  connL (map lift ex_graph) (Fin 2) 0 2 /\ connL [(2, 3, Fin 4); (1, 2, Fin 2); (0, 1, Fin 1)] (Fin 2) 0 2.
Proof.
  split; (apply Relations.Relation_Operators.rst_trans with 1; apply Relations.Relation_Operators.rst_step).
  - exists (Fin 1). split; [left; cbn; tauto|reflexivity].
  - exists (Fin 2). split; [left; cbn; tauto|reflexivity].
  - exists (Fin 1). split; [left; cbn; tauto|reflexivity].
  - exists (Fin 2). split; [left; cbn; tauto|reflexivity].
Qed.

(* The hypothesis of the edge-collapse theorem holds at every step, proved: the returned list is obtained from the input
   by handling the edges in order, and an edge (u,v,t) is moved to a time T >= t (dropped when T = +inf) only if at EVERY
   time tau in [t,T) it is dominated in the current graph L = "edges already returned ++ edges still to handle", i.e.
   there is a common neighbour c of u and v at time tau such that every common neighbour of u and v at time tau is c or a
   neighbour of c at time tau (dominatedL L u v c tau; N_tau(uv) subset N_tau[c]).  This is exactly the situation in which
   Boissonnat-Pritam / Glisse-Pritam prove that the persistence module does not change; what remains unproved is that
   theorem itself.  ([justified done todo out] is the inductive predicate of C12_Dom.v saying just that.) *)
Theorem C12_every_move_is_a_dominated_edge_partial : forall (dense : bool) (es : list edge) (out : list oedge),
  NoDup (map ekey es) -> (forall u v t, In (u, v, t) es -> 0 <= u /\ 0 <= v /\ u <> v) ->
  process_edges dense es = Some out -> justified [] es out.
Proof. exact collapse_justified_any. Qed.
Print Assumptions C12_every_move_is_a_dominated_edge_partial.

Theorem C12_entry_point_every_move_is_a_dominated_edge_partial : forall (dense : bool) (es : list edge) (out : list oedge),
  NoDup (map ekey es) -> (forall u v t, In (u, v, t) es -> 0 <= u /\ 0 <= v /\ u <> v) ->
  flag_complex_collapse_edges dense es = Some out -> justified [] (sort_desc es) out.
Proof. exact collapse_justified_entry_point. Qed.
Print Assumptions C12_entry_point_every_move_is_a_dominated_edge_partial.

(* the per-step form on the neighbour table (coherent state s): the edge is dominated in the table's graph throughout *)
Theorem C12_step_dominated_throughout : forall (V : list Z) (s : state) (u v t : Z) (s' : state) (o : list oedge),
  Coh s -> tbl_ok V s -> in_range s u -> in_range s v ->
  process_edge false s (u, v, t) = Some (s', o) ->
  exists T,
    fv_le (Fin t) T = true /\
    o = (match T with PInf => [] | _ => [(u, v, T)] end) /\
    forall tau, fv_le (Fin t) tau = true -> fv_lt tau T = true -> exists c, dominated_by s u v c tau.
Proof. exact process_edge_dominated. Qed.
Print Assumptions C12_step_dominated_throughout.

(* non-vacuity of the hypotheses of C12_step_dominated_throughout: the state built by read_edges from a simple graph is
   coherent and holds only input values; (0,2) and its endpoints are in range *)
Example C12_step_dominated_nonvacuous :
  Coh (read_edges ex_graph) /\ tbl_ok (map snd ex_graph) (read_edges ex_graph) /\
  in_range (read_edges ex_graph) 0 /\ in_range (read_edges ex_graph) 2.
Proof.
  destruct C12_table_variants_agree_nonvacuous as [H1 H2].
  split; [apply read_edges_coh; split; assumption|]. split; [apply read_edges_ok; apply incl_refl|].
  split; vm_compute; split; congruence.
Qed.

(* The decisive clause of the property.  NOT proved here: it is the theorem of Boissonnat-Pritam (SoCG 2020) and
   Glisse-Pritam (SoCG 2022) that removing / delaying dominated edges preserves the persistence module of the flag
   filtration; a formal proof needs simplicial homology, simple collapses of flag complexes and persistence modules,
   none of which are formalised in this development.  It is measured by the correspondence check: for every generated
   graph the barcodes below are computed with the extracted [flag_barcode] over Z_2 and Z_3 for the implementation's
   output (all build variants) and the model's output, and compared as multisets.
   (vertices 0..n-1 enter at v0, below every edge value; bars of dimension <= d of the (d+1)-skeleton.) *)
Definition graph_of_out (out : list oedge) : list edge :=
  flat_map (fun o => match snd o with Fin z => [(fst (fst o), snd (fst o), z)] | _ => [] end) out.
Definition bars_upto (d : nat) (b : option (list bar)) : option (list bar) :=
  option_map (filter (fun x => Nat.leb (fst (fst x)) d)) b.
Definition C12_collapse_preserves_barcode_full : Prop :=
  forall (dense : bool) (es : list edge) (out : list oedge) (p : Z) (d : nat) (v0 : Z),
    Znumtheory.prime p ->
    NoDup (map ekey es) -> (forall u v t, In (u, v, t) es -> 0 <= u /\ 0 <= v /\ u <> v /\ v0 < t) ->
    flag_complex_collapse_edges dense es = Some out ->
    let n := Z.to_nat (num_vertices es) in
    exists b1 b2,
      bars_upto d (flag_barcode p es n v0 (S d)) = Some b1 /\
      bars_upto d (flag_barcode p (graph_of_out out) n v0 (S d)) = Some b2 /\
      Permutation.Permutation b1 b2.
