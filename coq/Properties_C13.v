(* C13 — Cubical complexes are valid filtered cell complexes with correct incidences.
   Property theorems only: each is closed by [exact <lemma>] and followed by Print Assumptions.
   a_* = algorithm model (C13_Model.v PART A): statement-by-statement transcription of the index arithmetic of
         Bitmap_cubical_complex_base.h / ..._periodic_boundary_conditions_base.h / Bitmap_cubical_complex.h
         ([cls] = false: plain class, true: periodic class); cells are indices 0 <= i < a_size cls sh;
   s_* = specification model (PART B): cells are coordinate lists (highest direction first) under the shape
         [hshape cls sh]; coordinate x in 0..2s (periodic: 0..2s-1), dimension = number of odd coordinates.
   wf_shape sh = at least one direction and every side has at least one top cell.  Nothing bounds the number of
   directions or the side lengths.  Non-vacuity examples are in C13_Final.v; Betti numbers of small tori
   computed inside Coq (tests, not theorems) are in C13_Examples.v. *)
From Coq Require Import ZArith List Bool Sorting Permutation Znumtheory.
Require Import Reduce ReduceExec C13_Model C13_Spec C13_Refine C13_Inc C13_Star C13_Order C13_Proofs C13_Final C13_Examples.
Import ListNotations.
Local Open Scope Z_scope.

(* ---- index <-> counter bijection (compute_counter_for_given_cell / compute_position_in_bitmap) *)
Theorem C13_index_counter_bijection : forall cls sh, wf_shape sh ->
  (forall c, s_valid (hshape cls sh) c ->
     0 <= s_index (hshape cls sh) c < a_size cls sh /\ a_counter cls sh (s_index (hshape cls sh) c) = rev c) /\
  (forall i, 0 <= i < a_size cls sh ->
     s_valid (hshape cls sh) (rev (a_counter cls sh i)) /\ s_index (hshape cls sh) (rev (a_counter cls sh i)) = i).
Proof. exact index_counter_bijection. Qed.
Print Assumptions C13_index_counter_bijection.

(* ---- get_dimension_of_a_cell = number of odd coordinates *)
Theorem C13_dimension_counts_odd : forall cls sh i, wf_shape sh -> a_dim cls sh i = s_dim (rev (a_counter cls sh i)).
Proof. exact dimension_counts_odd. Qed.
Print Assumptions C13_dimension_counts_odd.

(* ---- the index-level boundary / coboundary of both classes are the coordinate-level ones, in the same order *)
Theorem C13_boundary_index_eq_coordinates : forall cls sh c, sh <> [] -> C13_Refine.shape_ok (hshape cls sh) ->
  s_valid (hshape cls sh) c ->
  a_bd cls sh (s_index (hshape cls sh) c) = map (s_index (hshape cls sh)) (s_bd cls false (hshape cls sh) c).
Proof. exact a_bd_spec. Qed.
Print Assumptions C13_boundary_index_eq_coordinates.

Theorem C13_coboundary_index_eq_coordinates : forall cls sh c, sh <> [] -> C13_Refine.shape_ok (hshape cls sh) ->
  s_valid (hshape cls sh) c ->
  a_cobd cls sh (s_index (hshape cls sh) c) = map (s_index (hshape cls sh)) (s_cobd (hshape cls sh) c).
Proof. exact a_cobd_spec. Qed.
Print Assumptions C13_coboundary_index_eq_coordinates.

(* ---- grading: boundary elements are cells of the complex, one dimension lower, 2*dim of them *)
Theorem C13_boundary_in_range_dim : forall cls sh i f, wf_shape sh -> 0 <= i < a_size cls sh ->
  In f (a_bd cls sh i) -> 0 <= f < a_size cls sh /\ a_dim cls sh f = a_dim cls sh i - 1.
Proof. exact boundary_in_range_dim. Qed.
Print Assumptions C13_boundary_in_range_dim.

Theorem C13_boundary_length : forall cls sh i, wf_shape sh -> 0 <= i < a_size cls sh ->
  Z.of_nat (length (a_bd cls sh i)) = 2 * a_dim cls sh i.
Proof. exact boundary_length. Qed.
Print Assumptions C13_boundary_length.

Theorem C13_coboundary_in_range_dim : forall cls sh i f, wf_shape sh -> 0 <= i < a_size cls sh ->
  In f (a_cobd cls sh i) -> 0 <= f < a_size cls sh /\ a_dim cls sh f = a_dim cls sh i + 1.
Proof. exact coboundary_in_range_dim. Qed.
Print Assumptions C13_coboundary_in_range_dim.

(* ---- boundary of boundary is zero with the signs alternating along the enumeration (both classes, every shape,
   periodic sides of any length >= 1): coefficient of every cell j in d(d(i)) *)
Theorem C13_boundary_of_boundary_zero : forall cls sh i j, wf_shape sh -> 0 <= i < a_size cls sh ->
  icoef (a_dd cls sh i) j = 0.
Proof. exact boundary_of_boundary_zero. Qed.
Print Assumptions C13_boundary_of_boundary_zero.

(* the same at coordinate level, no hypothesis at all *)
Theorem C13_boundary_of_boundary_zero_coordinates : forall flip hs c y,
  coef (s_sbd_chain flip hs (s_sbd flip hs c)) y = 0.
Proof. exact s_dd_zero. Qed.
Print Assumptions C13_boundary_of_boundary_zero_coordinates.

(* ---- boundary and coboundary are converse relations *)
Theorem C13_boundary_coboundary_converse : forall cls sh i j, wf_shape sh ->
  0 <= i < a_size cls sh -> 0 <= j < a_size cls sh -> (In j (a_cobd cls sh i) <-> In i (a_bd cls sh j)).
Proof. exact boundary_coboundary_converse. Qed.
Print Assumptions C13_boundary_coboundary_converse.

(* ---- compute_incidence_between_cells on the k-th enumerated face = enumeration sign (-1)^k up to the global factor
   (-1)^dim (and -1 for the periodic class, which pushes every pair in the other order); periodic sides >= 2 (with a
   periodic side of length 1 both ends of the edge coincide and the sign of the face is not defined) *)
Theorem C13_incidence_matches_enumeration : forall cls sh i k f, wf_shape sh ->
  (cls = true -> Forall (fun d : dirn => snd d = true -> 2 <= fst d) sh) ->
  0 <= i < a_size cls sh -> nth_error (a_bd cls sh i) k = Some f ->
  a_inc cls sh i f = Some (Some ((if cls then -1 else 1) * (if Z.odd (a_dim cls sh i) then -1 else 1)
                                 * (if Nat.even k then 1 else -1))).
Proof. exact incidence_matches_enumeration. Qed.
Print Assumptions C13_incidence_matches_enumeration.

(* and it is the geometric incidence of the documentation: s_inc = c * (-1)^(odd coordinates in lower directions) *)
Theorem C13_incidence_is_geometric : forall cls hs c f v, C13_Inc.shape_ok hs ->
  (cls = false -> Forall (fun d : dirn => snd d = false) hs) -> s_valid hs c -> s_valid hs f ->
  s_inc hs c f = Some v -> inc_of_counters cls (rev c) (rev f) = Some (Some v).
Proof. exact inc_counters_spec. Qed.
Print Assumptions C13_incidence_is_geometric.

(* ---- the propagation loop of impose_lower_star_filtration (and of the periodic class's
   impose_lower_star_filtration_from_vertices) over ANY graded boundary function: minimum over the top cells above *)
Theorem C13_propagation_computes_minimum :
  forall (n : Z) (nbf : Z -> list Z) (dim : Z -> Z) (D : Z),
  0 <= n ->
  (forall i, 0 <= i < n -> 0 <= dim i <= D) ->
  (forall i b, 0 <= i < n -> In b (nbf i) -> 0 <= b < n /\ dim b = dim i - 1) ->
  (forall b, 0 <= b < n -> dim b < D -> exists i, 0 <= i < n /\ In b (nbf i)) ->
  forall (todo0 : list Z) (data0 : list ext) (fuel : nat),
  NoDup todo0 -> (forall t, In t todo0 <-> (0 <= t < n /\ dim t = D)) ->
  length data0 = Z.to_nat n ->
  (forall i, 0 <= i < n -> dim i < D -> getd data0 i = PInf) ->
  (Z.to_nat D < fuel)%nat ->
  exists data, star_rounds fuel better_low nbf todo0 data0 (repeat false (Z.to_nat n)) = Some data /\
               length data = Z.to_nat n /\
               forall b, 0 <= b < n ->
                 is_min_over (fun t => 0 <= t < n /\ dim t = D /\ below nbf b t) (getd data0) (getd data b).
Proof. exact star_rounds_lower_star. Qed.
Print Assumptions C13_propagation_computes_minimum.

(* ---- lower star on the cubical complex itself (vshape_* = the cell grid of a vertex grid; monotone = faces never larger) *)
(* built from top-cell values: the construction succeeds and every cell's value is the minimum (infinities included)
   over the top cells containing it (s_star), read at their rank in the input vector *)
Theorem C13_lower_star_min :
  forall cls dims vals, wf_shape dims -> Z.of_nat (length vals) = prod_sizes (map fst dims) ->
  exists data, a_build cls dims true vals = Some (dims, data) /\ length data = Z.to_nat (a_size cls dims) /\
    forall c, s_valid (hshape cls dims) c ->
      getd data (s_index (hshape cls dims) c) = s_value_top (hshape cls dims) vals c.
Proof. exact lower_star_min. Qed.
Print Assumptions C13_lower_star_min.

(* built from vertex values, periodic class (work-list propagation through the coboundary): maximum over the vertices *)
Theorem C13_upper_star_max_periodic :
  forall dims vals, wf_shape (vshape_per dims) ->
  Z.of_nat (length vals) = prod_sizes (map nvert (hshape true (vshape_per dims))) ->
  exists data, a_build true dims false vals = Some (vshape_per dims, data) /\
    forall c, s_valid (hshape true (vshape_per dims)) c ->
      getd data (s_index (hshape true (vshape_per dims)) c) = s_value_vert (hshape true (vshape_per dims)) vals c.
Proof. exact upper_star_max_periodic. Qed.
Print Assumptions C13_upper_star_max_periodic.

(* built from vertex values, plain class (propagate_from_vertices_rec, direction by direction) *)
Theorem C13_upper_star_max_plain :
  forall dims vals, wf_shape (vshape_plain dims) ->
  Z.of_nat (length vals) = prod_sizes (map nvert (hshape false (vshape_plain dims))) ->
  exists data, a_build false dims false vals = Some (vshape_plain dims, data) /\
    forall c, s_valid (hshape false (vshape_plain dims)) c ->
      getd data (s_index (hshape false (vshape_plain dims)) c) = s_value_vert (hshape false (vshape_plain dims)) vals c.
Proof. exact upper_star_max_plain. Qed.
Print Assumptions C13_upper_star_max_plain.

(* ---- filtration order (is_before_in_filtration + sort): strict total order, unique sorted arrangement (so the
   model does not depend on the sorting algorithm), every cell once, non-decreasing, faces first *)
Theorem C13_order_total : forall a b : key, key_before a b = true \/ a = b \/ key_before b a = true.
Proof. exact key_before_total. Qed.
Print Assumptions C13_order_total.

Theorem C13_order_strict : (forall a, key_before a a = false) /\
  (forall a b c, key_before a b = true -> key_before b c = true -> key_before a c = true).
Proof. exact (conj key_before_irrefl key_before_trans). Qed.
Print Assumptions C13_order_strict.

Theorem C13_filtration_is_permutation : forall cls sh data,
  Permutation (a_filtration cls sh data) (zrange 0 (a_size cls sh)).
Proof. exact a_filtration_perm. Qed.
Print Assumptions C13_filtration_is_permutation.

Theorem C13_filtration_unique : forall cls sh data (l : list Z),
  Permutation l (zrange 0 (a_size cls sh)) ->
  StronglySorted (fun a b => key_before (a_key cls sh data a) (a_key cls sh data b) = true) l ->
  l = a_filtration cls sh data.
Proof. exact a_filtration_unique. Qed.
Print Assumptions C13_filtration_unique.

Theorem C13_filtration_nondecreasing : forall cls sh data l1 c1 l2 c2 l3,
  a_filtration cls sh data = l1 ++ c1 :: l2 ++ c2 :: l3 -> ext_ltb (getd data c2) (getd data c1) = false.
Proof. exact a_filtration_nondecreasing. Qed.
Print Assumptions C13_filtration_nondecreasing.

Theorem C13_filtration_faces_first :
  forall cls sh data i f, wf_shape sh -> monotone cls sh data -> 0 <= i < a_size cls sh -> In f (a_bd cls sh i) ->
  exists l1 l2 l3, a_filtration cls sh data = l1 ++ f :: l2 ++ i :: l3.
Proof. exact filtration_faces_first. Qed.
Print Assumptions C13_filtration_faces_first.

(* the built values are monotone (a face never has a larger value), for both conventions and both classes, hence the
   filtration range of a complex built from top cells lists faces first *)
Theorem C13_built_values_monotone_top : forall cls dims vals, wf_shape dims ->
  Z.of_nat (length vals) = prod_sizes (map fst dims) ->
  forall data, a_build cls dims true vals = Some (dims, data) -> monotone cls dims data.
Proof. exact build_top_monotone. Qed.
Print Assumptions C13_built_values_monotone_top.

Theorem C13_built_values_monotone_vertices_periodic : forall dims vals, wf_shape (vshape_per dims) ->
  Z.of_nat (length vals) = prod_sizes (map nvert (hshape true (vshape_per dims))) ->
  forall sh data, a_build true dims false vals = Some (sh, data) -> sh = vshape_per dims /\ monotone true sh data.
Proof. exact build_vert_periodic_monotone. Qed.
Print Assumptions C13_built_values_monotone_vertices_periodic.

Theorem C13_built_values_monotone_vertices_plain : forall dims vals, wf_shape (vshape_plain dims) ->
  Z.of_nat (length vals) = prod_sizes (map nvert (hshape false (vshape_plain dims))) ->
  forall sh data, a_build false dims false vals = Some (sh, data) -> sh = vshape_plain dims /\ monotone false sh data.
Proof. exact build_vert_plain_monotone. Qed.
Print Assumptions C13_built_values_monotone_vertices_plain.

Theorem C13_built_filtration_faces_first : forall cls dims vals, wf_shape dims ->
  Z.of_nat (length vals) = prod_sizes (map fst dims) ->
  forall data, a_build cls dims true vals = Some (dims, data) ->
  forall i f, 0 <= i < a_size cls dims -> In f (a_bd cls dims i) ->
  exists l1 l2 l3, a_filtration cls dims data = l1 ++ f :: l2 ++ i :: l3.
Proof. exact build_top_faces_first. Qed.
Print Assumptions C13_built_filtration_faces_first.

(* ---- persistence: whatever reduced decomposition of the boundary matrix is exhibited, its pairing is the certified
   one used as oracle, for every prime (Reduce.v / ReduceExec.v); the matrix is well defined because d.d = 0 *)
Theorem C13_persistence_oracle_canonical : forall p D R F l, prime p ->
  certified_lows p D = Some l -> check_any p (length D) D R F = true -> lows p (length D) R = l.
Proof. exact certified_lows_canonical_any. Qed.
Print Assumptions C13_persistence_oracle_canonical.
