(* Properties_C14.v — the theorems of property C14 (line routine; the rectangle routine has no algorithm model and is
   validated differentially against the specification [rect_barcode] of C14_Model.v, see design/C14.md). *)
From Coq Require Import ZArith List Bool Lia.
Require Import Reduce ReduceExec C14_Model C14_Proofs.
Import ListNotations.
Local Open Scope Z_scope.

(* The machine only compares: it commutes with every relabelling f that preserves the comparator on the values that
   satisfy P, when all inputs satisfy P (P := fun _ => True gives the global statement; custom comparators are
   instances: lt x y := ltB (f x) (f y)). *)
Theorem C14_line_order_invariant :
  forall (A B : Type) (ltA : A -> A -> bool) (ltB : B -> B -> bool) (f : A -> B) (P : A -> Prop),
    (forall x y, P x -> P y -> ltB (f x) (f y) = ltA x y) ->
    forall l, Forall P l -> line B ltB (map f l) = map_result A B f (line A ltA l).
Proof. exact line_map. Qed.
Print Assumptions C14_line_order_invariant.

(* the same for the sorted output and for the specification (barcode of the path complex by the certified reduction) *)
Theorem C14_line_canon_order_invariant :
  forall (A B : Type) (ltA : A -> A -> bool) (ltB : B -> B -> bool) (f : A -> B) (P : A -> Prop),
    (forall x y, P x -> P y -> ltB (f x) (f y) = ltA x y) ->
    forall l, Forall P l -> line_canon ltB (map f l) = map_res A B f (line_canon ltA l).
Proof. exact line_canon_map. Qed.
Print Assumptions C14_line_canon_order_invariant.

Theorem C14_line_oracle_order_invariant :
  forall (A B : Type) (ltA : A -> A -> bool) (ltB : B -> B -> bool) (f : A -> B) (P : A -> Prop),
    (forall x y, P x -> P y -> ltB (f x) (f y) = ltA x y) ->
    forall l, Forall P l -> line_oracle B ltB (map f l) = map_res A B f (line_oracle A ltA l).
Proof. exact line_oracle_map. Qed.
Print Assumptions C14_line_oracle_order_invariant.

(* non-vacuity: x -> 3x - 4 preserves < on Z; and the machine really emits pairs *)
Example C14_invariant_instance :
  line Z Z.ltb (map (fun x => 3 * x - 4) [3; 1; 4; 1; 5; 2]) = Some ([(-1, 8); (2, 11)], Some (-1)) /\
  line Z Z.ltb [3; 1; 4; 1; 5; 2] = Some ([(1, 4); (2, 5)], Some 1).
Proof. split; vm_compute; reflexivity. Qed.

(* the hypothesis of the invariance theorems is satisfiable: x -> 3x - 4 with P := fun _ => True *)
Example C14_monotone_hypothesis_instance :
  forall x y : Z, True -> True -> Z.ltb (3 * x - 4) (3 * y - 4) = Z.ltb x y.
Proof. intros x y _ _. destruct (Z.ltb_spec (3 * x - 4) (3 * y - 4)), (Z.ltb_spec x y); try reflexivity; lia. Qed.

(* The machine never indexes its vector out of bounds, never trips GUDHI_CHECK(!data.empty()) and ends within its fuel
   (the model returns None in each of these cases), for every input. *)
Theorem C14_line_never_fails : forall l : list Z, line_Z l <> None.
Proof. exact line_never_fails. Qed.
Print Assumptions C14_line_never_fails.

(* One step keeps the invariant of the source comment "data contains a sequence of type 1 9 2 8 3 7 ..." ([nest]: every
   element lies strictly between the two before it), with the label-specific facts of the comments ("data[-3] < data[-1]
   < data[-2]", "v < data[-1] after a simplification", ...), emits only strict pairs, and decreases the potential. *)
Theorem C14_line_data_alternates :
  forall s : state Z,
    shape (lab s) (data s) (cur s) -> Forall strict (outp s) -> (endlab (lab s) = true -> rest s = []) ->
    match step Z Z.ltb s with
    | Next s' => shape (lab s') (data s') (cur s') /\ Forall strict (outp s') /\ (potential s' < potential s)%nat /\
                 (endlab (lab s') = true -> rest s' = [])
    | Done ps m => Forall strict ps /\ data s = [m] /\ rest s = []
    | Err => False
    end.
Proof. exact step_shape. Qed.
Print Assumptions C14_line_data_alternates.

(* the hypotheses are satisfiable in the interesting states: the sequences of the source comment, odd and even length *)
Example C14_shape_instance :
  shape L132 [5; 7; 3; 8; 2; 9; 1] 0 /\ shape L312 [6; 5; 7; 3; 8; 2; 9; 1] 0 /\
  shape L312down [6; 5; 7; 3; 8; 2; 9; 1] 4 /\ shape Lup [3; 8; 2; 9; 1] 7.
Proof. cbn. repeat split; lia. Qed.

(* every emitted pair has birth < death: the routine never outputs an interval of zero length *)
Theorem C14_line_outputs_are_strict :
  forall (l : list Z) ps m, line_Z l = Some (ps, m) -> Forall (fun p => fst p < snd p) ps.
Proof. exact line_outputs_strict. Qed.
Print Assumptions C14_line_outputs_are_strict.

(* the last call out(m, infinity) carries the global minimum, an element of the input; it is absent only for empty input *)
Theorem C14_line_min_is_global_min :
  forall (l : list Z) ps m, line_Z l = Some (ps, Some m) -> In m l /\ forall x, In x l -> m <= x.
Proof. exact line_min_global. Qed.
Print Assumptions C14_line_min_is_global_min.

Theorem C14_line_no_infinite_class_only_if_empty :
  forall (l : list Z) ps, line_Z l = Some (ps, None) -> l = [].
Proof. exact line_empty_iff. Qed.
Print Assumptions C14_line_no_infinite_class_only_if_empty.

(* BOUNDED (the bound is part of the statement): for every sequence of at most 6 values the sorted output of the
   machine is exactly the specification: the finite intervals of non-zero length and the essential class of the
   0-dimensional barcode of the lower-star path complex, computed by the certified reduction [certified_lows].
   Proved by evaluating both sides on all 50 069 rank patterns (vm_compute) and lifting with the two order-invariance
   theorems above through the rank map of the input. *)
Theorem C14_line_small_exhaustive :
  forall l : list Z, (length l <= 6)%nat -> line_canon_Z l = line_oracle_Z l.
Proof. exact line_small_exhaustive. Qed.
Print Assumptions C14_line_small_exhaustive.

(* NOT PROVED: the same without the bound.  Missing: an inductive argument that the pairs emitted by the machine are
   the pivot pairs of the path complex (elder rule along the nested structure); compared per input by the check. *)
Definition C14_line_eq_oracle_full : Prop := forall l : list Z, line_canon_Z l = line_oracle_Z l.
