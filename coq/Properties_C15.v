(* C15 - copies, moves, swap and the serialisation round trip of Gudhi::Simplex_tree.
   Algorithm model: C15_Model.v (special members [copy_construct] .. [swap_std] with the switch fx = repaired / original;
   [serialize] / [ser_size] / [deserialize] on byte lists, [deserialize] with the switch chk = reads are bounds-checked
   (repaired) / not checked (original: a read past the end is [OverRead], undefined behaviour); [text_out] / [text_in]);
   states and tries: C01_Model.v / Trie.v; proofs: C15_Proofs.v.
   The encoding of Filtration_value is universally quantified: [fw] bytes per value, [encf], [decf], with
     Hlen : every encoded value has exactly fw bytes,
     Hdec : decf (encf v) = v for the values v stored in the tree (with store_filtration = false, fw = 0 and decf _ = 0,
            this holds exactly for the trees whose values are all 0).
   [fits l] (C15_Proofs.v, characterised by C15_fits_nil / C15_fits_cons below): every label is an int
   (-2^31 <= x < 2^31) and every sibling list has fewer than 2^31 members (Vertex_handle = int, the counts are written
   as Vertex_handle).  All statements are for ALL tries / states / buffers (no size bound). *)
From Coq Require Import ZArith List Bool.
Require Import Simplex Trie C01_Model C01_Proofs C15_Model C15_Proofs.
Import ListNotations.
Open Scope Z_scope.

(* ------------------------------------------------------------------------------------------ the predicate fits *)
Theorem C15_fits_nil : fits [].
Proof. exact fits_nil. Qed.
Print Assumptions C15_fits_nil.

Theorem C15_fits_cons : forall (x : Z) (w : V) (c : trie) (r : sibs),
  fits ((x, w, c) :: r) <->
  Z.of_nat (S (length r)) < 2147483648 /\ -2147483648 <= x < 2147483648 /\ fits (kids c) /\ fits r.
Proof. exact fits_cons. Qed.
Print Assumptions C15_fits_cons.

(* ------------------------------------------------------------------------------------------ P1: the size *)
(* get_serialization_size is exact *)
Theorem C15_ser_length : forall (fw : nat) (encf : V -> list byte),
  (forall v, length (encf v) = fw) ->
  forall st, Z.of_nat (length (serialize encf st)) = ser_size fw st.
Proof. exact ser_length. Qed.
Print Assumptions C15_ser_length.

(* ------------------------------------------------------------------------------------------ P2: round trip *)
(* deserialising a serialisation into an empty object gives back exactly the same trie; dimension_ becomes the max of
   its old value and the exact dimension; the flag of the target is not touched *)
Theorem C15_des_ser : forall (fw : nat) (encf : V -> list byte) (decf : list byte -> V),
  (forall v, length (encf v) = fw) ->
  forall (chk : bool) (st0 st : state),
  tree st0 = [] -> wf (tree st) -> fits (tree st) ->
  (forall s v, In (s, v) (abs (tree st)) -> decf (encf v) = v) ->
  deserialize fw decf chk st0 (serialize encf st) =
  Loaded (mk (tree st) (Z.max (dim_ub st0) (exact_dim st)) (dirty st0)).
Proof. exact des_ser. Qed.
Print Assumptions C15_des_ser.

(* into a freshly constructed object: the exact dimension, not dirty *)
Theorem C15_des_ser_empty : forall (fw : nat) (encf : V -> list byte) (decf : list byte -> V),
  (forall v, length (encf v) = fw) ->
  forall (chk : bool) (st : state),
  wf (tree st) -> fits (tree st) ->
  (forall s v, In (s, v) (abs (tree st)) -> decf (encf v) = v) ->
  deserialize fw decf chk empty_state (serialize encf st) = Loaded (mk (tree st) (exact_dim st) false).
Proof. exact des_ser_empty. Qed.
Print Assumptions C15_des_ser_empty.

(* a non-empty target is refused by the GUDHI_CHECK (debug mode) whatever the buffer *)
Theorem C15_des_not_empty : forall (fw : nat) (decf : list byte -> V) (chk : bool) (st0 : state) (b : list byte),
  tree st0 <> [] -> deserialize fw decf chk st0 b = NotEmpty.
Proof. exact des_not_empty. Qed.
Print Assumptions C15_des_not_empty.

(* the key lemma: after the leading count, the remainder of a serialisation followed by ANY bytes [rest] is parsed by
   rec_deserialize (des_sibs) into the same siblings and leaves exactly [rest]; fuel: the length of what is parsed *)
Theorem C15_des_sibs_parses : forall (fw : nat) (encf : V -> list byte) (decf : list byte -> V),
  (forall v, length (encf v) = fw) ->
  forall l : sibs, wf l -> fits l ->
  (forall s v, In (s, v) (abs l) -> decf (encf v) = v) ->
  exists bd, ser_t encf (Node l) = enc32 (Z.of_nat (length l)) ++ bd /\
    forall rest f, (length (bd ++ rest) <= f)%nat ->
      des_sibs fw decf (S f) (Z.of_nat (length l)) (bd ++ rest) = Got l rest.
Proof. exact des_sibs_parses. Qed.
Print Assumptions C15_des_sibs_parses.

(* serialisation is injective on trees and prefix-free *)
Theorem C15_ser_injective : forall (fw : nat) (encf : V -> list byte) (decf : list byte -> V),
  (forall v, length (encf v) = fw) ->
  forall st1 st2,
  wf (tree st1) -> fits (tree st1) -> (forall s v, In (s, v) (abs (tree st1)) -> decf (encf v) = v) ->
  wf (tree st2) -> fits (tree st2) -> (forall s v, In (s, v) (abs (tree st2)) -> decf (encf v) = v) ->
  serialize encf st1 = serialize encf st2 -> tree st1 = tree st2.
Proof. exact ser_injective. Qed.
Print Assumptions C15_ser_injective.

Theorem C15_ser_prefix_free : forall (fw : nat) (encf : V -> list byte) (decf : list byte -> V),
  (forall v, length (encf v) = fw) ->
  forall st1 st2 q,
  wf (tree st1) -> fits (tree st1) -> (forall s v, In (s, v) (abs (tree st1)) -> decf (encf v) = v) ->
  wf (tree st2) -> fits (tree st2) -> (forall s v, In (s, v) (abs (tree st2)) -> decf (encf v) = v) ->
  serialize encf st2 = serialize encf st1 ++ q -> q = [].
Proof. exact ser_prefix_free. Qed.
Print Assumptions C15_ser_prefix_free.

(* ------------------------------------------------------------------------------------------ P3: too long *)
Theorem C15_des_extension : forall (fw : nat) (encf : V -> list byte) (decf : list byte -> V),
  (forall v, length (encf v) = fw) ->
  forall (chk : bool) (st0 st : state),
  tree st0 = [] -> wf (tree st) -> fits (tree st) ->
  (forall s v, In (s, v) (abs (tree st)) -> decf (encf v) = v) ->
  forall x, x <> [] -> deserialize fw decf chk st0 (serialize encf st ++ x) = Refused.
Proof. exact des_extension. Qed.
Print Assumptions C15_des_extension.

(* ------------------------------------------------------------------------------------------ P4: too short *)
(* the repaired code refuses every strict prefix of a serialisation ... *)
Theorem C15_des_prefix : forall (fw : nat) (encf : V -> list byte) (decf : list byte -> V),
  (forall v, length (encf v) = fw) ->
  forall (st0 st : state),
  tree st0 = [] -> wf (tree st) -> fits (tree st) ->
  (forall s v, In (s, v) (abs (tree st)) -> decf (encf v) = v) ->
  forall p q, q <> [] -> serialize encf st = p ++ q -> deserialize fw decf true st0 p = Refused.
Proof. exact des_prefix. Qed.
Print Assumptions C15_des_prefix.

(* ... on which the unrepaired code reads past the end of the buffer, for EVERY strict prefix *)
Theorem C15_unrepaired_overreads_every_truncation :
  forall (fw : nat) (encf : V -> list byte) (decf : list byte -> V),
  (forall v, length (encf v) = fw) ->
  forall (st0 st : state),
  tree st0 = [] -> wf (tree st) -> fits (tree st) ->
  (forall s v, In (s, v) (abs (tree st)) -> decf (encf v) = v) ->
  forall p q, q <> [] -> serialize encf st = p ++ q -> deserialize fw decf false st0 p = OverRead.
Proof. exact unrepaired_overreads_every_truncation. Qed.
Print Assumptions C15_unrepaired_overreads_every_truncation.

(* ------------------------------------------------------------------------------------------ P5: the fuel *)
(* the fuel of the model (length of the buffer + 1) is never exhausted, on any buffer: OutOfFuel is not an outcome *)
Theorem C15_no_fuel : forall (fw : nat) (decf : list byte -> V) (chk : bool) (st0 : state) (b : list byte),
  deserialize fw decf chk st0 b <> OutOfFuel.
Proof. exact no_fuel. Qed.
Print Assumptions C15_no_fuel.

(* the two fuel facts behind it, for arbitrary buffers *)
Theorem C15_read_members_fuel : forall (fw : nat) (decf : list byte -> V) (f : nat) (n : Z) (b : list byte) (acc : sibs),
  (length b <= f)%nat -> read_members fw decf f n b acc <> NoFuel.
Proof. exact read_members_fuel. Qed.
Print Assumptions C15_read_members_fuel.

Theorem C15_des_sibs_fuel : forall (fw : nat) (decf : list byte -> V) (f : nat) (n : Z) (b : list byte),
  (length b < f)%nat -> des_sibs fw decf f n b <> NoFuel.
Proof. exact des_sibs_fuel. Qed.
Print Assumptions C15_des_sibs_fuel.

(* a reader never returns more bytes than it was given *)
Theorem C15_des_sibs_len : forall (fw : nat) (decf : list byte -> V) (f : nat) (n : Z) (b : list byte) (l : sibs)
  (r : list byte), des_sibs fw decf f n b = Got l r -> (length r <= length b)%nat.
Proof. exact des_sibs_len. Qed.
Print Assumptions C15_des_sibs_len.

(* ------------------------------------------------------------------------------------------ P6: special members *)
Theorem C15_copy_construct : forall st, copy_construct true st = st.
Proof. exact copy_construct_id. Qed.
Print Assumptions C15_copy_construct.

Theorem C15_copy_assign : forall tgt src, copy_assign true tgt src = src.
Proof. exact copy_assign_id. Qed.
Print Assumptions C15_copy_assign.

Theorem C15_move_construct : forall st, move_construct true st = (st, empty_state).
Proof. exact move_construct_spec. Qed.
Print Assumptions C15_move_construct.

Theorem C15_move_assign : forall tgt src, move_assign true tgt src = (src, empty_state).
Proof. exact move_assign_spec. Qed.
Print Assumptions C15_move_assign.

Theorem C15_swap_std : forall a b, swap_std true a b = (b, a).
Proof. exact swap_std_spec. Qed.
Print Assumptions C15_swap_std.

Theorem C15_copy_obs_eq : forall st, obs_eq (copy_construct true st) st.
Proof. exact copy_obs_eq. Qed.
Print Assumptions C15_copy_obs_eq.

Theorem C15_copy_assign_obs_eq : forall tgt src, obs_eq (copy_assign true tgt src) src.
Proof. exact copy_assign_obs_eq. Qed.
Print Assumptions C15_copy_assign_obs_eq.

(* the faithful model of the unrepaired code: the copy constructor drops dimension_to_be_lowered_, so after
   insert {0,1,2}, remove {0,1,2} the source answers dimension() = 1 and its copy 2 *)
Theorem C15_copy_drops_dirty_flag_refuted :
  ~ (forall ops, obs_eq (copy_construct false (run true ops)) (run true ops)).
Proof. exact copy_drops_dirty_flag_refuted_lemma. Qed.
Print Assumptions C15_copy_drops_dirty_flag_refuted.

Theorem C15_copy_drops_dirty_flag_witness :
  exact_or_ub (run true dirty_witness) = 1
  /\ exact_or_ub (copy_construct false (run true dirty_witness)) = 2
  /\ exact_or_ub (copy_construct true (run true dirty_witness)) = 1.
Proof. exact copy_drops_dirty_flag_witness. Qed.
Print Assumptions C15_copy_drops_dirty_flag_witness.

(* copy assignment of the unrepaired code does not write the flag of the target *)
Theorem C15_copy_assign_keeps_target_flag_refuted :
  ~ (forall ops, obs_eq (copy_assign false empty_state (run true ops)) (run true ops)).
Proof. exact copy_assign_keeps_target_flag_refuted_lemma. Qed.
Print Assumptions C15_copy_assign_keeps_target_flag_refuted.

(* move assignment of the unrepaired code leaves dimension_ of the moved-from source *)
Theorem C15_move_assign_source_not_empty_refuted :
  exists tgt src, snd (move_assign false tgt src) <> empty_state.
Proof. exact move_assign_source_not_empty_refuted_lemma. Qed.
Print Assumptions C15_move_assign_source_not_empty_refuted.

Theorem C15_move_assign_source_witness :
  let src := run true [OInsert [0] 0] in
  snd (move_assign false empty_state src) = mk [] 0 false /\ snd (move_assign true empty_state src) = empty_state.
Proof. exact move_assign_source_witness. Qed.
Print Assumptions C15_move_assign_source_witness.

(* ------------------------------------------------------------------------------------------ P7: the byte codecs *)
Theorem C15_dec32_enc32 : forall z, -2147483648 <= z < 2147483648 ->
  exists b0 b1 b2 b3, enc32 z = [b0; b1; b2; b3] /\ dec32 b0 b1 b2 b3 = z.
Proof. exact dec32_enc32. Qed.
Print Assumptions C15_dec32_enc32.

(* the concrete 8-byte value encoding of the examples is a correct instance of (fw, encf, decf) *)
Theorem C15_dec64_enc64 : forall v, -9223372036854775808 <= v < 9223372036854775808 -> dec64 (enc64 v) = v.
Proof. exact dec64_enc64. Qed.
Print Assumptions C15_dec64_enc64.

Theorem C15_enc64_length : forall v, length (enc64 v) = 8%nat.
Proof. exact enc64_length. Qed.
Print Assumptions C15_enc64_length.

(* ------------------------------------------------------------------------------------------ non-vacuity *)
(* a reachable state with a triangle and a far vertex with a negative value; fw = 8, enc64 / dec64 *)
(* ex_state := run true [OInsertSub [0; 1; 2] 3; OInsert [5] (-7)]   (C15_Proofs.v) *)
Example C15_ex_wf : wf (tree ex_state).
Proof. vm_compute. repeat split. Qed.
Example C15_ex_fits : fits (tree ex_state).
Proof. vm_compute. repeat split; discriminate. Qed.
Example C15_ex_len : forall v, length (enc64 v) = 8%nat.
Proof. reflexivity. Qed.
Example C15_ex_dec : forall s v, In (s, v) (abs (tree ex_state)) -> dec64 (enc64 v) = v.
Proof.
  intros s v H. vm_compute in H.
  repeat (destruct H as [H|H]; [inversion H; subst; vm_compute; reflexivity|]). contradiction.
Qed.
Example C15_ex_size : ser_size 8 ex_state = 132 /\ length (serialize enc64 ex_state) = 132%nat.
Proof. vm_compute. split; reflexivity. Qed.
Example C15_ex_roundtrip :
  deserialize 8 dec64 true empty_state (serialize enc64 ex_state) = Loaded (mk (tree ex_state) 2 false).
Proof. vm_compute. reflexivity. Qed.
Example C15_ex_extension :
  deserialize 8 dec64 true empty_state (serialize enc64 ex_state ++ [0]) = Refused.
Proof. vm_compute. reflexivity. Qed.
Example C15_ex_prefix :
  deserialize 8 dec64 true empty_state (firstn 131 (serialize enc64 ex_state)) = Refused
  /\ deserialize 8 dec64 false empty_state (firstn 131 (serialize enc64 ex_state)) = OverRead
  /\ deserialize 8 dec64 false empty_state (firstn 50 (serialize enc64 ex_state)) = OverRead
  /\ deserialize 8 dec64 false empty_state [] = OverRead.
Proof. vm_compute. repeat split; reflexivity. Qed.
(* store_filtration = false: no value bytes, every value reads as 0; the hypotheses hold for a tree of zeros *)
(* ex_state0 := run true [OInsertSub [0; 1; 2] 0]   (C15_Proofs.v) *)
Example C15_ex0_dec : forall s v, In (s, v) (abs (tree ex_state0)) -> (fun _ : list byte => 0) ((fun _ : V => @nil byte) v) = v.
Proof.
  intros s v H. vm_compute in H.
  repeat (destruct H as [H|H]; [inversion H; subst; reflexivity|]). contradiction.
Qed.
Example C15_ex0_roundtrip :
  deserialize 0 (fun _ => 0) true empty_state (serialize (fun _ => []) ex_state0)
  = Loaded (mk (tree ex_state0) 2 false)
  /\ length (serialize (fun _ : V => @nil byte) ex_state0) = 60%nat.
Proof. vm_compute. split; reflexivity. Qed.

(* ------------------------------------------------------------------------------------------ P8: text form *)
(* operator<< followed by operator>> into a fresh object gives back exactly the same trie and the exact dimension, when
   (1) the stored words are strictly increasing (wf only sorts each sibling list, it does not put the labels of the
       children above the label of their parent; every tree built by the documented operations satisfies (1), see
       C15_text_roundtrip_history), and
   (2) the values are monotone along prefixes (otherwise filtration order lists a simplex before one of its prefixes
       and insert_simplex creates the prefix with the wrong value). *)
Theorem C15_text_roundtrip : forall st, wf (tree st) ->
  (forall s v, In (s, v) (abs (tree st)) -> ssorted s) ->
  (forall s v p w, In (s, v) (abs (tree st)) -> In (p, w) (abs (tree st)) -> prefixb p s = true -> w <= v) ->
  tree (text_in empty_state (text_out st)) = tree st
  /\ dim_ub (text_in empty_state (text_out st)) = exact_dim st.
Proof. exact tx_text_roundtrip. Qed.
Print Assumptions C15_text_roundtrip.

(* hypothesis (1) cannot be dropped: the wf trie holding the words [2] and [2;1] is read back as [1], [1;2], [2] *)
Theorem C15_text_roundtrip_unsorted_words_refuted :
  ~ (forall st, wf (tree st) ->
       (forall s v p w, In (s, v) (abs (tree st)) -> In (p, w) (abs (tree st)) -> prefixb p s = true -> w <= v) ->
       tree (text_in empty_state (text_out st)) = tree st).
Proof. exact text_roundtrip_unsorted_words_refuted_lemma. Qed.
Print Assumptions C15_text_roundtrip_unsorted_words_refuted.

(* (1) is kept by insert_simplex_raw on a sorted word, and (1), (2) have equivalent forms through find *)
Theorem C15_sorted_words_insert : forall (s : simplex) (v : V) (l : sibs),
  wf l -> ssorted s -> s <> [] ->
  (forall t u, In (t, u) (abs l) -> ssorted t) ->
  (forall t u, In (t, u) (abs (ins_raw s v l)) -> ssorted t).
Proof. exact tx_keys_sorted_ins_raw. Qed.
Print Assumptions C15_sorted_words_insert.

(* after every history of the refined operations (insertions alone / with faces, batch vertices, graph, removals of
   maximal simplices, both prunings, clear, dimension(), counts) that respects the documented preconditions and keeps
   the complex closed and monotone, the text form round-trips: no hypothesis on the tree is left *)
Theorem C15_text_roundtrip_history : forall (fx : bool) (ops : list op),
  forallb refined_op ops = true -> ok_history ops = true ->
  tree (text_in empty_state (text_out (run fx ops))) = tree (run fx ops)
  /\ dim_ub (text_in empty_state (text_out (run fx ops))) = exact_dim (run fx ops).
Proof. exact text_roundtrip_history. Qed.
Print Assumptions C15_text_roundtrip_history.

(* non-vacuity: the full triangle 1 2 3 with increasing values satisfies the three hypotheses and round-trips; and a
   history accepted by C15_text_roundtrip_history *)
Example C15_ex_text_hyps :
  wf (tree tx_ex)
  /\ (forall s v, In (s, v) (abs (tree tx_ex)) -> ssorted s)
  /\ (forall s v p w, In (s, v) (abs (tree tx_ex)) -> In (p, w) (abs (tree tx_ex)) -> prefixb p s = true -> w <= v).
Proof. exact tx_ex_hyps. Qed.
Example C15_ex_text_roundtrip :
  tree (text_in empty_state (text_out tx_ex)) = tree tx_ex
  /\ dim_ub (text_in empty_state (text_out tx_ex)) = exact_dim tx_ex.
Proof. vm_compute. split; reflexivity. Qed.
Example C15_ex_text_history :
  let ops := [OInsertSub [0; 1; 2] 3; OInsert [5] (-7)] in
  forallb refined_op ops = true /\ ok_history ops = true
  /\ text_out (run true ops) =
     [(0, [5], -7); (0, [0], 3); (0, [1], 3); (1, [1; 0], 3); (0, [2], 3); (1, [2; 0], 3); (1, [2; 1], 3);
      (2, [2; 1; 0], 3)].
Proof. vm_compute. repeat split; reflexivity. Qed.
