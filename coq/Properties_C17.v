(* C17 - Skeleton-blocker complexes track the complex through edits and contractions.
   Statements only; proofs in C17_Proofs.v, definitions in C17_Model.v.
   Faces are sub-lists (sub) of vertex lists; K : list Z -> bool is membership in the abstract complex. *)
From Coq Require Import ZArith List Bool Sorted.
Require Import ReduceExec C17_Model C17_Proofs.
Import ListNotations.
Open Scope Z_scope.

(* A1. A closed complex is gamma(1-skeleton, minimal non-faces): a non-empty vertex list is a simplex iff it contains no
   minimal non-face (missing vertex, missing edge, or blocker). *)
Theorem C17_gamma_of_minimal_nonfaces : forall K, closed K -> forall t, t <> [] ->
  (K t = true <-> forall s, sub s t -> ~ mnf K s).
Proof. exact gamma_of_minimal_nonfaces. Qed.
Print Assumptions C17_gamma_of_minimal_nonfaces.

(* A1', "if": the list of the minimal non-faces of dimension >= 2 represents K. *)
Theorem C17_gamma_blockers_minimal_nonfaces_if : forall K B, closed K ->
  (forall b, In b B <-> is_blocker K b) -> is_gamma K B.
Proof. exact gamma_blockers_minimal_nonfaces_if. Qed.
Print Assumptions C17_gamma_blockers_minimal_nonfaces_if.

(* A1'', "only if": a blocker list that represents K and whose members have all proper faces in K is the set of minimal
   non-faces of dimension >= 2 - the representation is unique. *)
Theorem C17_gamma_blockers_minimal_nonfaces_only_if : forall K B, closed K -> is_gamma K B ->
  (forall b, In b B -> (3 <= length b)%nat /\ forall t, sub t b -> t <> b -> t <> [] -> K t = true) ->
  forall b, In b B <-> is_blocker K b.
Proof. exact gamma_blockers_minimal_nonfaces_only_if. Qed.
Print Assumptions C17_gamma_blockers_minimal_nonfaces_only_if.

(* A2. Star removal on the abstract complex: closed again; the induced minimal non-faces are sigma and the old ones that
   do not contain sigma - nothing is added for a blocker that contained sigma. *)
Theorem C17_remove_star_closed : forall K sigma, closed K -> closed (K_rs K sigma).
Proof. exact remove_star_closed. Qed.
Print Assumptions C17_remove_star_closed.
Theorem C17_remove_star_spec : forall K sigma, closed K -> K sigma = true -> forall b,
  mnf (K_rs K sigma) b <-> b = sigma \/ (mnf K b /\ ~ sub sigma b).
Proof. exact remove_star_blockers. Qed.
Print Assumptions C17_remove_star_spec.

(* A3. Insertion of a simplex with its faces: closed; old blockers inside sigma are freed, the others stay, every new
   blocker has a proper face among the simplices that were added. *)
Theorem C17_add_simplex_closed : forall K sigma, closed K -> closed (K_as K sigma).
Proof. exact add_simplex_closed. Qed.
Print Assumptions C17_add_simplex_closed.
Theorem C17_add_simplex_spec : forall K sigma, closed K -> forall b,
  (mnf K b -> sub b sigma -> K_as K sigma b = true) /\
  (mnf K b -> ~ sub b sigma -> mnf (K_as K sigma) b) /\
  (mnf (K_as K sigma) b -> ~ mnf K b ->
     ~ sub b sigma /\ exists t, sub t b /\ t <> b /\ t <> [] /\ K t = false /\ sub t sigma).
Proof. exact add_simplex_blockers. Qed.
Print Assumptions C17_add_simplex_spec.

(* B1. The transcribed contains() is gamma(graph, blockers): all vertices active, all pairs edges, no blocker included. *)
Theorem C17_contains_is_gamma : forall c s, contains c s = true <->
  s <> [] /\ (forall v, In v s -> contains_vertex c v = true) /\
  ((2 <= length s)%nat -> all_pairs (has_edge c) s = true /\ forall b, In b (blk c) -> b <> [] -> ssub b s = false).
Proof. exact contains_is_gamma. Qed.
Print Assumptions C17_contains_is_gamma.

(* B1a. The transcribed add_vertex adds exactly the new vertex (vertex numbering well formed: no edge touches a slot that
   was not handed out yet). *)
Theorem C17_add_vertex_spec : forall (c : cplx) (t : simplex), wf_slots c ->
  contains (add_vertex c) t = contains c t || seqb t [slots c].
Proof. exact add_vertex_spec. Qed.
Print Assumptions C17_add_vertex_spec.
Example C17_wf_slots_instance : wf_slots hollow_tetrahedron.
Proof. exact wf_slots_instance. Qed.

(* B1b. The transcribed add_edge adds exactly the edge (and registers as blockers the triangles it would close): for a missing
   edge ab of a state whose blockers have >= 3 distinct vertices and whose edges are stored as (smaller, larger). *)
Theorem C17_add_edge_spec : forall (c : cplx) (a b : Z) (t : simplex),
  a <> b -> has_edge c a b = false -> wf_blk c -> wf_edg c -> inc t ->
  contains (add_edge c a b) t
  = contains c t || (seqb t [Z.min a b; Z.max a b] && contains_vertex c a && contains_vertex c b).
Proof. exact add_edge_spec. Qed.
Print Assumptions C17_add_edge_spec.
Example C17_add_edge_hypotheses_instance :
  let c := add_vertex hollow_tetrahedron in
  has_edge c 0 4 = false /\ wf_blk c /\ wf_edg c /\ inc [0; 4] /\ contains (add_edge c 0 4) [0; 4] = true /\
  contains (add_edge (add_edge c 0 4) 1 4) [0; 1; 4] = false.
Proof. exact add_edge_hypotheses_instance. Qed.

(* B1c. The transcribed add_edge_without_blockers adds the edge ab and exactly the vertex lists containing a and b whose
   faces without a and without b are simplices - this is spec_fill of C17_Model.v; no blocker passes through a and b. *)
Theorem C17_add_edge_without_blockers_spec : forall (c : cplx) (a b : Z) (t : simplex),
  a <> b -> has_edge c a b = false -> wf_blk c -> (forall beta, In beta (blk c) -> ~ (In a beta /\ In b beta)) -> NoDup t ->
  contains (add_edge_without_blockers c a b) t
  = contains c t || (smem a t && smem b t && contains c (sremove a t) && contains c (sremove b t)).
Proof. exact add_edge_without_blockers_spec. Qed.
Print Assumptions C17_add_edge_without_blockers_spec.
Example C17_add_edge_without_blockers_instance :
  let c := remove_star_edge 3 complete4 0 1 in
  has_edge c 0 1 = false /\ wf_blk c /\ (forall beta, In beta (blk c) -> ~ (In 0 beta /\ In 1 beta)) /\
  contains c [0; 1; 2; 3] = false /\ contains (add_edge_without_blockers c 0 1) [0; 1; 2; 3] = true.
Proof. exact add_edge_without_blockers_instance. Qed.

(* B2. The transcribed add_blocker deletes exactly the cofaces of the blocker, in every state. *)
Theorem C17_add_blocker_spec : forall (c : cplx) (sigma t : simplex), (3 <= length sigma)%nat -> NoDup sigma ->
  contains (add_blocker c sigma) t = contains c t && negb (ssub sigma t).
Proof. exact add_blocker_spec. Qed.
Print Assumptions C17_add_blocker_spec.

(* B3. The transcribed remove_star(Simplex) of dimension >= 2 deletes exactly the simplices containing sigma, in every
   state and for both thresholds. *)
Theorem C17_remove_star_simplex_spec : forall thr (c : cplx) (sigma t : simplex), (3 <= length sigma)%nat -> NoDup sigma ->
  contains (remove_star_simplex thr c sigma) t = contains c t && negb (ssub sigma t).
Proof. exact remove_star_simplex_spec. Qed.
Print Assumptions C17_remove_star_simplex_spec.

(* B3'. ... and its blocker set becomes: sigma, and the old blockers that do not contain sigma - by A2 exactly the minimal
   non-faces of the new complex when the old blockers were those of the old one ("blockers = minimal non-faces" is kept). *)
Theorem C17_remove_star_simplex_blockers : forall thr (c : cplx) (sigma : simplex),
  (3 <= length sigma)%nat -> NoDup (blk c) ->
  forall b, In b (blk (remove_star_simplex thr c sigma)) <-> b = sigma \/ (In b (blk c) /\ ssub sigma b = false).
Proof. exact remove_star_simplex_blockers. Qed.
Print Assumptions C17_remove_star_simplex_blockers.

(* B4. link_condition(a,b) holds iff no blocker passes through a and b. *)
Theorem C17_link_condition_spec : forall c a b, link_condition c a b = true <->
  forall s, In s (blk c) -> ~ (In a s /\ In b s).
Proof. exact link_condition_spec. Qed.
Print Assumptions C17_link_condition_spec.

(* B5/B6. The transcribed remove_star(a,b) and remove_star(vertex) delete exactly the star - in every state in which no
   blocker through the removed simplex has thr or more further dimensions (for the repaired threshold 3: no blocker with
   at least three further vertices).  Together with the refutations R below this delimits the recorded defect exactly. *)
Theorem C17_remove_star_edge_spec : forall thr (c : cplx) (a b : Z) (t : simplex), a <> b ->
  no_big_blocker thr c [Z.min a b; Z.max a b] ->
  contains (remove_star_edge thr c a b) t = contains c t && negb (ssub [Z.min a b; Z.max a b] t).
Proof. exact remove_star_edge_spec. Qed.
Print Assumptions C17_remove_star_edge_spec.
Theorem C17_remove_star_vertex_spec : forall thr (c : cplx) (v : Z) (t : simplex), no_big_blocker thr c [v] ->
  contains (remove_star_vertex thr c v) t = contains c t && negb (smem v t).
Proof. exact remove_star_vertex_spec. Qed.
Print Assumptions C17_remove_star_vertex_spec.
Example C17_no_big_blocker_instance : no_big_blocker 3 hollow_triangle [0] /\ blk hollow_triangle = [[0; 1; 2]].
Proof. exact no_big_blocker_instance. Qed.

(* F. The representation invariant "contains = K on increasing lists, stored blockers = minimal non-faces of K of dimension
   >= 2, stored once" is kept by remove_star(Simplex of dimension >= 2) in every case, and by remove_star(a,b) /
   remove_star(vertex) when no blocker through the removed simplex is large; the new abstract complex is K_rs. *)
Theorem C17_remove_star_simplex_keeps_representation : forall thr (c : cplx) K (sigma : simplex),
  closed K -> represents c K -> inc sigma -> (3 <= length sigma)%nat -> K sigma = true ->
  represents (remove_star_simplex thr c sigma) (K_rs K sigma).
Proof. exact remove_star_simplex_keeps_representation. Qed.
Print Assumptions C17_remove_star_simplex_keeps_representation.
Theorem C17_remove_star_edge_keeps_representation : forall thr (c : cplx) K (a b : Z),
  closed K -> represents c K -> a <> b -> no_big_blocker thr c [Z.min a b; Z.max a b] ->
  K [Z.min a b; Z.max a b] = true ->
  represents (remove_star_edge thr c a b) (K_rs K [Z.min a b; Z.max a b]).
Proof. exact remove_star_edge_keeps_representation. Qed.
Print Assumptions C17_remove_star_edge_keeps_representation.
Theorem C17_remove_star_vertex_keeps_representation : forall thr (c : cplx) K (v : Z),
  closed K -> represents c K -> no_big_blocker thr c [v] -> K [v] = true ->
  represents (remove_star_vertex thr c v) (K_rs K [v]).
Proof. exact remove_star_vertex_keeps_representation. Qed.
Print Assumptions C17_remove_star_vertex_keeps_representation.

Theorem C17_add_blocker_keeps_representation : forall (c : cplx) K (sigma : simplex),
  closed K -> represents c K -> inc sigma -> (3 <= length sigma)%nat -> K sigma = true ->
  (forall b, In b (blk c) -> ssub sigma b = false) ->
  represents (add_blocker c sigma) (K_rs K sigma).
Proof. exact add_blocker_keeps_representation. Qed.
Print Assumptions C17_add_blocker_keeps_representation.

Theorem C17_add_vertex_keeps_representation : forall (c : cplx) K,
  closed K -> represents c K -> wf_slots c -> fresh K (slots c) ->
  represents (add_vertex c) (K_av K (slots c)) /\ closed (K_av K (slots c)).
Proof. exact add_vertex_keeps_representation. Qed.
Print Assumptions C17_add_vertex_keeps_representation.

Example C17_fresh_instance : fresh K_triangle (slots full_triangle) /\ wf_slots full_triangle.
Proof. exact fresh_instance. Qed.
(* non-vacuity of F: the full triangle 012 built by the transcribed operations represents the complex of the non-empty faces of
   [0;1;2], which is closed, contains [0;1;2], [0], [0;1], and has no large blocker *)
Example C17_representation_instance : represents full_triangle K_triangle /\ closed K_triangle /\
  inc [0; 1; 2] /\ K_triangle [0; 1; 2] = true /\ no_big_blocker 3 full_triangle [0] /\ K_triangle [0] = true /\
  no_big_blocker 3 full_triangle [0; 1] /\ K_triangle [0; 1] = true.
Proof. exact full_triangle_represents. Qed.

(* C. Edge contraction on the abstract complex (simplices as vertex sets): the image under b |-> a is closed under
   non-empty subsets; freeing the simplices blocked only through ab first (contract_edge without the link condition)
   gives the same image; the executable specification spec_contract lists exactly the images. *)
Theorem C17_contract_image_closed : forall (K : list Z -> Prop) a b, set_closed K -> set_closed (image a b K).
Proof. exact contract_image_closed. Qed.
Print Assumptions C17_contract_image_closed.
Theorem C17_contract_image_after_freeing : forall (K : list Z -> Prop) a b, a <> b ->
  forall t, image a b (freed K a b) t <-> image a b K t.
Proof. exact contract_image_after_freeing. Qed.
Print Assumptions C17_contract_image_after_freeing.
Theorem C17_spec_contract_is_image : forall k a b,
  (forall t, In t (snd (spec_contract k a b)) -> image a b (fun u => In u (snd k)) t) /\
  (forall u, In u (snd k) -> exists t, In t (snd (spec_contract k a b)) /\ same_set t (map (vm a b) u)).
Proof. intros k a b. split; [exact (spec_contract_is_image k a b) | exact (spec_contract_covers_image k a b)]. Qed.
Print Assumptions C17_spec_contract_is_image.

(* D. On strictly increasing vertex lists the face relation of part A (sub-list) is the inclusion test of the transcription. *)
Theorem C17_sorted_ssub_sub : forall t s, Sorted.StronglySorted Z.lt s -> Sorted.StronglySorted Z.lt t ->
  (ssub s t = true <-> sub s t).
Proof. exact sorted_ssub_sub. Qed.
Print Assumptions C17_sorted_ssub_sub.

(* R. The property fails for the transcription of remove_star(vertex) and remove_star(edge) (repaired threshold 3):
   boundary of the tetrahedron 0123, remove_star(0) deletes the triangle 123; boundary of the 4-simplex 01234,
   remove_star(0,1) deletes the triangle 234.  Recorded as known finding (an existing unit test asserts the behaviour). *)
Theorem C17_remove_star_vertex_refuted : ~ remove_star_vertex_exact 3.
Proof. exact remove_star_vertex_refuted. Qed.
Print Assumptions C17_remove_star_vertex_refuted.
Theorem C17_remove_star_edge_refuted : ~ remove_star_edge_exact 3.
Proof. exact remove_star_edge_refuted. Qed.
Print Assumptions C17_remove_star_edge_refuted.
(* the unrepaired source (threshold 2) additionally registered an edge as a blocker; repaired by 78186ac76 *)
Theorem C17_remove_star_unrepaired_threshold_refuted : ~ remove_star_vertex_exact 2 /\
  contains (remove_star_vertex 2 hollow_triangle 0) [1; 2] = false /\
  contains (remove_star_vertex 3 hollow_triangle 0) [1; 2] = true.
Proof. exact remove_star_unrepaired_threshold_refuted. Qed.
Print Assumptions C17_remove_star_unrepaired_threshold_refuted.

(* Not proved (compared with the extracted definitions on every generated history instead):
   - the transcribed add_simplex and contract_edge refine spec_add_simplex / spec_contract and keep
     "blockers = minimal non-faces": *)
Definition C17_add_simplex_full : Prop := forall c k sigma,
  (forall t, contains c t = kmem t (snd k)) -> (3 <= length sigma)%nat -> contains c sigma = false ->
  forall t, contains (add_simplex c sigma) t = kmem t (snd (spec_add_simplex k sigma)).
Definition C17_contract_full : Prop := forall c k a b,
  (forall t, contains c t = kmem t (snd k)) -> has_edge c a b = true ->
  forall t, contains (contract_edge c a b) t = kmem t (snd (spec_contract k a b)).
(*  - link condition => homotopy equivalence (literature theorem), measured through the certified Betti numbers: *)
Definition C17_link_condition_preserves_homology_full : Prop := forall p k a b, spec_closed (snd k) = true ->
  kmem [Z.min a b; Z.max a b] (snd k) = true -> spec_link_condition (snd k) a b = true ->
  forall d, betti p (snd (spec_contract k a b)) d = betti p (snd k) d.
