(* C18 — Persistence landscapes equal their definition and form a normed vector space.
   Property theorems only: each is closed by [exact <lemma of C18_Proofs>] and followed by Print Assumptions.
   Specification (C18_Model.v): tent (b,d) t = max 0 (min (t-b) (d-t)); lambda D k t = k-th largest tent value (k = 0,1,..;
   0 beyond the number of intervals); interp = the piecewise-linear function of a breakpoint list; functions sampled on a
   common breakpoint list xs (values us) with the exact integrals norm1 / norm2sq / inner and the maximum normsup.
   Algorithm models (C18_Model.v): transcriptions of Persistence_landscape.h / Persistence_landscape_on_grid.h. *)
From Coq Require Import List ZArith QArith Permutation Sorted Lia.
Require Import C18_Model C18_Proofs.
Import ListNotations.
Local Open Scope Q_scope.

(* ---------------------------------------------------------------- the landscape functions *)
Theorem C18_lambda_nonneg : forall D k t, 0 <= lambda D k t.
Proof. exact lambda_nonneg. Qed.
Print Assumptions C18_lambda_nonneg.

Theorem C18_lambda_antitone_in_k : forall D j k t, (j <= k)%nat -> lambda D k t <= lambda D j t.
Proof. exact lambda_antitone_in_k. Qed.
Print Assumptions C18_lambda_antitone_in_k.

Theorem C18_lambda_perm_invariant : forall D D' k t, Permutation D D' -> lambda D k t = lambda D' k t.
Proof. exact lambda_perm_invariant. Qed.
Print Assumptions C18_lambda_perm_invariant.

Theorem C18_lambda_zero_beyond : forall D k t, (length D <= k)%nat -> lambda D k t = 0.
Proof. exact lambda_zero_beyond. Qed.
Print Assumptions C18_lambda_zero_beyond.

(* lambda_0 is the pointwise maximum of the tents, and every lambda_k below the number of intervals is one of the tents *)
Theorem C18_lambda_top_dominates : forall D bd t, In bd D -> tent bd t <= lambda D 0 t.
Proof. exact lambda_top_dominates. Qed.
Print Assumptions C18_lambda_top_dominates.

Theorem C18_lambda_is_a_tent : forall D k t, (k < length D)%nat -> exists bd, In bd D /\ lambda D k t == tent bd t.
Proof. exact lambda_is_a_tent. Qed.
Print Assumptions C18_lambda_is_a_tent.

(* the mathematics of one step of the characteristic-point sweep: nested intervals have ordered tents; for crossing
   intervals the pointwise minimum of the two tents is the tent of the intersection point (b', d) that the sweep hands to
   the next level; for disjoint or touching intervals nothing is handed on; the same with the running envelope of the
   tents swept so far in place of the first tent *)
Theorem C18_tent_nested_le : forall b d b' d' t, b <= b' -> d' <= d -> tent (b', d') t <= tent (b, d) t.
Proof. exact tent_nested_le. Qed.
Print Assumptions C18_tent_nested_le.

Theorem C18_tent_cross_min : forall b d b' d' t, b <= b' -> d <= d' -> qmin (tent (b, d) t) (tent (b', d') t) == tent (b', d) t.
Proof. exact tent_cross_min. Qed.
Print Assumptions C18_tent_cross_min.

Theorem C18_tent_disjoint_min : forall b d b' d' t, b <= d -> b' <= d' -> d <= b' -> qmin (tent (b, d) t) (tent (b', d') t) == 0.
Proof. exact tent_disjoint_min. Qed.
Print Assumptions C18_tent_disjoint_min.

Theorem C18_sweep_step_min : forall env bL dL b' d' t,
  tent (bL, dL) t <= env -> env <= qmax 0 (dL - t) -> bL <= b' -> dL <= d' ->
  qmin env (tent (b', d') t) == tent (b', dL) t.
Proof. exact sweep_step_min. Qed.
Print Assumptions C18_sweep_step_min.
Example C18_sweep_step_min_nonvacuous :
  let env := tent (0, 4 # 1) (3 # 1) in tent (0, 4 # 1) (3 # 1) <= env /\ env <= qmax 0 ((4 # 1) - (3 # 1)) /\ 0 <= 2 # 1 /\ 4 # 1 <= 6 # 1.
Proof. vm_compute. repeat split; discriminate. Qed.

(* ---------------------------------------------------------------- the characteristic-point sweep (algorithm model) *)
(* Bq/Dq = birth/death of a characteristic point, Tq t c = its (reduced) tent value, Vq t l = the tent values of a list,
   lexsorted = sorted by birth ascending, death descending (the order of compare_points_sorting), validl = birth <= death,
   epssep = births closer than the tolerance epsi of almost_equal are equal.
   One run of the inner loop of construct_persistence_landscape_from_barcode (one_level = sweep_level with its two inner
   while loops): the list newCharacteristicPoints handed to the next level is again sorted, valid and epsilon-separated and,
   at every t, the (k+1)-th largest tent of the swept list is the k-th largest tent of the handed-on list, for every k.
   This covers every tie-handling branch (equal births, equal deaths, repeated, nested, touching intervals). *)
Theorem C18_sweep_one_level_residual : forall cps lam newc, one_level cps = Some (lam, newc) ->
  lexsorted cps -> validl cps -> epssep cps ->
  lexsorted newc /\ validl newc /\ epssep newc /\
  (forall t k, nth (S k) (sort_desc (Vq t cps)) 0 = nth k (sort_desc (Vq t newc)) 0).
Proof. exact one_level_residual. Qed.
Print Assumptions C18_sweep_one_level_residual.

(* residual j cps = the list of characteristic points that reaches level j.  For every diagram (birth <= death, births
   not closer than epsi unless equal), every level j that the sweep reaches, every t and k: lambda_{j+k}(t) is the k-th
   largest tent of the list swept at level j; in particular lambda_j(t) is the maximum of those tents. *)
Theorem C18_sweep_residual_lambda : forall D j R, valid_diagram D -> eps_separated D -> residual j (first_cps D) = Some R ->
  forall t k, lambda D (j + k) t = nth k (sort_desc (Vq t R)) 0.
Proof. exact sweep_residual_lambda. Qed.
Print Assumptions C18_sweep_residual_lambda.
Example C18_sweep_residual_lambda_nonvacuous :
  let D := [(0, 4 # 1); (1, 3 # 1); (2 # 1, 6 # 1); (0, 4 # 1)] in
  (forall bd, In bd D -> fst bd <= snd bd) /\
  residual 2 (first_cps D) = Some [(2 # 1, 1); (3 # 1, 1)].
Proof.
  split.
  - simpl. intros bd [H|[H|[H|[H|[]]]]]; subst bd; simpl; discriminate.
  - vm_compute. reflexivity.
Qed.

(* mx t l = the maximum of the tents of the characteristic points l at t; boundedl = births and deaths strictly between the
   sentinels -INT_MAX and INT_MAX.  One level of the sweep: the breakpoint list stored for the level (after std::unique) is
   strictly increasing, has ordinate 0 at its two outer points on either side, runs from -INF to INF, and its PL
   interpolation is the upper envelope of the swept tents *)
Theorem C18_sweep_one_level_envelope : forall cps F newc, one_level cps = Some (F, newc) ->
  lexsorted cps -> validl cps -> epssep cps -> boundedl cps ->
  xsorted F /\ (3 <= length F)%nat /\
  snd (nthp F 0) == 0 /\ snd (nthp F 1) == 0 /\ snd (nthp F (length F - 2)) == 0 /\ snd (nthp F (length F - 1)) == 0 /\
  fst (nthp F 0) == - INF /\ fst (nthp F (length F - 1)) == INF /\
  forall t, - INF < t -> interp F t == mx t cps.
Proof. exact one_level_envelope. Qed.
Print Assumptions C18_sweep_one_level_envelope.

(* THE CONSTRUCTION EQUALS THE DEFINITION.  For every finite diagram with birth <= death, coordinates strictly between the
   sentinels and births that are not closer than the tolerance 5e-6 unless equal: the landscape built by the transcribed
   construct_persistence_landscape_from_barcode (sort, characteristic points, sweep with all its tie-handling branches,
   std::unique) and evaluated by the transcribed compute_value_at_a_given_point (support test, bisection, function_value)
   yields lambda_k(t), the k-th largest tent value, for every level k and every abscissa t between the sentinels. *)
Theorem C18_sweep_eq_lambda : forall D land, valid_diagram D -> eps_separated D -> bounded_diagram D ->
  construct D 0 = Some land ->
  forall k t, - INF < t -> t < INF -> exists v, value_at land k t = Some v /\ v == lambda D k t.
Proof. exact sweep_eq_lambda. Qed.
Print Assumptions C18_sweep_eq_lambda.

(* the fuel of the transcription (a Coq artefact; the C++ loops have none) never runs out ... *)
Theorem C18_construct_total : forall D, exists land, construct D 0 = Some land.
Proof. exact construct_total. Qed.
Print Assumptions C18_construct_total.

(* ... so that for every admissible diagram the transcribed constructor returns a landscape all of whose levels evaluate
   to the definition *)
Theorem C18_landscape_equals_definition : forall D, valid_diagram D -> eps_separated D -> bounded_diagram D ->
  exists land, construct D 0 = Some land /\
    forall k t, - INF < t -> t < INF -> exists v, value_at land k t = Some v /\ v == lambda D k t.
Proof. exact landscape_equals_definition. Qed.
Print Assumptions C18_landscape_equals_definition.
Example C18_landscape_equals_definition_nonvacuous :
  let D := [(0, 6 # 1); (0, 2 # 1); (0, 4 # 1); (2 # 1, 4 # 1); (4 # 1, 8 # 1)] in
  valid_diagram D /\ eps_separated D /\ bounded_diagram D.
Proof.
  repeat split.
  - intros bd H. simpl in H. repeat (destruct H as [H|H]; [subst bd; simpl; discriminate|]). destruct H.
  - intros a b Ha Hb. simpl in Ha, Hb.
    repeat (destruct Ha as [Ha|Ha]; [subst a|]); try destruct Ha;
    repeat (destruct Hb as [Hb|Hb]; [subst b|]); try destruct Hb; simpl; intros H; try reflexivity; try discriminate H.
  - simpl in H. repeat (destruct H as [H|H]; [subst bd; reflexivity|]). destruct H.
  - simpl in H. repeat (destruct H as [H|H]; [subst bd; reflexivity|]). destruct H.
Qed.

(* ---------------------------------------------------------------- piecewise-linear functions *)
(* a PL function takes its ordinate at each of its breakpoints *)
Theorem C18_interp_at_breakpoint : forall l p, xsorted l -> In p l -> interp l (fst p) == snd p.
Proof. exact interp_at_breakpoint. Qed.
Print Assumptions C18_interp_at_breakpoint.

(* two PL functions over the same breakpoint abscissae that agree there agree at every t: a finite comparison decides
   the equality of two functions *)
Theorem C18_pl_determined_by_breakpoints : forall f g, map fst f = map fst g -> xsorted f ->
  (forall x, In x (map fst f) -> interp f x == interp g x) -> forall t, interp f t == interp g t.
Proof. exact pl_determined_by_breakpoints. Qed.
Print Assumptions C18_pl_determined_by_breakpoints.
Example C18_pl_determined_nonvacuous :
  let f := [(0, 0); (1, 1); (2 # 1, 0)] in let g := [(0, 0 # 3); (1, 2 # 2); (2 # 1, 0)] in
  map fst f = map fst g /\ xsorted f /\ forall x, In x (map fst f) -> interp f x == interp g x.
Proof.
  split; [reflexivity|]. split.
  - unfold xsorted; simpl. repeat constructor; reflexivity.
  - simpl. intros x [H|[H|[H|[]]]]; subst x; reflexivity.
Qed.

Theorem C18_pl_add_pointwise : forall f g t, map fst f = map fst g -> interp (pl_add f g) t == interp f t + interp g t.
Proof. exact pl_add_pointwise. Qed.
Print Assumptions C18_pl_add_pointwise.

Theorem C18_pl_sub_pointwise : forall f g t, map fst f = map fst g -> interp (pl_sub f g) t == interp f t - interp g t.
Proof. exact pl_sub_pointwise. Qed.
Print Assumptions C18_pl_sub_pointwise.

Theorem C18_pl_scale_pointwise : forall c f t, interp (pl_scale c f) t == c * interp f t.
Proof. exact pl_scale_pointwise. Qed.
Print Assumptions C18_pl_scale_pointwise.

(* a PL function is linear on every interval that contains none of its breakpoints in its interior *)
Theorem C18_interp_linear_between : forall l a b t, xsorted l -> a < b ->
  (forall p, In p l -> ~ (a < fst p /\ fst p < b)) -> a <= t -> t <= b ->
  interp l t == interp l a + (interp l b - interp l a) * ((t - a) / (b - a)).
Proof. exact interp_linear_between. Qed.
Print Assumptions C18_interp_linear_between.

(* sums and differences on DIFFERENT breakpoint lists: any strictly increasing list r that contains the abscissae of both
   operands and carries f+g (f-g) at its own breakpoints is the pointwise sum (difference) at every t of its range.  The three
   hypotheses are finite checks; the correspondence run compares the breakpoints of every C++ result with the transcribed merge
   and its ordinates with the pointwise operation. *)
Theorem C18_pl_sum_determined : forall l1 l2 r, xsorted l1 -> xsorted l2 -> xsorted r -> r <> [] ->
  (forall p, In p l1 -> exists q, In q r /\ fst q == fst p) ->
  (forall p, In p l2 -> exists q, In q r /\ fst q == fst p) ->
  (forall q, In q r -> snd q == interp l1 (fst q) + interp l2 (fst q)) ->
  forall t, fst (nthp r 0) <= t -> t <= fst (nthp r (length r - 1)) -> interp r t == interp l1 t + interp l2 t.
Proof. exact pl_sum_determined. Qed.
Print Assumptions C18_pl_sum_determined.

Theorem C18_pl_difference_determined : forall l1 l2 r, xsorted l1 -> xsorted l2 -> xsorted r -> r <> [] ->
  (forall p, In p l1 -> exists q, In q r /\ fst q == fst p) ->
  (forall p, In p l2 -> exists q, In q r /\ fst q == fst p) ->
  (forall q, In q r -> snd q == interp l1 (fst q) - interp l2 (fst q)) ->
  forall t, fst (nthp r 0) <= t -> t <= fst (nthp r (length r - 1)) -> interp r t == interp l1 t - interp l2 t.
Proof. exact pl_difference_determined. Qed.
Print Assumptions C18_pl_difference_determined.
Example C18_pl_sum_determined_nonvacuous :
  let l1 := [(0, 0); (2 # 1, 2 # 1); (4 # 1, 0)] in let l2 := [(0, 0); (1, 1); (4 # 1, 0)] in
  let r := [(0, 0); (1, 2 # 1); (2 # 1, (2 # 1) + (2 # 3)); (4 # 1, 0)] in
  xsorted l1 /\ xsorted l2 /\ xsorted r /\
  (forall q, In q r -> snd q == interp l1 (fst q) + interp l2 (fst q)).
Proof.
  repeat split; try (unfold xsorted; simpl; repeat constructor; reflexivity).
  simpl. intros q [H|[H|[H|[H|[]]]]]; subst q; reflexivity.
Qed.

(* algorithm model: operation_on_pair_of_landscapes on one level (merge of the two breakpoint lists with function_value on the
   other operand, the two tail loops, the final sentinel).  level_ok l: strictly increasing abscissae from -INF to INF, at least
   two points, ordinate 0 at the last two points (true of every level built from a diagram and preserved by the operations).
   The merged list is the pointwise sum / difference at every t between the sentinels. *)
Theorem C18_merge_add_pointwise : forall l1 l2 r, level_ok l1 -> level_ok l2 -> merge_level radd l1 l2 = Some r ->
  forall t, - INF <= t -> t <= INF -> interp r t == interp l1 t + interp l2 t.
Proof. exact merge_add_pointwise. Qed.
Print Assumptions C18_merge_add_pointwise.

Theorem C18_merge_sub_pointwise : forall l1 l2 r, level_ok l1 -> level_ok l2 -> merge_level rsub l1 l2 = Some r ->
  forall t, - INF <= t -> t <= INF -> interp r t == interp l1 t - interp l2 t.
Proof. exact merge_sub_pointwise. Qed.
Print Assumptions C18_merge_sub_pointwise.
Example C18_merge_nonvacuous :
  let l1 := [(- INF, 0); (0, 0); (3 # 1, 3 # 1); (6 # 1, 0); (INF, 0)] in
  let l2 := [(- INF, 0); (1, 0); (2 # 1, 1); (3 # 1, 0); (INF, 0)] in
  level_ok l1 /\ level_ok l2 /\
  merge_level rsub l1 l2 = Some [(- INF, 0); (0, 0); (1, 1); (2 # 1, 1); (3 # 1, 3 # 1); (6 # 1, 0); (INF, 0)].
Proof.
  split; [|split].
  - unfold level_ok. repeat split; try reflexivity; try (simpl; lia). unfold xsorted; simpl. repeat constructor; reflexivity.
  - unfold level_ok. repeat split; try reflexivity; try (simpl; lia). unfold xsorted; simpl. repeat constructor; reflexivity.
  - vm_compute. reflexivity.
Qed.

(* END TO END, on whole landscapes of diagrams (admissible = birth <= death, births not closer than 5e-6 unless equal,
   coordinates inside the sentinels): the transcribed constructor applied to A and B, the transcribed operator+ / operator- /
   operator*(double) applied to the results, read back by the transcribed compute_value_at_a_given_point, give
   lambda_k(A)(t) + lambda_k(B)(t), lambda_k(A)(t) - lambda_k(B)(t), c * lambda_k(A)(t) for every level k (also beyond the
   number of levels of either operand) and every t between the sentinels; none of the fuelled functions runs out of fuel. *)
Theorem C18_landscape_sum : forall A B, admissible A -> admissible B ->
  exists la lb s, construct A 0 = Some la /\ construct B 0 = Some lb /\ land_add la lb = Some s /\
    forall k t, - INF < t -> t < INF -> exists v, value_at s k t = Some v /\ v == lambda A k t + lambda B k t.
Proof. exact landscape_sum. Qed.
Print Assumptions C18_landscape_sum.

Theorem C18_landscape_difference : forall A B, admissible A -> admissible B ->
  exists la lb s, construct A 0 = Some la /\ construct B 0 = Some lb /\ land_sub la lb = Some s /\
    forall k t, - INF < t -> t < INF -> exists v, value_at s k t = Some v /\ v == lambda A k t - lambda B k t.
Proof. exact landscape_difference. Qed.
Print Assumptions C18_landscape_difference.

Theorem C18_landscape_scale : forall A c, admissible A ->
  exists la, construct A 0 = Some la /\
    forall k t, - INF < t -> t < INF -> exists v, value_at (land_scale c la) k t = Some v /\ v == c * lambda A k t.
Proof. exact landscape_scale. Qed.
Print Assumptions C18_landscape_scale.

(* compute_average (rounds of pairwise sums, then *= 1/n) of the landscapes of n >= 1 admissible diagrams, read back by
   compute_value_at_a_given_point, is the pointwise mean (lambda_k(D_1)(t) + ... + lambda_k(D_n)(t)) / n *)
Theorem C18_landscape_average : forall Ds, Ds <> [] -> Forall admissible Ds ->
  exists lands s, Forall2 (fun D la => construct D 0 = Some la) Ds lands /\ land_average lands = Some s /\
    forall k t, - INF < t -> t < INF ->
      exists v, value_at s k t = Some v /\ v == sumlambda Ds k t / inject_Z (Z.of_nat (length Ds)).
Proof. exact landscape_average. Qed.
Print Assumptions C18_landscape_average.

(* the function whose integral (L1), squared integral (L2) and maximum (sup) is the distance of two landscapes:
   compute_distance_of_landscapes forms abs(first - second); read back by compute_value_at_a_given_point it is
   |lambda_k(A)(t) - lambda_k(B)(t)| for every level and every t between the sentinels *)
Theorem C18_landscape_abs_difference : forall A B, admissible A -> admissible B ->
  exists la lb s, construct A 0 = Some la /\ construct B 0 = Some lb /\ land_sub la lb = Some s /\
    forall k t, - INF < t -> t < INF ->
      exists v, value_at (land_abs s) k t = Some v /\ v == qabs (lambda A k t - lambda B k t).
Proof. exact landscape_abs_difference. Qed.
Print Assumptions C18_landscape_abs_difference.

(* abs() keeps the shape of a level (the inserted zero crossings lie strictly between their neighbours) *)
Theorem C18_abs_level3 : forall l, level3 l -> level3 (abs_level l).
Proof. exact abs_level3. Qed.
Print Assumptions C18_abs_level3.

(* level3 = the shape of a stored level (strictly increasing from -INF to INF, at least 3 points, ordinate 0 at the two outer
   points on either side).  Levels are closed under the transcribed merge, so that operations can be chained. *)
Theorem C18_merge_level_closed_add : forall l1 l2, level3 l1 -> level3 l2 ->
  exists r, merge_level radd l1 l2 = Some r /\ level3 r /\
    (forall t, - INF <= t -> t <= INF -> interp r t == radd (interp l1 t) (interp l2 t)) /\
    (forall t, - INF < t -> t < INF -> exists v, value_at [r] 0 t = Some v /\ v == radd (interp l1 t) (interp l2 t)).
Proof. exact merge_level_closed_add. Qed.
Print Assumptions C18_merge_level_closed_add.
Example C18_admissible_nonvacuous :
  admissible [(0, 6 # 1); (0, 2 # 1); (0, 4 # 1); (2 # 1, 4 # 1); (4 # 1, 8 # 1)].
Proof. exact C18_landscape_equals_definition_nonvacuous. Qed.

(* algorithm model: one level of multiply_lanscape_by_real_number_not_overwrite is the pointwise multiple *)
Theorem C18_scale_level_pointwise : forall c f t, interp (scale_level c f) t == c * interp f t.
Proof. exact scale_level_pointwise. Qed.
Print Assumptions C18_scale_level_pointwise.

(* algorithm model: compute_value_at_a_given_point (support test + bisection + function_value) on a level with strictly
   increasing abscissae whose two outermost points on each side have ordinate 0 returns, for every x between the
   sentinels, the PL interpolation of the stored breakpoints; the fuel never runs out *)
Theorem C18_value_at_is_interp : forall l x, xsorted l -> (3 <= length l)%nat ->
  snd (nthp l 0) == 0 -> snd (nthp l 1) == 0 -> snd (nthp l (length l - 2)) == 0 -> snd (nthp l (length l - 1)) == 0 ->
  fst (nthp l 0) < x -> x < fst (nthp l (length l - 1)) ->
  exists v, value_at [l] 0 x = Some v /\ v == interp l x.
Proof. exact value_at_is_interp. Qed.
Print Assumptions C18_value_at_is_interp.
Example C18_value_at_is_interp_nonvacuous :
  let l := [(- INF, 0); (0, 0); (3 # 1, 3 # 1); (6 # 1, 0); (INF, 0)] in
  xsorted l /\ (3 <= length l)%nat /\ snd (nthp l 0) == 0 /\ snd (nthp l 1) == 0 /\ snd (nthp l (length l - 2)) == 0 /\
  snd (nthp l (length l - 1)) == 0 /\ fst (nthp l 0) < 2 # 1 /\ 2 # 1 < fst (nthp l (length l - 1)).
Proof.
  repeat split; try reflexivity; try (simpl; lia).
  unfold xsorted; simpl. repeat constructor; reflexivity.
Qed.

(* algorithm model: abs() on one level (zero crossings inserted by find_zero_of_a_line_segment_between_those_two_points)
   is the pointwise absolute value of the PL function, at every t *)
Theorem C18_abs_level_pointwise : forall l t, xsorted l -> snd (nthp l 0) == 0 -> fst (nthp l 0) = - INF ->
  interp (abs_level l) t == qabs (interp l t).
Proof. exact abs_level_pointwise. Qed.
Print Assumptions C18_abs_level_pointwise.
Example C18_abs_level_pointwise_nonvacuous :
  let l := [(- INF, 0); (0, 0); (1, 1); (3 # 1, -1); (4 # 1, 0); (INF, 0)] in
  xsorted l /\ snd (nthp l 0) == 0 /\ fst (nthp l 0) = - INF /\
  abs_level l = [(- INF, 0); (0, 0); (1, 1); (2 # 1, 0); (3 # 1, 1); (4 # 1, 0); (INF, 0)].
Proof.
  repeat split; try reflexivity.
  unfold xsorted; simpl. repeat constructor; reflexivity.
Qed.

(* on a segment the absolute value of a linear function stays below the larger end value: the sup distance of PL
   functions is attained at a breakpoint *)
Theorem C18_segment_below_ends : forall u v s, 0 <= s -> s <= 1 -> qabs (u + (v - u) * s) <= qmax (qabs u) (qabs v).
Proof. exact segment_below_ends. Qed.
Print Assumptions C18_segment_below_ends.

(* ---------------------------------------------------------------- sup distance *)
Theorem C18_distsup_sym : forall us vs, distsup us vs == distsup vs us.
Proof. exact distsup_sym. Qed.
Print Assumptions C18_distsup_sym.

Theorem C18_distsup_refl_zero : forall us, distsup us us == 0.
Proof. exact distsup_refl. Qed.
Print Assumptions C18_distsup_refl_zero.

Theorem C18_triangle_sup : forall us vs ws, length us = length vs -> length vs = length ws ->
  distsup us ws <= distsup us vs + distsup vs ws.
Proof. exact distsup_triangle. Qed.
Print Assumptions C18_triangle_sup.

(* ---------------------------------------------------------------- L1 distance (exact integral of |f - g|) *)
(* the integral over [0,1] of the absolute value of the linear function with end values (u,v) is subadditive *)
Theorem C18_seg_abs_triangle : forall a b a' b', seg_abs (a + a') (b + b') <= seg_abs a b + seg_abs a' b'.
Proof. exact seg_abs_triangle. Qed.
Print Assumptions C18_seg_abs_triangle.

Theorem C18_dist1_sym : forall xs us vs, dist1 xs us vs == dist1 xs vs us.
Proof. exact dist1_sym. Qed.
Print Assumptions C18_dist1_sym.

Theorem C18_dist1_refl_zero : forall xs us, dist1 xs us us == 0.
Proof. exact dist1_refl. Qed.
Print Assumptions C18_dist1_refl_zero.

Theorem C18_dist1_nonneg : forall xs us vs, StronglySorted Qle xs -> 0 <= dist1 xs us vs.
Proof. exact dist1_nonneg. Qed.
Print Assumptions C18_dist1_nonneg.

Theorem C18_triangle_L1 : forall xs us vs ws, StronglySorted Qle xs -> length us = length vs -> length vs = length ws ->
  dist1 xs us ws <= dist1 xs us vs + dist1 xs vs ws.
Proof. exact dist1_triangle. Qed.
Print Assumptions C18_triangle_L1.
Example C18_triangle_L1_nonvacuous :
  let xs := [0; 1; 2 # 1; 3 # 1] in let us := [0; 1; 0; 0] in let vs := [0; 0; 1; 0] in let ws := [0; 1 # 2; 1 # 2; 0] in
  StronglySorted Qle xs /\ length us = length vs /\ length vs = length ws /\
  dist1 xs us ws == 3 # 4 /\ dist1 xs us vs == 3 # 2 /\ dist1 xs vs ws == 3 # 4.
Proof.
  repeat split; try reflexivity.
  repeat constructor; discriminate.
Qed.

(* ---------------------------------------------------------------- L2 distance (squared) and inner product *)
Theorem C18_dist2sq_sym : forall xs us vs, dist2sq xs us vs == dist2sq xs vs us.
Proof. exact dist2sq_sym. Qed.
Print Assumptions C18_dist2sq_sym.

Theorem C18_dist2sq_refl_zero : forall xs us, dist2sq xs us us == 0.
Proof. exact dist2sq_refl. Qed.
Print Assumptions C18_dist2sq_refl_zero.

Theorem C18_inner_sym : forall xs us vs, inner xs us vs == inner xs vs us.
Proof. exact inner_sym. Qed.
Print Assumptions C18_inner_sym.

Theorem C18_inner_additive : forall xs us us' vs, length us = length us' ->
  inner xs (vadd us us') vs == inner xs us vs + inner xs us' vs.
Proof. exact inner_add_l. Qed.
Print Assumptions C18_inner_additive.

Theorem C18_inner_homogeneous : forall xs k us vs, inner xs (vscale k us) vs == k * inner xs us vs.
Proof. exact inner_scale_l. Qed.
Print Assumptions C18_inner_homogeneous.

Theorem C18_inner_additive_right : forall xs us vs vs', length vs = length vs' ->
  inner xs us (vadd vs vs') == inner xs us vs + inner xs us vs'.
Proof. exact inner_add_r. Qed.
Print Assumptions C18_inner_additive_right.

Theorem C18_inner_self_is_norm2sq : forall xs us, inner xs us us == norm2sq xs us.
Proof. exact inner_self_is_norm2sq. Qed.
Print Assumptions C18_inner_self_is_norm2sq.

Theorem C18_cauchy_schwarz : forall xs us vs, StronglySorted Qle xs -> length us = length vs ->
  inner xs us vs * inner xs us vs <= norm2sq xs us * norm2sq xs vs.
Proof. exact cauchy_schwarz. Qed.
Print Assumptions C18_cauchy_schwarz.

(* triangle inequality of the L2 norm, stated without square roots: rational bounds na, nb of the two norms add up *)
Theorem C18_triangle_L2 : forall xs us vs na nb, StronglySorted Qle xs -> length us = length vs ->
  0 <= na -> 0 <= nb -> norm2sq xs us <= na * na -> norm2sq xs vs <= nb * nb ->
  norm2sq xs (vadd us vs) <= (na + nb) * (na + nb).
Proof. exact norm2_triangle. Qed.
Print Assumptions C18_triangle_L2.
Example C18_triangle_L2_nonvacuous :
  let xs := [0; 1; 2 # 1] in let us := [0; 3 # 1; 0] in let vs := [0; 0; 3 # 1] in
  StronglySorted Qle xs /\ length us = length vs /\ norm2sq xs us <= 3 * 3 /\ norm2sq xs vs <= 2 * 2.
Proof. repeat split; try reflexivity; try discriminate. repeat constructor; discriminate. Qed.

(* ---------------------------------------------------------------- the grid evaluation before the repair in /repo *)
(* faithful model of compute_value_at_a_given_point with the test `values[position].size() < level`: at a grid point it
   returns 0 where lambda is positive ... *)
Theorem C18_grid_value_unrepaired_refuted :
  exists D gmin gmax npts level x,
    aligned D gmin gmax npts = true /\
    grid_value false (grid_setup D gmin gmax npts 0) gmin gmax level x = Some 0 /\ 0 < lambda D level x.
Proof. exact grid_value_unrepaired_refuted. Qed.
Print Assumptions C18_grid_value_unrepaired_refuted.
(* ... and reads past the end of the vector of the grid point otherwise (None models the out-of-bounds read) *)
Theorem C18_grid_value_unrepaired_out_of_bounds_refuted :
  exists D gmin gmax npts level x,
    aligned D gmin gmax npts = true /\
    grid_value false (grid_setup D gmin gmax npts 0) gmin gmax level x = None.
Proof. exact grid_value_unrepaired_reads_out_of_bounds. Qed.
Print Assumptions C18_grid_value_unrepaired_out_of_bounds_refuted.

(* the repaired evaluation (grid_value true) at every grid point gmin + i*dx returns the value stored for that grid point
   and level (0 when the level is absent) — what the unrepaired test got wrong *)
Theorem C18_grid_value_at_grid_point : forall vals gmin gmax level (i : nat),
  gmin < gmax -> (2 <= length vals)%nat -> (i <= length vals - 1)%nat ->
  grid_value true vals gmin gmax level (gmin + inject_Z (Z.of_nat i) * ((gmax - gmin) / inject_Z (Z.of_nat (length vals - 1))))
  = Some (gval0 vals i level).
Proof. exact grid_value_at_grid_point. Qed.
Print Assumptions C18_grid_value_at_grid_point.

(* ---------------------------------------------------------------- not proved: compared per input by the correspondence run *)
(* for grid-aligned diagrams the repaired grid evaluation equals lambda_k at and between grid points *)
Definition C18_grid_value_eq_lambda_full : Prop :=
  forall D gmin gmax npts k t, aligned D gmin gmax npts = true -> gmin <= t -> t <= gmax ->
    match grid_value true (grid_setup D gmin gmax npts 0) gmin gmax k t with Some v => v == lambda D k t | None => False end.
(* the algorithmic distances equal the specification's integrals (alg_dist_pow 1 = spec_dist1 etc.) *)
Definition C18_alg_dist1_eq_spec_full : Prop :=
  forall A B la lb, valid_diagram A -> valid_diagram B -> construct A 0 = Some la -> construct B 0 = Some lb ->
    match alg_dist_pow 1 la lb with Some v => v == spec_dist1 A B | None => False end.

(* sanity of the transcription on a concrete diagram with ties (equal births): three levels, peaks 3, 2, 1 *)
Example C18_sweep_example :
  construct [(0, 6 # 1); (0, 2 # 1); (0, 4 # 1)] 0 =
  Some [[(- INF, 0); (0, 0); (3 # 1, 3 # 1); (6 # 1, 0); (INF, 0)];
        [(- INF, 0); (0, 0); (2 # 1, 2 # 1); (4 # 1, 0); (INF, 0)];
        [(- INF, 0); (0, 0); (1, 1); (2 # 1, 0); (INF, 0)]].
Proof. vm_compute. reflexivity. Qed.
