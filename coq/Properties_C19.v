(* C19 - The sparse Rips filtration stays within its approximation guarantee.
   Algorithm model: C19_Model.v ([lambdas]/[greedyb] farthest-point order and insertion radii, [nkeep] the mini cut, [edge_val] the
   edge rule of compute_sparse_graph with both cut-offs and maxi, [blocked] the vertex-death blocker, [expand] the expansion
   (with blockers), [sparse_complex] the whole of constructor + create_complex).  Specification: [in_rips d s f] = s is a simplex
   of the Rips complex at scale f (all pairwise distances <= f); [valid] = closed under facets with monotone values.
   Proofs: C19_Proofs.v (non-vacuity examples ex_greedy, ex_order_ok, ex_sparse_size there).
   Distances are over Q, vertices are indices; the farthest-point order pi is ANY list (theorems 1-3 need nothing about it). *)
From Coq Require Import List ZArith QArith Bool Znumtheory.
Require Import Reduce ReduceExec C19_Model C19_Proofs C19_Proofs2.
Import ListNotations.
Open Scope Q_scope.

(* 1. every edge that compute_sparse_graph keeps has a value >= the distance of its end points (its Rips value),
      for every epsilon > 0, whatever lambda_i, lambda_j (None = +infinity) and maxi are *)
Theorem C19_alpha_ge_d : forall (eps : Q) (maxi li lj : option Q) (dd a : Q),
  0 < eps -> edge_val eps maxi li lj dd = Some a -> dd <= a.
Proof. exact edge_val_ge. Qed.
Print Assumptions C19_alpha_ge_d.

(* 2. sparse is a subcomplex of Rips and never earlier: every simplex s of the sparse complex with value f has all its pairwise
      distances <= f, i.e. it belongs to the Rips complex at scale f (so its Rips value is <= f).  Every epsilon > 0 (also >= 1),
      every mini / maxi, every dim_max, every order. *)
Theorem C19_sparse_subcomplex_never_earlier :
  forall (d : nat -> nat -> Q), (forall u v, d u v == d v u) ->
  forall (eps : Q), 0 < eps ->
  forall (N : nat) (pi : list nat) (mini maxi : option Q) (dim_max : Z) (s : list nat) (f : Q),
  In (s, f) (sparse_complex d eps N pi mini maxi dim_max) -> in_rips d s f.
Proof. intros d Hs eps He. exact (sparse_in_rips d Hs eps He). Qed.
Print Assumptions C19_sparse_subcomplex_never_earlier.

(* 3. the output is a filtered simplicial complex: every non-empty facet of every simplex is present with a value that is not
      larger.  Every epsilon > 0 including epsilon >= 1 (plain expansion), finite mini / maxi included. *)
Theorem C19_sparse_valid_filtration :
  forall (d : nat -> nat -> Q), (forall u v, 0 <= d u v) ->
  forall (eps : Q), 0 < eps ->
  forall (N : nat) (pi : list nat) (mini maxi : option Q) (dim_max : Z),
  valid (sparse_complex d eps N pi mini maxi dim_max).
Proof. intros d Hn eps He. exact (sparse_valid d Hn eps He). Qed.
Print Assumptions C19_sparse_valid_filtration.

(* 2b. the same in terms of the Rips VALUE (largest pairwise distance, 0 for a vertex): sparse value >= Rips value *)
Theorem C19_sparse_value_ge_rips_value :
  forall (d : nat -> nat -> Q), (forall u v, d u v == d v u) -> (forall u v, 0 <= d u v) ->
  forall (eps : Q), 0 < eps -> (forall u, d u u == 0) ->
  forall (N : nat) (pi : list nat) (mini maxi : option Q) (dim_max : Z) (s : list nat) (f : Q),
  In (s, f) (sparse_complex d eps N pi mini maxi dim_max) -> rips_val d s <= f.
Proof. intros d Hs Hn eps He Hd. exact (sparse_value_ge_rips_value d Hs Hn eps He Hd). Qed.
Print Assumptions C19_sparse_value_ge_rips_value.

(* 3b. every simplex of the output is a non-empty strictly increasing list of points of the order (a face of the simplex on the
       input points), as soon as the order has no repeated point *)
Theorem C19_sparse_simplices_wellformed :
  forall (d : nat -> nat -> Q) (eps : Q) (N : nat) (pi : list nat) (mini maxi : option Q) (dim_max : Z) (s : list nat) (f : Q),
  NoDup pi -> In (s, f) (sparse_complex d eps N pi mini maxi dim_max) ->
  increasingb s = true /\ s <> [] /\ forall v, In v s -> In v pi.
Proof. exact sparse_simplices_wf. Qed.
Print Assumptions C19_sparse_simplices_wellformed.

(* 2c / 3c. the same two clauses for the model that FOLLOWS THE TRAVERSAL of the simplex tree ([sparse_complex_trie]:
   siblings_expansion_with_blockers with its reverse loops and its look-ups of the borders in the tree built so far when
   epsilon < 1; siblings_expansion / create_expansion / intersection when epsilon >= 1).  With blockers the facets are looked up
   by the code itself; for epsilon >= 1 the code never looks at the other facets, and closure under faces is the completeness of
   the plain flag expansion: every increasing clique is produced (sib_plain_complete), with a value attained by one of its edges
   and bounding all of them (sib_plain_sound). *)
Theorem C19_trie_subcomplex_never_earlier :
  forall (d : nat -> nat -> Q), (forall u v, d u v == d v u) ->
  forall (eps : Q), 0 < eps ->
  forall (N : nat) (pi : list nat) (mini maxi : option Q) (dim_max : Z) (s : list nat) (f : Q),
  In (s, f) (sparse_complex_trie d eps N pi mini maxi dim_max) -> in_rips d s f.
Proof. intros d Hs eps He. exact (sparse_trie_in_rips d Hs eps He). Qed.
Print Assumptions C19_trie_subcomplex_never_earlier.

Theorem C19_trie_valid_filtration_with_blockers :
  forall (d : nat -> nat -> Q), (forall u v, d u v == d v u) -> (forall u v, 0 <= d u v) ->
  forall (eps : Q), 0 < eps ->
  forall (N : nat) (pi : list nat) (mini maxi : option Q) (dim_max : Z),
  eps < 1 -> valid (sparse_complex_trie d eps N pi mini maxi dim_max).
Proof. intros d Hs Hn eps He. exact (sparse_trie_valid_blk d Hs Hn eps He). Qed.
Print Assumptions C19_trie_valid_filtration_with_blockers.

Theorem C19_trie_valid_filtration_plain :
  forall (d : nat -> nat -> Q), (forall u v, 0 <= d u v) ->
  forall (eps : Q), 0 < eps ->
  forall (N : nat) (pi : list nat) (mini maxi : option Q) (dim_max : Z),
  NoDup pi -> 1 <= eps -> valid (sparse_complex_trie d eps N pi mini maxi dim_max).
Proof. intros d Hn eps He. exact (sparse_trie_valid_plain d Hn eps He). Qed.
Print Assumptions C19_trie_valid_filtration_plain.

(* 4. the insertion radii of ANY farthest-point order (any start, any tie-breaking; also a prefix of one) never increase *)
Theorem C19_radii_nonincreasing : forall (d : nat -> nat -> Q) (N : nat) (pi : list nat),
  greedyb d N [] pi = true -> noninc (lambdas d pi).
Proof. exact radii_nonincreasing. Qed.
Print Assumptions C19_radii_nonincreasing.

(* 4b. such orders exist from every starting point (greedy_from: first farthest point in index order), so 4 is not vacuous *)
Theorem C19_farthest_point_order_exists : forall (d : nat -> nat -> Q) (N s : nat),
  (s < N)%nat -> greedyb d N [] (greedy_from d N s) = true.
Proof. exact greedy_from_greedy. Qed.
Print Assumptions C19_farthest_point_order_exists.

(* 5. the boolean checks evaluated on the C++ output by the oracle mean what they say *)
Theorem C19_sub_never_check_sound : forall (d : nat -> nat -> Q) (K : cplx),
  sub_neverb d K = true -> forall s f, In (s, f) K -> in_rips d s f.
Proof. exact sub_neverb_sound. Qed.
Print Assumptions C19_sub_never_check_sound.

Theorem C19_valid_check_sound : forall K : cplx, validb K = true -> valid K.
Proof. exact validb_sound. Qed.
Print Assumptions C19_valid_check_sound.

(* a certificate accepted by check_matching is a partial matching of the two diagrams in which matched bars have the same
   dimension, births and deaths within the factor c (infinite with infinite), and every unmatched bar dies within c^2 of its birth *)
Theorem C19_matching_check_sound : forall (c : Q) (A B : list bar) (M : list (nat * nat)),
  check_matching c A B M = true ->
  NoDup (map fst M) /\ NoDup (map snd M) /\
  (forall i j, In (i, j) M -> exists a b, nth_error A i = Some a /\ nth_error B j = Some b /\ bar_match c a b = true) /\
  (forall i a, nth_error A i = Some a -> In i (map fst M) \/ bar_small c a = true) /\
  (forall j b, nth_error B j = Some b -> In j (map snd M) \/ bar_small c b = true).
Proof. exact check_matching_sound. Qed.
Print Assumptions C19_matching_check_sound.

(* NOT PROVED (literature: Sheehy 2013; Cavanna, Jahanseir, Sheehy 2015): for a metric, 0 < epsilon < 1 and a complete
   farthest-point order, the barcodes of the sparse and of the Rips filtration (computed by the certified reduction over any prime
   field, in the dimensions below dim) admit a matching within the multiplicative factor 1/(1-epsilon).  Missing: the whole theory
   of interleavings and the stability theorem.  This statement is MEASURED on every generated metric by the check. *)
Definition metric (d : nat -> nat -> Q) : Prop :=
  (forall u v, d u v == d v u) /\ (forall u, d u u == 0) /\ (forall u v, u <> v -> 0 < d u v) /\
  (forall u v w, d u w <= d u v + d v w).
Definition C19_interleaving_full : Prop :=
  forall (d : nat -> nat -> Q) (N : nat) (pi : list nat) (eps : Q) (dim : nat) (p : Z),
  metric d -> 0 < eps -> eps < 1 -> (1 <= dim)%nat -> prime p ->
  greedyb d N [] pi = true -> length pi = N ->
  forall A B, bars p (sparse_complex d eps N pi None None (Z.of_nat dim)) = Some A ->
              bars p (rips_complex d N dim) = Some B ->
              within (1 / (1 - eps)) (bars_below dim A) (bars_below dim B).
