(* C20 — Coxeter / Freudenthal-Kuhn triangulations: consistent face lattice and exact point location.
   Property theorems only: each is closed by [exact <lemma of C20_Locate / C20_Combi / C20_Proofs>] and followed by
   Print Assumptions.  The algorithm models (vertex_range, faces, cofaces, is_face_of, combinations, int_combinations,
   osp_iter, locate_z, ...) are the transcriptions in C20_Model.v of Permutahedral_representation.h, its iterators and
   Freudenthal_triangulation::locate_point; the specification is written with vertex sets and convex combinations
   (comb_coord, interior_witness, in_rel_interior, spec_is_face, faces_ok, cofaces_ok, faces_cofaces_ok).
   Points are given with a common denominator: x_i = n_i / D; weights are numerators over D (they sum to D).
   [canonical s]: ordered partition of {0..d} (d = length of the vertex), non-empty parts, d in the last part.
   [sorted_parts s]: every part is listed increasingly (what face_range / coface_range return; operator== compares
   parts as sequences). *)
From Coq Require Import ZArith QArith List Lia Permutation.
Import ListNotations.
Require Import C20_Model C20_Locate C20_Combi C20_Affine C20_Iter C20_Proofs.
Local Open Scope Z_scope.

(* ================================================================== vertices (every dimension) *)
(* a k-simplex has k+1 pairwise distinct vertices *)
Theorem C20_vertices_distinct_count : forall s, canonical s ->
  length (vertex_range s) = S (dimension s) /\ NoDup (vertex_range s).
Proof. exact vertices_distinct_count. Qed.
Print Assumptions C20_vertices_distinct_count.

Example C20_canonical_nonvacuous :
  canonical ([0; 0; 0], [[1]; [0; 2]; [3]]%nat) /\ sorted_parts ([0; 0; 0], [[1]; [0; 2]; [3]]%nat).
Proof. exact canonical_example. Qed.

(* the boolean validity test that the oracle evaluates on every simplex returned by the implementation is [canonical] *)
Theorem C20_valid_simplex_canonical : forall s, valid_simplex s = true -> canonical s.
Proof. exact valid_simplex_canonical. Qed.
Print Assumptions C20_valid_simplex_canonical.

Theorem C20_canonical_valid_simplex : forall s, canonical s -> valid_simplex s = true.
Proof. exact canonical_valid_simplex. Qed.
Print Assumptions C20_canonical_valid_simplex.

(* ================================================================== faces (every dimension) *)
(* the number of k-faces is (dim+1 choose k+1) *)
Theorem C20_face_count : forall s k, (k <= dimension s)%nat ->
  length (faces k s) = binom (S (dimension s)) (S k).
Proof. exact length_faces. Qed.
Print Assumptions C20_face_count.

(* every enumerated face is a valid k-simplex with k+1 distinct vertices taken among those of s, and is recognised *)
Theorem C20_faces_sound : forall s k f, canonical s -> In f (faces k s) ->
  valid_simplex f = true /\ dimension f = k /\ length (fst f) = length (fst s) /\
  incl (vertex_range f) (vertex_range s) /\ NoDup (vertex_range f) /\
  spec_is_face f s = true /\ is_face_of f s = true.
Proof. exact faces_sound. Qed.
Print Assumptions C20_faces_sound.

(* the k-faces are exactly the vertex subsets: right number, all valid and inside s, pairwise different vertex sets *)
Theorem C20_faces_are_exactly_the_vertex_subsets : forall s k, canonical s -> (k <= dimension s)%nat ->
  faces_ok k s = true.
Proof. exact faces_ok_every_dim. Qed.
Print Assumptions C20_faces_are_exactly_the_vertex_subsets.

(* ================================================================== cofaces (every dimension) *)
(* every enumerated coface is a valid simplex of the requested dimension that contains s and recognises it *)
Theorem C20_cofaces_sound : forall s l c', canonical s -> (dimension s <= l <= length (fst s))%nat ->
  In c' (cofaces l s) ->
  valid_simplex c' = true /\ dimension c' = l /\ length (fst c') = length (fst s) /\
  incl (vertex_range s) (vertex_range c') /\ spec_is_face s c' = true /\ is_face_of s c' = true.
Proof. exact cofaces_sound. Qed.
Print Assumptions C20_cofaces_sound.

Theorem C20_cofaces_no_repetition : forall s l, canonical s -> (dimension s <= l <= length (fst s))%nat ->
  NoDup (cofaces l s).
Proof. exact NoDup_cofaces. Qed.
Print Assumptions C20_cofaces_no_repetition.

(* ... and lists s among its faces (cofaces_ok bundles all of it) *)
Theorem C20_cofaces_contain_and_list_the_simplex : forall s l, canonical s -> sorted_parts s ->
  (dimension s <= l <= length (fst s))%nat -> cofaces_ok l s = true.
Proof. exact cofaces_ok_every_dim. Qed.
Print Assumptions C20_cofaces_contain_and_list_the_simplex.

(* conversely a simplex is enumerated among the cofaces of each of its faces: coface <-> face *)
Theorem C20_coface_iff_face : forall s k, canonical s -> sorted_parts s -> (k <= dimension s)%nat ->
  faces_cofaces_ok k s = true.
Proof. exact faces_cofaces_ok_every_dim. Qed.
Print Assumptions C20_coface_iff_face.

(* the hypothesis sorted_parts is needed: simplices are compared as sequences (as operator== does) and face_range /
   coface_range return increasingly listed parts; concrete witness *)
Theorem C20_sorted_parts_needed_for_syntactic_equality :
  canonical ([0], [[1; 0]]%nat) /\ cofaces_ok 1 ([0], [[1; 0]]%nat) = false /\
  faces_cofaces_ok 0 ([0], [[1; 0]]%nat) = false.
Proof. exact cofaces_ok_needs_sorted_parts. Qed.
Print Assumptions C20_sorted_parts_needed_for_syntactic_equality.

(* is_face_of decides inclusion of vertex sets *)
Theorem C20_is_face_of_iff_vertex_subset : forall s t, canonical s -> canonical t ->
  is_face_of s t = spec_is_face s t.
Proof. exact is_face_of_iff_spec. Qed.
Print Assumptions C20_is_face_of_iff_vertex_subset.

(* the representation is faithful: same vertex set, same simplex *)
Theorem C20_same_vertex_set_same_simplex : forall s t, canonical s -> canonical t -> sorted_parts s -> sorted_parts t ->
  same_vset s t = true -> s = t.
Proof. exact same_vset_eq. Qed.
Print Assumptions C20_same_vertex_set_same_simplex.

(* ================================================================== the helper iterators (every size) *)
(* Combination_iterator enumerates the k-subsets of {0..n-1} in lexicographic order *)
Theorem C20_combination_iterator : forall n k, (1 <= k <= n)%nat -> combinations n k = all_combs n k 0.
Proof. exact combinations_all. Qed.
Print Assumptions C20_combination_iterator.

(* Integer_combination_iterator enumerates exactly the vectors c <= bounds with sum n, each once *)
Theorem C20_integer_combination_iterator_sound : forall n k bnds, length bnds = k -> (n <= list_sum bnds)%nat ->
  forall c, In c (int_combinations n k bnds) -> length c = k /\ list_sum c = n.
Proof. exact int_combinations_sound_holds. Qed.
Print Assumptions C20_integer_combination_iterator_sound.

Theorem C20_integer_combination_iterator_complete : forall n k bnds c, length bnds = k -> length c = k ->
  (forall i, (i < k)%nat -> (nthn c i <= nthn bnds i)%nat) -> list_sum c = n -> In c (int_combinations n k bnds).
Proof. exact int_combinations_complete. Qed.
Print Assumptions C20_integer_combination_iterator_complete.

Theorem C20_integer_combination_iterator_no_repetition : forall n k bnds, length bnds = k ->
  (n <= list_sum bnds)%nat -> NoDup (int_combinations n k bnds).
Proof. exact NoDup_int_combinations. Qed.
Print Assumptions C20_integer_combination_iterator_no_repetition.

(* the state machine of Ordered_set_partition_iterator (restricted growth strings x permutations) enumerates the set
   the coface model uses; by computation, bound in the statement (parts of simplices in ambient dimension <= 4) *)
Theorem C20_ordered_set_partition_iterator_le5 : forall n k, (1 <= k <= n)%nat -> (n <= 5)%nat ->
  Permutation (osp_iter n k) (osp n k).
Proof. exact osp_iter_enumerates_osp_le5. Qed.
Print Assumptions C20_ordered_set_partition_iterator_le5.

(* the state machine of Coface_iterator::increment (odometer over the ordered-set-partition iterators with
   reinitialize(), then the next integer combination) enumerates exactly the set-level [cofaces] the theorems above
   speak about; by computation over all ordered partitions, ambient dimension <= 5 (bound in the statement), every vertex *)
Theorem C20_coface_iterator_state_machine_le5 : forall s l, (1 <= length (fst s) <= 5)%nat ->
  valid_simplex s = true -> sorted_parts s -> Permutation (cofaces_iter l s) (cofaces l s).
Proof. exact cofaces_iter_perm_valid_le5. Qed.
Print Assumptions C20_coface_iterator_state_machine_le5.

(* ================================================================== locate_point (every dimension) *)
(* the located simplex has the point as a strictly positive convex combination of its vertices *)
Theorem C20_locate_barycentric : forall (ns : list Z) (D : Z), 0 < D ->
  let s := locate_z ns D in let ws := locate_weights ns D in let vs := vertex_range s in
  length ws = length vs /\ Forall (fun w => 0 < w) ws /\ zsum ws = D /\
  forall i, (i < length ns)%nat -> nthz ns i = comb_coord ws vs i.
Proof. exact locate_barycentric. Qed.
Print Assumptions C20_locate_barycentric.

(* ... and is a simplex of the triangulation in canonical form *)
Theorem C20_locate_valid : forall ns D, 0 < D -> valid_simplex (locate_z ns D) = true.
Proof. exact locate_valid. Qed.
Print Assumptions C20_locate_valid.

(* uniqueness: relative interiors of distinct simplices are disjoint.  Any canonical simplex having the point as a
   strictly positive convex combination of its vertices has the floor vector as vertex, and its ordered partition is
   the order of the fractional parts *)
Theorem C20_locate_unique : forall (ns : list Z) (D : Z) (v : vertex) (ps : opart) (ws : list Z),
  let d := length ns in let s := (v, ps) in
  length v = d -> ps <> [] -> Forall (fun p => p <> []) ps -> NoDup (concat ps) ->
  (forall i, In i (concat ps) <-> (i <= d)%nat) -> In d (last ps []) ->
  length ws = length ps -> Forall (fun w => 0 < w) ws -> zsum ws = D ->
  (forall i, (i < d)%nat -> nthz ns i = comb_coord ws (vertex_range s) i) ->
  v = map (fun n => n / D) ns /\
  forall i j pi pj, (i <= d)%nat -> (j <= d)%nat -> In i (nth pi ps []) -> In j (nth pj ps []) ->
    ((pi <= pj)%nat <-> nth j (fracs ns D) 0 <= nth i (fracs ns D) 0).
Proof. exact locate_unique. Qed.
Print Assumptions C20_locate_unique.

(* hence it is the located simplex: same vertex, same parts as sets; equal when its parts are listed increasingly
   ([interior_witness ns D s ws] bundles the hypotheses of C20_locate_unique) *)
Theorem C20_locate_unique_simplex : forall ns D s ws, interior_witness ns D s ws ->
  fst s = fst (locate_z ns D) /\ map sort_nat (snd s) = map sort_nat (snd (locate_z ns D)).
Proof. exact locate_unique_parts. Qed.
Print Assumptions C20_locate_unique_simplex.

Theorem C20_locate_unique_eq : forall ns D s ws, interior_witness ns D s ws ->
  Forall (fun p => sort_nat p = p) (snd s) -> s = locate_z ns D.
Proof. exact locate_unique_eq. Qed.
Print Assumptions C20_locate_unique_eq.

(* the located simplex satisfies the hypotheses of the uniqueness theorems (non-vacuity, for every point) *)
Theorem C20_locate_interior_witness : forall ns D, 0 < D ->
  interior_witness ns D (locate_z ns D) (locate_weights ns D).
Proof. exact locate_interior_witness. Qed.
Print Assumptions C20_locate_interior_witness.

Example C20_locate_unique_nonvacuous :
  interior_witness [5; 3; -1; 3] 4 ([1; 0; -1; 0], [[1; 2; 3]; [0]; [4]]%nat) [1; 2; 1].
Proof. exact interior_witness_example. Qed.

(* the decision procedure [in_rel_interior] that the oracle evaluates on the simplex returned by the C++ is sound
   (it yields a witness), holds of the located simplex, and determines the simplex *)
Theorem C20_in_rel_interior_sound : forall ns D s, in_rel_interior ns D s = true ->
  interior_witness ns D s (bary_weights ns D s).
Proof. exact in_rel_interior_witness. Qed.
Print Assumptions C20_in_rel_interior_sound.

Theorem C20_locate_in_rel_interior : forall ns D, 0 < D -> in_rel_interior ns D (locate_z ns D) = true.
Proof. exact locate_in_rel_interior. Qed.
Print Assumptions C20_locate_in_rel_interior.

Theorem C20_in_rel_interior_unique : forall ns D s, in_rel_interior ns D s = true ->
  fst s = fst (locate_z ns D) /\ map sort_nat (snd s) = map sort_nat (snd (locate_z ns D)).
Proof. exact in_rel_interior_unique. Qed.
Print Assumptions C20_in_rel_interior_unique.

Example C20_in_rel_interior_nonvacuous :
  in_rel_interior [5; 3; -1; 3] 4 ([1; 0; -1; 0], [[1; 2; 3]; [0]; [4]]%nat) = true.
Proof. exact in_rel_interior_example. Qed.

(* rational points: the numerators handed to locate_z by locate_q represent the coordinates exactly *)
Theorem C20_locate_q_encoding : forall (xs : list Q) (q : Q), In q xs ->
  (Qnum q * (Zpos (qden_prod xs) / Zpos (Qden q)) # qden_prod xs == q)%Q.
Proof. exact locate_q_encoding. Qed.
Print Assumptions C20_locate_q_encoding.

(* triangulations with a matrix and an offset: the affine map x -> M (x / scale) + offset (cart_q; cart on lattice
   vertices = cartesian_coordinates) carries the convex combination to the cartesian coordinates of the vertices.
   qcomb ws D ps r = sum_j (w_j / D) * (p_j)_r *)
Theorem C20_affine_barycentric : forall M off scale (ws : list Z) (vs : list vertex) (ns : list Z) (D : Z) (d : nat),
  (0 < D)%Z -> zsum ws = D -> length ws = length vs ->
  Forall (fun v => length v = d) vs -> length ns = d ->
  Forall (fun row => length row = d) M -> length off = length M ->
  (forall i, (i < d)%nat -> nthz ns i = comb_coord ws vs i) ->
  forall r, (r < length M)%nat ->
    (qcomb ws D (map (cart M off scale) vs) r ==
     nth r (cart_q M off scale (map (fun n => inject_Z n / inject_Z D) ns)) 0)%Q.
Proof. exact affine_barycentric. Qed.
Print Assumptions C20_affine_barycentric.

(* the property as stated, for every matrix, offset and scale: the point p = M (x / scale) + offset is the strictly
   positive convex combination, with the weights of the located simplex, of the cartesian coordinates of its vertices *)
Theorem C20_locate_affine_barycentric : forall M off scale (ns : list Z) (D : Z),
  (0 < D)%Z -> Forall (fun row => length row = length ns) M -> length off = length M ->
  let s := locate_z ns D in let ws := locate_weights ns D in
  Forall (fun w => (0 < w)%Z) ws /\ zsum ws = D /\ length ws = length (vertex_range s) /\
  forall r, (r < length M)%nat ->
    (qcomb ws D (map (cart M off scale) (vertex_range s)) r ==
     nth r (cart_q M off scale (map (fun n => inject_Z n / inject_Z D) ns)) 0)%Q.
Proof. exact locate_affine_barycentric. Qed.
Print Assumptions C20_locate_affine_barycentric.

(* ================================================================== translation invariance (every dimension) *)
Theorem C20_shift_vertex_range : forall a s, vertex_range (shift a s) = map (vadd a) (vertex_range s).
Proof. exact vertex_range_shift. Qed.
Print Assumptions C20_shift_vertex_range.

Theorem C20_shift_faces : forall a k s, faces k (shift a s) = map (shift a) (faces k s).
Proof. exact faces_shift. Qed.
Print Assumptions C20_shift_faces.

Theorem C20_shift_cofaces : forall a l s, cofaces l (shift a s) = map (shift a) (cofaces l s).
Proof. exact cofaces_shift. Qed.
Print Assumptions C20_shift_cofaces.

Theorem C20_shift_is_face_of : forall a s t, is_face_of (shift a s) (shift a t) = is_face_of s t.
Proof. exact is_face_of_shift. Qed.
Print Assumptions C20_shift_is_face_of.

(* ================================================================== the same lattice statements by computation,
   ambient dimension <= 4 (bound in the statement; independent of the inductive proofs above): vm_compute over
   canon_oparts d with vertex 0, lifted to every vertex by translation invariance *)
Theorem C20_canon_oparts_complete : forall d ps, valid_opart d ps = true ->
  Forall (fun p => sort_nat p = p) ps -> In ps (canon_oparts d).
Proof. exact canon_oparts_complete. Qed.
Print Assumptions C20_canon_oparts_complete.

Theorem C20_faces_ok_le4 : forall d ps v k, (1 <= d <= 4)%nat -> In ps (canon_oparts d) -> length v = d ->
  (k <= dimension (v, ps))%nat -> faces_ok k (v, ps) = true.
Proof. exact faces_ok_le4. Qed.
Print Assumptions C20_faces_ok_le4.

Theorem C20_cofaces_ok_le4 : forall d ps v l, (1 <= d <= 4)%nat -> In ps (canon_oparts d) -> length v = d ->
  (dimension (v, ps) <= l <= d)%nat -> cofaces_ok l (v, ps) = true.
Proof. exact cofaces_ok_le4. Qed.
Print Assumptions C20_cofaces_ok_le4.

Theorem C20_faces_cofaces_ok_le4 : forall d ps v k, (1 <= d <= 4)%nat -> In ps (canon_oparts d) -> length v = d ->
  (k <= dimension (v, ps))%nat -> faces_cofaces_ok k (v, ps) = true.
Proof. exact faces_cofaces_ok_le4. Qed.
Print Assumptions C20_faces_cofaces_ok_le4.

Theorem C20_is_face_of_iff_spec_le4 : forall d ps pt vs vt, (1 <= d <= 4)%nat ->
  In ps (canon_oparts d) -> In pt (canon_oparts d) -> length vs = d -> length vt = d ->
  (forall i, (i < d)%nat -> -1 <= nthz vs i - nthz vt i <= 1) ->
  is_face_of (vs, ps) (vt, pt) = spec_is_face (vs, ps) (vt, pt).
Proof. exact is_face_of_iff_spec_le4. Qed.
Print Assumptions C20_is_face_of_iff_spec_le4.
