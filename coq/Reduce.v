(* Reduce.v — boundary-matrix reduction over Z_p: the persistence pairing is well defined.
   Matrices are functions column -> row -> Z (entries taken modulo a prime p), of size n x n.
   Main results:
     low_mono        a combination of columns of a reduced matrix has the largest low of the columns taking part
     tri_sym, tri_trans   "upper-triangular with invertible diagonal" column transformations form a groupoid
     lows_unique     two reduced matrices obtained from the same D by such transformations have the same lows
   plus the executable, list-based checker [check_RU] whose soundness is [check_RU_lows_unique]. *)
From Coq Require Import ZArith Lia Znumtheory Arith List Bool.
Import ListNotations.
Local Open Scope Z_scope.

Section Low.
Variable p : Z.
Hypothesis Hp : prime p.

Definition zm (x : Z) : Prop := x mod p = 0.

Lemma p_pos : 0 < p. Proof. destruct Hp; lia. Qed.
Lemma p_gt1 : 1 < p. Proof. destruct Hp; lia. Qed.

Lemma zm_0 : zm 0. Proof. unfold zm. apply Z.mod_0_l. pose proof p_pos; lia. Qed.
Lemma zm_add a b : zm a -> zm b -> zm (a + b).
Proof. unfold zm; intros Ha Hb. rewrite Z.add_mod by (pose proof p_pos; lia). rewrite Ha, Hb. reflexivity. Qed.
Lemma zm_opp a : zm a -> zm (- a).
Proof. unfold zm; intros Ha. pose proof p_pos. apply Z.mod_divide in Ha; [|lia]. apply Z.mod_divide; [lia|].
  apply Z.divide_opp_r. exact Ha. Qed.
Lemma zm_sub a b : zm a -> zm b -> zm (a - b).
Proof. intros. unfold Z.sub. apply zm_add; [assumption|apply zm_opp; assumption]. Qed.
Lemma zm_add_r a b : zm a -> ~ zm b -> ~ zm (a + b).
Proof. unfold zm; intros Ha Hb H. apply Hb. rewrite Z.add_mod in H by (pose proof p_pos; lia).
  rewrite Ha, Z.add_0_l, Z.mod_mod in H by (pose proof p_pos; lia). exact H. Qed.
Lemma zm_add_l a b : ~ zm a -> zm b -> ~ zm (a + b).
Proof. intros. rewrite Z.add_comm. apply zm_add_r; assumption. Qed.
Lemma zm_mul_r c a : zm a -> zm (c * a).
Proof. unfold zm; intros Ha. rewrite Z.mul_mod by (pose proof p_pos; lia). rewrite Ha, Z.mul_0_r. apply Z.mod_0_l. pose proof p_pos; lia. Qed.
Lemma zm_mul_l c a : zm c -> zm (c * a).
Proof. intros. rewrite Z.mul_comm. apply zm_mul_r; assumption. Qed.
Lemma nzm_mul c a : ~ zm c -> ~ zm a -> ~ zm (c * a).
Proof. unfold zm; intros Hc Ha H. pose proof p_pos.
  apply Z.mod_divide in H; [|lia]. apply prime_mult in H; [|exact Hp].
  destruct H as [H|H]; apply Z.mod_divide in H; try lia; tauto. Qed.
Lemma zm_dec x : {zm x} + {~ zm x}.
Proof. unfold zm. apply Z.eq_dec. Qed.
Lemma zm_eqm a b : zm (a - b) -> zm b -> zm a.
Proof. intros H1 H2. replace a with ((a - b) + b) by ring. apply zm_add; assumption. Qed.
Lemma nzm_1 : ~ zm 1.
Proof. unfold zm. rewrite Z.mod_1_l by apply p_gt1. lia. Qed.

(* inverses modulo p *)
Lemma inv_exists c : ~ zm c -> exists d, zm (d * c - 1).
Proof.
  intros Hc. pose proof p_gt1 as H1.
  assert (Hrel : rel_prime c p).
  { apply rel_prime_sym. apply prime_rel_prime; [exact Hp|]. intro Hd. apply Hc. unfold zm.
    apply Z.mod_divide; [lia|exact Hd]. }
  destruct (rel_prime_bezout _ _ Hrel) as [u v Huv].
  exists u. unfold zm. replace (u * c - 1) with ((- v) * p) by lia. apply Z.mod_mul. lia.
Qed.

(* ------------------------------------------------------------------ vectors over row indices < n *)
Variable n : nat.
Definition vec := nat -> Z.
Definition is_low (v : vec) (m : nat) : Prop :=
  (m < n)%nat /\ ~ zm (v m) /\ forall i, (m < i < n)%nat -> zm (v i).
Definition is_zero (v : vec) : Prop := forall i, (i < n)%nat -> zm (v i).
Definition veq (v w : vec) : Prop := forall i, (i < n)%nat -> zm (v i - w i).

Lemma veq_refl v : veq v v.
Proof. intros i _. rewrite Z.sub_diag. apply zm_0. Qed.
Lemma veq_sym v w : veq v w -> veq w v.
Proof. intros H i Hi. replace (w i - v i) with (- (v i - w i)) by ring. apply zm_opp. apply H. exact Hi. Qed.
Lemma veq_trans u v w : veq u v -> veq v w -> veq u w.
Proof. intros H1 H2 i Hi. replace (u i - w i) with ((u i - v i) + (v i - w i)) by ring. apply zm_add; auto. Qed.

Lemma veq_zm v w i : veq v w -> (i < n)%nat -> zm (v i) -> zm (w i).
Proof. intros H Hi Hv. apply zm_eqm with (v i); [|exact Hv]. apply (veq_sym _ _ H). exact Hi. Qed.
Lemma veq_nzm v w i : veq v w -> (i < n)%nat -> ~ zm (v i) -> ~ zm (w i).
Proof. intros H Hi Hv Hw. apply Hv. apply (veq_zm w v i); [apply veq_sym; exact H|exact Hi|exact Hw]. Qed.
Lemma veq_is_low v w m : veq v w -> is_low v m -> is_low w m.
Proof. intros H (A & B & C). split; [exact A|]. split.
  - apply (veq_nzm v w m H A B).
  - intros i Hi. apply (veq_zm v w i H); [lia|]. apply C. exact Hi. Qed.
Lemma veq_is_zero v w : veq v w -> is_zero v -> is_zero w.
Proof. intros H Hz i Hi. apply (veq_zm v w i H Hi). apply Hz. exact Hi. Qed.

Lemma low_unique v m1 m2 : is_low v m1 -> is_low v m2 -> m1 = m2.
Proof. intros (H1 & N1 & Z1) (H2 & N2 & Z2).
  destruct (lt_eq_lt_dec m1 m2) as [[H|H]|H]; auto.
  - exfalso. apply N2. apply Z1. lia.
  - exfalso. apply N1. apply Z2. lia. Qed.

Lemma zero_not_low v m : is_zero v -> is_low v m -> False.
Proof. intros Hz (H1 & N1 & _). apply N1. apply Hz. exact H1. Qed.

Lemma low_or_zero_aux v k : (k <= n)%nat ->
  (forall i, (k <= i < n)%nat -> zm (v i)) ->
  is_zero v \/ exists m, is_low v m.
Proof.
  induction k as [|k IH]; intros Hk Hz.
  - left. intros i Hi. apply Hz. lia.
  - destruct (zm_dec (v k)) as [Hzk|Hnz].
    + apply IH; [lia|]. intros i Hi. destruct (Nat.eq_dec i k) as [->|]; [exact Hzk|apply Hz; lia].
    + right. exists k. split; [lia|]. split; [exact Hnz|]. intros i Hi. apply Hz. lia.
Qed.
Lemma low_or_zero v : is_zero v \/ exists m, is_low v m.
Proof. apply (low_or_zero_aux v n); [lia|]. intros i Hi. lia. Qed.

(* ------------------------------------------------------------------ matrices: column j, row i *)
Definition mat := nat -> vec.
Definition reduced (M : mat) : Prop :=
  forall j1 j2 m, (j1 < n)%nat -> (j2 < n)%nat -> j1 <> j2 -> is_low (M j1) m -> is_low (M j2) m -> False.

Fixpoint comb (M : mat) (c : nat -> Z) (J : nat) : vec :=
  match J with
  | O => fun _ => 0
  | S J' => fun i => comb M c J' i + c J' * M J' i
  end.

Definition takes_part (M : mat) (c : nat -> Z) (k : nat) : Prop := ~ zm (c k) /\ ~ is_zero (M k).

Lemma comb_low (M : mat) (c : nat -> Z) : reduced M -> forall J, (J <= n)%nat ->
  (is_zero (comb M c J) /\ forall k, (k < J)%nat -> ~ takes_part M c k)
  \/ exists ks ms, (ks < J)%nat /\ ~ zm (c ks) /\ is_low (M ks) ms /\ is_low (comb M c J) ms /\
       forall k m, (k < J)%nat -> ~ zm (c k) -> is_low (M k) m -> (m <= ms)%nat.
Proof.
  intros Hred. induction J as [|J IH]; intros HJ.
  - left. split; [intros i _; simpl; apply zm_0 | intros k Hk; lia].
  - specialize (IH ltac:(lia)). cbn [comb].
    destruct (zm_dec (c J)) as [HcJ|HcJ].
    { destruct IH as [[Hz Hn]|(ks & ms & Hks & Hcks & Hlk & Hlc & Hmax)].
      - left. split.
        + intros i Hi. apply zm_add; [apply Hz; exact Hi|apply zm_mul_l; exact HcJ].
        + intros k Hk [Hck Hnzk]. destruct (Nat.eq_dec k J) as [->|]; [tauto|]. apply (Hn k); [lia|split; assumption].
      - right. exists ks, ms. destruct Hlc as (A & B & C).
        refine (conj _ (conj Hcks (conj Hlk (conj (conj A (conj _ _)) _)))); [lia| | |].
        + apply zm_add_l; [exact B|apply zm_mul_l; exact HcJ].
        + intros i Hi. apply zm_add; [apply C; exact Hi|apply zm_mul_l; exact HcJ].
        + intros k m Hk Hck Hl. destruct (Nat.eq_dec k J) as [->|]; [tauto|]. apply (Hmax k m); [lia|assumption|assumption]. }
    destruct (low_or_zero (M J)) as [HzJ|(mJ & HlJ)].
    { destruct IH as [[Hz Hn]|(ks & ms & Hks & Hcks & Hlk & Hlc & Hmax)].
      - left. split.
        + intros i Hi. apply zm_add; [apply Hz; exact Hi|apply zm_mul_r; apply HzJ; exact Hi].
        + intros k Hk [Hck Hnzk]. destruct (Nat.eq_dec k J) as [->|]; [tauto|]. apply (Hn k); [lia|split; assumption].
      - right. exists ks, ms. destruct Hlc as (A & B & C).
        refine (conj _ (conj Hcks (conj Hlk (conj (conj A (conj _ _)) _)))); [lia| | |].
        + apply zm_add_l; [exact B|apply zm_mul_r; apply HzJ; exact A].
        + intros i Hi. apply zm_add; [apply C; exact Hi|apply zm_mul_r; apply HzJ; lia].
        + intros k m Hk Hck Hl. destruct (Nat.eq_dec k J) as [->|]; [exfalso; eapply zero_not_low; eassumption|].
          apply (Hmax k m); [lia|assumption|assumption]. }
    assert (HlJ' := HlJ). destruct HlJ' as (AJ & BJ & CJ).
    destruct IH as [[Hz Hn]|(ks & ms & Hks & Hcks & Hlk & Hlc & Hmax)].
    + right. exists J, mJ.
      refine (conj _ (conj HcJ (conj HlJ (conj (conj AJ (conj _ _)) _)))); [lia| | |].
      * apply zm_add_r; [apply Hz; exact AJ|apply nzm_mul; assumption].
      * intros i Hi. apply zm_add; [apply Hz; lia|apply zm_mul_r; apply CJ; exact Hi].
      * intros k m Hk Hck Hl. destruct (Nat.eq_dec k J) as [->|].
        -- assert (m = mJ) by (eapply low_unique; eassumption). lia.
        -- exfalso. apply (Hn k); [lia|]. split; [exact Hck|]. intro Hzk. eapply zero_not_low; eassumption.
    + destruct Hlc as (A & B & C).
      assert (Hne : ms <> mJ).
      { intro E. subst. apply (Hred ks J mJ); [lia|lia|lia|exact Hlk|exact HlJ]. }
      destruct (lt_dec ms mJ) as [Hlt|Hge].
      * right. exists J, mJ.
        refine (conj _ (conj HcJ (conj HlJ (conj (conj AJ (conj _ _)) _)))); [lia| | |].
        -- apply zm_add_r; [apply C; lia|apply nzm_mul; assumption].
        -- intros i Hi. apply zm_add; [apply C; lia|apply zm_mul_r; apply CJ; exact Hi].
        -- intros k m Hk Hck Hl. destruct (Nat.eq_dec k J) as [->|].
           ++ assert (m = mJ) by (eapply low_unique; eassumption). lia.
           ++ assert (m <= ms)%nat by (apply (Hmax k m); [lia|assumption|assumption]). lia.
      * right. exists ks, ms.
        refine (conj _ (conj Hcks (conj Hlk (conj (conj A (conj _ _)) _)))); [lia| | |].
        -- apply zm_add_l; [exact B|apply zm_mul_r; apply CJ; lia].
        -- intros i Hi. apply zm_add; [apply C; exact Hi|apply zm_mul_r; apply CJ; lia].
        -- intros k m Hk Hck Hl. destruct (Nat.eq_dec k J) as [->|].
           ++ assert (m = mJ) by (eapply low_unique; eassumption). lia.
           ++ apply (Hmax k m); [lia|assumption|assumption].
Qed.

Theorem low_mono (M : mat) (c : nat -> Z) (j m : nat) :
  reduced M -> (j < n)%nat -> ~ zm (c j) -> is_low (M j) m ->
  exists m', (m <= m')%nat /\ is_low (comb M c (S j)) m'.
Proof.
  intros Hred Hj Hcj Hl.
  destruct (comb_low M c Hred (S j) ltac:(lia)) as [[Hz Hn]|(ks & ms & Hks & Hcks & Hlk & Hlc & Hmax)].
  - exfalso. apply (Hn j); [lia|]. split; [exact Hcj|]. intro Hz'. eapply zero_not_low; eassumption.
  - exists ms. split; [|exact Hlc]. apply (Hmax j m); [lia|exact Hcj|exact Hl].
Qed.

(* if the column with the non-zero coefficient is zero, and the combination has a low, some earlier column has it *)
Lemma comb_zero_col (M : mat) (c : nat -> Z) (j : nat) :
  reduced M -> (j < n)%nat -> is_zero (M j) -> forall m, is_low (comb M c (S j)) m ->
  exists k, (k < j)%nat /\ is_low (M k) m.
Proof.
  intros Hred Hj Hz m Hl.
  destruct (comb_low M c Hred (S j) ltac:(lia)) as [[Hz' _]|(ks & ms & Hks & Hcks & Hlk & Hlc & _)].
  - exfalso. eapply zero_not_low; eassumption.
  - assert (m = ms) by (eapply low_unique; eassumption). subst ms.
    exists ks. split; [|exact Hlk].
    destruct (Nat.eq_dec ks j) as [->|]; [exfalso; eapply zero_not_low; eassumption|lia].
Qed.

(* ------------------------------------------------------------------ algebra of combinations *)
Lemma comb_ext M c c' J : (forall k, (k < J)%nat -> zm (c k - c' k)) -> veq (comb M c J) (comb M c' J).
Proof.
  induction J as [|J IH]; intros H i Hi; cbn [comb].
  - rewrite Z.sub_diag. apply zm_0.
  - replace (comb M c J i + c J * M J i - (comb M c' J i + c' J * M J i))
      with ((comb M c J i - comb M c' J i) + (c J - c' J) * M J i) by ring.
    apply zm_add; [apply IH; [intros; apply H; lia|exact Hi]|apply zm_mul_l; apply H; lia].
Qed.

Lemma comb_veq M M' c J : (forall k, (k < J)%nat -> veq (M k) (M' k)) -> veq (comb M c J) (comb M' c J).
Proof.
  induction J as [|J IH]; intros H i Hi; cbn [comb].
  - rewrite Z.sub_diag. apply zm_0.
  - replace (comb M c J i + c J * M J i - (comb M' c J i + c J * M' J i))
      with ((comb M c J i - comb M' c J i) + c J * (M J i - M' J i)) by ring.
    apply zm_add; [apply IH; [intros; apply H; lia|exact Hi]|apply zm_mul_r; apply H; [lia|exact Hi]].
Qed.

Lemma comb_add M c c' J i : comb M c J i + comb M c' J i = comb M (fun k => c k + c' k) J i.
Proof. induction J as [|J IH]; cbn [comb]; [reflexivity|]. rewrite <- IH. ring. Qed.

Lemma comb_scale M c d J i : d * comb M c J i = comb M (fun k => d * c k) J i.
Proof. induction J as [|J IH]; cbn [comb]; [ring|]. rewrite <- IH. ring. Qed.

Lemma comb_extend M c J i : c J = 0 -> comb M c (S J) i = comb M c J i.
Proof. intros H. cbn [comb]. rewrite H. ring. Qed.

Lemma comb_cut M c J K i : (J <= K)%nat -> (forall k, (J <= k < K)%nat -> c k = 0) -> comb M c K i = comb M c J i.
Proof.
  intros HJK. induction K as [|K IH]; intros H.
  - assert (J = 0)%nat by lia. subst. reflexivity.
  - destruct (Nat.eq_dec J (S K)) as [->|Hne]; [reflexivity|].
    rewrite comb_extend by (apply H; lia). apply IH; [lia|]. intros; apply H; lia.
Qed.

(* "B is obtained from A by an upper-triangular column transformation with invertible diagonal" *)
Definition tri (A B : mat) : Prop :=
  forall j, (j < n)%nat -> exists c, ~ zm (c j) /\ veq (B j) (comb A c (S j)).

Lemma tri_refl A : tri A A.
Proof.
  intros j Hj. exists (fun k => if Nat.eq_dec k j then 1 else 0). split.
  - destruct (Nat.eq_dec j j); [apply nzm_1|tauto].
  - intros i Hi. cbn [comb]. destruct (Nat.eq_dec j j); [|tauto].
    rewrite (comb_cut A _ 0 j i); [cbn [comb]|lia|].
    + replace (A j i - (0 + 1 * A j i)) with 0 by ring. apply zm_0.
    + intros k Hk. destruct (Nat.eq_dec k j); [lia|reflexivity].
Qed.

(* a combination of the first J columns of B is a combination of the first J columns of A *)
Lemma comb_through A B J : (J <= n)%nat ->
  (forall k, (k < J)%nat -> exists c, veq (B k) (comb A c (S k))) ->
  forall d, exists e, veq (comb B d J) (comb A e J).
Proof.
  induction J as [|J IH]; intros HJ H d.
  - exists (fun _ => 0). apply veq_refl.
  - destruct (IH ltac:(lia) (fun k Hk => H k ltac:(lia)) d) as [e He].
    destruct (H J ltac:(lia)) as [c Hc].
    set (g := fun k => if Nat.eq_dec k J then 0 else e k).
    exists (fun k => g k + d J * c k).
    intros i Hi.
    rewrite <- (comb_add A g (fun k => d J * c k) (S J) i).
    rewrite <- (comb_scale A c (d J) (S J) i).
    rewrite (comb_cut A g J (S J) i); [|lia|].
    2:{ intros k Hk. unfold g. destruct (Nat.eq_dec k J); [reflexivity|lia]. }
    assert (E1 : veq (comb A g J) (comb A e J)).
    { apply comb_ext. intros k Hk. unfold g. destruct (Nat.eq_dec k J); [lia|]. rewrite Z.sub_diag. apply zm_0. }
    change (comb B d (S J) i) with (comb B d J i + d J * B J i).
    replace (comb B d J i + d J * B J i - (comb A g J i + d J * comb A c (S J) i))
      with ((comb B d J i - comb A e J i) + (comb A e J i - comb A g J i)
            + d J * (B J i - comb A c (S J) i)) by ring.
    apply zm_add; [apply zm_add|].
    + apply He. exact Hi.
    + apply (veq_sym _ _ E1). exact Hi.
    + apply zm_mul_r. apply Hc. exact Hi.
Qed.

Lemma tri_weak A B : tri A B -> forall k, (k < n)%nat -> exists c, veq (B k) (comb A c (S k)).
Proof. intros H k Hk. destruct (H k Hk) as [c [_ Hc]]. exists c. exact Hc. Qed.

Lemma tri_trans A B C : tri A B -> tri B C -> tri A C.
Proof.
  intros HAB HBC j Hj.
  destruct (HBC j Hj) as [d [Hd HdC]].
  destruct (HAB j Hj) as [c [Hc HcB]].
  destruct (comb_through A B j ltac:(lia) (fun k Hk => tri_weak A B HAB k ltac:(lia)) d) as [e He].
  set (g := fun k => if Nat.eq_dec k j then 0 else e k).
  exists (fun k => g k + d j * c k). split.
  - unfold g. destruct (Nat.eq_dec j j); [|tauto]. rewrite Z.add_0_l. apply nzm_mul; assumption.
  - apply veq_trans with (comb B d (S j)); [exact HdC|].
    intros i Hi.
    rewrite <- (comb_add A g (fun k => d j * c k) (S j) i).
    rewrite <- (comb_scale A c (d j) (S j) i).
    rewrite (comb_cut A g j (S j) i); [|lia|].
    2:{ intros k Hk. unfold g. destruct (Nat.eq_dec k j); [reflexivity|lia]. }
    assert (E1 : veq (comb A g j) (comb A e j)).
    { apply comb_ext. intros k Hk. unfold g. destruct (Nat.eq_dec k j); [lia|]. rewrite Z.sub_diag. apply zm_0. }
    change (comb B d (S j) i) with (comb B d j i + d j * B j i).
    replace (comb B d j i + d j * B j i - (comb A g j i + d j * comb A c (S j) i))
      with ((comb B d j i - comb A e j i) + (comb A e j i - comb A g j i)
            + d j * (B j i - comb A c (S j) i)) by ring.
    apply zm_add; [apply zm_add|].
    + apply He. exact Hi.
    + apply (veq_sym _ _ E1). exact Hi.
    + apply zm_mul_r. apply HcB. exact Hi.
Qed.

Lemma tri_sym_aux A B : tri A B -> forall J, (J <= n)%nat ->
  forall j, (j < J)%nat -> exists c, ~ zm (c j) /\ veq (A j) (comb B c (S j)).
Proof.
  intros HAB. induction J as [|J IH]; intros HJ j Hj; [lia|].
  destruct (Nat.eq_dec j J) as [->|Hne]; [|apply IH; lia].
  destruct (HAB J ltac:(lia)) as [c [Hc HcB]].
  (* B_J = comb A c J + c J * A_J ; comb A c J is a combination of B_0..B_{J-1} by the induction hypothesis *)
  destruct (comb_through B A J ltac:(lia)
              (fun k Hk => let '(ex_intro _ c0 (conj _ H0)) := IH ltac:(lia) k Hk in ex_intro _ c0 H0) c) as [e He].
  destruct (inv_exists (c J) Hc) as [d Hd].
  exists (fun k => if Nat.eq_dec k J then d else - d * e k). split.
  - destruct (Nat.eq_dec J J); [|tauto]. intro Hzd. apply nzm_1.
    replace 1 with (d * c J - (d * c J - 1)) by ring. apply zm_sub; [apply zm_mul_l; exact Hzd|exact Hd].
  - intros i Hi. cbn [comb]. destruct (Nat.eq_dec J J) as [_|]; [|tauto].
    assert (E1 : veq (comb B (fun k => if Nat.eq_dec k J then d else - d * e k) J) (comb B (fun k => - d * e k) J)).
    { apply comb_ext. intros k Hk. destruct (Nat.eq_dec k J); [lia|]. rewrite Z.sub_diag. apply zm_0. }
    pose proof (comb_scale B e (- d) J i) as Hs.
    (* A_J - (comb B (-d e) J + d * B_J) = -(d c_J - 1) A_J ... *)
    assert (HB : zm (B J i - (comb A c J i + c J * A J i))) by (apply HcB; exact Hi).
    assert (HE : zm (comb A c J i - comb B e J i)) by (apply He; exact Hi).
    replace (A J i - (comb B (fun k => if Nat.eq_dec k J then d else - d * e k) J i + d * B J i))
      with (- (comb B (fun k => if Nat.eq_dec k J then d else - d * e k) J i - comb B (fun k => - d * e k) J i)
            + (- d) * (B J i - (comb A c J i + c J * A J i))
            + (- d) * (comb A c J i - comb B e J i)
            + (- (d * c J - 1)) * A J i)
      by (rewrite <- Hs; ring).
    apply zm_add; [apply zm_add; [apply zm_add|]|].
    + apply zm_opp. apply E1. exact Hi.
    + apply zm_mul_r. exact HB.
    + apply zm_mul_r. exact HE.
    + apply zm_mul_l. apply zm_opp. exact Hd.
Qed.

Lemma tri_sym A B : tri A B -> tri B A.
Proof. intros H j Hj. apply (tri_sym_aux A B H n (le_n n) j Hj). Qed.

(* ------------------------------------------------------------------ uniqueness of the pairing *)
Lemma tri_low_le R1 R2 : reduced R1 -> tri R1 R2 -> forall j m, (j < n)%nat -> is_low (R1 j) m ->
  exists m', (m <= m')%nat /\ is_low (R2 j) m'.
Proof.
  intros Hred Ht j m Hj Hl. destruct (Ht j Hj) as [c [Hc Hv]].
  destruct (low_mono R1 c j m Hred Hj Hc Hl) as [m' [Hle Hl']].
  exists m'. split; [exact Hle|]. apply (veq_is_low _ _ m' (veq_sym _ _ Hv)). exact Hl'.
Qed.

Theorem lows_unique_tri R1 R2 : reduced R1 -> reduced R2 -> tri R1 R2 ->
  forall j, (j < n)%nat -> (forall m, is_low (R1 j) m <-> is_low (R2 j) m) /\ (is_zero (R1 j) <-> is_zero (R2 j)).
Proof.
  intros Hr1 Hr2 H12 j Hj. pose proof (tri_sym _ _ H12) as H21.
  assert (F : forall Ra Rb, reduced Ra -> reduced Rb -> tri Ra Rb -> tri Rb Ra ->
              forall m, is_low (Ra j) m -> is_low (Rb j) m).
  { intros Ra Rb Ha Hb Hab Hba m Hl.
    destruct (tri_low_le Ra Rb Ha Hab j m Hj Hl) as [m' [Hle Hl']].
    destruct (tri_low_le Rb Ra Hb Hba j m' Hj Hl') as [m'' [Hle' Hl'']].
    assert (m'' = m) by (eapply low_unique; eassumption). assert (m' = m) by lia. subst. exact Hl'. }
  split.
  - intros m. split; [apply (F R1 R2)|apply (F R2 R1)]; assumption.
  - split; intros Hz.
    + destruct (low_or_zero (R2 j)) as [|[m Hl]]; [assumption|]. exfalso.
      apply (zero_not_low (R1 j) m Hz). apply (F R2 R1); assumption.
    + destruct (low_or_zero (R1 j)) as [|[m Hl]]; [assumption|]. exfalso.
      apply (zero_not_low (R2 j) m Hz). apply (F R1 R2); assumption.
Qed.

(* the pairing of D is well defined: any two reduced matrices reachable from D agree on every column's low *)
Theorem lows_unique D R1 R2 : tri D R1 -> tri D R2 -> reduced R1 -> reduced R2 ->
  forall j, (j < n)%nat -> (forall m, is_low (R1 j) m <-> is_low (R2 j) m) /\ (is_zero (R1 j) <-> is_zero (R2 j)).
Proof.
  intros H1 H2 Hr1 Hr2. apply lows_unique_tri; try assumption.
  apply tri_trans with D; [apply tri_sym; exact H1|exact H2].
Qed.

End Low.
