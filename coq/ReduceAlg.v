(* The standard left-to-right column reduction (RU_matrix::_reduce_column, Boundary_matrix + Base_pairing::_reduce,
   ReduceExec.reduce) as a sequence of elementary steps "add a multiple of an EARLIER column with the same low", at the
   level of Reduce.v (vectors nat -> Z, zero = divisible by the prime p).  Theorems: each step keeps the decomposition
   invariant [tri D R] and strictly lowers the low of the column being reduced; from any state whose first j columns are
   reduced the loop terminates in a state whose first j+1 columns are reduced, earlier columns untouched: inserting a
   boundary keeps the invariant "R reduced and R = D.V with V upper triangular, invertible diagonal" (ru_insert_inv). *)
From Coq Require Import ZArith Lia Znumtheory Arith List.
Require Import Reduce.
Local Open Scope Z_scope.

Section Alg.
Variable p : Z.
Hypothesis Hp : prime p.
Variable n : nat.

Notation zm := (zm p).
Notation is_low := (is_low p n).
Notation is_zero := (is_zero p n).
Notation veq := (veq p n).
Notation tri := (tri p n).

Let zm_0 := zm_0 p Hp.
Let zm_add := zm_add p Hp.
Let zm_mul_r := zm_mul_r p Hp.
Let zm_mul_l := zm_mul_l p Hp.
Let veq_refl := veq_refl p Hp n.
Let low_unique := low_unique p n.
Let low_or_zero := low_or_zero p n.
Let zero_not_low := zero_not_low p n.
Let inv_exists := inv_exists p Hp.

(* R with column j replaced by R_j + c * R_k *)
Definition col_add (R : mat) (j k : nat) (c : Z) : mat :=
  fun j' => if Nat.eq_dec j' j then (fun i => R j i + c * R k i) else R j'.

Lemma col_add_same R j k c i : col_add R j k c j i = R j i + c * R k i.
Proof. unfold col_add. destruct (Nat.eq_dec j j); [reflexivity|tauto]. Qed.
Lemma col_add_other R j k c j' : j' <> j -> col_add R j k c j' = R j'.
Proof. intros H. unfold col_add. destruct (Nat.eq_dec j' j); [tauto|reflexivity]. Qed.

(* the first j columns are reduced: pairwise distinct lows *)
Definition reduced_upto (R : mat) (j : nat) : Prop :=
  forall j1 j2 m, (j1 < j)%nat -> (j2 < j)%nat -> j1 <> j2 -> is_low (R j1) m -> is_low (R j2) m -> False.

Lemma reduced_upto_all R : reduced_upto R n <-> reduced p n R.
Proof. unfold reduced_upto, reduced. split; intros H j1 j2 m; apply H. Qed.

(* ---- one step keeps the decomposition *)
Lemma tri_col_add D R j k c : tri D R -> (k < j)%nat -> (j < n)%nat -> tri D (col_add R j k c).
Proof.
  intros Ht Hk Hj j' Hj'.
  destruct (Nat.eq_dec j' j) as [->|Hne].
  - destruct (Ht j Hj) as [a [Ha HRa]]. destruct (Ht k ltac:(lia)) as [b [_ HRb]].
    set (b' := fun i => if le_dec i k then b i else 0).
    exists (fun i => a i + c * b' i). split.
    + unfold b'. destruct (le_dec j k); [lia|]. replace (a j + c * 0) with (a j) by ring. exact Ha.
    + intros i Hi. rewrite col_add_same.
      rewrite <- (comb_add D a (fun i0 => c * b' i0) (S j) i).
      rewrite <- (comb_scale D b' c (S j) i).
      assert (Hcut : comb D b' (S j) i = comb D b' (S k) i).
      { apply comb_cut; [lia|]. intros t Ht'. unfold b'. destruct (le_dec t k); [lia|reflexivity]. }
      assert (Hext : veq (comb D b' (S k)) (comb D b (S k))).
      { apply (comb_ext p Hp n). intros t Ht'. unfold b'. destruct (le_dec t k); [|lia]. rewrite Z.sub_diag. apply zm_0. }
      rewrite Hcut.
      replace (R j i + c * R k i - (comb D a (S j) i + c * comb D b' (S k) i))
        with ((R j i - comb D a (S j) i) + c * ((R k i - comb D b (S k) i) + (comb D b (S k) i - comb D b' (S k) i))) by ring.
      apply zm_add; [apply HRa; exact Hi|]. apply zm_mul_r. apply zm_add; [apply HRb; exact Hi|].
      apply (veq_sym p Hp n _ _ Hext). exact Hi.
  - rewrite (col_add_other R j k c j' Hne). destruct (Ht j' Hj') as [a [Ha HRa]]. exists a. split; assumption.
Qed.

(* ---- one step with the cancelling coefficient strictly lowers the low (or empties the column) *)
Lemma col_add_lowers R j k c m :
  is_low (R j) m -> is_low (R k) m -> zm (R j m + c * R k m) ->
  is_zero (col_add R j k c j) \/ exists m', (m' < m)%nat /\ is_low (col_add R j k c j) m'.
Proof.
  intros (A & B & C) (A' & B' & C') Hc.
  destruct (low_or_zero (col_add R j k c j)) as [Hz|[m' Hl]]; [left; exact Hz|right].
  exists m'. split; [|exact Hl].
  destruct Hl as (L1 & L2 & L3).
  destruct (lt_dec m' m) as [|Hge]; [assumption|exfalso].
  apply L2. rewrite col_add_same.
  destruct (Nat.eq_dec m' m) as [->|Hne]; [exact Hc|].
  apply zm_add; [apply C; lia|apply zm_mul_r; apply C'; lia].
Qed.

(* a cancelling coefficient exists (the field is Z_p) *)
Lemma cancelling_coefficient x y : ~ zm y -> exists c, zm (x + c * y).
Proof.
  intros Hy. destruct (inv_exists y Hy) as [u Hu]. exists (- x * u).
  replace (x + - x * u * y) with (- x * (u * y - 1)) by ring. apply zm_mul_r. exact Hu.
Qed.

(* ---- the reduction loop of column j, as a relation: zero or more steps with earlier columns *)
Inductive reduces (j : nat) : mat -> mat -> Prop :=
| red_done R : reduces j R R
| red_step R R' k c m : (k < j)%nat -> is_low (R j) m -> is_low (R k) m -> zm (R j m + c * R k m) ->
    reduces j (col_add R j k c) R' -> reduces j R R'.

Lemma reduces_others j R R' : reduces j R R' -> forall j', j' <> j -> R' j' = R j'.
Proof.
  induction 1 as [R|R R' k c m Hk Hl Hlk Hc Hred IH]; intros j' Hne; [reflexivity|].
  rewrite (IH j' Hne). apply col_add_other. exact Hne.
Qed.

Lemma reduces_tri D j R R' : (j < n)%nat -> reduces j R R' -> tri D R -> tri D R'.
Proof.
  intros Hj. induction 1 as [R|R R' k c m Hk Hl Hlk Hc Hred IH]; intros Ht; [exact Ht|].
  apply IH. apply tri_col_add; assumption.
Qed.

(* whether some earlier column has its low at m is decidable (finite search) *)
Lemma earlier_low_dec R j m : {k | (k < j)%nat /\ is_low (R k) m} + {forall k, (k < j)%nat -> ~ is_low (R k) m}.
Proof.
  induction j as [|j IH].
  - right. intros k Hk. lia.
  - destruct IH as [[k [Hk Hl]]|Hn].
    + left. exists k. split; [lia|exact Hl].
    + assert (Hd : {is_low (R j) m} + {~ is_low (R j) m}).
      { unfold Reduce.is_low.
        destruct (lt_dec m n) as [Hm|Hm]; [|right; tauto].
        destruct (zm_dec p (R j m)) as [Hz|Hnz]; [right; tauto|].
        assert (Hall : {forall i, (m < i < n)%nat -> zm (R j i)} + {~ forall i, (m < i < n)%nat -> zm (R j i)}).
        { clear - n. induction n as [|t IHt].
          - left. intros i Hi. lia.
          - destruct IHt as [Ha|Hna].
            + destruct (le_dec t m) as [Hle|Hgt].
              * left. intros i Hi. lia.
              * destruct (zm_dec p (R j t)) as [Hz|Hnz].
                -- left. intros i Hi. destruct (Nat.eq_dec i t) as [->|]; [exact Hz|apply Ha; lia].
                -- right. intro H. apply Hnz. apply H. lia.
            + right. intro H. apply Hna. intros i Hi. apply H. lia. }
        destruct Hall as [Ha|Hna]; [left; tauto|right; tauto]. }
      destruct Hd as [Hl|Hnl].
      * left. exists j. split; [lia|exact Hl].
      * right. intros k Hk. destruct (Nat.eq_dec k j) as [->|]; [exact Hnl|apply Hn; lia].
Qed.

(* ---- the loop terminates, and its final state has the first j+1 columns reduced *)
Theorem reduction_loop_total R j : (j < n)%nat -> reduced_upto R j ->
  exists R', reduces j R R' /\ reduced_upto R' (S j).
Proof.
  intros Hj.
  (* strong induction on the low of column j (n stands for "any low") *)
  assert (G : forall bound R, reduced_upto R j ->
              (is_zero (R j) \/ exists m, (m < bound)%nat /\ is_low (R j) m) ->
              exists R', reduces j R R' /\ reduced_upto R' (S j)).
  { induction bound as [|bound IH]; intros R0 Hred Hcase.
    - (* column j is zero: nothing to do *)
      exists R0. split; [apply red_done|].
      intros j1 j2 m H1 H2 Hne L1 L2.
      destruct Hcase as [Hz|[m0 [Hm0 _]]]; [|lia].
      destruct (Nat.eq_dec j1 j) as [->|]; [eapply zero_not_low; eassumption|].
      destruct (Nat.eq_dec j2 j) as [->|]; [eapply zero_not_low; eassumption|].
      apply (Hred j1 j2 m); try lia; assumption.
    - destruct Hcase as [Hz|[m [Hm Hl]]]; [apply (IH R0 Hred); left; exact Hz|].
      destruct (earlier_low_dec R0 j m) as [[k [Hk Hlk]]|Hnone].
      + (* an earlier column has the same low: one step, then the low is smaller *)
        assert (Hnz : ~ zm (R0 k m)) by (destruct Hlk as (_ & B & _); exact B).
        destruct (cancelling_coefficient (R0 j m) (R0 k m) Hnz) as [c Hc].
        assert (Hred' : reduced_upto (col_add R0 j k c) j).
        { intros j1 j2 m' H1 H2 Hne L1 L2. rewrite col_add_other in L1 by lia. rewrite col_add_other in L2 by lia.
          apply (Hred j1 j2 m'); assumption. }
        destruct (IH (col_add R0 j k c) Hred') as [R' [Hsteps Hfin]].
        { destruct (col_add_lowers R0 j k c m Hl Hlk Hc) as [Hz|[m' [Hlt Hl']]]; [left; exact Hz|].
          right. exists m'. split; [lia|exact Hl']. }
        exists R'. split; [|exact Hfin]. apply (red_step j R0 R' k c m); assumption.
      + (* no earlier column has this low: column j is reduced with respect to them *)
        exists R0. split; [apply red_done|].
        intros j1 j2 m' H1 H2 Hne L1 L2.
        destruct (Nat.eq_dec j1 j) as [->|N1].
        * assert (m' = m) by (apply (low_unique (R0 j)); assumption). subst m'. apply (Hnone j2); [lia|exact L2].
        * destruct (Nat.eq_dec j2 j) as [->|N2].
          -- assert (m' = m) by (apply (low_unique (R0 j)); assumption). subst m'. apply (Hnone j1); [lia|exact L1].
          -- apply (Hred j1 j2 m'); try lia; assumption. }
  intros Hred. apply (G n R Hred).
  destruct (low_or_zero (R j)) as [Hz|[m Hl]]; [left; exact Hz|].
  right. exists m. split; [destruct Hl as (A & _); exact A|exact Hl].
Qed.

(* ---- inserting a boundary: the new column starts as the boundary itself, the loop reduces it;
        the invariant "first j columns reduced, R obtained from D by an upper-triangular invertible transformation"
        extends to j+1 columns and the earlier columns are untouched *)
Theorem ru_insert_inv D R j : (j < n)%nat -> tri D R -> reduced_upto R j ->
  exists R', reduces j R R' /\ tri D R' /\ reduced_upto R' (S j) /\ forall j', j' <> j -> R' j' = R j'.
Proof.
  intros Hj Ht Hred.
  destruct (reduction_loop_total R j Hj Hred) as [R' [Hsteps Hfin]].
  exists R'. split; [exact Hsteps|]. split; [eapply reduces_tri; eassumption|]. split; [exact Hfin|].
  apply reduces_others. exact Hsteps.
Qed.

(* ---- the whole matrix: reducing the columns one after the other from D itself ends in a reduced R with tri D R *)
Theorem standard_reduction_exists D : exists R, tri D R /\ reduced p n R.
Proof.
  assert (G : forall j, (j <= n)%nat -> exists R, tri D R /\ reduced_upto R j).
  { induction j as [|j IH]; intros Hj.
    - exists D. split; [apply (tri_refl p Hp n)|]. intros j1 j2 m H1. lia.
    - destruct (IH ltac:(lia)) as [R [Ht Hred]].
      destruct (ru_insert_inv D R j ltac:(lia) Ht Hred) as [R' (_ & Ht' & Hred' & _)].
      exists R'. split; assumption. }
  destruct (G n (le_n n)) as [R [Ht Hred]]. exists R. split; [exact Ht|]. apply reduced_upto_all. exact Hred.
Qed.

End Alg.
