(* ReduceExec.v — executable side of Reduce.v: dense list matrices, the verified checker [check_RU],
   the standard left-to-right reduction [reduce] (whose output is re-checked by [check_RU] at run time),
   barcodes.  Extracted to OCaml for the oracles of C02 C05 C06 C08 C11 C12 C13 C14 C17 C19. *)
From Coq Require Import ZArith Lia Znumtheory Arith List Bool.
Require Import Reduce.
Import ListNotations.
Local Open Scope Z_scope.

Definition dmat := list (list Z).          (* list of columns, each a dense list of entries *)
Definition mget (M : dmat) (j i : nat) : Z := nth i (nth j M []) 0.
Definition to_mat (M : dmat) : mat := fun j i => mget M j i.

Fixpoint low_scan (p : Z) (v : nat -> Z) (k : nat) : option nat :=
  match k with
  | O => None
  | S k' => if v k' mod p =? 0 then low_scan p v k' else Some k'
  end.
Definition low_of (p : Z) (n : nat) (v : nat -> Z) : option nat := low_scan p v n.

Definition lows (p : Z) (n : nat) (M : dmat) : list (option nat) :=
  map (fun j => low_of p n (to_mat M j)) (seq 0 n).

Definition all_below (n : nat) (f : nat -> bool) : bool := forallb f (seq 0 n).

Definition check_diag (p : Z) (n : nat) (V : dmat) : bool :=
  all_below n (fun j => negb (mget V j j mod p =? 0)).
Definition check_product (p : Z) (n : nat) (D R V : dmat) : bool :=
  all_below n (fun j => all_below n (fun i =>
    (mget R j i - comb (to_mat D) (fun k => mget V j k) (S j) i) mod p =? 0)).
Definition check_reduced (p : Z) (n : nat) (R : dmat) : bool :=
  all_below n (fun j1 => all_below n (fun j2 =>
    (j1 =? j2)%nat ||
    match low_of p n (to_mat R j1), low_of p n (to_mat R j2) with
    | Some m1, Some m2 => negb (m1 =? m2)%nat
    | _, _ => true
    end)).
(* V is given by columns; only its entries on and above the diagonal are used *)
Definition check_RU (p : Z) (n : nat) (D R V : dmat) : bool :=
  check_diag p n V && check_product p n D R V && check_reduced p n R.
(* the part of the factor below the diagonal must vanish (not needed for the theorem, required by the property) *)
Definition check_upper (p : Z) (n : nat) (V : dmat) : bool :=
  all_below n (fun j => all_below n (fun k => (k <=? j)%nat || (mget V j k mod p =? 0))).

(* ------------------------------------------------------------------ soundness of the checker *)
Lemma all_below_spec n f : all_below n f = true <-> forall j, (j < n)%nat -> f j = true.
Proof.
  unfold all_below. rewrite forallb_forall. split.
  - intros H j Hj. apply H. apply in_seq. lia.
  - intros H j Hj. apply in_seq in Hj. apply H. lia.
Qed.

Section Sound.
Variable p : Z.
Hypothesis Hp : prime p.
Variable n : nat.

Lemma low_scan_some v k m : low_scan p v k = Some m <->
  (m < k)%nat /\ ~ zm p (v m) /\ forall i, (m < i < k)%nat -> zm p (v i).
Proof.
  induction k as [|k IH]; cbn [low_scan].
  - split; [discriminate|]. intros [H _]. lia.
  - destruct (v k mod p =? 0) eqn:E.
    + rewrite IH. apply Z.eqb_eq in E. split.
      * intros (A & B & C). split; [lia|]. split; [exact B|]. intros i Hi.
        destruct (Nat.eq_dec i k) as [->|]; [exact E|apply C; lia].
      * intros (A & B & C). assert (m <> k) by (intro; subst; apply B; exact E).
        split; [lia|]. split; [exact B|]. intros i Hi. apply C. lia.
    + apply Z.eqb_neq in E. split.
      * intros H. inversion H; subst. split; [lia|]. split; [exact E|]. intros i Hi. lia.
      * intros (A & B & C). destruct (Nat.eq_dec m k) as [->|Hne]; [reflexivity|].
        exfalso. apply E. apply C. lia.
Qed.

Lemma low_scan_none v k : low_scan p v k = None <-> forall i, (i < k)%nat -> zm p (v i).
Proof.
  induction k as [|k IH]; cbn [low_scan].
  - split; [intros _ i Hi; lia|reflexivity].
  - destruct (v k mod p =? 0) eqn:E.
    + rewrite IH. apply Z.eqb_eq in E. split.
      * intros H i Hi. destruct (Nat.eq_dec i k) as [->|]; [exact E|apply H; lia].
      * intros H i Hi. apply H. lia.
    + apply Z.eqb_neq in E. split; [discriminate|]. intros H. exfalso. apply E. apply H. lia.
Qed.

Lemma low_of_some v m : low_of p n v = Some m <-> is_low p n v m.
Proof. unfold low_of, is_low. apply low_scan_some. Qed.
Lemma low_of_none v : low_of p n v = None <-> is_zero p n v.
Proof. unfold low_of, is_zero. apply low_scan_none. Qed.

Lemma check_reduced_sound R : check_reduced p n R = true -> reduced p n (to_mat R).
Proof.
  unfold check_reduced. rewrite all_below_spec. intros H j1 j2 m H1 H2 Hne L1 L2.
  specialize (H j1 H1). rewrite all_below_spec in H. specialize (H j2 H2).
  apply low_of_some in L1. apply low_of_some in L2. rewrite L1, L2 in H.
  apply orb_true_iff in H. destruct H as [H|H].
  - apply Nat.eqb_eq in H. contradiction.
  - rewrite Nat.eqb_refl in H. discriminate.
Qed.

Lemma check_tri_sound D R V :
  check_diag p n V = true -> check_product p n D R V = true -> tri p n (to_mat D) (to_mat R).
Proof.
  unfold check_diag, check_product. rewrite !all_below_spec. intros Hd Hpr j Hj.
  exists (fun k => mget V j k). split.
  - specialize (Hd j Hj). apply negb_true_iff in Hd. apply Z.eqb_neq in Hd. exact Hd.
  - intros i Hi. specialize (Hpr j Hj). rewrite all_below_spec in Hpr. specialize (Hpr i Hi).
    apply Z.eqb_eq in Hpr. exact Hpr.
Qed.

Theorem check_RU_sound D R V : check_RU p n D R V = true ->
  tri p n (to_mat D) (to_mat R) /\ reduced p n (to_mat R).
Proof.
  unfold check_RU. rewrite !andb_true_iff. intros [[H1 H2] H3]. split.
  - apply check_tri_sound with V; assumption.
  - apply check_reduced_sound. exact H3.
Qed.

(* the other convention: the exposed factor U satisfies D = R.U (U upper triangular, invertible diagonal) *)
Theorem check_DRU_sound D R U : check_diag p n U = true -> check_product p n R D U = true ->
  check_reduced p n R = true -> tri p n (to_mat D) (to_mat R) /\ reduced p n (to_mat R).
Proof.
  intros H1 H2 H3. split.
  - apply (tri_sym p Hp n). apply check_tri_sound with U; assumption.
  - apply check_reduced_sound. exact H3.
Qed.

(* two decompositions of the same D accepted by the checker expose the same lows, hence the same barcode *)
Theorem check_RU_lows_unique D R1 V1 R2 V2 :
  check_RU p n D R1 V1 = true -> check_RU p n D R2 V2 = true -> lows p n R1 = lows p n R2.
Proof.
  intros H1 H2. apply check_RU_sound in H1. apply check_RU_sound in H2.
  destruct H1 as [T1 Rd1]. destruct H2 as [T2 Rd2].
  unfold lows. apply map_ext_in. intros j Hj. apply in_seq in Hj.
  destruct (lows_unique p Hp n (to_mat D) (to_mat R1) (to_mat R2) T1 T2 Rd1 Rd2 j ltac:(lia)) as [HL HZ].
  destruct (low_of p n (to_mat R1 j)) as [m|] eqn:E1.
  - symmetry. apply low_of_some. apply HL. apply low_of_some. exact E1.
  - symmetry. apply low_of_none. apply HZ. apply low_of_none. exact E1.
Qed.

(* either convention *)
Definition check_any (D R F : dmat) : bool :=
  check_RU p n D R F || (check_diag p n F && check_product p n R D F && check_reduced p n R).

Theorem check_any_sound D R F : check_any D R F = true ->
  tri p n (to_mat D) (to_mat R) /\ reduced p n (to_mat R).
Proof.
  unfold check_any. rewrite orb_true_iff. intros [H|H].
  - apply check_RU_sound with F. exact H.
  - rewrite !andb_true_iff in H. destruct H as [[H1 H2] H3]. apply check_DRU_sound with F; assumption.
Qed.

Theorem check_any_lows_unique D R1 F1 R2 F2 :
  check_any D R1 F1 = true -> check_any D R2 F2 = true -> lows p n R1 = lows p n R2.
Proof.
  intros H1 H2. apply check_any_sound in H1. apply check_any_sound in H2.
  destruct H1 as [T1 Rd1]. destruct H2 as [T2 Rd2].
  unfold lows. apply map_ext_in. intros j Hj. apply in_seq in Hj.
  destruct (lows_unique p Hp n (to_mat D) (to_mat R1) (to_mat R2) T1 T2 Rd1 Rd2 j ltac:(lia)) as [HL HZ].
  destruct (low_of p n (to_mat R1 j)) as [m|] eqn:E1.
  - symmetry. apply low_of_some. apply HL. apply low_of_some. exact E1.
  - symmetry. apply low_of_none. apply HZ. apply low_of_none. exact E1.
Qed.

End Sound.

(* ------------------------------------------------------------------ the standard reduction (executable) *)
(* columns as dense lists of length n with entries in [0,p) *)
Fixpoint zip_with (f : Z -> Z -> Z) (a b : list Z) : list Z :=
  match a, b with
  | x :: a', y :: b' => f x y :: zip_with f a' b'
  | _, _ => []
  end.
Definition col_axpy (p c : Z) (v w : list Z) : list Z := zip_with (fun a b => (a + c * b) mod p) v w.
Fixpoint list_low_aux (p : Z) (l : list Z) (i : nat) (acc : option nat) : option nat :=
  match l with
  | [] => acc
  | x :: l' => list_low_aux p l' (S i) (if x mod p =? 0 then acc else Some i)
  end.
Definition list_low (p : Z) (l : list Z) : option nat := list_low_aux p l 0 None.

Fixpoint zegcd (fuel : nat) (a b x0 x1 : Z) : Z * Z :=
  match fuel with
  | O => (a, x0)
  | S f => if b =? 0 then (a, x0) else zegcd f b (a mod b) x1 (x0 - (a / b) * x1)
  end.
Definition inv_mod (p x : Z) : Z := let '(_, c) := zegcd 200 (x mod p) p 1 0 in c mod p.

(* state: reduced columns so far (reverse order) as (R column, V column, low) *)
Fixpoint find_low (m : nat) (done : list (list Z * list Z * option nat)) : option (list Z * list Z) :=
  match done with
  | [] => None
  | (r, v, Some m') :: rest => if (m =? m')%nat then Some (r, v) else find_low m rest
  | (_, _, None) :: rest => find_low m rest
  end.

Fixpoint reduce_col (p : Z) (fuel : nat) (done : list (list Z * list Z * option nat)) (r v : list Z)
  : list Z * list Z * option nat :=
  match fuel with
  | O => (r, v, list_low p r)
  | S f =>
    match list_low p r with
    | None => (r, v, None)
    | Some m =>
      match find_low m done with
      | None => (r, v, Some m)
      | Some (r', v') =>
        let c := (- (nth m r 0) * inv_mod p (nth m r' 0)) mod p in
        reduce_col p f done (col_axpy p c r r') (col_axpy p c v v')
      end
    end
  end.

Definition unit_col (n j : nat) : list Z := map (fun i => if (i =? j)%nat then 1 else 0) (seq 0 n).

Fixpoint reduce_all (p : Z) (n : nat) (cols : list (list Z)) (j : nat) (done : list (list Z * list Z * option nat))
  : list (list Z * list Z * option nat) :=
  match cols with
  | [] => rev done
  | c :: rest =>
    let t := reduce_col p (S n) done (map (fun x => x mod p) c) (unit_col n j) in
    reduce_all p n rest (S j) (t :: done)
  end.

Definition reduce (p : Z) (n : nat) (D : dmat) : dmat * dmat :=
  let t := reduce_all p n D 0 [] in (map (fun x => fst (fst x)) t, map (fun x => snd (fst x)) t).

(* barcode from the lows: (birth index, Some death index | None) *)
Definition pairs_of_lows (l : list (option nat)) : list (nat * option nat) :=
  let n := length l in
  let finite := concat (map (fun jd => match snd jd with Some b => [(b, Some (fst jd))] | None => [] end)
                            (combine (seq 0 n) l)) in
  let births := map fst finite in
  let essential := concat (map (fun jd => match snd jd with
                                         | None => if existsb (Nat.eqb (fst jd)) births then [] else [(fst jd, None)]
                                         | Some _ => [] end) (combine (seq 0 n) l)) in
  finite ++ essential.

(* dense matrix from sparse columns given as lists of (row, coefficient) *)
Definition dense_col (n : nat) (c : list (nat * Z)) : list Z :=
  map (fun i => fold_left (fun acc rc => if (fst rc =? i)%nat then acc + snd rc else acc) c 0) (seq 0 n).
Definition dense_of_sparse (n : nat) (cols : list (list (nat * Z))) : dmat := map (dense_col n) cols.

(* the oracle: reduce, and certify the result with the verified checker; None = the certificate failed *)
Definition certified_lows (p : Z) (D : dmat) : option (list (option nat)) :=
  let n := length D in
  let '(R, V) := reduce p n D in
  if check_RU p n D R V then Some (lows p n R) else None.

(* anything another party exposes as (R, V) for the same D and that passes the checker has the certified lows *)
Theorem certified_lows_canonical p D R V l : prime p ->
  certified_lows p D = Some l -> check_RU p (length D) D R V = true -> lows p (length D) R = l.
Proof.
  intros Hp H Hc. unfold certified_lows in H.
  destruct (reduce p (length D) D) as [R0 V0] eqn:E.
  destruct (check_RU p (length D) D R0 V0) eqn:E0; [|discriminate].
  inversion H; subst. apply check_RU_lows_unique with (D := D) (V1 := V) (V2 := V0); assumption.
Qed.

Theorem certified_lows_canonical_any p D R F l : prime p ->
  certified_lows p D = Some l -> check_any p (length D) D R F = true -> lows p (length D) R = l.
Proof.
  intros Hp H Hc. unfold certified_lows in H.
  destruct (reduce p (length D) D) as [R0 V0] eqn:E.
  destruct (check_RU p (length D) D R0 V0) eqn:E0; [|discriminate].
  inversion H; subst. apply check_any_lows_unique with (D := D) (F1 := F) (F2 := V0); try assumption.
  unfold check_any. rewrite E0. reflexivity.
Qed.

(* matrix product (columns of A combined by the columns of B), entries reduced mod p *)
Definition mat_mul (p : Z) (n : nat) (A B : dmat) : dmat :=
  map (fun j => map (fun i => (comb (to_mat A) (fun k => mget B j k) n i) mod p) (seq 0 n)) (seq 0 n).
Definition transpose (n : nat) (A : dmat) : dmat :=
  map (fun j => map (fun i => mget A i j) (seq 0 n)) (seq 0 n).

Example ex_triangle :
  (* vertices 0 1 2, edges 3=(0,1) 4=(1,2) 5=(0,2), triangle 6 ; over Z_3 with signs *)
  let D := dense_of_sparse 7 [[]; []; []; [(0%nat,-1);(1%nat,1)]; [(1%nat,-1);(2%nat,1)]; [(0%nat,-1);(2%nat,1)];
                               [(3%nat,1);(4%nat,1);(5%nat,-1)]] in
  certified_lows 3 D = Some [None; None; None; Some 1%nat; Some 2%nat; None; Some 5%nat].
Proof. vm_compute. reflexivity. Qed.
