(* Representative cycles (C08): what a chain with a given youngest cell represents, relative to a reduced
   decomposition of the boundary matrix.  Built on Reduce.v (vectors nat -> Z, "zero" = divisible by the prime p). *)
From Coq Require Import ZArith Lia Znumtheory Arith List.
Require Import Reduce.
Local Open Scope Z_scope.

Section Rep.
Variable p : Z.
Hypothesis Hp : prime p.
Variable n : nat.

Notation zm := (zm p).
Notation is_low := (is_low p n).
Notation is_zero := (is_zero p n).
Notation veq := (veq p n).
Notation reduced := (reduced p n).
Notation tri := (tri p n).

Let zm_0 := zm_0 p Hp.
Let zm_add := zm_add p Hp.
Let zm_sub := zm_sub p Hp.
Let zm_opp := zm_opp p Hp.
Let zm_mul_r := zm_mul_r p Hp.
Let zm_mul_l := zm_mul_l p Hp.
Let veq_refl := veq_refl p Hp n.
Let veq_sym := veq_sym p Hp n.
Let veq_is_low := veq_is_low p Hp n.
Let low_unique := low_unique p n.
Let zero_not_low := zero_not_low p n.
Let comb_low := comb_low p Hp n.
Let comb_through := comb_through p Hp n.
Let tri_weak := tri_weak p n.
Let tri_sym := tri_sym p Hp n.
Let comb_veq := comb_veq p Hp n.
Let inv_exists := inv_exists p Hp.

(* w only involves cells strictly older than b *)
Definition below (w : vec) (b : nat) : Prop := forall i, (b <= i < n)%nat -> zm (w i).
(* v is a boundary of the complex made of the first J cells: a combination of the first J columns of D *)
Definition bnd (D : mat) (J : nat) (v : vec) : Prop := exists c, veq v (comb D c J).
(* z is a cycle: D.z = 0 *)
Definition cycle (D : mat) (z : vec) : Prop := is_zero (comb D z n).

Lemma low_sub_below z w b : is_low z b -> below w b -> is_low (fun i => z i - w i) b.
Proof.
  intros (A & B & C) Hw. split; [exact A|]. split.
  - intro H. apply B. replace (z b) with ((z b - w b) + w b) by ring. apply zm_add; [exact H|apply Hw; lia].
  - intros i Hi. apply zm_sub; [apply C; exact Hi|apply Hw; lia].
Qed.

(* ---- clause 1: as long as no column among the first J of a reduced decomposition has its low at b, a chain whose
        youngest cell is b is not (older chain) + (boundary of the first J cells) *)
Theorem not_boundary_while_alive D R z b J :
  tri D R -> reduced R -> (J <= n)%nat -> is_low z b ->
  (forall k, (k < J)%nat -> ~ is_low (R k) b) ->
  forall w, below w b -> ~ bnd D J (fun i => z i - w i).
Proof.
  intros Ht Hr HJ Hz Halive w Hw [c Hc].
  pose proof (low_sub_below z w b Hz Hw) as Hl.
  pose proof (tri_sym D R Ht) as Hs.
  destruct (comb_through R D J HJ (fun k Hk => tri_weak R D Hs k ltac:(lia)) c) as [e He].
  assert (Hle : is_low (comb R e J) b).
  { apply (veq_is_low _ _ b He). apply (veq_is_low _ _ b Hc). exact Hl. }
  destruct (comb_low R e Hr J HJ) as [[Hz0 _]|(ks & ms & Hks & _ & Hlk & Hlc & _)].
  - eapply zero_not_low; eassumption.
  - assert (ms = b) by (eapply low_unique; eassumption). subst ms. apply (Halive ks Hks). exact Hlk.
Qed.

(* ---- clause 2: once the column d of the reduced decomposition has its low at b, the chain is an older chain plus a
        boundary of the first d+1 cells *)
Theorem boundary_from_death D R z b d :
  tri D R -> (d < n)%nat -> is_low z b -> is_low (R d) b ->
  exists w, below w b /\ bnd D (S d) (fun i => z i - w i).
Proof.
  intros Ht Hd (A & B & C) (A' & B' & C').
  destruct (Ht d Hd) as [c0 [_ Hc0]].
  destruct (inv_exists (R d b) B') as [u Hu].
  set (s := z b * u).
  exists (fun i => z i - s * R d i). split.
  - intros i Hi. destruct (Nat.eq_dec i b) as [->|Hne].
    + unfold s. replace (z b - z b * u * R d b) with (- z b * (u * R d b - 1)) by ring. apply zm_mul_r. exact Hu.
    + apply zm_sub; [apply C; lia|apply zm_mul_r; apply C'; lia].
  - exists (fun k => s * c0 k). intros i Hi. rewrite <- (comb_scale D c0 s (S d) i).
    replace (z i - (z i - s * R d i) - s * comb D c0 (S d) i) with (s * (R d i - comb D c0 (S d) i)) by ring.
    apply zm_mul_r. apply Hc0. exact Hi.
Qed.

(* linearity of M.v in v *)
Lemma comb_coeff_add (M : mat) (u v : vec) J i : comb M (fun k => u k + v k) J i = comb M u J i + comb M v J i.
Proof. symmetry. apply comb_add. Qed.
Lemma comb_zero_coeff (M : mat) J i : comb M (fun _ => 0) J i = 0.
Proof. induction J as [|J IH]; cbn [comb]; [reflexivity|]. rewrite IH. ring. Qed.
Lemma comb_of_comb (D : mat) (c : nat -> Z) J i :
  (forall k, (k < J)%nat -> zm (comb D (D k) n i)) -> zm (comb D (comb D c J) n i).
Proof.
  induction J as [|J IH]; intros H.
  - cbn [comb]. rewrite comb_zero_coeff. apply zm_0.
  - change (comb D c (S J)) with (fun k => comb D c J k + (fun k' => c J * D J k') k).
    rewrite comb_coeff_add. apply zm_add; [apply IH; intros; apply H; lia|].
    rewrite <- (comb_scale D (D J) (c J) n i). apply zm_mul_r. apply H. lia.
Qed.

(* in a chain complex (every column of D is a cycle) the older chain of clause 2 is itself a cycle when z is *)
Theorem boundary_from_death_cycle D R z b d :
  (forall k, (k < n)%nat -> cycle D (D k)) ->
  tri D R -> (d < n)%nat -> cycle D z -> is_low z b -> is_low (R d) b ->
  exists w, below w b /\ cycle D w /\ bnd D (S d) (fun i => z i - w i).
Proof.
  intros HDD Ht Hd Hcz (A & B & C) (A' & B' & C').
  destruct (Ht d Hd) as [c0 [_ Hc0]].
  destruct (inv_exists (R d b) B') as [u Hu].
  set (s := z b * u).
  (* w := z - s * (D.c0)  (the exact boundary, congruent to s * R_d) *)
  exists (fun i => z i + (- s) * comb D c0 (S d) i). split; [|split].
  - intros i Hi.
    replace (z i + - s * comb D c0 (S d) i) with ((z i - s * R d i) + s * (R d i - comb D c0 (S d) i)) by ring.
    apply zm_add; [ |apply zm_mul_r; apply Hc0; lia].
    destruct (Nat.eq_dec i b) as [->|Hne].
    + unfold s. replace (z b - z b * u * R d b) with (- z b * (u * R d b - 1)) by ring. apply zm_mul_r. exact Hu.
    + apply zm_sub; [apply C; lia|apply zm_mul_r; apply C'; lia].
  - intros i Hi. unfold cycle in *.
    change (fun i0 => z i0 + - s * comb D c0 (S d) i0) with (fun k => z k + (fun k' => - s * comb D c0 (S d) k') k).
    rewrite comb_coeff_add. apply zm_add; [apply Hcz; exact Hi|].
    rewrite <- (comb_scale D (comb D c0 (S d)) (- s) n i). apply zm_mul_r.
    apply comb_of_comb. intros k Hk. apply (HDD k ltac:(lia)). exact Hi.
  - exists (fun k => s * c0 k). intros i Hi. rewrite <- (comb_scale D c0 s (S d) i).
    replace (z i - (z i + - s * comb D c0 (S d) i) - s * comb D c0 (S d) i) with 0 by ring. apply zm_0.
Qed.

(* ---- clause 3: representatives of bars alive after the first J cells, with pairwise distinct youngest cells, are
        linearly independent modulo the boundaries of the first J cells (and modulo older chains of the youngest one) *)
Theorem alive_representatives_independent D R (Z : mat) (b : nat -> nat) k J a :
  tri D R -> reduced R -> (J <= n)%nat -> (k <= n)%nat ->
  (forall t, (t < k)%nat -> is_low (Z t) (b t)) ->
  (forall t1 t2, (t1 < k)%nat -> (t2 < k)%nat -> b t1 = b t2 -> t1 = t2) ->
  (forall t j, (t < k)%nat -> (j < J)%nat -> ~ is_low (R j) (b t)) ->
  (exists t, (t < k)%nat /\ ~ zm (a t)) ->
  ~ bnd D J (comb Z a k).
Proof.
  intros Ht Hr HJ Hk Hlow Hinj Halive [t0 [Ht0 Ha0]] Hb.
  set (Z' := fun t => if lt_dec t k then Z t else (fun _ => 0)).
  assert (Hred' : reduced Z').
  { intros j1 j2 m _ _ Hne H1 H2. unfold Z' in H1, H2.
    destruct (lt_dec j1 k) as [L1|L1].
    - destruct (lt_dec j2 k) as [L2|L2].
      + apply Hne. apply Hinj; try assumption.
        transitivity m; [|symmetry]; eapply low_unique; eauto.
      + destruct H2 as (_ & N & _). apply N. apply zm_0.
    - destruct H1 as (_ & N & _). apply N. apply zm_0. }
  assert (Heq : veq (comb Z a k) (comb Z' a k)).
  { apply comb_veq. intros j Hj. unfold Z'. destruct (lt_dec j k); [apply veq_refl|lia]. }
  destruct (comb_low Z' a Hred' k Hk) as [[_ Hn]|(ks & ms & Hks & Hcks & Hlk & Hlc & _)].
  - apply (Hn t0 Ht0). split; [exact Ha0|]. intro Hz. unfold Z' in Hz. destruct (lt_dec t0 k); [|lia].
    eapply zero_not_low; [exact Hz|apply Hlow; exact Ht0].
  - assert (Hms : ms = b ks).
    { unfold Z' in Hlk. destruct (lt_dec ks k); [|lia]. eapply low_unique; [exact Hlk|apply Hlow; assumption]. }
    subst ms.
    assert (Hl : is_low (comb Z a k) (b ks)) by (apply (veq_is_low _ _ _ (veq_sym _ _ Heq)); exact Hlc).
    apply (not_boundary_while_alive D R (comb Z a k) (b ks) J Ht Hr HJ Hl (fun j Hj => Halive ks j Hks Hj) (fun _ => 0)).
    + intros i _. apply zm_0.
    + destruct Hb as [c Hc]. exists c. intros i Hi. replace (comb Z a k i - 0 - comb D c J i) with (comb Z a k i - comb D c J i) by ring.
      apply Hc. exact Hi.
Qed.

End Rep.

(* ------------------------------------------------------------------ executable checker for representatives *)
Require Import ReduceExec.
From Coq Require Import Bool.
Import ListNotations.

Definition zvec (z : list Z) : vec := fun i => nth i z 0.
(* D.z = 0 mod p *)
Definition check_cycle (p : Z) (n : nat) (D : dmat) (z : list Z) : bool :=
  all_below n (fun i => comb (to_mat D) (zvec z) n i mod p =? 0).
(* z is a cycle whose youngest cell is b *)
Definition check_rep (p : Z) (n : nat) (D : dmat) (z : list Z) (b : nat) : bool :=
  match low_of p n (zvec z) with Some m => (m =? b)%nat | None => false end && check_cycle p n D z.
(* D is the boundary matrix of a chain complex: D.D = 0 *)
Definition check_chain_complex (p : Z) (n : nat) (D : dmat) : bool :=
  all_below n (fun k => check_cycle p n D (nth k D [])).
(* all cells with a non-zero coefficient have the dimension of b *)
Definition check_dims (p : Z) (n : nat) (dims : list nat) (z : list Z) (b : nat) : bool :=
  all_below n (fun i => (zvec z i mod p =? 0) || (nth i dims O =? nth b dims O)%nat).
(* the support of z is inside the given list of cells *)
Definition check_support (p : Z) (n : nat) (S : list nat) (z : list Z) : bool :=
  all_below n (fun i => (zvec z i mod p =? 0) || existsb (Nat.eqb i) S).

(* a candidate cycle carried by the cells S (positions) whose youngest cell is b: reduce the matrix whose columns
   outside S are zero; if the column b reduces to zero, the column b of V is such a cycle.  The result is NOT trusted:
   it goes through check_rep / check_support. *)
Definition rep_witness (p : Z) (n : nat) (D : dmat) (S : list nat) (b : nat) : option (list Z) :=
  let DS := map (fun jc => if existsb (Nat.eqb (fst jc)) S then snd jc else map (fun _ => 0) (snd jc))
                (combine (seq 0 n) D) in
  let '(R, V) := reduce p n DS in
  match list_low p (nth b R []) with
  | None => Some (nth b V [])
  | Some _ => None
  end.

Section RepSound.
Variable p : Z.
Hypothesis Hp : prime p.
Variable n : nat.

Lemma check_cycle_sound D z : check_cycle p n D z = true -> cycle p n (to_mat D) (zvec z).
Proof.
  unfold check_cycle. rewrite all_below_spec. intros H i Hi. specialize (H i Hi). apply Z.eqb_eq in H. exact H.
Qed.

Lemma check_rep_sound D z b : check_rep p n D z b = true ->
  is_low p n (zvec z) b /\ cycle p n (to_mat D) (zvec z).
Proof.
  unfold check_rep. rewrite andb_true_iff. intros [H1 H2]. split; [|apply check_cycle_sound; exact H2].
  destruct (low_of p n (zvec z)) as [m|] eqn:E; [|discriminate].
  apply Nat.eqb_eq in H1. subst m. apply (low_of_some p n). exact E.
Qed.

Lemma check_chain_complex_sound D : check_chain_complex p n D = true ->
  forall k, (k < n)%nat -> cycle p n (to_mat D) (to_mat D k).
Proof.
  unfold check_chain_complex. rewrite all_below_spec. intros H k Hk. specialize (H k Hk).
  apply check_cycle_sound in H. exact H.
Qed.

(* The behavioural statements about a chain accepted by the checker, relative to ANY decomposition accepted by the
   matrix checker (hence relative to the canonical pairing).  [J] = number of cells of the sub-complex considered. *)
Theorem rep_alive D R F z b J :
  check_any p n D R F = true -> check_rep p n D z b = true -> (J <= n)%nat ->
  (forall k, (k < J)%nat -> low_of p n (to_mat R k) <> Some b) ->
  forall w, below p n w b -> ~ bnd p n (to_mat D) J (fun i => zvec z i - w i).
Proof.
  intros Hc Hr HJ Hal w Hw.
  destruct (check_any_sound p Hp n D R F Hc) as [Ht Hred].
  destruct (check_rep_sound D z b Hr) as [Hl _].
  apply (not_boundary_while_alive p Hp n (to_mat D) (to_mat R) (zvec z) b J Ht Hred HJ Hl); [|exact Hw].
  intros k Hk Hlow. apply (Hal k Hk). apply (low_of_some p n). exact Hlow.
Qed.

Theorem rep_dies D R F z b d :
  check_chain_complex p n D = true -> check_any p n D R F = true -> check_rep p n D z b = true ->
  (d < n)%nat -> low_of p n (to_mat R d) = Some b ->
  exists w, below p n w b /\ cycle p n (to_mat D) w /\ bnd p n (to_mat D) (S d) (fun i => zvec z i - w i).
Proof.
  intros Hcc Hc Hr Hd Hlow.
  destruct (check_any_sound p Hp n D R F Hc) as [Ht _].
  destruct (check_rep_sound D z b Hr) as [Hl Hcy].
  apply (boundary_from_death_cycle p Hp n (to_mat D) (to_mat R) (zvec z) b d); try assumption.
  - apply check_chain_complex_sound. exact Hcc.
  - apply (low_of_some p n). exact Hlow.
Qed.

(* representatives (as columns of Z, given by lists) of k bars alive in the sub-complex of the first J cells *)
Theorem reps_independent D R F (Zs : list (list Z)) (bs : list nat) J a :
  check_any p n D R F = true -> (J <= n)%nat -> (length bs <= n)%nat -> NoDup bs ->
  (forall t, (t < length bs)%nat -> check_rep p n D (nth t Zs []) (nth t bs O) = true) ->
  (forall t j, (t < length bs)%nat -> (j < J)%nat -> low_of p n (to_mat R j) <> Some (nth t bs O)) ->
  (exists t, (t < length bs)%nat /\ a t mod p <> 0) ->
  ~ bnd p n (to_mat D) J (comb (to_mat Zs) a (length bs)).
Proof.
  intros Hc HJ Hk Hnd Hrep Hal Hex.
  destruct (check_any_sound p Hp n D R F Hc) as [Ht Hred].
  apply (alive_representatives_independent p Hp n (to_mat D) (to_mat R) (to_mat Zs) (fun t => nth t bs O)
           (length bs) J a Ht Hred HJ Hk).
  - intros t Htk. destruct (check_rep_sound D (nth t Zs []) (nth t bs O) (Hrep t Htk)) as [Hl _]. exact Hl.
  - intros t1 t2 H1 H2 E. apply (proj1 (NoDup_nth bs O) Hnd t1 t2 H1 H2 E).
  - intros t j Htk Hj Hlow. apply (Hal t j Htk Hj). apply (low_of_some p n). exact Hlow.
  - exact Hex.
Qed.

End RepSound.

Example ex_rep_triangle :
  (* vertices 0 1 2, edges 3=(0,1) 4=(1,2) 5=(0,2), triangle 6, over Z_3: the 1-cycle 3+4-5 is born with edge 5 *)
  let D := dense_of_sparse 7 [[]; []; []; [(0%nat,-1);(1%nat,1)]; [(1%nat,-1);(2%nat,1)]; [(0%nat,-1);(2%nat,1)];
                               [(3%nat,1);(4%nat,1);(5%nat,-1)]] in
  check_chain_complex 3 7 D = true /\ check_rep 3 7 D [0;0;0;1;1;-1;0] 5 = true /\
  check_rep 3 7 D [0;0;0;1;1;1;0] 5 = false /\
  rep_witness 3 7 D [3%nat;4%nat;5%nat] 5 <> None /\ rep_witness 3 7 D [3%nat;5%nat] 5 = None.
Proof. vm_compute. repeat split; discriminate. Qed.
