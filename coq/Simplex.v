(* Simplex.v - shared core: simplices as strictly increasing lists of Z, faces / cofaces, and the abstract
   (filtered) complex as a finite map  simplex -> value  (association list, first binding wins).
   SPECIFICATION side of C01 (reused by C03, C04, C15).  Definitions first, basic facts at the end. *)
From Coq Require Import ZArith List Lia Bool Sorting.Sorted.
Import ListNotations.
Local Open Scope Z_scope.

Definition simplex := list Z.
Definition V := Z.                         (* filtration values; +-infinity are two far-away integers in the runs *)

(* strictly increasing *)
Definition ssorted (s : simplex) : Prop := StronglySorted Z.lt s.
Fixpoint lbound (x : Z) (s : simplex) : bool :=
  match s with [] => true | y :: r => (x <? y) && lbound x r end.
Fixpoint ssortedb (s : simplex) : bool :=
  match s with [] => true | x :: r => lbound x r && ssortedb r end.

Fixpoint seqb (a b : simplex) : bool :=
  match a, b with
  | [], [] => true
  | x :: a', y :: b' => (x =? y) && seqb a' b'
  | _, _ => false
  end.

(* sorted insertion without duplicates; [norm] = std::sort + std::unique *)
Fixpoint sins (x : Z) (s : simplex) : simplex :=
  match s with
  | [] => [x]
  | y :: r => match x ?= y with Lt => x :: s | Eq => s | Gt => y :: sins x r end
  end.
Definition norm (l : list Z) : simplex := fold_right sins [] l.

(* a is a face of b (sub-sequence of a sorted list) *)
Fixpoint subseq (a b : simplex) {struct b} : bool :=
  match a, b with
  | [], _ => true
  | _ :: _, [] => false
  | x :: a', y :: b' => if x =? y then subseq a' b' else subseq a b'
  end.

Fixpoint sublists (s : simplex) : list simplex :=
  match s with
  | [] => [[]]
  | x :: r => map (cons x) (sublists r) ++ sublists r
  end.
Definition is_nil {A} (l : list A) : bool := match l with [] => true | _ => false end.
(* the non-empty faces of s, s included *)
Definition faces (s : simplex) : list simplex := filter (fun t => negb (is_nil t)) (sublists s).
Definition sdim (s : simplex) : Z := Z.of_nat (length s) - 1.

(* ---- the abstract filtered complex ---- *)
Definition cplx := list (simplex * V).

Fixpoint lookup (K : cplx) (s : simplex) : option V :=
  match K with
  | [] => None
  | (t, v) :: r => if seqb t s then Some v else lookup r s
  end.
Fixpoint cset (K : cplx) (s : simplex) (v : V) : cplx :=
  match K with
  | [] => [(s, v)]
  | (t, w) :: r => if seqb t s then (t, v) :: r else (t, w) :: cset r s v
  end.
Definition is_some {A} (o : option A) : bool := match o with Some _ => true | None => false end.
Definition cmem (K : cplx) (s : simplex) : bool := is_some (lookup K s).
Definition keys (K : cplx) : list simplex := map fst K.

(* the documented rules *)
Definition spec_insert (K : cplx) (s : simplex) (v : V) : cplx :=
  match lookup K s with
  | None => cset K s v
  | Some w => cset K s (Z.min w v)
  end.
Definition spec_insert_closure (K : cplx) (s : simplex) (v : V) : cplx :=
  fold_left (fun K t => spec_insert K t v) (faces s) K.
Definition spec_batch (K : cplx) (vs : list Z) (v : V) : cplx :=
  fold_left (fun K x => match lookup K [x] with None => cset K [x] v | Some _ => K end) vs K.
Definition spec_remove (K : cplx) (s : simplex) : cplx := filter (fun p => negb (seqb (fst p) s)) K.
(* keeps the simplices whose value (first binding) is <= f *)
Definition spec_prune_filt (K : cplx) (f : V) : cplx :=
  filter (fun p => match lookup K (fst p) with Some w => negb (f <? w) | None => false end) K.
Definition spec_prune_dim (K : cplx) (d : Z) : cplx := filter (fun p => sdim (fst p) <=? d) K.
Definition edge_key (u v : Z) : simplex := if u <? v then [u; v] else [v; u].
(* graph with vertices 0..nv-1 (values vw) and weighted edges; first occurrence of an edge wins *)
Fixpoint spec_graph_vertices (K : cplx) (i : Z) (vw : list V) : cplx :=
  match vw with [] => K | w :: r => spec_graph_vertices (match lookup K [i] with None => cset K [i] w | Some _ => K end) (i + 1) r end.
Definition spec_graph (vw : list V) (es : list (Z * Z * V)) : cplx :=
  fold_left (fun K e => let '(u, v, w) := e in
                        match lookup K (edge_key u v) with None => cset K (edge_key u v) w | Some _ => K end)
            es (spec_graph_vertices [] 0 vw).

(* queries *)
Definition star (K : cplx) (s : simplex) : list simplex := filter (fun t => subseq s t) (keys K).
Definition cofaces (K : cplx) (s : simplex) (codim : Z) : list simplex :=
  filter (fun t => subseq s t && (sdim t =? sdim s + codim)) (keys K).
(* boundary of s = x0..xk in the order in which the iterators deliver it: drop xk, x(k-1), ..., x0; with the dropped vertex *)
Fixpoint drop_each (s : simplex) : list (simplex * Z) :=
  match s with
  | [] => []
  | x :: r => map (fun p => (x :: fst p, snd p)) (drop_each r) ++ [(r, x)]
  end.
Definition boundary (s : simplex) : list (simplex * Z) :=
  match s with [_] => [] | _ => drop_each s end.
Definition cdim (K : cplx) : Z := fold_right (fun p m => Z.max (sdim (fst p)) m) (-1) K.
Definition count_dim (K : cplx) (d : Z) : Z := Z.of_nat (length (filter (fun p => sdim (fst p) =? d) K)).

Definition closedb (K : cplx) : bool :=
  forallb (fun p => forallb (fun t => cmem K t) (faces (fst p))) K.
Definition monob (K : cplx) : bool :=
  forallb (fun p => forallb (fun t => match lookup K t with Some w => w <=? snd p | None => true end) (faces (fst p))) K.
Definition closed (K : cplx) : Prop := forall s t, cmem K s = true -> In t (faces s) -> cmem K t = true.

(* flag expansion up to dimension d of a complex of dimension <= 1: cliques get the largest edge value *)
Fixpoint pairs (s : simplex) : list simplex :=
  match s with [] => [] | x :: r => map (fun y => [x; y]) r ++ pairs r end.
Definition spec_expand (K : cplx) (d : Z) : cplx :=
  let vs := norm (flat_map (fun p => match fst p with [x] => [x] | _ => [] end) K) in
  fold_left (fun K' s =>
               if (2 <=? sdim s) && (sdim s <=? d) && forallb (fun e => cmem K e) (pairs s) && negb (cmem K' s)
               then cset K' s (fold_right (fun e m => match lookup K e with Some w => Z.max w m | None => m end)
                                          (match lookup K (firstn 2 s) with Some w => w | None => 0 end) (pairs s))
               else K')
            (rev (faces vs)) K.

(* ------------------------------------------------------------------------------------------------ basic facts *)
Lemma seqb_eq a b : seqb a b = true <-> a = b.
Proof.
  revert b; induction a as [|x a IH]; intros [|y b]; cbn [seqb]; split; intro H; try congruence; try reflexivity.
  - apply andb_true_iff in H as [H1 H2]. apply Z.eqb_eq in H1. apply IH in H2. congruence.
  - inversion H; subst. apply andb_true_iff; split; [apply Z.eqb_refl | apply IH; reflexivity].
Qed.
Lemma seqb_refl a : seqb a a = true.
Proof. apply seqb_eq; reflexivity. Qed.
Lemma seqb_neq a b : a <> b -> seqb a b = false.
Proof. intro H. destruct (seqb a b) eqn:E; [apply seqb_eq in E; contradiction | reflexivity]. Qed.
Lemma seqb_sym a b : seqb a b = seqb b a.
Proof.
  destruct (seqb a b) eqn:E.
  - apply seqb_eq in E; subst; symmetry; apply seqb_refl.
  - destruct (seqb b a) eqn:E2; [apply seqb_eq in E2; subst; rewrite seqb_refl in E; discriminate | reflexivity].
Qed.

Lemma lookup_cset_same K s v : lookup (cset K s v) s = Some v.
Proof.
  induction K as [|[t w] r IH]; cbn [cset lookup].
  - rewrite seqb_refl; reflexivity.
  - destruct (seqb t s) eqn:E; cbn [lookup]; rewrite E; [reflexivity | exact IH].
Qed.
Lemma lookup_cset_other K s v t : t <> s -> lookup (cset K s v) t = lookup K t.
Proof.
  intro Hne. induction K as [|[u w] r IH]; cbn [cset lookup].
  - rewrite (seqb_neq s t) by congruence; reflexivity.
  - destruct (seqb u s) eqn:E; cbn [lookup].
    + apply seqb_eq in E; subst u. rewrite (seqb_neq s t) by congruence; reflexivity.
    + destruct (seqb u t); [reflexivity | exact IH].
Qed.

Lemma spec_insert_same K s v :
  lookup (spec_insert K s v) s = Some (match lookup K s with None => v | Some w => Z.min w v end).
Proof. unfold spec_insert. destruct (lookup K s); apply lookup_cset_same. Qed.
Lemma spec_insert_other K s v t : t <> s -> lookup (spec_insert K s v) t = lookup K t.
Proof. intro H. unfold spec_insert. destruct (lookup K s); apply lookup_cset_other; exact H. Qed.

Lemma lookup_filter_key K (p : simplex -> bool) s :
  lookup (filter (fun q => p (fst q)) K) s = if p s then lookup K s else None.
Proof.
  induction K as [|[t w] r IH]; cbn [filter lookup fst].
  - destruct (p s); reflexivity.
  - destruct (p t) eqn:Ept; cbn [lookup].
    + destruct (seqb t s) eqn:E; [apply seqb_eq in E; subst; rewrite Ept; reflexivity | exact IH].
    + destruct (seqb t s) eqn:E; [apply seqb_eq in E; subst; rewrite Ept in IH; rewrite Ept; exact IH | exact IH].
Qed.
Lemma spec_remove_same K s : lookup (spec_remove K s) s = None.
Proof. unfold spec_remove. rewrite (lookup_filter_key K (fun t => negb (seqb t s))). rewrite seqb_refl; reflexivity. Qed.
Lemma spec_remove_other K s t : t <> s -> lookup (spec_remove K s) t = lookup K t.
Proof.
  intro H. unfold spec_remove. rewrite (lookup_filter_key K (fun t => negb (seqb t s))).
  rewrite (seqb_neq t s H); reflexivity.
Qed.
Lemma spec_prune_dim_lookup K d s :
  lookup (spec_prune_dim K d) s = if sdim s <=? d then lookup K s else None.
Proof. unfold spec_prune_dim. apply (lookup_filter_key K (fun t => sdim t <=? d)). Qed.
Lemma spec_prune_filt_lookup K f s :
  lookup (spec_prune_filt K f) s = match lookup K s with Some w => if f <? w then None else Some w | None => None end.
Proof.
  unfold spec_prune_filt.
  rewrite (lookup_filter_key K (fun t => match lookup K t with Some w => negb (f <? w) | None => false end)).
  destruct (lookup K s) as [w|]; [destruct (f <? w)|]; reflexivity.
Qed.
