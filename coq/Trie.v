(* Trie.v - shared core: the simplex tree as a prefix tree.  A node carries its label, its filtration value and
   the trie of its children (a leaf has no children: in the C++ "children() points to its own Siblings").
   ALGORITHM side: sibling sets are sorted association lists (boost flat_map / map), [get]/[put]/[del] are
   find / try_emplace+assign / erase on one Siblings object.  [abs] is the abstraction function to the abstract
   complex of Simplex.v.  Definitions only (facts are in C01_Proofs.v) so that the file always extracts. *)
From Coq Require Import ZArith List Lia Bool.
Import ListNotations.
Require Import Simplex.
Local Open Scope Z_scope.

Inductive trie := Node (children : list (Z * V * trie)).
Definition sibs := list (Z * V * trie).
Definition kids (t : trie) : sibs := match t with Node c => c end.
Definition leaf : trie := Node [].

Section trie_induction.
  Variable P : trie -> Prop.
  Variable Q : sibs -> Prop.
  Hypothesis HN : forall l, Q l -> P (Node l).
  Hypothesis Hnil : Q [].
  Hypothesis Hcons : forall x w c r, P c -> Q r -> Q ((x, w, c) :: r).
  Fixpoint trie_sibs_ind (t : trie) : P t :=
    match t with
    | Node l => HN l ((fix go (l : sibs) : Q l :=
                         match l with
                         | [] => Hnil
                         | (x, w, c) :: r => Hcons x w c r (trie_sibs_ind c) (go r)
                         end) l)
    end.
  Fixpoint sibs_trie_ind (l : sibs) : Q l :=
    match l with
    | [] => Hnil
    | (x, w, c) :: r => Hcons x w c r (trie_sibs_ind c) (sibs_trie_ind r)
    end.
End trie_induction.

(* ---- one Siblings object: sorted association list ---- *)
Fixpoint get (x : Z) (l : sibs) : option (V * trie) :=
  match l with
  | [] => None
  | (y, w, c) :: r => match x ?= y with Eq => Some (w, c) | Lt => None | Gt => get x r end
  end.
Fixpoint put (x : Z) (w : V) (c : trie) (l : sibs) : sibs :=
  match l with
  | [] => [(x, w, c)]
  | (y, w', c') :: r =>
      match x ?= y with
      | Lt => (x, w, c) :: l
      | Eq => (x, w, c) :: r
      | Gt => (y, w', c') :: put x w c r
      end
  end.
Fixpoint del (x : Z) (l : sibs) : sibs :=
  match l with
  | [] => []
  | (y, w', c') :: r => match x ?= y with Lt => l | Eq => r | Gt => (y, w', c') :: del x r end
  end.
Definition label (e : Z * V * trie) : Z := fst (fst e).

(* well-formedness: every sibling list strictly sorted by label (hence no duplicate), recursively *)
Fixpoint lb_sibs (x : Z) (l : sibs) : Prop :=
  match l with [] => True | e :: r => x < label e /\ lb_sibs x r end.
Fixpoint wf_t (t : trie) : Prop :=
  match t with
  | Node l => (fix go (l : sibs) : Prop :=
                 match l with
                 | [] => True
                 | (x, w, c) :: r => lb_sibs x r /\ wf_t c /\ go r
                 end) l
  end.
Definition wf (l : sibs) : Prop := wf_t (Node l).
(* boolean version, used by the oracle on every state *)
Fixpoint lb_sibsb (x : Z) (l : sibs) : bool :=
  match l with [] => true | e :: r => (x <? label e) && lb_sibsb x r end.
Fixpoint wfb_t (t : trie) : bool :=
  match t with
  | Node l => (fix go (l : sibs) : bool :=
                 match l with
                 | [] => true
                 | (x, w, c) :: r => lb_sibsb x r && wfb_t c && go r
                 end) l
  end.

(* ---- find (Simplex_tree::find_simplex on a sorted word) ---- *)
Fixpoint find (s : simplex) (l : sibs) : option (V * trie) :=
  match s with
  | [] => None
  | x :: rest =>
      match rest with
      | [] => get x l
      | _ :: _ => match get x l with Some (_, Node c) => find rest c | None => None end
      end
  end.
Definition find_val (s : simplex) (l : sibs) : option V := option_map fst (find s l).

(* ---- abstraction: the set of words with their values, in DFS pre-order (= lexicographic order) ---- *)
Fixpoint abs_t (t : trie) : cplx :=
  match t with
  | Node l => flat_map (fun e => let '(x, w, c) := e in
                                 ([x], w) :: map (fun p => (x :: fst p, snd p)) (abs_t c)) l
  end.
Definition abs (l : sibs) : cplx := abs_t (Node l).

(* ---- enumeration in the order of Simplex_tree_complex_simplex_iterator: children first, then the node ---- *)
Fixpoint enum_t (t : trie) : cplx :=
  match t with
  | Node l => flat_map (fun e => let '(x, w, c) := e in
                                 map (fun p => (x :: fst p, snd p)) (enum_t c) ++ [([x], w)]) l
  end.
(* skeleton iterator: does not go below depth k (k = number of further levels allowed) *)
Fixpoint skel_t (t : trie) (k : nat) : cplx :=
  match t with
  | Node l => flat_map (fun e => let '(x, w, c) := e in
                                 (match k with
                                  | O => []
                                  | S k' => map (fun p => (x :: fst p, snd p)) (skel_t c k')
                                  end) ++ [([x], w)]) l
  end.
Fixpoint size_t (t : trie) : Z :=
  match t with
  | Node l => fold_right (fun e n => let '(x, w, c) := e in 1 + size_t c + n) 0 l
  end.
(* height: -1 for the empty tree, else the largest dimension *)
Fixpoint height_t (t : trie) : Z :=
  match t with
  | Node l => fold_right (fun e n => let '(x, w, c) := e in Z.max (1 + height_t c) n) (-1) l
  end.
