(* The transposition of two consecutive cells i, i+1 of the order (vine swap; RU_vine_swap::vine_swap, Chain_vine_swap), at the
   level of Reduce.v: matrices nat -> nat -> Z, zero = divisible by the prime p, [tri D R] = "R = D.V, V upper triangular with
   invertible diagonal".

   [pmat i M] is M with rows i, i+1 exchanged and columns i, i+1 exchanged: [pmat i D] is the boundary matrix of the new order.
   Proved here:
     vine_swap_tri        if column i+1 of R does not use column i of D (the entry V[i][i+1] is zero: what the implementation tests
                          first, and otherwise establishes by one column addition, see kill_coefficient) then the conjugated pair
                          is again a decomposition of the new boundary matrix;
     kill_coefficient     one addition of column i to column i+1 establishes that hypothesis and keeps [tri D R];
     low_after_swap       where the low of every column goes;
     swap_keeps_reduced   the conjugated R is reduced unless the one interacting configuration is present (a column with low i+1
                          and a non-zero entry in row i, together with a column with low i);
     vine_swap_no_interaction   the three together: in every other configuration the swap is a relabelling of the pairing, and (by
                          lows_unique) any rebuild from scratch finds exactly that pairing.
     vine_swap_interacting      the interacting configuration (with V[i][i+1] = 0): one addition of the left of the two columns to the
                          right one restores reducedness, the right one gets low i;
     prep_keeps_reduced / recomb_tri / recomb_reduced / recomb_as_addition   the configurations in which the preparing addition is
                          really needed;
     vine_swap_complete   all configurations together.
   Not modelled: U/V as matrices, the stored barcode, lazily swapped rows; every state reached by the implementation is certified by
   the verified checker instead (ReduceExec.check_any). *)
From Coq Require Import ZArith Lia Znumtheory Arith List.
Require Import Reduce ReduceAlg.
Local Open Scope Z_scope.

Section Swap.
Variable p : Z.
Hypothesis Hp : prime p.
Variable n : nat.

Notation zm := (zm p).
Notation is_low := (is_low p n).
Notation is_zero := (is_zero p n).
Notation veq := (veq p n).
Notation tri := (tri p n).
Notation reduced := (reduced p n).

Let zm_0 := zm_0 p Hp.
Let zm_add := zm_add p Hp.
Let zm_mul_r := zm_mul_r p Hp.
Let zm_mul_l := zm_mul_l p Hp.
Let low_unique := low_unique p n.
Let low_or_zero := low_or_zero p n.
Let zero_not_low := zero_not_low p n.

Variable i : nat.
Hypothesis Hi : (S i < n)%nat.

Definition tr (k : nat) : nat := if Nat.eq_dec k i then S i else if Nat.eq_dec k (S i) then i else k.
Definition pvec (v : vec) : vec := fun r => v (tr r).
Definition pmat (M : mat) : mat := fun j => pvec (M (tr j)).

Lemma tr_i : tr i = S i.
Proof. unfold tr. destruct (Nat.eq_dec i i); [reflexivity|tauto]. Qed.
Lemma tr_Si : tr (S i) = i.
Proof. unfold tr. destruct (Nat.eq_dec (S i) i); [lia|]. destruct (Nat.eq_dec (S i) (S i)); [reflexivity|tauto]. Qed.
Lemma tr_other k : k <> i -> k <> S i -> tr k = k.
Proof. intros H1 H2. unfold tr. destruct (Nat.eq_dec k i); [tauto|]. destruct (Nat.eq_dec k (S i)); [tauto|reflexivity]. Qed.
Lemma tr_invol k : tr (tr k) = k.
Proof.
  destruct (Nat.eq_dec k i) as [->|H1]; [rewrite tr_i, tr_Si; reflexivity|].
  destruct (Nat.eq_dec k (S i)) as [->|H2]; [rewrite tr_Si, tr_i; reflexivity|].
  rewrite (tr_other k) by assumption. apply tr_other; assumption.
Qed.
Lemma tr_lt k : (k < n)%nat -> (tr k < n)%nat.
Proof.
  intros Hk. destruct (Nat.eq_dec k i) as [->|H1]; [rewrite tr_i; lia|].
  destruct (Nat.eq_dec k (S i)) as [->|H2]; [rewrite tr_Si; lia|]. rewrite tr_other; auto.
Qed.
Lemma tr_inj a b : tr a = tr b -> a = b.
Proof. intros H. rewrite <- (tr_invol a), <- (tr_invol b), H. reflexivity. Qed.

Lemma comb_ext_eq (M : mat) c c' J r : (forall k, (k < J)%nat -> c k = c' k) -> comb M c J r = comb M c' J r.
Proof.
  induction J as [|J IH]; intros H; cbn [comb]; [reflexivity|].
  rewrite IH by (intros k Hk; apply H; lia). rewrite (H J) by lia. reflexivity.
Qed.

(* below the two cells nothing moves *)
Lemma comb_pmat_low (M : mat) c J r : (J <= i)%nat -> comb (pmat M) c J r = comb M c J (tr r).
Proof.
  induction J as [|J IH]; intros HJ; cbn [comb]; [reflexivity|].
  rewrite IH by lia. unfold pmat, pvec. rewrite (tr_other J) by lia. reflexivity.
Qed.

(* a combination that covers both cells: the two coefficients are exchanged *)
Lemma comb_pmat_both (M : mat) c r :
  comb (pmat M) c (S (S i)) r = comb M (fun k => c (tr k)) (S (S i)) (tr r).
Proof.
  cbn [comb]. rewrite comb_pmat_low by lia.
  rewrite (comb_ext_eq M c (fun k => c (tr k)) i (tr r)) by (intros k Hk; rewrite tr_other by lia; reflexivity).
  unfold pmat, pvec. rewrite tr_i, tr_Si. ring.
Qed.

Lemma comb_pmat_high (M : mat) c J r : (S (S i) <= J)%nat ->
  comb (pmat M) c J r = comb M (fun k => c (tr k)) J (tr r).
Proof.
  induction J as [|J IH]; intros HJ; [lia|].
  destruct (Nat.eq_dec J (S i)) as [->|HJ']; [apply comb_pmat_both|].
  cbn [comb]. rewrite IH by lia. unfold pmat, pvec. rewrite (tr_other J) by lia. reflexivity.
Qed.

(* ------------------------------------------------------------------ the decomposition is carried along *)
Theorem vine_swap_tri (D R : mat) :
  tri D R ->
  (exists c, zm (c i) /\ ~ zm (c (S i)) /\ veq (R (S i)) (comb D c (S (S i)))) ->
  tri (pmat D) (pmat R).
Proof.
  intros Ht [cs [Hcs0 [Hcs1 Hcsv]]] j Hj.
  destruct (lt_eq_lt_dec j i) as [[Hlt|Heq]|Hgt].
  - (* j < i *)
    destruct (Ht j Hj) as [c [Hc Hv]]. exists c. split; [exact Hc|].
    intros r Hr. rewrite comb_pmat_low by lia. unfold pmat, pvec. rewrite (tr_other j) by lia.
    apply Hv. apply tr_lt; exact Hr.
  - (* j = i: the old column i+1, which does not use the old column i *)
    subst j.
    exists (fun k => if Nat.eq_dec k i then cs (S i) else cs k). split.
    + destruct (Nat.eq_dec i i); [exact Hcs1|tauto].
    + intros r Hr. cbn [comb]. rewrite comb_pmat_low by lia.
      destruct (Nat.eq_dec i i) as [_|]; [|tauto].
      rewrite (comb_ext_eq D _ cs i (tr r)) by (intros k Hk; destruct (Nat.eq_dec k i); [lia|reflexivity]).
      unfold pmat, pvec. rewrite tr_i.
      pose proof (Hcsv (tr r) (tr_lt r Hr)) as H. cbn [comb] in H.
      replace (R (S i) (tr r) - (comb D cs i (tr r) + cs (S i) * D (S i) (tr r)))
        with ((R (S i) (tr r) - (comb D cs i (tr r) + cs i * D i (tr r) + cs (S i) * D (S i) (tr r))) + cs i * D i (tr r)) by ring.
      apply zm_add; [exact H|]. apply zm_mul_l. exact Hcs0.
  - destruct (Nat.eq_dec j (S i)) as [->|Hne].
    + (* j = i+1: the old column i *)
      destruct (Ht i ltac:(lia)) as [c [Hc Hv]].
      exists (fun k => if Nat.eq_dec k (S i) then c i else if Nat.eq_dec k i then 0 else c k). split.
      * destruct (Nat.eq_dec (S i) (S i)); [exact Hc|tauto].
      * intros r Hr. cbn [comb]. rewrite comb_pmat_low by lia.
        destruct (Nat.eq_dec (S i) (S i)) as [_|]; [|tauto].
        destruct (Nat.eq_dec i (S i)) as [|_]; [lia|]. destruct (Nat.eq_dec i i) as [_|]; [|tauto].
        rewrite (comb_ext_eq D _ c i (tr r))
          by (intros k Hk; destruct (Nat.eq_dec k (S i)); [lia|]; destruct (Nat.eq_dec k i); [lia|reflexivity]).
        unfold pmat, pvec. rewrite tr_i, tr_Si.
        pose proof (Hv (tr r) (tr_lt r Hr)) as H. cbn [comb] in H.
        replace (R i (tr r) - (comb D c i (tr r) + 0 * D (S i) (tr r) + c i * D i (tr r)))
          with (R i (tr r) - (comb D c i (tr r) + c i * D i (tr r))) by ring.
        exact H.
    + (* j > i+1 *)
      destruct (Ht j Hj) as [c [Hc Hv]].
      exists (fun k => c (tr k)). split; [rewrite tr_other by lia; exact Hc|].
      intros r Hr. rewrite comb_pmat_high by lia.
      rewrite (comb_ext_eq D (fun k => (fun k0 => c (tr k0)) (tr k)) c (S j) (tr r)) by (intros k Hk; rewrite tr_invol; reflexivity).
      unfold pmat, pvec. rewrite (tr_other j) by lia. apply Hv. apply tr_lt; exact Hr.
Qed.

(* one column addition (column i added to column i+1) establishes the hypothesis on V[i][i+1] *)
Theorem kill_coefficient (D R : mat) : tri D R ->
  exists c0, tri D (col_add R (S i) i c0) /\
    exists c, zm (c i) /\ ~ zm (c (S i)) /\ veq (col_add R (S i) i c0 (S i)) (comb D c (S (S i))).
Proof.
  intros Ht.
  destruct (Ht (S i) Hi) as [c [Hc Hv]]. destruct (Ht i ltac:(lia)) as [d [Hd Hw]].
  destruct (cancelling_coefficient p Hp (c i) (d i) Hd) as [c0 Hc0].
  exists c0. split; [apply (tri_col_add p Hp n); [exact Ht|lia|exact Hi]|].
  exists (fun k => if Nat.eq_dec k (S i) then c (S i) else c k + c0 * d k). split; [|split].
  - destruct (Nat.eq_dec i (S i)); [lia|exact Hc0].
  - destruct (Nat.eq_dec (S i) (S i)); [exact Hc|tauto].
  - intros r Hr. rewrite col_add_same. cbn [comb].
    destruct (Nat.eq_dec (S i) (S i)) as [_|]; [|tauto]. destruct (Nat.eq_dec i (S i)) as [|_]; [lia|].
    rewrite (comb_ext_eq D _ (fun k => c k + c0 * d k) i r)
      by (intros k Hk; destruct (Nat.eq_dec k (S i)); [lia|reflexivity]).
    rewrite <- (comb_add D c (fun k => c0 * d k) i r). rewrite <- (comb_scale D d c0 i r).
    pose proof (Hv r Hr) as H1. pose proof (Hw r Hr) as H2. cbn [comb] in H1, H2.
    replace (R (S i) r + c0 * R i r - (comb D c i r + c0 * comb D d i r + (c i + c0 * d i) * D i r + c (S i) * D (S i) r))
      with ((R (S i) r - (comb D c i r + c i * D i r + c (S i) * D (S i) r)) + c0 * (R i r - (comb D d i r + d i * D i r))) by ring.
    apply zm_add; [exact H1|]. apply zm_mul_r. exact H2.
Qed.

(* ------------------------------------------------------------------ where the lows go *)
Lemma low_far v m : is_low v m -> m <> i -> m <> S i -> is_low (pvec v) m.
Proof.
  intros [Hm [Hnz Hz]] H1 H2. split; [exact Hm|]. split.
  - unfold pvec. rewrite tr_other by assumption. exact Hnz.
  - intros r Hr. unfold pvec. apply Hz. split; [|apply tr_lt; lia].
    destruct (Nat.eq_dec r i) as [->|Hr1]; [rewrite tr_i; lia|].
    destruct (Nat.eq_dec r (S i)) as [->|Hr2]; [rewrite tr_Si; lia|]. rewrite tr_other by assumption. lia.
Qed.
Lemma low_i v : is_low v i -> is_low (pvec v) (S i).
Proof.
  intros [Hm [Hnz Hz]]. split; [exact Hi|]. split.
  - unfold pvec. rewrite tr_Si. exact Hnz.
  - intros r Hr. unfold pvec. rewrite tr_other by lia. apply Hz. lia.
Qed.
Lemma low_Si_z v : is_low v (S i) -> zm (v i) -> is_low (pvec v) i.
Proof.
  intros [Hm [Hnz Hz]] H0. split; [lia|]. split.
  - unfold pvec. rewrite tr_i. exact Hnz.
  - intros r Hr. unfold pvec. destruct (Nat.eq_dec r (S i)) as [->|Hr2]; [rewrite tr_Si; exact H0|].
    rewrite tr_other by lia. apply Hz. lia.
Qed.
Lemma low_Si_nz v : is_low v (S i) -> ~ zm (v i) -> is_low (pvec v) (S i).
Proof.
  intros [Hm [Hnz Hz]] H0. split; [exact Hi|]. split.
  - unfold pvec. rewrite tr_Si. exact H0.
  - intros r Hr. unfold pvec. rewrite tr_other by lia. apply Hz. lia.
Qed.
Lemma zero_pvec v : is_zero v -> is_zero (pvec v).
Proof. intros H r Hr. unfold pvec. apply H. apply tr_lt. exact Hr. Qed.

Definition moved (v : vec) (m m' : nat) : Prop :=
  (m <> i /\ m <> S i /\ m' = m) \/ (m = i /\ m' = S i) \/ (m = S i /\ zm (v i) /\ m' = i) \/ (m = S i /\ ~ zm (v i) /\ m' = S i).

Lemma low_after_swap v m : is_low v m -> exists m', moved v m m' /\ is_low (pvec v) m'.
Proof.
  intros Hl. destruct (Nat.eq_dec m i) as [->|H1].
  - exists (S i). split; [right; left; auto|apply low_i; exact Hl].
  - destruct (Nat.eq_dec m (S i)) as [->|H2].
    + destruct (zm_dec p (v i)) as [Hz|Hz].
      * exists i. split; [right; right; left; auto|apply low_Si_z; assumption].
      * exists (S i). split; [right; right; right; auto|apply low_Si_nz; assumption].
    + exists m. split; [left; auto|apply low_far; assumption].
Qed.

Lemma low_before_swap v m' : is_low (pvec v) m' -> exists m, is_low v m /\ moved v m m'.
Proof.
  intros Hl. destruct (low_or_zero v) as [Hz|[m Hm]].
  - exfalso. apply (zero_not_low (pvec v) m'); [apply zero_pvec; exact Hz|exact Hl].
  - exists m. split; [exact Hm|]. destruct (low_after_swap v m Hm) as [m2 [Hmv Hl2]].
    assert (m' = m2) by (apply (low_unique (pvec v)); assumption). subst. exact Hmv.
Qed.

(* the only interacting configuration *)
Definition interacting (R : mat) : Prop :=
  exists a b, (a < n)%nat /\ (b < n)%nat /\ is_low (R a) (S i) /\ ~ zm (R a i) /\ is_low (R b) i.

Theorem swap_keeps_reduced (R : mat) : reduced R -> ~ interacting R -> reduced (pmat R).
Proof.
  intros Hred Hno j1 j2 m Hj1 Hj2 Hne Hl1 Hl2. unfold pmat in Hl1, Hl2.
  destruct (low_before_swap _ _ Hl1) as [m1 [Ha Hma]]. destruct (low_before_swap _ _ Hl2) as [m2 [Hb Hmb]].
  assert (Hab : tr j1 <> tr j2) by (intros H; apply Hne; apply tr_inj; exact H).
  pose proof (tr_lt j1 Hj1) as Ha'. pose proof (tr_lt j2 Hj2) as Hb'.
  assert (Hdiff : m1 <> m2) by (intros ->; exact (Hred _ _ _ Ha' Hb' Hab Ha Hb)).
  destruct Hma as [[? [? ?]]|[[? ?]|[[? [? ?]]|[? [? ?]]]]]; destruct Hmb as [[? [? ?]]|[[? ?]|[[? [? ?]]|[? [? ?]]]]]; subst; try lia.
  - apply Hno. exists (tr j2), (tr j1). auto.
  - apply Hno. exists (tr j1), (tr j2). auto.
Qed.

(* the swap without interaction: a relabelling of the pairing, and the result is the decomposition of the new order *)
Theorem vine_swap_no_interaction (D R : mat) :
  tri D R -> reduced R ->
  (exists c, zm (c i) /\ ~ zm (c (S i)) /\ veq (R (S i)) (comb D c (S (S i)))) ->
  ~ interacting R ->
  tri (pmat D) (pmat R) /\ reduced (pmat R) /\
  (forall j m, (j < n)%nat -> is_low (R j) m -> exists m', moved (R j) m m' /\ is_low (pmat R (tr j)) m') /\
  (forall j, (j < n)%nat -> is_zero (R j) -> is_zero (pmat R (tr j))).
Proof.
  intros Ht Hred Hc Hno. split; [apply vine_swap_tri; assumption|]. split; [apply swap_keeps_reduced; assumption|]. split.
  - intros j m Hj Hl. unfold pmat. rewrite tr_invol. apply low_after_swap. exact Hl.
  - intros j Hj Hz. unfold pmat. rewrite tr_invol. apply zero_pvec. exact Hz.
Qed.

(* ... and any rebuild from scratch of the new order finds exactly that pairing *)
Theorem vine_swap_as_if_rebuilt (D R R' : mat) :
  tri D R -> reduced R ->
  (exists c, zm (c i) /\ ~ zm (c (S i)) /\ veq (R (S i)) (comb D c (S (S i)))) ->
  ~ interacting R ->
  tri (pmat D) R' -> reduced R' ->
  forall j, (j < n)%nat ->
    (forall m, is_low (pmat R j) m <-> is_low (R' j) m) /\ (is_zero (pmat R j) <-> is_zero (R' j)).
Proof.
  intros Ht Hred Hc Hno Ht' Hred'.
  destruct (vine_swap_no_interaction D R Ht Hred Hc Hno) as [H1 [H2 _]].
  apply (lows_unique p Hp n (pmat D)); assumption.
Qed.

(* ------------------------------------------------------------------ the interacting configuration: one addition afterwards *)
Let nzm_mul := nzm_mul p Hp.
Let zm_add_l := zm_add_l p Hp.
Let zm_add_r := zm_add_r p Hp.
Let zm_sub := zm_sub p Hp.

(* two columns x < y with the same low i+1, every other column with a low of its own outside {i, i+1}: adding a multiple of x to y
   that cancels row i+1 and leaves row i non-zero gives a reduced matrix in which y has low i *)
Lemma fix_pair (R1 : mat) x y c1 :
  (x < y)%nat -> (y < n)%nat ->
  is_low (R1 x) (S i) -> is_low (R1 y) (S i) ->
  (forall j m, (j < n)%nat -> j <> x -> j <> y -> is_low (R1 j) m -> m <> i /\ m <> S i) ->
  (forall j1 j2 m, (j1 < n)%nat -> (j2 < n)%nat -> j1 <> j2 -> is_low (R1 j1) m -> is_low (R1 j2) m ->
     (j1 = x /\ j2 = y) \/ (j1 = y /\ j2 = x)) ->
  zm (R1 y (S i) + c1 * R1 x (S i)) -> ~ zm (R1 y i + c1 * R1 x i) ->
  is_low (col_add R1 y x c1 y) i /\ reduced (col_add R1 y x c1).
Proof.
  intros Hxy Hy [_ [Hnx Hzx]] [_ [_ Hzy]] Hoth Hexc Hc Hnz.
  assert (Hnew : is_low (col_add R1 y x c1 y) i).
  { split; [lia|]. split; [rewrite col_add_same; exact Hnz|].
    intros r Hr. rewrite col_add_same. destruct (Nat.eq_dec r (S i)) as [->|Hne]; [exact Hc|].
    apply zm_add; [apply Hzy; lia|apply zm_mul_r; apply Hzx; lia]. }
  split; [exact Hnew|].
  intros j1 j2 m Hj1 Hj2 Hne Hl1 Hl2.
  destruct (Nat.eq_dec j1 y) as [E1|N1]; destruct (Nat.eq_dec j2 y) as [E2|N2].
  - lia.
  - subst j1. assert (m = i) by (apply (low_unique (col_add R1 y x c1 y)); assumption). subst m.
    rewrite (col_add_other R1 y x c1 j2 N2) in Hl2.
    destruct (Nat.eq_dec j2 x) as [->|Nx].
    + assert (i = S i) by (apply (low_unique (R1 x)); [exact Hl2|split; [exact Hi|split; [exact Hnx|exact Hzx]]]). lia.
    + destruct (Hoth j2 i Hj2 Nx N2 Hl2) as [F _]. apply F; reflexivity.
  - subst j2. assert (m = i) by (apply (low_unique (col_add R1 y x c1 y)); assumption). subst m.
    rewrite (col_add_other R1 y x c1 j1 N1) in Hl1.
    destruct (Nat.eq_dec j1 x) as [->|Nx].
    + assert (i = S i) by (apply (low_unique (R1 x)); [exact Hl1|split; [exact Hi|split; [exact Hnx|exact Hzx]]]). lia.
    + destruct (Hoth j1 i Hj1 Nx N1 Hl1) as [F _]. apply F; reflexivity.
  - rewrite (col_add_other R1 y x c1 j1 N1) in Hl1. rewrite (col_add_other R1 y x c1 j2 N2) in Hl2.
    destruct (Hexc j1 j2 m Hj1 Hj2 Hne Hl1 Hl2) as [[_ F]|[F _]]; tauto.
Qed.

Theorem vine_swap_interacting_gen (D R : mat) a b :
  tri (pmat D) (pmat R) -> reduced R ->
  (a < n)%nat -> (b < n)%nat -> is_low (R a) (S i) -> ~ zm (R a i) -> is_low (R b) i ->
  exists x y c1, (x < y)%nat /\ (y < n)%nat /\
    ((x = tr b /\ y = tr a) \/ (x = tr a /\ y = tr b)) /\
    tri (pmat D) (col_add (pmat R) y x c1) /\ reduced (col_add (pmat R) y x c1) /\
    is_low (col_add (pmat R) y x c1 y) i /\ is_low (col_add (pmat R) y x c1 x) (S i).
Proof.
  intros Ht' Hred Ha Hb Hla Hnza Hlb.
  assert (Hab : a <> b).
  { intros ->. assert (S i = i) by (apply (low_unique (R b)); assumption). lia. }
  assert (Htab : tr a <> tr b) by (intros H; apply Hab; apply tr_inj; exact H).
  pose proof (tr_lt a Ha) as Hta. pose proof (tr_lt b Hb) as Htb.
  (* the two conjugated columns *)
  assert (LA : is_low (pmat R (tr a)) (S i)) by (unfold pmat; rewrite tr_invol; apply low_Si_nz; assumption).
  assert (LB : is_low (pmat R (tr b)) (S i)) by (unfold pmat; rewrite tr_invol; apply low_i; assumption).
  assert (Hoth : forall j m, (j < n)%nat -> j <> tr a -> j <> tr b -> is_low (pmat R j) m -> m <> i /\ m <> S i).
  { intros j m Hj Hja Hjb Hl. unfold pmat in Hl. destruct (low_before_swap _ _ Hl) as [m0 [Hm0 Hmv]].
    assert (N1 : m0 <> i).
    { intros ->. apply Hjb. destruct (Nat.eq_dec (tr j) b) as [E|E]; [rewrite <- E, tr_invol; reflexivity|].
      exfalso. exact (Hred (tr j) b i (tr_lt j Hj) Hb E Hm0 Hlb). }
    assert (N2 : m0 <> S i).
    { intros ->. apply Hja. destruct (Nat.eq_dec (tr j) a) as [E|E]; [rewrite <- E, tr_invol; reflexivity|].
      exfalso. exact (Hred (tr j) a (S i) (tr_lt j Hj) Ha E Hm0 Hla). }
    destruct Hmv as [[? [? ?]]|[[? ?]|[[? [? ?]]|[? [? ?]]]]]; subst; tauto. }
  assert (Hexc : forall u w, ((u = tr a /\ w = tr b) \/ (u = tr b /\ w = tr a)) ->
     forall j1 j2 m, (j1 < n)%nat -> (j2 < n)%nat -> j1 <> j2 -> is_low (pmat R j1) m -> is_low (pmat R j2) m ->
     (j1 = u /\ j2 = w) \/ (j1 = w /\ j2 = u)).
  { intros u w Huw j1 j2 m Hj1 Hj2 Hne Hl1 Hl2.
    assert (In1 : j1 = tr a \/ j1 = tr b).
    { destruct (Nat.eq_dec j1 (tr a)); [tauto|]. destruct (Nat.eq_dec j1 (tr b)); [tauto|]. exfalso.
      destruct (Hoth j1 m Hj1 n0 n1 Hl1) as [M1 M2].
      destruct (Nat.eq_dec j2 (tr a)) as [->|]; [apply M2; apply (low_unique (pmat R (tr a))); assumption|].
      destruct (Nat.eq_dec j2 (tr b)) as [->|]; [apply M2; apply (low_unique (pmat R (tr b))); assumption|].
      (* both are ordinary columns: their lows are those of R, which is reduced *)
      unfold pmat in Hl1, Hl2.
      destruct (low_before_swap _ _ Hl1) as [m1 [A1 V1]]. destruct (low_before_swap _ _ Hl2) as [m2 [A2 V2]].
      assert (m1 <> m2) by (intros ->; apply (Hred (tr j1) (tr j2) m2 (tr_lt j1 Hj1) (tr_lt j2 Hj2)); [intros E; apply Hne; apply tr_inj; exact E|assumption|assumption]).
      destruct (Hoth j2 m Hj2 n2 n3 ltac:(unfold pmat; exact Hl2)) as [M3 M4].
      destruct V1 as [[? [? ?]]|[[? ?]|[[? [? ?]]|[? [? ?]]]]]; destruct V2 as [[? [? ?]]|[[? ?]|[[? [? ?]]|[? [? ?]]]]]; subst; try lia; tauto. }
    assert (In2 : j2 = tr a \/ j2 = tr b).
    { destruct (Nat.eq_dec j2 (tr a)); [tauto|]. destruct (Nat.eq_dec j2 (tr b)); [tauto|]. exfalso.
      destruct (Hoth j2 m Hj2 n0 n1 Hl2) as [M1 M2].
      destruct In1 as [->| ->]; apply M2; [apply (low_unique (pmat R (tr a)))|apply (low_unique (pmat R (tr b)))]; assumption. }
    destruct Huw as [[-> ->]|[-> ->]]; destruct In1 as [->| ->]; destruct In2 as [->| ->]; tauto. }
  (* entries of the two columns in rows i and i+1 *)
  assert (EA1 : pmat R (tr a) (S i) = R a i) by (unfold pmat, pvec; rewrite tr_invol, tr_Si; reflexivity).
  assert (EA0 : pmat R (tr a) i = R a (S i)) by (unfold pmat, pvec; rewrite tr_invol, tr_i; reflexivity).
  assert (EB1 : pmat R (tr b) (S i) = R b i) by (unfold pmat, pvec; rewrite tr_invol, tr_Si; reflexivity).
  assert (EB0 : pmat R (tr b) i = R b (S i)) by (unfold pmat, pvec; rewrite tr_invol, tr_i; reflexivity).
  destruct Hla as [_ [Hnza1 _]]. destruct Hlb as [_ [Hnzb0 Hzb]].
  assert (Hzb1 : zm (R b (S i))) by (apply Hzb; lia).
  destruct (lt_eq_lt_dec (tr a) (tr b)) as [[Hlt|Heq]|Hgt]; [|tauto|].
  - (* x = tr a, y = tr b *)
    destruct (cancelling_coefficient p Hp (R b i) (R a i) Hnza) as [c1 Hc1].
    assert (Hc1nz : ~ zm c1).
    { intros Hz. apply Hnzb0. replace (R b i) with ((R b i + c1 * R a i) - c1 * R a i) by ring.
      apply zm_sub; [exact Hc1|apply zm_mul_l; exact Hz]. }
    destruct (fix_pair (pmat R) (tr a) (tr b) c1 Hlt Htb LA LB
                (fun j m Hj N1 N2 Hl => Hoth j m Hj N1 N2 Hl) (Hexc (tr a) (tr b) (or_introl (conj eq_refl eq_refl))))
      as [Hnew Hredn].
    + rewrite EB1, EA1. exact Hc1.
    + rewrite EB0, EA0. apply zm_add_r; [exact Hzb1|apply nzm_mul; assumption].
    + exists (tr a), (tr b), c1. split; [exact Hlt|]. split; [exact Htb|]. split; [right; split; reflexivity|].
      split; [apply (tri_col_add p Hp n); assumption|]. split; [exact Hredn|]. split; [exact Hnew|].
      rewrite col_add_other by lia. exact LA.
  - (* x = tr b, y = tr a *)
    destruct (cancelling_coefficient p Hp (R a i) (R b i) Hnzb0) as [c1 Hc1].
    destruct (fix_pair (pmat R) (tr b) (tr a) c1 Hgt Hta LB LA
                (fun j m Hj N1 N2 Hl => Hoth j m Hj N2 N1 Hl) (Hexc (tr b) (tr a) (or_intror (conj eq_refl eq_refl))))
      as [Hnew Hredn].
    + rewrite EA1, EB1. exact Hc1.
    + rewrite EA0, EB0. apply zm_add_l; [exact Hnza1|apply zm_mul_r; exact Hzb1].
    + exists (tr b), (tr a), c1. split; [exact Hgt|]. split; [exact Hta|]. split; [left; split; reflexivity|].
      split; [apply (tri_col_add p Hp n); assumption|]. split; [exact Hredn|]. split; [exact Hnew|].
      rewrite col_add_other by lia. exact LB.
Qed.

Theorem vine_swap_interacting (D R : mat) a b :
  tri D R -> reduced R ->
  (exists c, zm (c i) /\ ~ zm (c (S i)) /\ veq (R (S i)) (comb D c (S (S i)))) ->
  (a < n)%nat -> (b < n)%nat -> is_low (R a) (S i) -> ~ zm (R a i) -> is_low (R b) i ->
  exists x y c1, (x < y)%nat /\ (y < n)%nat /\
    ((x = tr b /\ y = tr a) \/ (x = tr a /\ y = tr b)) /\
    tri (pmat D) (col_add (pmat R) y x c1) /\ reduced (col_add (pmat R) y x c1) /\
    is_low (col_add (pmat R) y x c1 y) i /\ is_low (col_add (pmat R) y x c1 x) (S i).
Proof.
  intros Ht Hred Hc. apply vine_swap_interacting_gen; [apply vine_swap_tri; assumption|exact Hred].
Qed.

(* ------------------------------------------------------------------ when the preparing addition is needed (V[i][i+1] <> 0) *)
(* what the exchange needs of the three kinds of columns (vine_swap_tri is the case R' = R) *)
Lemma tri_pmat_gen (D R' : mat) :
  (forall j, (j < n)%nat -> j <> i -> j <> S i -> exists c, ~ zm (c j) /\ veq (R' j) (comb D c (S j))) ->
  (exists c, zm (c i) /\ ~ zm (c (S i)) /\ veq (R' (S i)) (comb D c (S (S i)))) ->
  (exists c, ~ zm (c i) /\ veq (R' i) (comb D c (S (S i)))) ->
  tri (pmat D) (pmat R').
Proof.
  intros Hoth [cs [Hcs0 [Hcs1 Hcsv]]] [ci [Hci Hciv]] j Hj.
  destruct (lt_eq_lt_dec j i) as [[Hlt|Heq]|Hgt].
  - destruct (Hoth j Hj ltac:(lia) ltac:(lia)) as [c [Hc Hv]]. exists c. split; [exact Hc|].
    intros r Hr. rewrite comb_pmat_low by lia. unfold pmat, pvec. rewrite (tr_other j) by lia.
    apply Hv. apply tr_lt; exact Hr.
  - subst j.
    exists (fun k => if Nat.eq_dec k i then cs (S i) else cs k). split.
    + destruct (Nat.eq_dec i i); [exact Hcs1|tauto].
    + intros r Hr. cbn [comb]. rewrite comb_pmat_low by lia.
      destruct (Nat.eq_dec i i) as [_|]; [|tauto].
      rewrite (comb_ext_eq D _ cs i (tr r)) by (intros k Hk; destruct (Nat.eq_dec k i); [lia|reflexivity]).
      unfold pmat, pvec. rewrite tr_i.
      pose proof (Hcsv (tr r) (tr_lt r Hr)) as H. cbn [comb] in H.
      replace (R' (S i) (tr r) - (comb D cs i (tr r) + cs (S i) * D (S i) (tr r)))
        with ((R' (S i) (tr r) - (comb D cs i (tr r) + cs i * D i (tr r) + cs (S i) * D (S i) (tr r))) + cs i * D i (tr r)) by ring.
      apply zm_add; [exact H|]. apply zm_mul_l. exact Hcs0.
  - destruct (Nat.eq_dec j (S i)) as [->|Hne].
    + exists (fun k => ci (tr k)). split; [rewrite tr_Si; exact Hci|].
      intros r Hr. rewrite comb_pmat_both.
      rewrite (comb_ext_eq D (fun k => (fun k0 => ci (tr k0)) (tr k)) ci (S (S i)) (tr r)) by (intros k Hk; rewrite tr_invol; reflexivity).
      unfold pmat, pvec. rewrite tr_Si. apply Hciv. apply tr_lt; exact Hr.
    + destruct (Hoth j Hj ltac:(lia) Hne) as [c [Hc Hv]].
      exists (fun k => c (tr k)). split; [rewrite tr_other by lia; exact Hc|].
      intros r Hr. rewrite comb_pmat_high by lia.
      rewrite (comb_ext_eq D (fun k => (fun k0 => c (tr k0)) (tr k)) c (S j) (tr r)) by (intros k Hk; rewrite tr_invol; reflexivity).
      unfold pmat, pvec. rewrite (tr_other j) by lia. apply Hv. apply tr_lt; exact Hr.
Qed.

(* w + c.v has the low of v when c is invertible and w is zero or has a smaller low *)
Lemma add_scaled_low (v w : vec) c m :
  is_low v m -> ~ zm c -> (is_zero w \/ exists m', (m' < m)%nat /\ is_low w m') ->
  is_low (fun r => w r + c * v r) m.
Proof.
  intros [Hm [Hnz Hz]] Hc Hw.
  assert (Hwz : forall r, (m <= r < n)%nat -> zm (w r)).
  { intros r Hr. destruct Hw as [Hw0|[m' [Hlt [_ [_ Hw1]]]]]; [apply Hw0; lia|apply Hw1; lia]. }
  split; [exact Hm|]. split.
  - apply zm_add_r; [apply Hwz; lia|apply nzm_mul; assumption].
  - intros r Hr. apply zm_add; [apply Hwz; lia|apply zm_mul_r; apply Hz; exact Hr].
Qed.

(* first sub-case: the preparing addition leaves R reduced (column i is zero or has the smaller low); the theorems above then apply
   to the prepared matrix *)
Theorem prep_keeps_reduced (R : mat) c0 :
  reduced R ->
  (is_zero (R i) \/ exists li ls, is_low (R i) li /\ is_low (R (S i)) ls /\ (li < ls)%nat) ->
  reduced (col_add R (S i) i c0).
Proof.
  intros Hred Hcase.
  assert (Hback : forall m, is_low (col_add R (S i) i c0 (S i)) m -> is_low (R (S i)) m).
  { intros m Hl. destruct Hcase as [Hz|[li [ls [Hli [Hls Hlt]]]]].
    - apply (veq_is_low p Hp n (col_add R (S i) i c0 (S i))); [|exact Hl].
      intros r Hr. rewrite col_add_same. replace (R (S i) r + c0 * R i r - R (S i) r) with (c0 * R i r) by ring.
      apply zm_mul_r. apply Hz. exact Hr.
    - assert (Hnew : is_low (col_add R (S i) i c0 (S i)) ls).
      { destruct Hls as [A [B C]]. destruct Hli as [A' [B' C']]. split; [exact A|]. split.
        - rewrite col_add_same. apply zm_add_l; [exact B|apply zm_mul_r; apply C'; lia].
        - intros r Hr. rewrite col_add_same. apply zm_add; [apply C; exact Hr|apply zm_mul_r; apply C'; lia]. }
      assert (m = ls) by (apply (low_unique (col_add R (S i) i c0 (S i))); assumption). subst. exact Hls. }
  intros j1 j2 m Hj1 Hj2 Hne Hl1 Hl2.
  assert (F : forall j, is_low (col_add R (S i) i c0 j) m -> is_low (R j) m).
  { intros j Hl. destruct (Nat.eq_dec j (S i)) as [->|N]; [apply Hback; exact Hl|].
    rewrite col_add_other in Hl by exact N. exact Hl. }
  exact (Hred j1 j2 m Hj1 Hj2 Hne (F j1 Hl1) (F j2 Hl2)).
Qed.

(* second sub-case: column i has the larger low.  After the preparing addition columns i and i+1 have the same low; the
   implementation exchanges and then adds (the new) column i to column i+1, which up to a scalar gives back the old column i+1.  The
   result is the conjugate of [recomb R c0]: column i+1 := R_{i+1} + c0.R_i, column i := R_{i+1}. *)
Definition recomb (R : mat) (c0 : Z) : mat :=
  fun j => if Nat.eq_dec j (S i) then (fun r => R (S i) r + c0 * R i r) else if Nat.eq_dec j i then R (S i) else R j.

Lemma recomb_Si R c0 r : recomb R c0 (S i) r = R (S i) r + c0 * R i r.
Proof. unfold recomb. destruct (Nat.eq_dec (S i) (S i)); [reflexivity|tauto]. Qed.
Lemma recomb_i R c0 : recomb R c0 i = R (S i).
Proof. unfold recomb. destruct (Nat.eq_dec i (S i)); [lia|]. destruct (Nat.eq_dec i i); [reflexivity|tauto]. Qed.
Lemma recomb_other R c0 j : j <> i -> j <> S i -> recomb R c0 j = R j.
Proof. intros H1 H2. unfold recomb. destruct (Nat.eq_dec j (S i)); [tauto|]. destruct (Nat.eq_dec j i); [tauto|reflexivity]. Qed.

Theorem recomb_tri (D R : mat) c0 :
  tri D R ->
  (exists c, ~ zm (c i) /\ veq (R (S i)) (comb D c (S (S i)))) ->
  (exists c, zm (c i) /\ ~ zm (c (S i)) /\ veq (col_add R (S i) i c0 (S i)) (comb D c (S (S i)))) ->
  tri (pmat D) (pmat (recomb R c0)).
Proof.
  intros Ht Hci [cs [H0 [H1 Hv]]]. apply tri_pmat_gen.
  - intros j Hj N1 N2. rewrite recomb_other by assumption. apply Ht. exact Hj.
  - exists cs. split; [exact H0|]. split; [exact H1|].
    intros r Hr. rewrite recomb_Si. rewrite <- col_add_same. apply Hv. exact Hr.
  - rewrite recomb_i. exact Hci.
Qed.

Theorem recomb_reduced (R : mat) c0 li :
  reduced R -> ~ zm c0 -> is_low (R i) li ->
  (is_zero (R (S i)) \/ exists ls, (ls < li)%nat /\ is_low (R (S i)) ls) ->
  reduced (recomb R c0) /\ is_low (recomb R c0 (S i)) li.
Proof.
  intros Hred Hc0 Hli Hcase.
  assert (Hnew : is_low (recomb R c0 (S i)) li).
  { pose proof (add_scaled_low (R i) (R (S i)) c0 li Hli Hc0 Hcase) as H.
    destruct H as [A [B C]]. split; [exact A|]. split; [rewrite recomb_Si; exact B|].
    intros r Hr. rewrite recomb_Si. apply C. exact Hr. }
  split; [|exact Hnew].
  assert (F : forall j m, (j < n)%nat -> is_low (recomb R c0 j) m -> is_low (R (tr j)) m).
  { intros j m Hj Hl. destruct (Nat.eq_dec j (S i)) as [->|N1].
    - assert (m = li) by (apply (low_unique (recomb R c0 (S i))); assumption). subst. rewrite tr_Si. exact Hli.
    - destruct (Nat.eq_dec j i) as [->|N2].
      + rewrite recomb_i in Hl. rewrite tr_i. exact Hl.
      + rewrite recomb_other in Hl by assumption. rewrite tr_other by assumption. exact Hl. }
  intros j1 j2 m Hj1 Hj2 Hne Hl1 Hl2.
  apply (Hred (tr j1) (tr j2) m (tr_lt j1 Hj1) (tr_lt j2 Hj2)).
  - intros E. apply Hne. apply tr_inj. exact E.
  - apply F; assumption.
  - apply F; assumption.
Qed.

(* ------------------------------------------------------------------ all configurations together *)
Theorem kill_coefficient_strong (D R : mat) : tri D R ->
  exists c0, tri D (col_add R (S i) i c0) /\
    (exists c, zm (c i) /\ ~ zm (c (S i)) /\ veq (col_add R (S i) i c0 (S i)) (comb D c (S (S i)))) /\
    (zm c0 \/ exists c, ~ zm (c i) /\ veq (R (S i)) (comb D c (S (S i)))).
Proof.
  intros Ht. destruct (Ht (S i) Hi) as [c [Hc Hv]].
  destruct (zm_dec p (c i)) as [Hz|Hnz].
  - exists 0. split; [apply (tri_col_add p Hp n); [exact Ht|lia|exact Hi]|]. split; [|left; exact zm_0].
    exists c. split; [exact Hz|]. split; [exact Hc|].
    intros r Hr. rewrite col_add_same. replace (R (S i) r + 0 * R i r) with (R (S i) r) by ring. apply Hv. exact Hr.
  - destruct (kill_coefficient D R Ht) as [c0 [Ht1 HU]]. exists c0. split; [exact Ht1|]. split; [exact HU|].
    right. exists c. split; [exact Hnz|exact Hv].
Qed.

Lemma prep_zero_reduced (R : mat) c0 : reduced R -> zm c0 -> reduced (col_add R (S i) i c0).
Proof.
  intros Hred Hz j1 j2 m Hj1 Hj2 Hne Hl1 Hl2.
  assert (F : forall j, is_low (col_add R (S i) i c0 j) m -> is_low (R j) m).
  { intros j Hl. destruct (Nat.eq_dec j (S i)) as [->|N].
    - apply (veq_is_low p Hp n (col_add R (S i) i c0 (S i))); [|exact Hl].
      intros r Hr. rewrite col_add_same. replace (R (S i) r + c0 * R i r - R (S i) r) with (c0 * R i r) by ring.
      apply zm_mul_l. exact Hz.
    - rewrite col_add_other in Hl by exact N. exact Hl. }
  exact (Hred j1 j2 m Hj1 Hj2 Hne (F j1 Hl1) (F j2 Hl2)).
Qed.

Lemma interacting_dec (R : mat) : reduced R ->
  {ab : nat * nat | (fst ab < n)%nat /\ (snd ab < n)%nat /\ is_low (R (fst ab)) (S i) /\ ~ zm (R (fst ab) i) /\ is_low (R (snd ab)) i}
  + {~ interacting R}.
Proof.
  intros Hred.
  destruct (earlier_low_dec p n R n (S i)) as [[a [Ha Hla]]|Hna].
  - destruct (zm_dec p (R a i)) as [Hz|Hnz].
    + right. intros [a' [b' [Ha' [_ [Hla' [Hnz' _]]]]]].
      destruct (Nat.eq_dec a' a) as [->|N]; [tauto|]. exact (Hred a' a (S i) Ha' Ha N Hla' Hla).
    + destruct (earlier_low_dec p n R n i) as [[b [Hb Hlb]]|Hnb].
      * left. exists (a, b). cbn [fst snd]. tauto.
      * right. intros [a' [b' [_ [Hb' [_ [_ Hlb']]]]]]. exact (Hnb b' Hb' Hlb').
  - right. intros [a' [b' [Ha' [_ [Hla' _]]]]]. exact (Hna a' Ha' Hla').
Qed.

(* Whatever the configuration: one preparing addition (possibly with coefficient 0), the exchange, and at most two more additions
   (one between the exchanged columns - folded into [recomb] - and one between the two interacting columns) end in a reduced
   decomposition of the new order. *)
Theorem vine_swap_complete (D R : mat) : tri D R -> reduced R ->
  exists c0 R', (R' = col_add R (S i) i c0 \/ R' = recomb R c0) /\
    reduced R' /\ tri (pmat D) (pmat R') /\
    (reduced (pmat R') \/
     exists x y c1, (x < y)%nat /\ (y < n)%nat /\ tri (pmat D) (col_add (pmat R') y x c1) /\ reduced (col_add (pmat R') y x c1)).
Proof.
  intros Ht Hred. destruct (kill_coefficient_strong D R Ht) as [c0 [Ht1 [HU Hz]]].
  assert (finish : forall R', reduced R' -> tri (pmat D) (pmat R') ->
     reduced (pmat R') \/
     exists x y c1, (x < y)%nat /\ (y < n)%nat /\ tri (pmat D) (col_add (pmat R') y x c1) /\ reduced (col_add (pmat R') y x c1)).
  { intros R' Hr' Ht'. destruct (interacting_dec R' Hr') as [[[a b] [Ha [Hb [Hla [Hnz Hlb]]]]]|Hno].
    - right. cbn [fst snd] in *.
      destruct (vine_swap_interacting_gen D R' a b Ht' Hr' Ha Hb Hla Hnz Hlb) as [x [y [c1 [Hxy [Hy [_ [T [Rd _]]]]]]]].
      exists x, y, c1. tauto.
    - left. apply swap_keeps_reduced; assumption. }
  assert (caseA : reduced (col_add R (S i) i c0) ->
     exists c0 R', (R' = col_add R (S i) i c0 \/ R' = recomb R c0) /\ reduced R' /\ tri (pmat D) (pmat R') /\
       (reduced (pmat R') \/
        exists x y c1, (x < y)%nat /\ (y < n)%nat /\ tri (pmat D) (col_add (pmat R') y x c1) /\ reduced (col_add (pmat R') y x c1))).
  { intros Hr1. exists c0, (col_add R (S i) i c0). split; [left; reflexivity|]. split; [exact Hr1|].
    pose proof (vine_swap_tri D (col_add R (S i) i c0) Ht1 HU) as T. split; [exact T|]. apply finish; assumption. }
  destruct (zm_dec p c0) as [Hc0|Hc0]; [apply caseA; apply prep_zero_reduced; assumption|].
  destruct Hz as [Hc0'|Hci]; [contradiction|].
  assert (caseB : forall li, is_low (R i) li -> (is_zero (R (S i)) \/ exists ls, (ls < li)%nat /\ is_low (R (S i)) ls) ->
     exists c0 R', (R' = col_add R (S i) i c0 \/ R' = recomb R c0) /\ reduced R' /\ tri (pmat D) (pmat R') /\
       (reduced (pmat R') \/
        exists x y c1, (x < y)%nat /\ (y < n)%nat /\ tri (pmat D) (col_add (pmat R') y x c1) /\ reduced (col_add (pmat R') y x c1))).
  { intros li Hli Hcase. exists c0, (recomb R c0). split; [right; reflexivity|].
    destruct (recomb_reduced R c0 li Hred Hc0 Hli Hcase) as [Hr' _]. split; [exact Hr'|].
    pose proof (recomb_tri D R c0 Ht Hci HU) as T. split; [exact T|]. apply finish; assumption. }
  destruct (low_or_zero (R i)) as [Zi|[li Hli]].
  - apply caseA. apply prep_keeps_reduced; [exact Hred|left; exact Zi].
  - destruct (low_or_zero (R (S i))) as [Zs|[ls Hls]].
    + apply (caseB li Hli). left. exact Zs.
    + destruct (lt_eq_lt_dec li ls) as [[Hlt|Heq]|Hgt].
      * apply caseA. apply prep_keeps_reduced; [exact Hred|right; exists li, ls; tauto].
      * subst ls. exfalso. apply (Hred i (S i) li); try lia; assumption.
      * apply (caseB li Hli). right. exists ls. tauto.
Qed.

(* [recomb] is what the implementation computes with one addition after the exchange, up to an invertible scalar on column i+1 *)
Lemma recomb_as_addition (R : mat) c0 : ~ zm c0 ->
  exists c2, ~ zm c2 /\
    (forall j r, j <> S i -> col_add (pmat (col_add R (S i) i c0)) (S i) i c2 j r = pmat (recomb R c0) j r) /\
    (forall r, zm (col_add (pmat (col_add R (S i) i c0)) (S i) i c2 (S i) r - c2 * pmat (recomb R c0) (S i) r)).
Proof.
  intros Hc0. destruct (inv_exists p Hp c0 Hc0) as [u Hu]. exists (- u). split; [|split].
  - intros Hz. apply (nzm_1 p Hp). replace 1 with ((- u) * c0 * (-1) - (u * c0 - 1)) by ring.
    apply zm_sub; [apply zm_mul_l; apply zm_mul_l; exact Hz|exact Hu].
  - intros j r Hj. rewrite col_add_other by exact Hj. unfold pmat, pvec.
    destruct (Nat.eq_dec j i) as [->|Hji].
    + rewrite tr_i. rewrite col_add_same. rewrite recomb_Si. reflexivity.
    + rewrite (tr_other j) by assumption. rewrite col_add_other by exact Hj. rewrite recomb_other by assumption. reflexivity.
  - intros r. rewrite col_add_same. unfold pmat, pvec. rewrite tr_Si, tr_i.
    rewrite col_add_same. rewrite (col_add_other R (S i) i c0 i) by lia. rewrite recomb_i.
    replace (R i (tr r) + - u * (R (S i) (tr r) + c0 * R i (tr r)) - - u * R (S i) (tr r))
      with (- (R i (tr r)) * (u * c0 - 1)) by ring.
    apply zm_mul_r. exact Hu.
Qed.

End Swap.
