(* The transposition of two consecutive cells i, i+1 of the order (vine swap; RU_vine_swap::vine_swap, Chain_vine_swap), at the
   level of Reduce.v: matrices nat -> nat -> Z, zero = divisible by the prime p, [tri D R] = "R = D.V, V upper triangular with
   invertible diagonal".

   [pmat i M] is M with rows i, i+1 exchanged and columns i, i+1 exchanged: [pmat i D] is the boundary matrix of the new order.
   Proved here:
     vine_swap_tri        if column i+1 of R does not use column i of D (the entry V[i][i+1] is zero: what the implementation tests
                          first, and otherwise establishes by one column addition, see kill_coefficient) then the conjugated pair
                          is again a decomposition of the new boundary matrix;
     kill_coefficient     one addition of column i to column i+1 establishes that hypothesis and keeps [tri D R];
     low_after_swap       where the low of every column goes;
     swap_keeps_reduced   the conjugated R is reduced unless the one interacting configuration is present (a column with low i+1
                          and a non-zero entry in row i, together with a column with low i);
     vine_swap_no_interaction   the three together: in every other configuration the swap is a relabelling of the pairing, and (by
                          lows_unique) any rebuild from scratch finds exactly that pairing.
   NOT proved (stated in Properties_C06.v as C06_vine_swap_full): the interacting configurations, where the implementation adds
   one of the two columns to the other after the exchange; every state reached by the implementation is certified by the verified
   checker instead (ReduceExec.check_any). *)
From Coq Require Import ZArith Lia Znumtheory Arith List.
Require Import Reduce ReduceAlg.
Local Open Scope Z_scope.

Section Swap.
Variable p : Z.
Hypothesis Hp : prime p.
Variable n : nat.

Notation zm := (zm p).
Notation is_low := (is_low p n).
Notation is_zero := (is_zero p n).
Notation veq := (veq p n).
Notation tri := (tri p n).
Notation reduced := (reduced p n).

Let zm_0 := zm_0 p Hp.
Let zm_add := zm_add p Hp.
Let zm_mul_r := zm_mul_r p Hp.
Let zm_mul_l := zm_mul_l p Hp.
Let low_unique := low_unique p n.
Let low_or_zero := low_or_zero p n.
Let zero_not_low := zero_not_low p n.

Variable i : nat.
Hypothesis Hi : (S i < n)%nat.

Definition tr (k : nat) : nat := if Nat.eq_dec k i then S i else if Nat.eq_dec k (S i) then i else k.
Definition pvec (v : vec) : vec := fun r => v (tr r).
Definition pmat (M : mat) : mat := fun j => pvec (M (tr j)).

Lemma tr_i : tr i = S i.
Proof. unfold tr. destruct (Nat.eq_dec i i); [reflexivity|tauto]. Qed.
Lemma tr_Si : tr (S i) = i.
Proof. unfold tr. destruct (Nat.eq_dec (S i) i); [lia|]. destruct (Nat.eq_dec (S i) (S i)); [reflexivity|tauto]. Qed.
Lemma tr_other k : k <> i -> k <> S i -> tr k = k.
Proof. intros H1 H2. unfold tr. destruct (Nat.eq_dec k i); [tauto|]. destruct (Nat.eq_dec k (S i)); [tauto|reflexivity]. Qed.
Lemma tr_invol k : tr (tr k) = k.
Proof.
  destruct (Nat.eq_dec k i) as [->|H1]; [rewrite tr_i, tr_Si; reflexivity|].
  destruct (Nat.eq_dec k (S i)) as [->|H2]; [rewrite tr_Si, tr_i; reflexivity|].
  rewrite (tr_other k) by assumption. apply tr_other; assumption.
Qed.
Lemma tr_lt k : (k < n)%nat -> (tr k < n)%nat.
Proof.
  intros Hk. destruct (Nat.eq_dec k i) as [->|H1]; [rewrite tr_i; lia|].
  destruct (Nat.eq_dec k (S i)) as [->|H2]; [rewrite tr_Si; lia|]. rewrite tr_other; auto.
Qed.
Lemma tr_inj a b : tr a = tr b -> a = b.
Proof. intros H. rewrite <- (tr_invol a), <- (tr_invol b), H. reflexivity. Qed.

Lemma comb_ext_eq (M : mat) c c' J r : (forall k, (k < J)%nat -> c k = c' k) -> comb M c J r = comb M c' J r.
Proof.
  induction J as [|J IH]; intros H; cbn [comb]; [reflexivity|].
  rewrite IH by (intros k Hk; apply H; lia). rewrite (H J) by lia. reflexivity.
Qed.

(* below the two cells nothing moves *)
Lemma comb_pmat_low (M : mat) c J r : (J <= i)%nat -> comb (pmat M) c J r = comb M c J (tr r).
Proof.
  induction J as [|J IH]; intros HJ; cbn [comb]; [reflexivity|].
  rewrite IH by lia. unfold pmat, pvec. rewrite (tr_other J) by lia. reflexivity.
Qed.

(* a combination that covers both cells: the two coefficients are exchanged *)
Lemma comb_pmat_both (M : mat) c r :
  comb (pmat M) c (S (S i)) r = comb M (fun k => c (tr k)) (S (S i)) (tr r).
Proof.
  cbn [comb]. rewrite comb_pmat_low by lia.
  rewrite (comb_ext_eq M c (fun k => c (tr k)) i (tr r)) by (intros k Hk; rewrite tr_other by lia; reflexivity).
  unfold pmat, pvec. rewrite tr_i, tr_Si. ring.
Qed.

Lemma comb_pmat_high (M : mat) c J r : (S (S i) <= J)%nat ->
  comb (pmat M) c J r = comb M (fun k => c (tr k)) J (tr r).
Proof.
  induction J as [|J IH]; intros HJ; [lia|].
  destruct (Nat.eq_dec J (S i)) as [->|HJ']; [apply comb_pmat_both|].
  cbn [comb]. rewrite IH by lia. unfold pmat, pvec. rewrite (tr_other J) by lia. reflexivity.
Qed.

(* ------------------------------------------------------------------ the decomposition is carried along *)
Theorem vine_swap_tri (D R : mat) :
  tri D R ->
  (exists c, zm (c i) /\ ~ zm (c (S i)) /\ veq (R (S i)) (comb D c (S (S i)))) ->
  tri (pmat D) (pmat R).
Proof.
  intros Ht [cs [Hcs0 [Hcs1 Hcsv]]] j Hj.
  destruct (lt_eq_lt_dec j i) as [[Hlt|Heq]|Hgt].
  - (* j < i *)
    destruct (Ht j Hj) as [c [Hc Hv]]. exists c. split; [exact Hc|].
    intros r Hr. rewrite comb_pmat_low by lia. unfold pmat, pvec. rewrite (tr_other j) by lia.
    apply Hv. apply tr_lt; exact Hr.
  - (* j = i: the old column i+1, which does not use the old column i *)
    subst j.
    exists (fun k => if Nat.eq_dec k i then cs (S i) else cs k). split.
    + destruct (Nat.eq_dec i i); [exact Hcs1|tauto].
    + intros r Hr. cbn [comb]. rewrite comb_pmat_low by lia.
      destruct (Nat.eq_dec i i) as [_|]; [|tauto].
      rewrite (comb_ext_eq D _ cs i (tr r)) by (intros k Hk; destruct (Nat.eq_dec k i); [lia|reflexivity]).
      unfold pmat, pvec. rewrite tr_i.
      pose proof (Hcsv (tr r) (tr_lt r Hr)) as H. cbn [comb] in H.
      replace (R (S i) (tr r) - (comb D cs i (tr r) + cs (S i) * D (S i) (tr r)))
        with ((R (S i) (tr r) - (comb D cs i (tr r) + cs i * D i (tr r) + cs (S i) * D (S i) (tr r))) + cs i * D i (tr r)) by ring.
      apply zm_add; [exact H|]. apply zm_mul_l. exact Hcs0.
  - destruct (Nat.eq_dec j (S i)) as [->|Hne].
    + (* j = i+1: the old column i *)
      destruct (Ht i ltac:(lia)) as [c [Hc Hv]].
      exists (fun k => if Nat.eq_dec k (S i) then c i else if Nat.eq_dec k i then 0 else c k). split.
      * destruct (Nat.eq_dec (S i) (S i)); [exact Hc|tauto].
      * intros r Hr. cbn [comb]. rewrite comb_pmat_low by lia.
        destruct (Nat.eq_dec (S i) (S i)) as [_|]; [|tauto].
        destruct (Nat.eq_dec i (S i)) as [|_]; [lia|]. destruct (Nat.eq_dec i i) as [_|]; [|tauto].
        rewrite (comb_ext_eq D _ c i (tr r))
          by (intros k Hk; destruct (Nat.eq_dec k (S i)); [lia|]; destruct (Nat.eq_dec k i); [lia|reflexivity]).
        unfold pmat, pvec. rewrite tr_i, tr_Si.
        pose proof (Hv (tr r) (tr_lt r Hr)) as H. cbn [comb] in H.
        replace (R i (tr r) - (comb D c i (tr r) + 0 * D (S i) (tr r) + c i * D i (tr r)))
          with (R i (tr r) - (comb D c i (tr r) + c i * D i (tr r))) by ring.
        exact H.
    + (* j > i+1 *)
      destruct (Ht j Hj) as [c [Hc Hv]].
      exists (fun k => c (tr k)). split; [rewrite tr_other by lia; exact Hc|].
      intros r Hr. rewrite comb_pmat_high by lia.
      rewrite (comb_ext_eq D (fun k => (fun k0 => c (tr k0)) (tr k)) c (S j) (tr r)) by (intros k Hk; rewrite tr_invol; reflexivity).
      unfold pmat, pvec. rewrite (tr_other j) by lia. apply Hv. apply tr_lt; exact Hr.
Qed.

(* one column addition (column i added to column i+1) establishes the hypothesis on V[i][i+1] *)
Theorem kill_coefficient (D R : mat) : tri D R ->
  exists c0, tri D (col_add R (S i) i c0) /\
    exists c, zm (c i) /\ ~ zm (c (S i)) /\ veq (col_add R (S i) i c0 (S i)) (comb D c (S (S i))).
Proof.
  intros Ht.
  destruct (Ht (S i) Hi) as [c [Hc Hv]]. destruct (Ht i ltac:(lia)) as [d [Hd Hw]].
  destruct (cancelling_coefficient p Hp (c i) (d i) Hd) as [c0 Hc0].
  exists c0. split; [apply (tri_col_add p Hp n); [exact Ht|lia|exact Hi]|].
  exists (fun k => if Nat.eq_dec k (S i) then c (S i) else c k + c0 * d k). split; [|split].
  - destruct (Nat.eq_dec i (S i)); [lia|exact Hc0].
  - destruct (Nat.eq_dec (S i) (S i)); [exact Hc|tauto].
  - intros r Hr. rewrite col_add_same. cbn [comb].
    destruct (Nat.eq_dec (S i) (S i)) as [_|]; [|tauto]. destruct (Nat.eq_dec i (S i)) as [|_]; [lia|].
    rewrite (comb_ext_eq D _ (fun k => c k + c0 * d k) i r)
      by (intros k Hk; destruct (Nat.eq_dec k (S i)); [lia|reflexivity]).
    rewrite <- (comb_add D c (fun k => c0 * d k) i r). rewrite <- (comb_scale D d c0 i r).
    pose proof (Hv r Hr) as H1. pose proof (Hw r Hr) as H2. cbn [comb] in H1, H2.
    replace (R (S i) r + c0 * R i r - (comb D c i r + c0 * comb D d i r + (c i + c0 * d i) * D i r + c (S i) * D (S i) r))
      with ((R (S i) r - (comb D c i r + c i * D i r + c (S i) * D (S i) r)) + c0 * (R i r - (comb D d i r + d i * D i r))) by ring.
    apply zm_add; [exact H1|]. apply zm_mul_r. exact H2.
Qed.

(* ------------------------------------------------------------------ where the lows go *)
Lemma low_far v m : is_low v m -> m <> i -> m <> S i -> is_low (pvec v) m.
Proof.
  intros [Hm [Hnz Hz]] H1 H2. split; [exact Hm|]. split.
  - unfold pvec. rewrite tr_other by assumption. exact Hnz.
  - intros r Hr. unfold pvec. apply Hz. split; [|apply tr_lt; lia].
    destruct (Nat.eq_dec r i) as [->|Hr1]; [rewrite tr_i; lia|].
    destruct (Nat.eq_dec r (S i)) as [->|Hr2]; [rewrite tr_Si; lia|]. rewrite tr_other by assumption. lia.
Qed.
Lemma low_i v : is_low v i -> is_low (pvec v) (S i).
Proof.
  intros [Hm [Hnz Hz]]. split; [exact Hi|]. split.
  - unfold pvec. rewrite tr_Si. exact Hnz.
  - intros r Hr. unfold pvec. rewrite tr_other by lia. apply Hz. lia.
Qed.
Lemma low_Si_z v : is_low v (S i) -> zm (v i) -> is_low (pvec v) i.
Proof.
  intros [Hm [Hnz Hz]] H0. split; [lia|]. split.
  - unfold pvec. rewrite tr_i. exact Hnz.
  - intros r Hr. unfold pvec. destruct (Nat.eq_dec r (S i)) as [->|Hr2]; [rewrite tr_Si; exact H0|].
    rewrite tr_other by lia. apply Hz. lia.
Qed.
Lemma low_Si_nz v : is_low v (S i) -> ~ zm (v i) -> is_low (pvec v) (S i).
Proof.
  intros [Hm [Hnz Hz]] H0. split; [exact Hi|]. split.
  - unfold pvec. rewrite tr_Si. exact H0.
  - intros r Hr. unfold pvec. rewrite tr_other by lia. apply Hz. lia.
Qed.
Lemma zero_pvec v : is_zero v -> is_zero (pvec v).
Proof. intros H r Hr. unfold pvec. apply H. apply tr_lt. exact Hr. Qed.

Definition moved (v : vec) (m m' : nat) : Prop :=
  (m <> i /\ m <> S i /\ m' = m) \/ (m = i /\ m' = S i) \/ (m = S i /\ zm (v i) /\ m' = i) \/ (m = S i /\ ~ zm (v i) /\ m' = S i).

Lemma low_after_swap v m : is_low v m -> exists m', moved v m m' /\ is_low (pvec v) m'.
Proof.
  intros Hl. destruct (Nat.eq_dec m i) as [->|H1].
  - exists (S i). split; [right; left; auto|apply low_i; exact Hl].
  - destruct (Nat.eq_dec m (S i)) as [->|H2].
    + destruct (zm_dec p (v i)) as [Hz|Hz].
      * exists i. split; [right; right; left; auto|apply low_Si_z; assumption].
      * exists (S i). split; [right; right; right; auto|apply low_Si_nz; assumption].
    + exists m. split; [left; auto|apply low_far; assumption].
Qed.

Lemma low_before_swap v m' : is_low (pvec v) m' -> exists m, is_low v m /\ moved v m m'.
Proof.
  intros Hl. destruct (low_or_zero v) as [Hz|[m Hm]].
  - exfalso. apply (zero_not_low (pvec v) m'); [apply zero_pvec; exact Hz|exact Hl].
  - exists m. split; [exact Hm|]. destruct (low_after_swap v m Hm) as [m2 [Hmv Hl2]].
    assert (m' = m2) by (apply (low_unique (pvec v)); assumption). subst. exact Hmv.
Qed.

(* the only interacting configuration *)
Definition interacting (R : mat) : Prop :=
  exists a b, (a < n)%nat /\ (b < n)%nat /\ is_low (R a) (S i) /\ ~ zm (R a i) /\ is_low (R b) i.

Theorem swap_keeps_reduced (R : mat) : reduced R -> ~ interacting R -> reduced (pmat R).
Proof.
  intros Hred Hno j1 j2 m Hj1 Hj2 Hne Hl1 Hl2. unfold pmat in Hl1, Hl2.
  destruct (low_before_swap _ _ Hl1) as [m1 [Ha Hma]]. destruct (low_before_swap _ _ Hl2) as [m2 [Hb Hmb]].
  assert (Hab : tr j1 <> tr j2) by (intros H; apply Hne; apply tr_inj; exact H).
  pose proof (tr_lt j1 Hj1) as Ha'. pose proof (tr_lt j2 Hj2) as Hb'.
  assert (Hdiff : m1 <> m2) by (intros ->; exact (Hred _ _ _ Ha' Hb' Hab Ha Hb)).
  destruct Hma as [[? [? ?]]|[[? ?]|[[? [? ?]]|[? [? ?]]]]]; destruct Hmb as [[? [? ?]]|[[? ?]|[[? [? ?]]|[? [? ?]]]]]; subst; try lia.
  - apply Hno. exists (tr j2), (tr j1). auto.
  - apply Hno. exists (tr j1), (tr j2). auto.
Qed.

(* the swap without interaction: a relabelling of the pairing, and the result is the decomposition of the new order *)
Theorem vine_swap_no_interaction (D R : mat) :
  tri D R -> reduced R ->
  (exists c, zm (c i) /\ ~ zm (c (S i)) /\ veq (R (S i)) (comb D c (S (S i)))) ->
  ~ interacting R ->
  tri (pmat D) (pmat R) /\ reduced (pmat R) /\
  (forall j m, (j < n)%nat -> is_low (R j) m -> exists m', moved (R j) m m' /\ is_low (pmat R (tr j)) m') /\
  (forall j, (j < n)%nat -> is_zero (R j) -> is_zero (pmat R (tr j))).
Proof.
  intros Ht Hred Hc Hno. split; [apply vine_swap_tri; assumption|]. split; [apply swap_keeps_reduced; assumption|]. split.
  - intros j m Hj Hl. unfold pmat. rewrite tr_invol. apply low_after_swap. exact Hl.
  - intros j Hj Hz. unfold pmat. rewrite tr_invol. apply zero_pvec. exact Hz.
Qed.

(* ... and any rebuild from scratch of the new order finds exactly that pairing *)
Theorem vine_swap_as_if_rebuilt (D R R' : mat) :
  tri D R -> reduced R ->
  (exists c, zm (c i) /\ ~ zm (c (S i)) /\ veq (R (S i)) (comb D c (S (S i)))) ->
  ~ interacting R ->
  tri (pmat D) R' -> reduced R' ->
  forall j, (j < n)%nat ->
    (forall m, is_low (pmat R j) m <-> is_low (R' j) m) /\ (is_zero (pmat R j) <-> is_zero (R' j)).
Proof.
  intros Ht Hred Hc Hno Ht' Hred'.
  destruct (vine_swap_no_interaction D R Ht Hred Hc Hno) as [H1 [H2 _]].
  apply (lows_unique p Hp n (pmat D)); assumption.
Qed.

End Swap.
