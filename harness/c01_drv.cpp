// C01 harness: drives one Simplex_tree<Options> (Options chosen at compile time by -DOPTSET=k) through an operation
// history and dumps the WHOLE observable state after every operation.
// stdin : "H n l1 .. ln"   universe of labels, ascending (answer "ok <optset name>"); then one operation per line:
//   IS v k l1..lk     insert_simplex                      IF v k l1..lk   insert_simplex_and_subfaces
//   IB v k l1..lk     insert_batch_vertices               IG nv w0..w(nv-1) ne (u v w)*   insert_graph (empty tree)
//   RM k l1..lk       remove_maximal_simplex(find(..))    PF v            prune_above_filtration
//   PD d              prune_above_dimension               CL              clear
//   EX d              expansion(d)
//   the operation token may carry observation flags after ':' : D = call dimension(), N = call num_simplices_by_dimension()
//   (both may recompute the cached dimension, so they are part of the history, applied after the dump)
// stdout: one line per operation: sections separated by '|' (see dump()).  A simplex is printed as its bit mask over
// the universe (bit i = i-th label).  Values are printed as integers or inf/-inf.
#include <iostream>
#include <sstream>
#include <string>
#include <vector>
#include <algorithm>
#include <cmath>
#include <cstdint>
#include <limits>
#include <map>
#include <boost/graph/adjacency_list.hpp>
#include "common.h"
#include <gudhi/Simplex_tree.h>

#ifndef OPTSET
#define OPTSET 0
#endif

using namespace Gudhi;

struct Opt_flat_linked : Simplex_tree_options_default {
  static const bool link_nodes_by_label = true;
  static const bool stable_simplex_handles = false;
};
struct Opt_stable_unlinked : Simplex_tree_options_default {
  static const bool link_nodes_by_label = false;
  static const bool stable_simplex_handles = true;
};
struct Opt_stable_linked_nokey : Simplex_tree_options_default {
  static const bool store_key = false;
  static const bool link_nodes_by_label = true;
  static const bool stable_simplex_handles = true;
};
struct Opt_contig_linked : Simplex_tree_options_default {
  static const bool contiguous_vertices = true;
  static const bool link_nodes_by_label = true;
  static const bool stable_simplex_handles = false;
};

#if OPTSET == 0
typedef Simplex_tree_options_default Opt; static const char* OPTNAME = "default";
#elif OPTSET == 1
typedef Simplex_tree_options_full_featured Opt; static const char* OPTNAME = "full_featured";
#elif OPTSET == 2
typedef Simplex_tree_options_minimal Opt; static const char* OPTNAME = "minimal";
#elif OPTSET == 3
typedef Simplex_tree_options_fast_persistence Opt; static const char* OPTNAME = "fast_persistence";
#elif OPTSET == 4
typedef Opt_flat_linked Opt; static const char* OPTNAME = "flat_linked";
#elif OPTSET == 5
typedef Opt_stable_unlinked Opt; static const char* OPTNAME = "stable_unlinked";
#elif OPTSET == 6
typedef Opt_stable_linked_nokey Opt; static const char* OPTNAME = "stable_linked_nokey";
#elif OPTSET == 7
typedef Opt_contig_linked Opt; static const char* OPTNAME = "contig_linked";
#endif

typedef Simplex_tree<Opt> ST;
typedef ST::Vertex_handle Vh;
typedef ST::Filtration_value Fv;
typedef ST::Simplex_handle Sh;

static std::vector<long> U;              // universe, ascending
static std::map<long, int> Upos;

static Fv parse_val(const std::string& s) {
  if (s == "inf") return std::numeric_limits<Fv>::infinity();
  if (s == "-inf") return -std::numeric_limits<Fv>::infinity();
  return (Fv)std::stol(s);
}
static std::string val_str(Fv v) {
  if (std::isnan(v)) return "nan";
  if (std::isinf(v)) return v > 0 ? "inf" : "-inf";
  return std::to_string((long long)v);
}
static std::string mask_of(const ST& st, Sh sh) {
  unsigned m = 0;
  for (Vh v : st.simplex_vertex_range(sh)) {
    auto it = Upos.find((long)v);
    if (it == Upos.end()) return "X";
    if (m & (1u << it->second)) return "DUP";
    m |= 1u << it->second;
  }
  return std::to_string(m);
}
static std::vector<Vh> simplex_of_mask(unsigned m) {
  std::vector<Vh> s;
  for (size_t i = 0; i < U.size(); ++i) if (m & (1u << i)) s.push_back((Vh)U[i]);
  return s;
}
static int popcount(unsigned m) { int c = 0; while (m) { c += m & 1; m >>= 1; } return c; }

static std::string dump(ST& st, bool callD, bool callN) {
  std::ostringstream o;
  const unsigned NM = 1u << U.size();
  o << "ub=" << st.upper_bound_dimension() << "|nv=" << st.num_vertices() << "|n=" << st.num_simplices()
    << "|e=" << (st.is_empty() ? 1 : 0);
  // membership, value and dimension of every non-empty subset of the universe (find with the vertices in descending order)
  std::vector<unsigned> present;
  o << "|F=";
  for (unsigned m = 1; m < NM; ++m) {
    std::vector<Vh> s = simplex_of_mask(m);
    std::reverse(s.begin(), s.end());
    Sh sh = st.find(s);
    if (sh != st.null_simplex()) {
      present.push_back(m);
      o << m << ":" << val_str(st.filtration(sh)) << ":" << st.dimension(sh) << " ";
    }
  }
  o << "|V=";
  for (Vh v : st.complex_vertex_range()) o << (long)v << " ";
  o << "|C=";
  for (Sh sh : st.complex_simplex_range()) o << mask_of(st, sh) << ":" << val_str(st.filtration(sh)) << " ";
  for (int d = 0; d <= (int)U.size(); ++d) {
    o << "|S" << d << "=";
    for (Sh sh : st.skeleton_simplex_range(d)) o << mask_of(st, sh) << " ";
  }
  // boundaries (the iterators dereference find() results without a check: only called when every facet is present)
  o << "|B=";
  for (unsigned m : present) {
    bool all = true;
    if (popcount(m) > 1)
      for (size_t i = 0; i < U.size(); ++i)
        if ((m & (1u << i)) && st.find(simplex_of_mask(m & ~(1u << i))) == st.null_simplex()) all = false;
    o << m << ":";
    if (!all) { o << "! "; continue; }
    Sh sh = st.find(simplex_of_mask(m));
    for (Sh b : st.boundary_simplex_range(sh)) o << mask_of(st, b) << ",";
    o << "/";
    for (auto& bo : st.boundary_opposite_vertex_simplex_range(sh)) o << mask_of(st, bo.first) << "^" << (long)bo.second << ",";
    o << " ";
  }
  // star and cofaces of every codimension (order left free by the API: sorted; duplicates kept)
  o << "|K=";
  for (unsigned m : present) {
    Sh sh = st.find(simplex_of_mask(m));
    for (int c = 0; c <= (int)U.size(); ++c) {
      std::vector<long> r;
      bool bad = false;
      if (c == 0) {
        for (Sh t : st.star_simplex_range(sh)) { std::string s = mask_of(st, t); if (s == "X" || s == "DUP") bad = true; else r.push_back(std::stol(s)); }
      } else {
        for (Sh t : st.cofaces_simplex_range(sh, c)) { std::string s = mask_of(st, t); if (s == "X" || s == "DUP") bad = true; else r.push_back(std::stol(s)); }
      }
      std::sort(r.begin(), r.end());
      if (r.empty() && !bad && c > 0) continue;
      o << m << "/" << c << ":";
      if (bad) o << "X";
      for (long x : r) o << x << ",";
      o << " ";
    }
  }
  // operator== against a tree rebuilt from the enumeration (both directions), and against an empty tree
  {
    ST r;
    std::vector<std::pair<std::vector<Vh>, Fv>> all;
    for (Sh sh : st.complex_simplex_range()) {
      std::vector<Vh> s(st.simplex_vertex_range(sh).begin(), st.simplex_vertex_range(sh).end());
      std::sort(s.begin(), s.end());
      all.emplace_back(s, st.filtration(sh));
    }
    std::sort(all.begin(), all.end(), [](auto& a, auto& b) { return a.first < b.first; });  // prefixes first
    for (auto& p : all) r.insert_simplex(p.first, p.second);
    ST e;
    o << "|eq=" << (st == r ? 1 : 0) << (r == st ? 1 : 0) << (st == e ? 1 : 0);
  }
  if (callD) o << "|dim=" << st.dimension();
  if (callN) {
    o << "|nbd=";
    for (size_t c : st.num_simplices_by_dimension()) o << c << ",";
  }
  if (callD || callN) o << "|ub2=" << st.upper_bound_dimension();
  return o.str();
}

int main() {
  vh::install();
  std::string line;
  ST* st = new ST();
  while (std::getline(std::cin, line)) {
    std::istringstream in(line);
    std::string tok;
    in >> tok;
    if (tok == "H") {
      delete st;
      st = new ST();
      U.clear(); Upos.clear();
      int n; in >> n;
      for (int i = 0; i < n; ++i) { long l; in >> l; Upos[l] = (int)U.size(); U.push_back(l); }
      vh::emit(std::string("ok ") + OPTNAME);
      continue;
    }
    std::string flags;
    size_t cp = tok.find(':');
    if (cp != std::string::npos) { flags = tok.substr(cp + 1); tok = tok.substr(0, cp); }
    bool callD = flags.find('D') != std::string::npos, callN = flags.find('N') != std::string::npos;
    std::string ret = "?";
    try {
      if (tok == "IS" || tok == "IF" || tok == "IB") {
        std::string vs; int k; in >> vs >> k;
        std::vector<Vh> s(k);
        for (int i = 0; i < k; ++i) { long l; in >> l; s[i] = (Vh)l; }
        Fv v = parse_val(vs);
        if (tok == "IB") { st->insert_batch_vertices(s, v); ret = "-"; }
        else {
          auto r = tok == "IS" ? st->insert_simplex(s, v) : st->insert_simplex_and_subfaces(s, v);
          ret = std::string(r.second ? "1" : "0") + (r.first == st->null_simplex() ? "n" : "h");
        }
      } else if (tok == "IG") {
        typedef boost::adjacency_list<boost::vecS, boost::vecS, boost::undirectedS,
                                      boost::property<vertex_filtration_t, Fv>, boost::property<edge_filtration_t, Fv>> G;
        int nv; in >> nv;
        G g(nv);
        for (int i = 0; i < nv; ++i) { std::string w; in >> w; boost::put(vertex_filtration_t(), g, i, parse_val(w)); }
        int ne; in >> ne;
        for (int i = 0; i < ne; ++i) { int u, v; std::string w; in >> u >> v >> w; boost::add_edge(u, v, parse_val(w), g); }
        if (st->num_simplices() != 0) ret = "PRE"; else { st->insert_graph(g); ret = "-"; }
      } else if (tok == "RM") {
        int k; in >> k;
        std::vector<Vh> s(k);
        for (int i = 0; i < k; ++i) { long l; in >> l; s[i] = (Vh)l; }
        Sh sh = st->find(s);
        if (sh == st->null_simplex() || st->has_children(sh)) ret = "PRE"; else { st->remove_maximal_simplex(sh); ret = "-"; }
      } else if (tok == "PF") {
        std::string vs; in >> vs;
        ret = st->prune_above_filtration(parse_val(vs)) ? "1" : "0";
      } else if (tok == "PD") {
        int d; in >> d;
        ret = st->prune_above_dimension(d) ? "1" : "0";
      } else if (tok == "CL") {
        st->clear(); ret = "-";
      } else if (tok == "EX") {
        int d; in >> d;
        // documented precondition: no simplex of dimension > 1; and the endpoints of every edge are vertices
        // (find_vertex is not checked): otherwise the call is refused by the harness
        bool pre = true;
        for (Sh sh : st->complex_simplex_range()) {
          int dd = st->dimension(sh);
          if (dd > 1) pre = false;
          if (dd == 1) for (Vh v : st->simplex_vertex_range(sh)) if (st->find(std::vector<Vh>{v}) == st->null_simplex()) pre = false;
        }
        if (!pre) ret = "PRE"; else { st->expansion(d); ret = "-"; }
      } else {
        vh::emit("BADOP"); continue;
      }
    } catch (const std::exception& e) {
      ret = std::string("EXC");
    } catch (const char* m) {
      ret = std::string("EXC");
    }
    std::string d;
    // GUDHI_DEBUG is on (no NDEBUG): internal GUDHI_CHECKs throw; they are reported, not hidden
    try { d = dump(*st, callD, callN); }
    catch (const std::exception& e) { d = std::string("EXC-IN-OBSERVER=") + e.what(); }
    catch (const char* m) { d = std::string("EXC-IN-OBSERVER=") + m; }
    vh::emit("r=" + ret + "|" + d);
  }
  vh::flush();
  return 0;
}
