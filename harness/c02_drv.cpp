// C02 harness: drives Gudhi::persistent_cohomology::Persistent_cohomology<Complex, Field_Zp | Multi_field> through its public
// API only, on Simplex_tree<Options>, Hasse_complex (built from a Simplex_tree) and Bitmap_cubical_complex.
//
// input lines
//   K <opt> <s> <s> ...       new simplicial complex under option set <opt>: D default, F full_featured, P fast_persistence,
//                             H = Hasse_complex<> built from a default Simplex_tree;
//                             every <s> is  v,v,...,v:f  (insert_simplex of exactly that simplex with value f; the generator lists
//                             faces before cofaces with monotone values)
//   K C <d> <n1> .. <nd> <f> <f> ...      Bitmap_cubical_complex of shape n1 x .. x nd, values of the top-dimensional cells
//   K Q <d> <n1> .. <nd> <b1> .. <bd> <f> ...   the same with periodic boundary conditions in the directions with b = 1
//   Z <p> <flag> <m>          Field_Zp, init_coefficients(p), persistence_dim_max = flag, compute_persistent_cohomology(m)
//   M <lo> <hi> <flag> <m>    Multi_field, init_coefficients(lo, hi), ...
//                             (in two runs out of three the object has already served another init_coefficients call, see run_engine)
// output: one line per input line
//   K (simplicial) -> "n=<num_simplices> dim=<dimension()> order=<v,v:f;v,v:f;...>"      the order of filtration_simplex_range()
//   K (cubical)    -> "n=<num_simplices> dim=<dimension()> cells=<dim>/<facets>/<f>;..."   in the order of filtration_simplex_range();
//                     <facets> = positions (in that order) of the cells of boundary_simplex_range, comma separated, '-' if none
//   Z/M -> "pairs=<b>:<d>:<ch>,... iv=<d>:<b>~<d>,...;... betti=<..> bn=<..> pbn=<from>:<to>:<vec>;... pbn1=<0|1> diag=<line>|<line>..."
//          b, d = positions in the filtration order (d = -1 for null_simplex); pairs in the order of get_persistent_pairs()
#include <gudhi/Simplex_tree.h>
#include <gudhi/Hasse_complex.h>
#include <gudhi/Bitmap_cubical_complex.h>
#include <gudhi/Bitmap_cubical_complex_periodic_boundary_conditions_base.h>
#include <gudhi/Persistent_cohomology.h>
#include <gudhi/Persistent_cohomology/Field_Zp.h>
#include <gudhi/Persistent_cohomology/Multi_field.h>
#include <algorithm>
#include <cmath>
#include <limits>
#include <map>
#include <memory>
#include <set>
#include <sstream>
#include <string>
#include <type_traits>
#include <vector>
#include "common.h"

using namespace Gudhi;
using namespace Gudhi::persistent_cohomology;

static std::string fv(double x) {
  if (std::isinf(x)) return x > 0 ? "inf" : "-inf";
  if (std::isnan(x)) return "nan";
  if (x == std::floor(x) && std::fabs(x) < 1e15) return std::to_string((long long)x);
  char b[64];
  snprintf(b, sizeof b, "%a", x);
  return b;
}
static std::vector<std::string> split(const std::string& s, char c) {
  std::vector<std::string> r;
  std::string cur;
  for (char ch : s) {
    if (ch == c) { r.push_back(cur); cur.clear(); } else cur += ch;
  }
  r.push_back(cur);
  return r;
}
static std::string vec_str(const std::vector<int>& v) {
  std::string s;
  for (size_t i = 0; i < v.size(); i++) s += (i ? "," : "") + std::to_string(v[i]);
  return s.empty() ? "-" : s;
}

// one run of the engine on the complex cpx; index_of maps a Simplex_handle to its position in the filtration order
template <class Field, class Cpx, class IndexOf>
std::string run_engine(Cpx& cpx, IndexOf index_of, const std::vector<double>& values, int a, int b, bool flag, double m) {
  typedef typename Cpx::Filtration_value FV;
  Persistent_cohomology<Cpx, Field> pc(cpx, flag);
  // the Field_Zp object has a past (Field_Zp::init re-initialises: it clears its table; Multi_field::init appends to its
  // lists and is not meant to be called twice, so multi-field objects stay fresh): which earlier init_coefficients call it
  // served is a function of the requested run (so that a replay repeats it): none / a rejected request (exception
  // swallowed) / another valid field first
  if constexpr (!std::is_same<Field, Multi_field>::value) {
    switch ((a * 31 + (flag ? 7 : 0) + (int)m) % 3) {
      case 1: try { pc.init_coefficients(4); } catch (const std::invalid_argument&) {} break;
      case 2: try { pc.init_coefficients(a == 2 ? 3 : 2); } catch (const std::invalid_argument&) {} break;
      default: break;
    }
  }
  try {
    if constexpr (std::is_same<Field, Multi_field>::value) pc.init_coefficients(a, b); else pc.init_coefficients(a);
  } catch (const std::invalid_argument&) {
    return "EXC invalid_argument";
  }
  pc.compute_persistent_cohomology((FV)m);
  std::ostringstream o;
  o << "pairs=";
  bool first = true;
  for (auto& pr : pc.get_persistent_pairs()) {
    if (!first) o << ',';
    first = false;
    o << index_of(std::get<0>(pr)) << ':' << index_of(std::get<1>(pr)) << ':' << std::get<2>(pr);
  }
  if (first) o << '-';
  int D = std::max((int)cpx.dimension(), 0) + 2;
  o << " iv=";
  for (int d = 0; d <= D; d++) {
    if (d) o << ';';
    o << d << ':';
    auto iv = pc.intervals_in_dimension(d);
    for (size_t i = 0; i < iv.size(); i++) o << (i ? "," : "") << fv(iv[i].first) << '~' << fv(iv[i].second);
    if (iv.empty()) o << '-';
  }
  std::vector<int> bn = pc.betti_numbers();
  o << " betti=" << vec_str(bn);
  std::vector<int> b1;
  for (int d = 0; d <= D; d++) b1.push_back(pc.betti_number(d));
  o << " bn=" << vec_str(b1);
  o << " pbn=";
  std::vector<double> vs(values);
  if (!vs.empty()) { vs.insert(vs.begin(), vs.front() - 1); }
  bool ok1 = true, firstp = true;
  for (double from : vs)
    for (double to : vs) {
      if (from == to) continue;
      std::vector<int> pb = pc.persistent_betti_numbers((FV)from, (FV)to);
      if (!firstp) o << ';';
      firstp = false;
      o << fv(from) << ':' << fv(to) << ':' << vec_str(pb);
      for (int d = 0; d <= D; d++) {
        int x = pc.persistent_betti_number(d, (FV)from, (FV)to);
        int y = d < (int)pb.size() ? pb[d] : 0;
        if (x != y) ok1 = false;
      }
    }
  if (firstp) o << '-';
  o << " pbn1=" << (ok1 ? 1 : 0);
  std::ostringstream dg;
  pc.output_diagram(dg);
  std::string ds = dg.str(), dl;
  for (char c : ds) dl += (c == '\n') ? '|' : (c == ' ' ? '_' : c);
  o << " diag=" << (dl.empty() ? "-" : dl);
  return o.str();
}

struct Case_base {
  virtual ~Case_base() {}
  virtual std::string build(const std::vector<std::string>& w) = 0;
  virtual std::string run(bool multi, int a, int b, bool flag, double m) = 0;
};

template <class Options, bool hasse>
struct Case_st : Case_base {
  typedef Simplex_tree<Options> ST;
  typedef Hasse_complex<> HC;
  ST st;
  std::unique_ptr<HC> hc;
  std::map<std::vector<int>, int> pos;   // sorted vertex list -> position in the filtration order
  std::vector<double> values;            // distinct filtration values

  std::string build(const std::vector<std::string>& w) override {
    for (size_t i = 2; i < w.size(); i++) {
      auto sf = split(w[i], ':');
      std::vector<typename ST::Vertex_handle> s;
      for (auto& x : split(sf[0], ',')) s.push_back(std::stoi(x));
      st.insert_simplex(s, (typename ST::Filtration_value)std::stod(sf[1]));
    }
    std::string o;
    int k = 0;
    std::set<double> vs;
    for (auto sh : st.filtration_simplex_range()) {
      std::vector<int> s;
      for (auto v : st.simplex_vertex_range(sh)) s.push_back(v);
      std::sort(s.begin(), s.end());
      pos[s] = k++;
      if (!o.empty()) o += ';';
      for (size_t i = 0; i < s.size(); i++) o += (i ? "," : "") + std::to_string(s[i]);
      o += ':' + fv(st.filtration(sh));
      vs.insert(st.filtration(sh));
    }
    values.assign(vs.begin(), vs.end());
    size_t n = st.num_simplices();
    int dim = st.dimension();
    if (hasse) {
      int count = 0;
      for (auto sh : st.filtration_simplex_range()) st.assign_key(sh, count++);
      hc.reset(new HC(st));
      n = hc->num_simplices();
      dim = hc->dimension();
    }
    return "n=" + std::to_string(n) + " dim=" + std::to_string(dim) + " order=" + (o.empty() ? "-" : o);
  }

  int index_of(typename ST::Simplex_handle sh) {
    if (sh == st.null_simplex()) return -1;
    std::vector<int> s;
    for (auto v : st.simplex_vertex_range(sh)) s.push_back(v);
    std::sort(s.begin(), s.end());
    auto it = pos.find(s);
    return it == pos.end() ? -2 : it->second;
  }

  std::string run(bool multi, int a, int b, bool flag, double m) override {
    if constexpr (hasse) {
      auto idx = [](int sh) { return sh; };          // a Hasse_complex handle is the position itself, null_simplex() = -1
      if (multi) return run_engine<Multi_field>(*hc, idx, values, a, b, flag, m);
      return run_engine<Field_Zp>(*hc, idx, values, a, b, flag, m);
    } else {
      auto idx = [this](typename ST::Simplex_handle sh) { return index_of(sh); };
      if (multi) return run_engine<Multi_field>(st, idx, values, a, b, flag, m);
      return run_engine<Field_Zp>(st, idx, values, a, b, flag, m);
    }
  }
};

template <class Base, bool periodic>
struct Case_cub : Case_base {
  typedef cubical_complex::Bitmap_cubical_complex<Base> CC;
  std::unique_ptr<CC> cc;
  std::map<std::size_t, int> pos;
  std::vector<double> values;

  std::string build(const std::vector<std::string>& w) override {
    size_t i = 2;
    int d = std::stoi(w[i++]);
    std::vector<unsigned> sizes;
    for (int k = 0; k < d; k++) sizes.push_back((unsigned)std::stoi(w[i++]));
    std::vector<bool> per;
    if (periodic) for (int k = 0; k < d; k++) per.push_back(w[i++] == "1");
    std::vector<double> data;
    for (; i < w.size(); i++) data.push_back(std::stod(w[i]));
    if constexpr (periodic) cc.reset(new CC(sizes, data, per)); else cc.reset(new CC(sizes, data));
    int k = 0;
    for (auto sh : cc->filtration_simplex_range()) pos[sh] = k++;
    std::string o;
    std::set<double> vs;
    for (auto sh : cc->filtration_simplex_range()) {
      if (!o.empty()) o += ';';
      o += std::to_string(cc->dimension(sh)) + "/";
      bool firstf = true;
      for (auto f : cc->boundary_simplex_range(sh)) {
        o += (firstf ? "" : ",") + std::to_string(pos.count(f) ? pos[f] : -2);
        firstf = false;
      }
      if (firstf) o += "-";
      o += "/" + fv(cc->filtration(sh));
      vs.insert(cc->filtration(sh));
    }
    values.assign(vs.begin(), vs.end());
    return "n=" + std::to_string(cc->num_simplices()) + " dim=" + std::to_string(cc->dimension()) + " cells=" + (o.empty() ? "-" : o);
  }

  std::string run(bool multi, int a, int b, bool flag, double m) override {
    auto idx = [this](std::size_t sh) { return sh == CC::null_simplex() ? -1 : (pos.count(sh) ? pos[sh] : -2); };
    if (multi) return run_engine<Multi_field>(*cc, idx, values, a, b, flag, m);
    return run_engine<Field_Zp>(*cc, idx, values, a, b, flag, m);
  }
};

int main() {
  vh::install();
  std::unique_ptr<Case_base> cur;
  std::string line;
  static char buf[1 << 20];
  while (fgets(buf, sizeof buf, stdin)) {
    line = buf;
    while (!line.empty() && (line.back() == '\n' || line.back() == '\r')) line.pop_back();
    std::vector<std::string> w;
    {
      std::istringstream is(line);
      std::string x;
      while (is >> x) w.push_back(x);
    }
    if (w.empty()) { vh::emit("skip"); continue; }
    try {
      if (w[0] == "K") {
        char o = w.size() > 1 ? w[1][0] : 'D';
        if (o == 'F') cur.reset(new Case_st<Simplex_tree_options_full_featured, false>());
        else if (o == 'P') cur.reset(new Case_st<Simplex_tree_options_fast_persistence, false>());
        else if (o == 'H') cur.reset(new Case_st<Simplex_tree_options_default, true>());
        else if (o == 'C') cur.reset(new Case_cub<cubical_complex::Bitmap_cubical_complex_base<double>, false>());
        else if (o == 'Q') cur.reset(new Case_cub<cubical_complex::Bitmap_cubical_complex_periodic_boundary_conditions_base<double>, true>());
        else cur.reset(new Case_st<Simplex_tree_options_default, false>());
        vh::emit(cur->build(w));
      } else if (w[0] == "Z" && cur && w.size() >= 4) {
        vh::emit(cur->run(false, std::stoi(w[1]), 0, w[2] == "1", std::stod(w[3])));
      } else if (w[0] == "M" && cur && w.size() >= 5) {
        vh::emit(cur->run(true, std::stoi(w[1]), std::stoi(w[2]), w[3] == "1", std::stod(w[4])));
      } else {
        vh::emit("bad-line");
      }
    } catch (const std::exception& e) {
      vh::emit(std::string("EXC ") + e.what());
    } catch (const char* e) {
      vh::emit(std::string("EXC ") + e);
    }
  }
  vh::flush();
  return 0;
}
