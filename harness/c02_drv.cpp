// C02 harness: drives Gudhi::persistent_cohomology::Persistent_cohomology<Simplex_tree<Options>, Field_Zp | Multi_field>
// through its public API only.
//
// input lines
//   K <opt> <s> <s> ...       new complex under option set <opt> (D default, F full_featured, P fast_persistence);
//                             every <s> is  v,v,...,v:f  (insert_simplex of exactly that simplex with value f; the generator lists
//                             faces before cofaces with monotone values)
//   Z <p> <flag> <m>          Field_Zp, init_coefficients(p), persistence_dim_max = flag, compute_persistent_cohomology(m)
//   M <lo> <hi> <flag> <m>    Multi_field, init_coefficients(lo, hi), ...
// output: one line per input line
//   K -> "n=<num_simplices> dim=<dimension()> order=<v,v:f;v,v:f;...>"      the order of filtration_simplex_range()
//   Z/M -> "pairs=<b>:<d>:<ch>,... iv=<d>:<b>~<d>,...;... betti=<..> bn=<..> pbn=<from>:<to>:<vec>;... pbn1=<0|1> diag=<line>|<line>..."
//          b, d = positions in the filtration order (d = -1 for null_simplex); pairs in the order of get_persistent_pairs()
#include <gudhi/Simplex_tree.h>
#include <gudhi/Persistent_cohomology.h>
#include <gudhi/Persistent_cohomology/Field_Zp.h>
#include <gudhi/Persistent_cohomology/Multi_field.h>
#include <algorithm>
#include <cmath>
#include <limits>
#include <map>
#include <memory>
#include <set>
#include <sstream>
#include <string>
#include <vector>
#include "common.h"

using namespace Gudhi;
using namespace Gudhi::persistent_cohomology;

static std::string fv(double x) {
  if (std::isinf(x)) return x > 0 ? "inf" : "-inf";
  if (std::isnan(x)) return "nan";
  if (x == std::floor(x) && std::fabs(x) < 1e15) return std::to_string((long long)x);
  char b[64];
  snprintf(b, sizeof b, "%a", x);
  return b;
}
static std::vector<std::string> split(const std::string& s, char c) {
  std::vector<std::string> r;
  std::string cur;
  for (char ch : s) {
    if (ch == c) { r.push_back(cur); cur.clear(); } else cur += ch;
  }
  r.push_back(cur);
  return r;
}
static std::string vec_str(const std::vector<int>& v) {
  std::string s;
  for (size_t i = 0; i < v.size(); i++) s += (i ? "," : "") + std::to_string(v[i]);
  return s.empty() ? "-" : s;
}

struct Case_base {
  virtual ~Case_base() {}
  virtual std::string build(const std::vector<std::string>& w) = 0;
  virtual std::string run(bool multi, int a, int b, bool flag, double m) = 0;
};

template <class Options>
struct Case : Case_base {
  typedef Simplex_tree<Options> ST;
  ST st;
  std::map<std::vector<int>, int> pos;   // sorted vertex list -> position in the filtration order
  std::vector<double> values;            // distinct filtration values

  std::string build(const std::vector<std::string>& w) override {
    for (size_t i = 2; i < w.size(); i++) {
      auto sf = split(w[i], ':');
      std::vector<typename ST::Vertex_handle> s;
      for (auto& x : split(sf[0], ',')) s.push_back(std::stoi(x));
      st.insert_simplex(s, (typename ST::Filtration_value)std::stod(sf[1]));
    }
    std::string o;
    int k = 0;
    std::set<double> vs;
    for (auto sh : st.filtration_simplex_range()) {
      std::vector<int> s;
      for (auto v : st.simplex_vertex_range(sh)) s.push_back(v);
      std::sort(s.begin(), s.end());
      pos[s] = k++;
      if (!o.empty()) o += ';';
      for (size_t i = 0; i < s.size(); i++) o += (i ? "," : "") + std::to_string(s[i]);
      o += ':' + fv(st.filtration(sh));
      vs.insert(st.filtration(sh));
    }
    values.assign(vs.begin(), vs.end());
    return "n=" + std::to_string(st.num_simplices()) + " dim=" + std::to_string(st.dimension()) + " order=" + (o.empty() ? "-" : o);
  }

  int index_of(typename ST::Simplex_handle sh) {
    if (sh == st.null_simplex()) return -1;
    std::vector<int> s;
    for (auto v : st.simplex_vertex_range(sh)) s.push_back(v);
    std::sort(s.begin(), s.end());
    auto it = pos.find(s);
    return it == pos.end() ? -2 : it->second;
  }

  template <class Field>
  std::string run_field(bool multi, int a, int b, bool flag, double m) {
    Persistent_cohomology<ST, Field> pc(st, flag);
    try {
      if constexpr (std::is_same<Field, Multi_field>::value) pc.init_coefficients(a, b); else pc.init_coefficients(a);
    } catch (const std::invalid_argument&) {
      return "EXC invalid_argument";
    }
    pc.compute_persistent_cohomology((typename ST::Filtration_value)m);
    std::ostringstream o;
    o << "pairs=";
    bool first = true;
    for (auto& pr : pc.get_persistent_pairs()) {
      if (!first) o << ',';
      first = false;
      o << index_of(std::get<0>(pr)) << ':' << index_of(std::get<1>(pr)) << ':' << std::get<2>(pr);
    }
    if (first) o << '-';
    int D = std::max(st.dimension(), 0) + 2;
    o << " iv=";
    for (int d = 0; d <= D; d++) {
      if (d) o << ';';
      o << d << ':';
      auto iv = pc.intervals_in_dimension(d);
      for (size_t i = 0; i < iv.size(); i++) o << (i ? "," : "") << fv(iv[i].first) << '~' << fv(iv[i].second);
      if (iv.empty()) o << '-';
    }
    std::vector<int> bn = pc.betti_numbers();
    o << " betti=" << vec_str(bn);
    std::vector<int> b1;
    for (int d = 0; d <= D; d++) b1.push_back(pc.betti_number(d));
    o << " bn=" << vec_str(b1);
    o << " pbn=";
    std::vector<double> vs(values);
    if (!vs.empty()) { vs.insert(vs.begin(), vs.front() - 1); }
    bool ok1 = true, firstp = true;
    for (double from : vs)
      for (double to : vs) {
        if (from == to) continue;
        std::vector<int> pb = pc.persistent_betti_numbers((typename ST::Filtration_value)from, (typename ST::Filtration_value)to);
        if (!firstp) o << ';';
        firstp = false;
        o << fv(from) << ':' << fv(to) << ':' << vec_str(pb);
        for (int d = 0; d <= D; d++) {
          int x = pc.persistent_betti_number(d, (typename ST::Filtration_value)from, (typename ST::Filtration_value)to);
          int y = d < (int)pb.size() ? pb[d] : 0;
          if (x != y) ok1 = false;
        }
      }
    if (firstp) o << '-';
    o << " pbn1=" << (ok1 ? 1 : 0);
    std::ostringstream dg;
    pc.output_diagram(dg);
    std::string ds = dg.str(), dl;
    for (char c : ds) dl += (c == '\n') ? '|' : (c == ' ' ? '_' : c);
    o << " diag=" << (dl.empty() ? "-" : dl);
    return o.str();
  }

  std::string run(bool multi, int a, int b, bool flag, double m) override {
    if (multi) return run_field<Multi_field>(true, a, b, flag, m);
    return run_field<Field_Zp>(false, a, b, flag, m);
  }
};

int main() {
  vh::install();
  std::unique_ptr<Case_base> cur;
  std::string line;
  static char buf[1 << 20];
  while (fgets(buf, sizeof buf, stdin)) {
    line = buf;
    while (!line.empty() && (line.back() == '\n' || line.back() == '\r')) line.pop_back();
    std::vector<std::string> w;
    {
      std::istringstream is(line);
      std::string x;
      while (is >> x) w.push_back(x);
    }
    if (w.empty()) { vh::emit("skip"); continue; }
    try {
      if (w[0] == "K") {
        char o = w.size() > 1 ? w[1][0] : 'D';
        if (o == 'F') cur.reset(new Case<Simplex_tree_options_full_featured>());
        else if (o == 'P') cur.reset(new Case<Simplex_tree_options_fast_persistence>());
        else cur.reset(new Case<Simplex_tree_options_default>());
        vh::emit(cur->build(w));
      } else if (w[0] == "Z" && cur && w.size() >= 4) {
        vh::emit(cur->run(false, std::stoi(w[1]), 0, w[2] == "1", std::stod(w[3])));
      } else if (w[0] == "M" && cur && w.size() >= 5) {
        vh::emit(cur->run(true, std::stoi(w[1]), std::stoi(w[2]), w[3] == "1", std::stod(w[4])));
      } else {
        vh::emit("bad-line");
      }
    } catch (const std::exception& e) {
      vh::emit(std::string("EXC ") + e.what());
    }
  }
  vh::flush();
  return 0;
}
