// C03, cubical part: the filtration order of Bitmap_cubical_complex must be a function of the filtered complex alone
// (same sequence with and without GUDHI_USE_TBB, for every thread count), non-decreasing and faces-first.
// input lines:   B <threads> <ndims> <size_1> .. <size_n> | v_1 v_2 ...        (values of the top-dimensional cells; "inf" allowed)
//                P <threads> <ndims> <size_1> .. <size_n> | <0/1 per direction> | v ...     (periodic class)
// answer:        "<n> # k_1 k_2 ... # f(k) d(k) per cell k=0..n-1"   (keys in filtration order; then value and dimension per cell)
#include <gudhi/Bitmap_cubical_complex.h>
#include <gudhi/Bitmap_cubical_complex_base.h>
#include <gudhi/Bitmap_cubical_complex_periodic_boundary_conditions_base.h>
#ifdef GUDHI_USE_TBB
#include <tbb/global_control.h>
#endif
#include <iostream>
#include <limits>
#include <memory>
#include <sstream>
#include <string>
#include <vector>
#include "common.h"

template <class Cx>
static std::string order_of(Cx& cx) {
  std::ostringstream os;
  std::size_t n = cx.num_simplices();
  os << n << " #";
  for (auto sh : cx.filtration_simplex_range()) os << " " << sh;
  os << " #";
  for (std::size_t k = 0; k < n; ++k) {
    double f = cx.filtration(k);
    os << " ";
    if (f == std::numeric_limits<double>::infinity()) os << "inf"; else os << (long long)f;
    os << ":" << cx.dimension(k);
  }
  return os.str();
}

int main() {
  vh::install();
  std::string line;
  while (std::getline(std::cin, line)) {
    if (line.empty()) continue;
    try {
      std::istringstream is(line);
      std::string op; int threads; unsigned nd;
      is >> op >> threads >> nd;
      if (op == "C") { vh::emit("ok"); continue; }
      std::vector<unsigned> sizes(nd);
      for (auto& s : sizes) is >> s;
      std::string bar; is >> bar;
      std::vector<bool> per;
      if (op == "P") { for (unsigned i = 0; i < nd; ++i) { int b; is >> b; per.push_back(b != 0); } is >> bar; }
      std::vector<double> vals; std::string w;
      while (is >> w) vals.push_back(w == "inf" ? std::numeric_limits<double>::infinity() : std::stod(w));
#ifdef GUDHI_USE_TBB
      std::unique_ptr<tbb::global_control> gc;
      if (threads > 0) gc.reset(new tbb::global_control(tbb::global_control::max_allowed_parallelism, (std::size_t)threads));
#endif
      if (op == "B") {
        typedef Gudhi::cubical_complex::Bitmap_cubical_complex_base<double> Base;
        Gudhi::cubical_complex::Bitmap_cubical_complex<Base> cx(sizes, vals);
        vh::emit(order_of(cx));
      } else {
        typedef Gudhi::cubical_complex::Bitmap_cubical_complex_periodic_boundary_conditions_base<double> Base;
        Gudhi::cubical_complex::Bitmap_cubical_complex<Base> cx(sizes, vals, per);
        vh::emit(order_of(cx));
      }
    } catch (const std::exception& e) { vh::emit(std::string("EXC ") + e.what()); }
    catch (...) { vh::emit("EXC"); }
  }
  vh::flush();
  return 0;
}
