// C03 harness: filtration order and filtration-value maintenance of Gudhi::Simplex_tree, observed through the public
// API only (filtration_simplex_range, initialize_filtration, clear_filtration, filtration, assign_filtration,
// insert_simplex_and_subfaces, make_filtration_non_decreasing, prune_above_filtration, extend_filtration,
// decode_extended_filtration, complex_simplex_range, simplex_vertex_range).
//
// Line protocol (stdin -> one answer line per input line):
//   G <optset> <threads>          new empty complex under option set <optset>; TBB limited to <threads> threads
//   ins <v,v,..> <val>            insert_simplex_and_subfaces, then clear_filtration() (documented duty of the caller)
//   set <v,v,..> <val>            assign_filtration(find(..)), then clear_filtration()
//   range                         filtration_simplex_range()
//   init <0|1>                    initialize_filtration(ignore_infinite_values) then the range
//   mfnd                          make_filtration_non_decreasing()
//   prune <val>                   prune_above_filtration(val)
//   extend                        extend_filtration() (remembers the returned Extended_filtration_data)
//   decodeall                     decode_extended_filtration(filtration(s), last efd) for every simplex s
//   decode <f> <min> <max>        decode_extended_filtration(f, {min,max})
// Answer: "<result> # <canonical dump of the whole complex: simplices sorted lexicographically, with values>".
// Values are printed exactly: integers, or reduced fractions p/2^k, inf, -inf, nan.
#include <algorithm>
#include <cmath>
#include <cstdint>
#include <iostream>
#include <limits>
#include <memory>
#include <sstream>
#include <string>
#include <vector>
#ifdef GUDHI_USE_TBB
#include <tbb/global_control.h>
#endif
#include <gudhi/Simplex_tree.h>
#include "common.h"

using namespace Gudhi;

struct Opt_stable : Simplex_tree_options_default {
  static const bool stable_simplex_handles = true;
};
struct Opt_link_short_float : Simplex_tree_options_default {
  typedef short Vertex_handle;
  typedef float Filtration_value;
  static const bool link_nodes_by_label = true;
};
// integral filtration values: intersect_lifetimes / unify_lifetimes have a separate branch for types without quiet NaN
struct Opt_int : Simplex_tree_options_default {
  typedef int Filtration_value;
};
struct Opt_nokey : Simplex_tree_options_default {
  static const bool store_key = false;
  typedef std::uint64_t Simplex_key;
};

static std::string fmt(double x) {
  if (std::isnan(x)) return "nan";
  if (std::isinf(x)) return x > 0 ? "inf" : "-inf";
  if (x == 0) return "0";
  int e;
  double m = std::frexp(x, &e);  // x = m * 2^e, 0.5 <= |m| < 1
  // scale the mantissa to an integer (53 bits)
  long long mi = (long long)std::ldexp(m, 53);
  e -= 53;
  while ((mi % 2) == 0 && e < 0) { mi /= 2; ++e; }
  std::ostringstream o;
  if (e >= 0) {
    if (e > 9) return "big";
    o << (mi * (1LL << e));  // (not mi << e: shifting a negative value is undefined before C++20); the generators keep |x| < 2^40
  } else {
    if (-e > 60) return "tiny";
    o << mi << "/" << (1LL << (-e));
  }
  return o.str();
}

static bool parse_val(const std::string& s, double& out) {
  if (s == "inf") { out = std::numeric_limits<double>::infinity(); return true; }
  if (s == "-inf") { out = -std::numeric_limits<double>::infinity(); return true; }
  size_t k = s.find('/');
  try {
    if (k == std::string::npos) { out = (double)std::stoll(s); return true; }
    long long p = std::stoll(s.substr(0, k)), q = std::stoll(s.substr(k + 1));
    out = (double)p / (double)q;  // exact: q is a power of two, p small
    return true;
  } catch (...) { return false; }
}

static std::vector<int> parse_simplex(const std::string& s) {
  std::vector<int> v;
  std::stringstream ss(s);
  std::string tok;
  while (std::getline(ss, tok, ',')) if (!tok.empty()) v.push_back(std::stoi(tok));
  return v;
}

struct Runner {
  virtual ~Runner() {}
  virtual std::string op(const std::vector<std::string>& w) = 0;
};

template <class Options>
struct RunnerT : Runner {
  typedef Simplex_tree<Options> ST;
  typedef typename ST::Filtration_value FV;
  typedef typename ST::Vertex_handle VH;
  ST st;
  typename ST::Extended_filtration_data efd;
  bool have_efd = false;

  std::vector<int> verts(typename ST::Simplex_handle sh) {
    std::vector<int> v;
    for (auto x : st.simplex_vertex_range(sh)) v.push_back((int)x);
    std::reverse(v.begin(), v.end());
    return v;
  }
  static std::string sstr(const std::vector<int>& v) {
    std::string s;
    for (size_t i = 0; i < v.size(); ++i) { if (i) s += ','; s += std::to_string(v[i]); }
    return s;
  }
  std::string dump() {
    std::vector<std::pair<std::vector<int>, double>> all;
    for (auto sh : st.complex_simplex_range()) all.emplace_back(verts(sh), (double)st.filtration(sh));
    std::sort(all.begin(), all.end(), [](auto const& a, auto const& b) { return a.first < b.first; });
    std::string s;
    for (auto& p : all) { s += sstr(p.first); s += ':'; s += fmt(p.second); s += ';'; }
    return s;
  }
  std::string range() {
    std::string s;
    for (auto sh : st.filtration_simplex_range()) { s += sstr(verts(sh)); s += ':'; s += fmt((double)st.filtration(sh)); s += ';'; }
    return s;
  }
  static const char* tname(Extended_simplex_type t) {
    return t == Extended_simplex_type::UP ? "UP" : t == Extended_simplex_type::DOWN ? "DOWN" : "EXTRA";
  }
  std::string op(const std::vector<std::string>& w) override {
    const std::string& o = w[0];
    std::string r;
    double x;
    if (o == "ins" && w.size() == 3 && parse_val(w[2], x)) {
      std::vector<int> s = parse_simplex(w[1]);
      std::vector<VH> sv(s.begin(), s.end());
      auto res = st.insert_simplex_and_subfaces(sv, (FV)x);
      st.clear_filtration();
      r = res.second ? "new" : "old";
    } else if (o == "set" && w.size() == 3 && parse_val(w[2], x)) {
      std::vector<int> s = parse_simplex(w[1]);
      std::vector<VH> sv(s.begin(), s.end());
      auto sh = st.find(sv);
      if (sh == st.null_simplex()) r = "absent";
      else { st.assign_filtration(sh, (FV)x); st.clear_filtration(); r = "ok"; }
    } else if (o == "range") {
      r = range();
    } else if (o == "init" && w.size() == 2) {
      st.initialize_filtration(w[1] == "1");
      r = range();
    } else if (o == "mfnd") {
      r = st.make_filtration_non_decreasing() ? "1" : "0";
    } else if (o == "prune" && w.size() == 2 && parse_val(w[1], x)) {
      r = st.prune_above_filtration((FV)x) ? "1" : "0";
    } else if (o == "extend") {
      efd = st.extend_filtration();
      have_efd = true;
      r = fmt((double)efd.minval) + " " + fmt((double)efd.maxval);
    } else if (o == "decodeall") {
      if (!have_efd) r = "noefd";
      else {
        std::vector<std::pair<std::vector<int>, std::string>> all;
        for (auto sh : st.complex_simplex_range()) {
          auto p = st.decode_extended_filtration(st.filtration(sh), efd);
          all.emplace_back(verts(sh), fmt((double)p.first) + ":" + tname(p.second));
        }
        std::sort(all.begin(), all.end());
        for (auto& p : all) { r += sstr(p.first); r += ':'; r += p.second; r += ';'; }
      }
    } else if (o == "decode" && w.size() == 4) {
      double f, mn, mx;
      if (!parse_val(w[1], f) || !parse_val(w[2], mn) || !parse_val(w[3], mx)) return "BADLINE";
      typename ST::Extended_filtration_data e((FV)mn, (FV)mx);
      auto p = st.decode_extended_filtration((FV)f, e);
      r = fmt((double)p.first) + ":" + tname(p.second);
      return r;
    } else {
      return "BADLINE";
    }
    return r + " # " + dump();
  }
};

int main() {
  vh::install();
  std::ios::sync_with_stdio(false);
  std::unique_ptr<Runner> run;
#ifdef GUDHI_USE_TBB
  std::unique_ptr<tbb::global_control> gc;
#endif
  std::string line;
  while (std::getline(std::cin, line)) {
    std::vector<std::string> w;
    { std::stringstream ss(line); std::string t; while (ss >> t) w.push_back(t); }
    if (w.empty()) { vh::emit("BADLINE"); continue; }
    std::string ans;
    try {
      if (w[0] == "G" && w.size() == 3) {
        int threads = std::stoi(w[2]);
#ifdef GUDHI_USE_TBB
        gc.reset();
        gc.reset(new tbb::global_control(tbb::global_control::max_allowed_parallelism, (size_t)std::max(1, threads)));
#endif
        (void)threads;
        const std::string& os = w[1];
        if (os == "def") run.reset(new RunnerT<Simplex_tree_options_default>());
        else if (os == "full") run.reset(new RunnerT<Simplex_tree_options_full_featured>());
        else if (os == "fast") run.reset(new RunnerT<Simplex_tree_options_fast_persistence>());
        else if (os == "stable") run.reset(new RunnerT<Opt_stable>());
        else if (os == "link") run.reset(new RunnerT<Opt_link_short_float>());
        else if (os == "nokey") run.reset(new RunnerT<Opt_nokey>());
        else if (os == "intv") run.reset(new RunnerT<Opt_int>());
        else { run.reset(); }
        ans = run ? "ok" : "nosuchoptions";
      } else if (!run) {
        ans = "NOGROUP";
      } else {
        ans = run->op(w);
      }
    } catch (std::exception const& e) {
      ans = std::string("EXC ") + e.what();
    } catch (...) {
      ans = "EXC";
    }
    vh::emit(ans);
  }
  vh::flush();
  return 0;
}
