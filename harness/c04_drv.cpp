// C04 harness: flag (clique) expansions of Simplex_tree<Options> by every route, Options chosen by -DOPTSET=k.
// stdin: "G" starts a case (fresh tree, answer "ok <optset name>"); then one operation per line:
//   graph x:w ... | u,v:w ...      insert_graph of a weighted graph with arbitrary int labels (own VertexAndEdgeListGraph)
//   exp d                          expansion(d)
//   blk d none|dimge m|val t|hash m r     expansion_with_blockers(d, deterministic blocker); the submitted simplices are logged
//   vtx x w d                      insert_edge_as_flag(x, x, w, d, added)        (linked option sets only)
//   edge u v w d                   insert_edge_as_flag(u, v, w, d, added)
//   mfnd                           make_filtration_non_decreasing()
//   chk d                          no operation, dump only
//   ripsp d thr | x,y,.. x,y,..    fresh tree; Rips_complex<Fv>(integer points, thr, squared Euclidean distance).create_complex(st, d)
//                                  (when #points + |d| is odd: Gudhi::compute_proximity_graph + insert_graph + expansion instead)
//   ripsm d thr | r1 ; r2 ; ...    fresh tree; Rips_complex<Fv>(lower triangular matrix, thr).create_complex(st, d)
// stdout: one line per input line:  "<ret> dim=<dimension()> ub=<upper_bound_dimension()> nv=<num_vertices()> n=<num_simplices()> S=<v,v:val;...>
//   [A=<v,v;...> added_simplices, sorted, with multiplicity] [B=<v,v:val;...> simplices submitted to the blocker, sorted]"
// simplices are printed with ascending vertices, lists sorted; values are exact integers (inputs are integers).
#include <algorithm>
#include <array>
#include <cmath>
#include <cstdint>
#include <map>
#include <sstream>
#include <string>
#include <vector>
#include <boost/iterator/counting_iterator.hpp>
#include <boost/graph/graph_traits.hpp>
#include "common.h"
#include <gudhi/Simplex_tree.h>
#include <gudhi/Rips_complex.h>
#include <gudhi/graph_simplicial_complex.h>

#ifndef OPTSET
#define OPTSET 0
#endif

// ---- a weighted graph with arbitrary integer vertex descriptors, model of boost::VertexAndEdgeListGraph ----
namespace vg {
struct Graph {
  std::vector<int> vs;
  std::map<int, double> vf;
  std::vector<std::array<int, 2>> es;
  std::vector<double> ef;
};
inline size_t num_vertices(const Graph& g) { return g.vs.size(); }
inline size_t num_edges(const Graph& g) { return g.es.size(); }
inline const std::vector<int>& vertices(const Graph& g) { return g.vs; }
inline std::pair<boost::counting_iterator<size_t>, boost::counting_iterator<size_t>> edges(const Graph& g) {
  return std::make_pair(boost::counting_iterator<size_t>(0), boost::counting_iterator<size_t>(g.es.size()));
}
inline int source(size_t e, const Graph& g) { return g.es[e][0]; }
inline int target(size_t e, const Graph& g) { return g.es[e][1]; }
inline double get(Gudhi::vertex_filtration_t, const Graph& g, int v) { return g.vf.at(v); }
inline double get(Gudhi::edge_filtration_t, const Graph& g, size_t e) { return g.ef[e]; }
}  // namespace vg
namespace boost {
template <> struct graph_traits<vg::Graph> {
  typedef int vertex_descriptor;
  typedef size_t edge_descriptor;
  typedef boost::counting_iterator<size_t> edge_iterator;
  typedef std::vector<int>::const_iterator vertex_iterator;
  typedef directed_tag directed_category;
  typedef allow_parallel_edge_tag edge_parallel_category;
  typedef size_t vertices_size_type;
  typedef size_t edges_size_type;
};
}  // namespace boost

using namespace Gudhi;
struct Opt_flat_linked : Simplex_tree_options_default {
  static const bool link_nodes_by_label = true;
  static const bool stable_simplex_handles = false;
};
struct Opt_stable_unlinked : Simplex_tree_options_default {
  static const bool link_nodes_by_label = false;
  static const bool stable_simplex_handles = true;
};
struct Opt_stable_linked_nokey : Simplex_tree_options_default {
  static const bool store_key = false;
  static const bool link_nodes_by_label = true;
  static const bool stable_simplex_handles = true;
};
struct Opt_contig_linked : Simplex_tree_options_default {
  static const bool contiguous_vertices = true;
  static const bool link_nodes_by_label = true;
  static const bool stable_simplex_handles = false;
};
#if OPTSET == 0
typedef Simplex_tree_options_default Opt; static const char* OPTNAME = "default";
#elif OPTSET == 1
typedef Simplex_tree_options_full_featured Opt; static const char* OPTNAME = "full_featured";
#elif OPTSET == 2
typedef Simplex_tree_options_minimal Opt; static const char* OPTNAME = "minimal";
#elif OPTSET == 3
typedef Simplex_tree_options_fast_persistence Opt; static const char* OPTNAME = "fast_persistence";
#elif OPTSET == 4
typedef Opt_flat_linked Opt; static const char* OPTNAME = "flat_linked";
#elif OPTSET == 5
typedef Opt_stable_unlinked Opt; static const char* OPTNAME = "stable_unlinked";
#elif OPTSET == 6
typedef Opt_stable_linked_nokey Opt; static const char* OPTNAME = "stable_linked_nokey";
#elif OPTSET == 7
typedef Opt_contig_linked Opt; static const char* OPTNAME = "contig_linked";
#endif
typedef Simplex_tree<Opt> ST;
typedef ST::Vertex_handle Vh;
typedef ST::Filtration_value Fv;
typedef ST::Simplex_handle Sh;

static std::string val(double v) {
  if (std::isinf(v)) return v > 0 ? "inf" : "-inf";
  if (std::isnan(v)) return "nan";
  if (v == std::floor(v) && std::fabs(v) < 9e15) return std::to_string((long long)v);
  char b[64];
  snprintf(b, sizeof b, "%a", v);
  return b;
}
typedef std::pair<std::vector<long long>, std::string> Item;
static std::string join(std::vector<Item>& v) {
  std::sort(v.begin(), v.end());
  std::string s;
  for (size_t i = 0; i < v.size(); i++) {
    if (i) s += ";";
    for (size_t j = 0; j < v[i].first.size(); j++) s += (j ? "," : "") + std::to_string(v[i].first[j]);
    if (!v[i].second.empty()) s += ":" + v[i].second;
  }
  return s.empty() ? "-" : s;
}
static std::vector<long long> verts(ST& st, Sh sh) {
  std::vector<long long> r;
  for (Vh v : st.simplex_vertex_range(sh)) r.push_back(v);
  std::sort(r.begin(), r.end());
  return r;
}
static std::string dump(ST& st) {
  std::vector<Item> all;
  for (Sh sh : st.complex_simplex_range()) all.emplace_back(verts(st, sh), val((double)st.filtration(sh)));
  std::string s = "dim=" + std::to_string(st.dimension()) + " ub=" + std::to_string(st.upper_bound_dimension()) +
                  " nv=" + std::to_string(st.num_vertices()) + " n=" + std::to_string(st.num_simplices()) + " S=" + join(all);
  return s;
}
static long long vhash(const std::vector<long long>& vs) {
  long long h = 7;
  for (long long v : vs) h = (h * 31 + (((v % 1000003) + 1000003) % 1000003)) % 1000003;
  return h;
}

int main() {
  vh::install();
  ST* st = new ST();
  std::string line;
  while (std::getline(std::cin, line)) {
    std::istringstream in(line);
    std::string op;
    in >> op;
    try {
      if (op == "G") {
        delete st;
        st = new ST();
        vh::emit(std::string("ok ") + OPTNAME);
      } else if (op == "graph") {
        vg::Graph g;
        std::string tok;
        bool edges = false;
        while (in >> tok) {
          if (tok == "|") { edges = true; continue; }
          size_t c = tok.find(':');
          double w = std::stod(tok.substr(c + 1));
          std::string a = tok.substr(0, c);
          if (!edges) {
            int x = std::stoi(a);
            g.vs.push_back(x);
            g.vf[x] = w;
          } else {
            size_t k = a.find(',');
            g.es.push_back({std::stoi(a.substr(0, k)), std::stoi(a.substr(k + 1))});
            g.ef.push_back(w);
          }
        }
        st->insert_graph(g);
        vh::emit("ok " + dump(*st));
      } else if (op == "exp") {
        int d;
        in >> d;
        st->expansion(d);
        vh::emit("ok " + dump(*st));
      } else if (op == "reexp") {
        // history-dependent route to the same result: expand, take every simplex of dimension >= 2 out again with
        // remove_maximal_simplex (top dimension first; the cached dimension bound is then stale), expand again
        int d;
        in >> d;
        st->expansion(d);
        for (int k = st->dimension(); k >= 2; --k) {
          std::vector<std::vector<typename ST::Vertex_handle>> top;
          for (auto sh : st->complex_simplex_range())
            if (st->dimension(sh) == k) { top.emplace_back(); for (auto v : st->simplex_vertex_range(sh)) top.back().push_back(v); }
          for (auto& s : top) st->remove_maximal_simplex(st->find(s));
        }
        st->expansion(d);
        vh::emit("ok " + dump(*st));
      } else if (op == "blk") {
        int d;
        std::string kind;
        long long p1 = 0, p2 = 0;
        in >> d >> kind;
        if (kind != "none") in >> p1;
        if (kind == "hash") in >> p2;
        std::vector<Item> log;
        ST& S = *st;
        auto blocker = [&](Sh sh) -> bool {
          std::vector<long long> vs = verts(S, sh);
          double f = (double)S.filtration(sh);
          log.emplace_back(vs, val(f));
          if (kind == "none") return false;
          if (kind == "dimge") return (long long)vs.size() - 1 >= p1;
          if (kind == "val") return f > (double)p1;
          if (kind == "hash") return vhash(vs) % p1 == p2;
          return false;
        };
        st->expansion_with_blockers(d, blocker);
        vh::emit("ok " + dump(*st) + " B=" + join(log));
      } else if (op == "vtx" || op == "edge") {
        if constexpr (Opt::link_nodes_by_label) {
          int u, v, d;
          double w;
          if (op == "vtx") { in >> u >> w >> d; v = u; } else { in >> u >> v >> w >> d; }
          std::vector<Sh> added;
          st->insert_edge_as_flag(u, v, (Fv)w, d, added);
          std::vector<Item> a;
          for (Sh sh : added) a.emplace_back(verts(*st, sh), "");
          vh::emit("ok " + dump(*st) + " A=" + join(a));
        } else {
          vh::emit("unsupported");
        }
      } else if (op == "mfnd") {
        if constexpr (Opt::store_filtration) {   // does not compile without stored filtration values
          bool r = st->make_filtration_non_decreasing();
          vh::emit(std::string(r ? "1 " : "0 ") + dump(*st));
        } else {
          vh::emit("unsupported");
        }
      } else if (op == "chk") {                  // plain dump (the oracle prints the specification of the accumulated graph here)
        vh::emit("ok " + dump(*st));
      } else if (op == "ripsp" || op == "ripsm") {
        int d;
        double thr;
        std::string bar;
        in >> d >> thr >> bar;
        delete st;
        st = new ST();
        std::string tok;
        if (op == "ripsp") {
          std::vector<std::vector<double>> pts;
          while (in >> tok) {
            std::vector<double> p;
            std::stringstream ss(tok);
            std::string c;
            while (std::getline(ss, c, ',')) p.push_back(std::stod(c));
            pts.push_back(p);
          }
          auto sq = [](const std::vector<double>& a, const std::vector<double>& b) {
            double s = 0;
            for (size_t i = 0; i < a.size(); i++) s += (a[i] - b[i]) * (a[i] - b[i]);
            return (Fv)s;
          };
          if ((pts.size() + (size_t)(d < 0 ? -d : d)) % 2 == 1) {
            // the same construction through the generic route of graph_simplicial_complex.h (as Cech_complex and the examples do):
            // compute_proximity_graph + insert_graph + expansion; which route a case takes is a function of the case
            auto g = Gudhi::compute_proximity_graph<ST>(pts, (Fv)thr, sq);
            st->insert_graph(g);
            st->expansion(d);
          } else {
            Gudhi::rips_complex::Rips_complex<Fv> rc(pts, (Fv)thr, sq);
            rc.create_complex(*st, d);
          }
        } else {
          std::vector<std::vector<Fv>> m(1);
          while (in >> tok) {
            if (tok == ";") { m.emplace_back(); continue; }
            m.back().push_back((Fv)std::stod(tok));
          }
          Gudhi::rips_complex::Rips_complex<Fv> rc(m, (Fv)thr);
          rc.create_complex(*st, d);
        }
        vh::emit("ok " + dump(*st));
      } else {
        vh::emit("?");
      }
    } catch (const std::invalid_argument&) {
      vh::emit("EXC invalid_argument " + dump(*st));
    } catch (const char*) {   // GUDHI_CHECK in a non-debug build of a tree without stored filtration values
      vh::emit("EXC cstr");
    } catch (const std::exception&) {
      vh::emit("EXC other");
    }
  }
  vh::flush();
  return 0;
}
