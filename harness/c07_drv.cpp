// C07 harness: drives Gudhi::zigzag_persistence::Zigzag_persistence, Filtered_zigzag_persistence and
// Filtered_zigzag_persistence_with_storage through their public API only, one whole zigzag sequence per input line,
// and prints the whole observable state after EVERY arrow.
//
// The column type of the internal chain matrix is fixed at compile time: -DC07_COL=<LIST|SET|VECTOR|NAIVE_VECTOR|
// SMALL_VECTOR|UNORDERED_SET|INTRUSIVE_LIST|INTRUSIVE_SET> (HEAP has no row access and is refused by the options).
//
// input: first line of a group is a header ("G ..."), answered "ok <column type>".  Every other line is one case:
//   <mode> <dimmax> <shortest> ; op ; op ; ...
//   mode  Z : Zigzag_persistence          (cell ids = arrow numbers; the harness keeps the map key -> arrow number and
//                                          hands the boundary over sorted by arrow number, as the API demands)
//         F : Filtered_zigzag_persistence (keys and filtration values as given)
//         S : Filtered_zigzag_persistence_with_storage(0, dimmax)
//   op    I key dim fv b1 b2 ...   insert_cell            (fv, keys: integers; boundary in the order given)
//         R key fv                 remove_cell
//         N                        apply_identity
// output: one line per case: segments " | "-separated, one per op:
//   Z:  <ret> s=<dim,b,d;...> o=<dim,b;...>         streamed during this op (in callback order) / open ones (sorted)
//   F:  <ret> s=<dim,fb,fd;...> o=<dim,fb;...>
//   S:  <ret> x=<dim,b,d;...> p=<dim,fb,fd;...> q=<dim,fb,fd;...> v=<value of every arrow index so far>
//       x = get_index_persistence_diagram() (sorted), p = get_persistence_diagram(0,true) (sorted, death "inf" for open),
//       q = get_persistence_diagram(shortest,false), v = get_filtration_value_from_index(i) for i = first stored..current
//   P:  (insertion-only sequences) one segment "bars=<dim,b,d|inf;...>": the barcode of the boundary matrix through
//       Gudhi::persistence_matrix::Matrix (RU flavour with column pairings, the object of property C05)
//   an exception inside an op gives the segment "EXC <what>" and ends the case.
#include <gudhi/zigzag_persistence.h>
#include <gudhi/filtered_zigzag_persistence.h>
#include <algorithm>
#include <cmath>
#include <map>
#include <sstream>
#include <string>
#include <tuple>
#include <vector>
#include "common.h"
#include <sys/resource.h>
#include <sys/time.h>

#ifndef C07_COL
#define C07_COL NAIVE_VECTOR
#endif
#define STR2(x) #x
#define STR(x) STR2(x)

struct ZOpt : Gudhi::zigzag_persistence::Default_zigzag_options {
  static const Gudhi::persistence_matrix::Column_types column_type = Gudhi::persistence_matrix::Column_types::C07_COL;
};
struct FOpt : Gudhi::zigzag_persistence::Default_filtered_zigzag_options {
  static const Gudhi::persistence_matrix::Column_types column_type = Gudhi::persistence_matrix::Column_types::C07_COL;
};
using ZP = Gudhi::zigzag_persistence::Zigzag_persistence<ZOpt>;
using FP = Gudhi::zigzag_persistence::Filtered_zigzag_persistence<FOpt>;
using SP = Gudhi::zigzag_persistence::Filtered_zigzag_persistence_with_storage<FOpt>;

struct POpt : Gudhi::persistence_matrix::Default_options<Gudhi::persistence_matrix::Column_types::C07_COL, true> {
  static const bool has_column_pairings = true;
};
using PM = Gudhi::persistence_matrix::Matrix<POpt>;

static std::string num(double x) {
  if (std::isinf(x)) return x > 0 ? "inf" : "-inf";
  if (std::isnan(x)) return "nan";
  if (x == std::floor(x) && std::fabs(x) < 9e15) return std::to_string((long long)x);
  char b[64];
  snprintf(b, sizeof b, "%a", x);
  return b;
}
template <class T>
static std::string join(std::vector<T> v, bool sorted) {
  if (sorted) std::sort(v.begin(), v.end());
  std::string s;
  for (size_t i = 0; i < v.size(); i++) {
    if (i) s += ";";
    s += v[i];
  }
  return s.empty() ? "-" : s;
}
struct Op {
  char k;
  long long key = 0;
  int dim = 0;
  double fv = 0;
  std::vector<long long> bd;
};
static bool parse_case(const std::string& line, char& mode, int& dimmax, double& shortest, std::vector<Op>& ops) {
  std::vector<std::string> parts;
  std::string cur;
  for (char c : line) {
    if (c == ';') { parts.push_back(cur); cur.clear(); }
    else if (c != '\n' && c != '\r') cur += c;
  }
  parts.push_back(cur);
  {
    std::istringstream is(parts[0]);
    std::string m;
    if (!(is >> m >> dimmax >> shortest)) return false;
    mode = m[0];
  }
  for (size_t i = 1; i < parts.size(); i++) {
    std::istringstream is(parts[i]);
    std::string k;
    if (!(is >> k)) continue;
    Op o;
    o.k = k[0];
    if (o.k == 'I') {
      if (!(is >> o.key >> o.dim >> o.fv)) return false;
      long long b;
      while (is >> b) o.bd.push_back(b);
    } else if (o.k == 'R') {
      if (!(is >> o.key >> o.fv)) return false;
    } else if (o.k != 'N') return false;
    ops.push_back(o);
  }
  return true;
}

static std::string run_Z(const std::vector<Op>& ops) {
  std::vector<std::string> streamed;
  ZP zp([&](int dim, int b, int d) { streamed.push_back(std::to_string(dim) + "," + std::to_string(b) + "," + std::to_string(d)); });
  std::map<long long, int> arrow_of;
  std::string out;
  for (size_t i = 0; i < ops.size(); i++) {
    const Op& o = ops[i];
    streamed.clear();
    if (i) out += " | ";
    try {
      int ret;
      if (o.k == 'I') {
        std::vector<int> bd;
        for (long long b : o.bd) bd.push_back(arrow_of.at(b));
        std::sort(bd.begin(), bd.end());
        ret = zp.insert_cell(bd, o.dim);
        arrow_of[o.key] = ret;
      } else if (o.k == 'R') {
        int a = arrow_of.at(o.key);
        ret = zp.remove_cell(a);
        arrow_of.erase(o.key);
      } else
        ret = zp.apply_identity();
      std::vector<std::string> open;
      zp.get_current_infinite_intervals([&](int dim, int b) { open.push_back(std::to_string(dim) + "," + std::to_string(b)); });
      out += std::to_string(ret) + " s=" + join(streamed, false) + " o=" + join(open, true);
    } catch (const std::exception& e) {
      out += std::string("EXC ") + e.what();
      break;
    }
  }
  return out;
}

static std::string run_F(const std::vector<Op>& ops) {
  std::vector<std::string> streamed;
  FP zp([&](int dim, double b, double d) { streamed.push_back(std::to_string(dim) + "," + num(b) + "," + num(d)); });
  std::string out;
  for (size_t i = 0; i < ops.size(); i++) {
    const Op& o = ops[i];
    streamed.clear();
    if (i) out += " | ";
    try {
      int ret;
      if (o.k == 'I') {
        std::vector<int> bd(o.bd.begin(), o.bd.end());
        ret = zp.insert_cell((int)o.key, bd, o.dim, o.fv);
      } else if (o.k == 'R')
        ret = zp.remove_cell((int)o.key, o.fv);
      else
        ret = zp.apply_identity();
      std::vector<std::string> open;
      zp.get_current_infinite_intervals([&](int dim, double b) { open.push_back(std::to_string(dim) + "," + num(b)); });
      out += std::to_string(ret) + " s=" + join(streamed, false) + " o=" + join(open, true);
    } catch (const std::exception& e) {
      out += std::string("EXC ") + e.what();
      break;
    }
  }
  return out;
}

static std::string run_S(const std::vector<Op>& ops, int dimmax, double shortest) {
  SP zp(0, dimmax);
  std::string out;
  int first_stored = -1;
  for (size_t i = 0; i < ops.size(); i++) {
    const Op& o = ops[i];
    if (i) out += " | ";
    try {
      int ret;
      if (o.k == 'I') {
        std::vector<int> bd(o.bd.begin(), o.bd.end());
        ret = zp.insert_cell((int)o.key, bd, o.dim, o.fv);
        if (first_stored < 0 && !(dimmax != -1 && o.dim > dimmax)) first_stored = ret;
      } else if (o.k == 'R') {
        size_t before = zp.get_index_persistence_diagram().size();
        (void)before;
        ret = zp.remove_cell((int)o.key, o.fv);
        // a removal of a cell that was skipped at insertion is an identity: it stores no value.  The harness cannot
        // see that through the API, so the first stored index is only taken from insertions (a cell must be inserted first).
      } else
        ret = zp.apply_identity();
      std::vector<std::string> x, p, q, v;
      for (const auto& b : zp.get_index_persistence_diagram())
        x.push_back(std::to_string(b.dim) + "," + std::to_string(b.birth) + "," + std::to_string(b.death));
      for (const auto& b : zp.get_persistence_diagram(0., true)) p.push_back(std::to_string(b.dim) + "," + num(b.birth) + "," + num(b.death));
      for (const auto& b : zp.get_persistence_diagram(shortest, false))
        q.push_back(std::to_string(b.dim) + "," + num(b.birth) + "," + num(b.death));
      if (first_stored >= 0)
        for (int k = first_stored; k <= ret; k++) v.push_back(num(zp.get_filtration_value_from_index(k)));
      out += std::to_string(ret) + " x=" + join(x, true) + " p=" + join(p, true) + " q=" + join(q, true) + " v=" + join(v, false);
    } catch (const std::exception& e) {
      out += std::string("EXC ") + e.what();
      break;
    }
  }
  return out;
}

static std::string run_P(const std::vector<Op>& ops) {
  PM m;
  std::map<long long, unsigned> pos_of;
  unsigned n = 0;
  for (const Op& o : ops) {
    if (o.k != 'I') return "NOT-INSERTION-ONLY";
    std::vector<unsigned> bd;
    for (long long b : o.bd) bd.push_back(pos_of.at(b));
    std::sort(bd.begin(), bd.end());
    m.insert_boundary(bd, o.dim);
    pos_of[o.key] = n++;
  }
  std::vector<std::string> bars;
  for (const auto& b : m.get_current_barcode())
    bars.push_back(std::to_string(b.dim) + "," + std::to_string((long)b.birth) + "," +
                   (b.death == PM::template get_null_value<typename PM::Pos_index>() ? std::string("inf") : std::to_string((long)b.death)));
  return "bars=" + join(bars, true);
}

int main() {
  vh::install();
  {  // a runaway loop of a broken implementation must not take the machine down: 3 GB of address space, 120 s of CPU
    struct rlimit rl;
    rl.rlim_cur = rl.rlim_max = (rlim_t)3 << 30;
    setrlimit(RLIMIT_AS, &rl);
    rl.rlim_cur = 60; rl.rlim_max = 65;
    setrlimit(RLIMIT_CPU, &rl);
    signal(SIGXCPU, vh::on_crash);
    signal(SIGVTALRM, vh::on_crash);  // per-case watchdog on the process' own CPU time (a loaded machine must not trip it):
                                      // a case takes microseconds, 20 s of CPU means a runaway loop
  }
  std::string line;
  static char buf[1 << 20];
  while (fgets(buf, sizeof buf, stdin)) {
    line = buf;
    if (line.size() && line[0] == 'G') { vh::emit(std::string("ok ") + STR(C07_COL)); continue; }
    char mode = '?';
    int dimmax = -1;
    double shortest = 0;
    std::vector<Op> ops;
    if (!parse_case(line, mode, dimmax, shortest, ops)) { vh::emit("BADLINE"); continue; }
    // the answer of a crashing case must identify the case: flush what precedes, so that the CRASH line is its answer
    vh::flush();
    { struct itimerval tv = {{0, 0}, {20, 0}}; setitimer(ITIMER_VIRTUAL, &tv, nullptr); }
    std::string r;
    try {
      if (mode == 'Z') r = run_Z(ops);
      else if (mode == 'F') r = run_F(ops);
      else if (mode == 'S') r = run_S(ops, dimmax, shortest);
      else if (mode == 'P') r = run_P(ops);
      else r = "BADMODE";
    } catch (const std::exception& e) {
      r = std::string("EXC-OUTER ") + e.what();
    }
    { struct itimerval tv = {{0, 0}, {0, 0}}; setitimer(ITIMER_VIRTUAL, &tv, nullptr); }
    vh::emit(r);
  }
  vh::flush();
  return 0;
}
