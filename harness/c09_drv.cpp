// C09 harness: general-purpose (base) matrices of Gudhi::persistence_matrix::Matrix<Options>, observed only through
// the public API.  One binary per option set, selected by -D macros:
//   COLT (Column_types enumerator), Z2 (0/1), ROWS, INTR_ROWS, REM_ROWS, MAPC, SWAPS, COMPR
// stdin: groups.  First line of a group:
//   NEW <colt> <z2> <rows> <intr> <remrows> <mapc> <swaps> <compr> <p> <NR> <B> <mode>
//     p = characteristic, NR = number of rows observed, B = number of column indices observed,
//     mode 0: Matrix() + set_characteristic(p);  mode k>0: Matrix(k, p)
// then one operation per line; every input line is answered by exactly ONE output line: status and full dump.
//   IC r:v ...        insert_column(range)
//   IA idx r:v ...    insert_column(range, idx)
//   RC idx            remove_column(idx)           RL   remove_last()
//   ADD s t           add_to(s, t)                 ADDR s t      add_to(get_column(s) as entry range, t)
//   MTA s c t         multiply_target_and_add_to(s, c, t)        MTAR s c t  (entry range form)
//   MSA c s t         multiply_source_and_add_to(c, s, t)        MSAR c s t  (entry range form)
//   ZE c r            zero_entry(c, r)             ZC c  zero_column(c)
//   SR a b            swap_rows(a, b)              SC a b  swap_columns(a, b)
//   NOP               (dump only)
//   Q <op>            the operation without dump (the answer is the status only): mutations without reads in between
// Answer: "<status> N=<get_number_of_columns> C<j>=<content>/<is_zero_column>/<is_zero_entry bits> ... R<r>=col:val,..."
//   status: OK | SKIP (operation not available for the option set or outside the documented preconditions; nothing
//   was called) | EXC (std::exception thrown by the call).
#include <iostream>
#include <sstream>
#include <string>
#include <vector>
#include <set>
#include <algorithm>
#include <memory>
#include "common.h"
#include <gudhi/Matrix.h>
#include <gudhi/persistence_matrix_options.h>
#include <gudhi/Fields/Zp_field_operators.h>

using namespace Gudhi::persistence_matrix;

#ifndef COLT
#define COLT INTRUSIVE_SET
#endif
#ifndef Z2
#define Z2 0
#endif
#ifndef ROWS
#define ROWS 0
#endif
#ifndef INTR_ROWS
#define INTR_ROWS 1
#endif
#ifndef REM_ROWS
#define REM_ROWS 0
#endif
#ifndef MAPC
#define MAPC 0
#endif
#ifndef SWAPS
#define SWAPS 0
#endif
#ifndef COMPR
#define COMPR 0
#endif

struct Opt : Default_options<Column_types::COLT, Z2 != 0, Gudhi::persistence_fields::Zp_field_operators<> > {
  static const bool has_column_compression = COMPR;
  static const bool has_column_and_row_swaps = SWAPS;
  static const bool has_map_column_container = MAPC;
  static const bool has_removable_columns = MAPC;
  static const bool has_row_access = ROWS;
  static const bool has_intrusive_rows = INTR_ROWS;
  static const bool has_removable_rows = REM_ROWS;
};
using M = Matrix<Opt>;
using Col = typename M::Column;

struct State {
  std::unique_ptr<M> m;
  unsigned p = 2, NR = 0, B = 0;
  std::vector<char> known;  // rows the matrix has been told about (see the notes on swap dictionaries)
  unsigned rowsSized = 0;   // rows [0, rowsSized) exist in a non-removable row container
};

static bool row_known(const State& s, unsigned r) { return r < s.known.size() && s.known[r]; }

static void learn_rows(State& s, const std::vector<std::pair<unsigned, unsigned> >& e) {
  if (e.empty()) return;
  unsigned piv = e.back().first;
  if (s.known.size() <= piv) s.known.resize(piv + 1, 0);
  if (MAPC) {
    for (auto& x : e) s.known[x.first] = 1;
  } else {
    for (unsigned i = 0; i <= piv; ++i) s.known[i] = 1;
  }
  s.rowsSized = std::max(s.rowsSized, piv + 1);
}

static std::vector<std::pair<unsigned, unsigned> > parse_entries(std::istringstream& is) {
  std::vector<std::pair<unsigned, unsigned> > b;
  std::string t;
  while (is >> t) {
    size_t c = t.find(':');
    b.push_back({(unsigned)std::stoul(t.substr(0, c)), (unsigned)std::stoul(t.substr(c + 1))});
  }
  return b;
}

#if Z2
static std::vector<unsigned> to_range(const std::vector<std::pair<unsigned, unsigned> >& e) {
  std::vector<unsigned> r;
  for (auto& x : e) r.push_back(x.first);
  return r;
}
#else
static std::vector<std::pair<unsigned, typename M::Element> > to_range(const std::vector<std::pair<unsigned, unsigned> >& e) {
  std::vector<std::pair<unsigned, typename M::Element> > r;
  for (auto& x : e) r.push_back({x.first, (typename M::Element)x.second});
  return r;
}
#endif

// is column index j designated by the API right now?  vector container: j < get_number_of_columns() (anything else is
// an out-of-bounds access); map container: decided by the implementation (std::out_of_range from `at`).
static bool col_in_range(State& s, unsigned j) {
  if (MAPC && !COMPR) return true;
  return j < s.m->get_number_of_columns();
}

template <class MM>
static void dump_rows(MM& m, State& s, std::ostringstream& os) {
  if constexpr (MM::Option_list::has_row_access) {
    for (unsigned r = 0; r < s.NR; ++r) {
      os << " R" << r << "=";
      if (!MM::Option_list::has_removable_rows && r >= s.rowsSized) { continue; }
      try {
        const auto& row = m.get_row(r);
        std::vector<std::pair<unsigned, unsigned> > es;
        bool bad = false;
        for (const auto& e : row) {
          unsigned val = 1;
          if constexpr (!MM::Option_list::is_z2) val = (unsigned)e.get_element();
          unsigned cidx = (unsigned)e.get_column_index();
          if constexpr (MM::Option_list::has_column_compression) {
            // the entry belongs to the stored column of a class of identical columns: report the smallest index whose
            // content equals the content at the index the entry carries
            unsigned n = m.get_number_of_columns();
            if (cidx < n) {
              auto ref = m.get_column(cidx).get_content((int)s.NR);
              for (unsigned j = 0; j < n; ++j) if (m.get_column(j).get_content((int)s.NR) == ref) { cidx = j; break; }
            }
          }
          es.push_back(std::make_pair(cidx, val));
          if (e.get_row_index() != r) bad = true;
        }
        std::sort(es.begin(), es.end());
        for (size_t i = 0; i < es.size(); ++i) os << (i ? "," : "") << es[i].first << ":" << es[i].second;
        if (bad) os << "!rowindex";
      } catch (const std::out_of_range&) {}
    }
  }
}

// would the entry range get_column(a) be the very column object that add_to(range, t) modifies?  (an entry range
// aliasing its target is outside the preconditions of the range forms; std::out_of_range propagates to the caller)
static bool aliased(State& s, unsigned a, unsigned t) {
  const Col* pa = &static_cast<const Col&>(s.m->get_column(a));
  const Col* pt = &static_cast<const Col&>(s.m->get_column(t));
  return pa == pt;
}

static std::string dump(State& s) {
  M& m = *s.m;
  std::ostringstream os;
  os << "N=" << m.get_number_of_columns();
  for (unsigned j = 0; j < s.B; ++j) {
    os << " C" << j << "=";
    if (!col_in_range(s, j)) { os << "A"; continue; }
    try {
      const Col& c = m.get_column(j);
      // the default-length read first (it relies on the stored pivot, before any other read can tidy the column up);
      // it must be the explicit-length content cut after the last non-zero entry
      auto dflt = c.get_content();
      auto v = c.get_content((int)s.NR);
      bool dflt_ok = dflt.size() <= v.size();
      for (size_t i = 0; dflt_ok && i < v.size(); ++i) dflt_ok = (i < dflt.size()) ? (dflt[i] == v[i]) : (v[i] == 0);
      for (size_t i = 0; i < v.size(); ++i) os << (i ? "," : "") << (unsigned)v[i];
      if (!dflt_ok) os << "!default-length-get_content-differs";
      os << "/" << (m.is_zero_column(j) ? 1 : 0) << "/";
      for (unsigned r = 0; r < s.NR; ++r) {
        os << (m.is_zero_entry(j, r) ? 1 : 0);
      }
    } catch (const std::out_of_range&) { os << "A"; }
  }
  dump_rows(m, s, os);
  return os.str();
}

int main() {
  vh::install();
  std::string line;
  State s;
  while (std::getline(std::cin, line)) {
    if (line.empty()) continue;
    bool quiet = false;   // "Q <op>": the operation is answered by its status only, the state is not read
    if (line.rfind("Q ", 0) == 0) { quiet = true; line = line.substr(2); }
    std::istringstream is(line);
    std::string w; is >> w;
    std::string status = "OK";
    try {
      if (w == "NEW") {
        std::string colt; int z2, rows, intr, remrows, mapc, swaps, compr; unsigned p, nr, b, mode;
        is >> colt >> z2 >> rows >> intr >> remrows >> mapc >> swaps >> compr >> p >> nr >> b >> mode;
        if (z2 != Z2 || rows != ROWS || (rows && (intr != INTR_ROWS || remrows != REM_ROWS)) || mapc != MAPC || swaps != SWAPS || compr != COMPR) {
          vh::emit("BADOPTIONS"); continue;
        }
        s = State(); s.p = p; s.NR = nr; s.B = b;
        if (mode == 0) { s.m.reset(new M()); s.m->set_characteristic(p); }
        else {
          s.m.reset(new M(mode, p));
          // the swap dictionaries and a non-removable row container are initialised for `mode` rows
          s.known.assign(mode, 1);
          s.rowsSized = mode;
        }
        vh::emit("OK " + dump(s));
        continue;
      }
      if (!s.m) { vh::emit("NOMATRIX"); continue; }
      M& m = *s.m;
      if (w == "IC") {
        auto e = parse_entries(is);
        m.insert_column(to_range(e));
        learn_rows(s, e);
      } else if (w == "IA") {
        unsigned idx; is >> idx;
        auto e = parse_entries(is);
        if constexpr (!Opt::has_row_access && !Opt::has_column_compression) {
          bool free_slot;
          if (MAPC) { try { m.get_column(idx); free_slot = false; } catch (const std::out_of_range&) { free_slot = true; } }
          else free_slot = idx >= m.get_number_of_columns();
          if (free_slot) { m.insert_column(to_range(e), idx); learn_rows(s, e); } else status = "SKIP";
        } else status = "SKIP";
      } else if (w == "RC") {
        unsigned idx; is >> idx;
        if constexpr (Opt::has_map_column_container && !Opt::has_column_compression) m.remove_column(idx);
        else status = "SKIP";
      } else if (w == "RL") {
        if constexpr (!Opt::has_column_compression) m.remove_last(); else status = "SKIP";
      } else if (w == "ADD" || w == "ADDR") {
        unsigned a, t; is >> a >> t;
        if (!col_in_range(s, a) || !col_in_range(s, t)) status = "SKIP";
        else if (w == "ADDR" && aliased(s, a, t)) status = "SKIP";
        else if (w == "ADD") m.add_to(a, t);
        else m.add_to(static_cast<const Col&>(m.get_column(a)), t);
      } else if (w == "MTA" || w == "MTAR") {
        unsigned a, t; int c; is >> a >> c >> t;
        if (!col_in_range(s, a) || !col_in_range(s, t)) status = "SKIP";
        else if (w == "MTAR" && aliased(s, a, t)) status = "SKIP";
        else if (w == "MTA") m.multiply_target_and_add_to(a, c, t);
        else m.multiply_target_and_add_to(static_cast<const Col&>(m.get_column(a)), c, t);
      } else if (w == "MSA" || w == "MSAR") {
        unsigned a, t; int c; is >> c >> a >> t;
        if (!col_in_range(s, a) || !col_in_range(s, t)) status = "SKIP";
        else if (w == "MSAR" && aliased(s, a, t)) status = "SKIP";
        else if (w == "MSA") m.multiply_source_and_add_to(c, a, t);
        else m.multiply_source_and_add_to(c, static_cast<const Col&>(m.get_column(a)), t);
      } else if (w == "ZE") {
        unsigned c, r; is >> c >> r;
        if constexpr (!Opt::has_column_compression) {
          if (!col_in_range(s, c)) status = "SKIP"; else m.zero_entry(c, r);
        } else status = "SKIP";
      } else if (w == "ZC") {
        unsigned c; is >> c;
        if constexpr (!Opt::has_column_compression) {
          if (!col_in_range(s, c)) status = "SKIP"; else m.zero_column(c);
        } else status = "SKIP";
      } else if (w == "SR") {
        unsigned a, b; is >> a >> b;
        if constexpr (Opt::has_column_and_row_swaps && !Opt::has_column_compression) {
          m.swap_rows(a, b);
        } else status = "SKIP";
      } else if (w == "SC") {
        unsigned a, b; is >> a >> b;
        if constexpr (Opt::has_column_and_row_swaps && !Opt::has_column_compression) {
          if (!col_in_range(s, a) || !col_in_range(s, b)) status = "SKIP"; else m.swap_columns(a, b);
        } else status = "SKIP";
      } else if (w == "NOP") {
      } else { vh::emit("BADCMD"); continue; }
    } catch (const std::exception& e) {
      status = "EXC";
    }
    if (quiet) { vh::emit(status); continue; }
    try {
      vh::emit(status + " " + dump(s));
    } catch (const std::exception& e) {
      vh::emit(status + " DUMPEXC " + e.what());
    }
  }
  vh::flush();
  return 0;
}
