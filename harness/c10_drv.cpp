// C10 harness: drives every public arithmetic entry point of the 13 coefficient classes.
// stdin:  "G <class> <cfg...>" selects a class/characteristic, then one operation per line.
// stdout: one result line per operation line (and one for each G line: "ok" or "refused").
#include <iostream>
#include <cassert>
#include <sstream>
#include <string>
#include <vector>
#include <functional>
#include <memory>
#include <gmpxx.h>
#include "common.h"
#include <gudhi/Fields/Z2_field.h>
#include <gudhi/Fields/Z2_field_operators.h>
#include <gudhi/Fields/Zp_field.h>
#include <gudhi/Fields/Zp_field_shared.h>
#include <gudhi/Fields/Zp_field_operators.h>
#include <gudhi/Fields/Multi_field.h>
#include <gudhi/Fields/Multi_field_shared.h>
#include <gudhi/Fields/Multi_field_operators.h>
#include <gudhi/Fields/Multi_field_small.h>
#include <gudhi/Fields/Multi_field_small_shared.h>
#include <gudhi/Fields/Multi_field_small_operators.h>
#include <gudhi/Persistent_cohomology/Field_Zp.h>
#include <gudhi/Persistent_cohomology/Multi_field.h>

using namespace Gudhi::persistence_fields;
typedef mpz_class Z;
typedef std::vector<Z> Args;
typedef std::function<std::string(const std::string&, const Args&)> Runner;

static std::string str(const Z& z) { return z.get_str(); }
static std::string str(unsigned int u) { return std::to_string(u); }
static std::string str(unsigned long u) { return std::to_string(u); }
static std::string str(int u) { return std::to_string(u); }
static std::string str(long u) { return std::to_string(u); }
static std::string str(bool b) { return b ? "1" : "0"; }

template <class T> T conv(const Z& z);
template <> unsigned int conv<unsigned int>(const Z& z) { return (unsigned int)z.get_ui(); }
template <> unsigned long conv<unsigned long>(const Z& z) { return z.get_ui(); }
template <> int conv<int>(const Z& z) { return (int)z.get_si(); }
template <> long conv<long>(const Z& z) { return z.get_si(); }
template <> short conv<short>(const Z& z) { return (short)z.get_si(); }
template <> Z conv<Z>(const Z& z) { return z; }

// ---- operator classes (stateless operations on raw elements) -------------------------------------
template <class Ops, class E, bool HasSigned>
Runner ops_runner(std::shared_ptr<Ops> ops) {
  return [ops](const std::string& op, const Args& a) -> std::string {
    auto e = [&](int i) { return conv<E>(a[i]); };
    if (op == "val") return str(ops->get_value(e(0)));
    if constexpr (HasSigned) {
      if (op == "val_i") return str(ops->get_value(conv<int>(a[0])));
      if (op == "val_l") return str(ops->get_value(conv<long>(a[0])));
    }
    if (op == "add") { E x = e(0); E r = ops->add(e(0), e(1)); ops->add_inplace(x, e(1)); if (!(x == r)) return "INCONSISTENT"; return str(r); }
    if (op == "sub") { E x = e(0), y = e(1); E r = ops->subtract(e(0), e(1)); ops->subtract_inplace_front(x, e(1)); ops->subtract_inplace_back(e(0), y);
                       if (!(x == r) || !(y == r)) return "INCONSISTENT"; return str(r); }
    if (op == "mul") { E x = e(0); E r = ops->multiply(e(0), e(1)); ops->multiply_inplace(x, e(1)); if (!(x == r)) return "INCONSISTENT"; return str(r); }
    if (op == "mad") { E x = e(0), y = e(2); E r = ops->multiply_and_add(e(0), e(1), e(2)); ops->multiply_and_add_inplace_front(x, e(1), e(2));
                       ops->multiply_and_add_inplace_back(e(0), e(1), y); if (!(x == r) || !(y == r)) return "INCONSISTENT"; return str(r); }
    if (op == "aam") { E x = e(0), y = e(2); E r = ops->add_and_multiply(e(0), e(1), e(2)); ops->add_and_multiply_inplace_front(x, e(1), e(2));
                       ops->add_and_multiply_inplace_back(e(0), e(1), y); if (!(x == r) || !(y == r)) return "INCONSISTENT"; return str(r); }
    if (op == "eq") return str(ops->are_equal(e(0), e(1)));
    if (op == "inv") return str(ops->get_inverse(e(0)));
    if (op == "pinv") { auto r = ops->get_partial_inverse(e(0), e(1)); return str(r.first) + " " + str(r.second); }
    if (op == "pmid") return str(ops->get_partial_multiplicative_identity(e(0)));
    if (op == "ids") return str(ops->get_additive_identity()) + " " + str(ops->get_multiplicative_identity()) + " " + str(ops->get_characteristic());
    return "UNSUPPORTED";
  };
}

// Z2 operators: static, template integer arguments
static Runner z2ops_runner() {
  return [](const std::string& op, const Args& a) -> std::string {
    typedef Z2_field_operators O;
    auto e = [&](int i) { return conv<unsigned int>(a[i]); };
    if (op == "val" || op == "val_u") return str(O::get_value(e(0)));
    if (op == "val_ul") return str(O::get_value(conv<unsigned long>(a[0])));
    if (op == "val_i") return str(O::get_value(conv<int>(a[0])));
    if (op == "val_l") return str(O::get_value(conv<long>(a[0])));
    if (op == "add") { unsigned x = e(0); auto r = O::add(e(0), e(1)); O::add_inplace(x, e(1)); if (x != (unsigned)r) return "INCONSISTENT"; return str(r); }
    if (op == "sub") { unsigned x = e(0), y = e(1); auto r = O::subtract(e(0), e(1)); O::subtract_inplace_front(x, e(1)); O::subtract_inplace_back(e(0), y);
                       if (x != (unsigned)r || y != (unsigned)r) return "INCONSISTENT"; return str(r); }
    if (op == "mul") { unsigned x = e(0); auto r = O::multiply(e(0), e(1)); O::multiply_inplace(x, e(1)); if (x != (unsigned)r) return "INCONSISTENT"; return str(r); }
    if (op == "mad") { unsigned x = e(0), y = e(2); auto r = O::multiply_and_add(e(0), e(1), e(2)); O::multiply_and_add_inplace_front(x, e(1), e(2));
                       O::multiply_and_add_inplace_back(e(0), e(1), y); if (x != (unsigned)r || y != (unsigned)r) return "INCONSISTENT"; return str(r); }
    if (op == "aam") { unsigned x = e(0), y = e(2); auto r = O::add_and_multiply(e(0), e(1), e(2)); O::add_and_multiply_inplace_front(x, e(1), e(2));
                       unsigned e0 = e(0); O::add_and_multiply_inplace_back(e0, e(1), y); if (x != (unsigned)r || y != (unsigned)r) return "INCONSISTENT"; return str(r); }
    if (op == "eq") return str(O::are_equal(e(0), e(1)));
    if (op == "inv") return str(O::get_inverse(e(0)));
    if (op == "pinv") { auto r = O::get_partial_inverse(e(0), e(1)); return str(r.first) + " " + str(r.second); }
    if (op == "pmid") return str(O::get_partial_multiplicative_identity(e(0)));
    if (op == "ids") return str(O::get_additive_identity()) + " " + str(O::get_multiplicative_identity()) + " " + str(O::get_characteristic());
    return "UNSUPPORTED";
  };
}

// ---- element classes (values with overloaded operators) ------------------------------------------
template <class F> std::string fval(const F& f) { return str(f.get_value()); }
template <class F, class I> std::string el_mixed(const std::string& op, const Args& a) {
  // a[0] element value, a[1] machine integer
  F f(conv<I>(a[0]));  // also exercises the converting constructor
  I v = conv<I>(a[1]);
  if (op == "addi") { F g = f; g += v; F r = f + v; if (!(g == r)) return "INCONSISTENT"; return fval(r); }
  if (op == "iadd") { return str(v + f); }
  if (op == "subi") { F g = f; g -= v; F r = f - v; if (!(g == r)) return "INCONSISTENT"; return fval(r); }
  if (op == "isub") { return str(v - f); }
  if (op == "muli") { F g = f; g *= v; F r = f * v; if (!(g == r)) return "INCONSISTENT"; return fval(r); }
  if (op == "imul") { return str(v * f); }
  if (op == "eqi") { bool r = (f == v); if ((v == f) != r || (f != v) == r || (v != f) == r) return "INCONSISTENT"; return str(r); }
  if (op == "assigni") { F g; g = v; return fval(g); }
  return "UNSUPPORTED";
}

template <class F, class E, class Q, bool Machine>
Runner el_runner() {
  return [](const std::string& op, const Args& a) -> std::string {
    auto e = [&](int i) { return F(conv<E>(a[i])); };
    if (op == "val") return fval(e(0));
    if constexpr (Machine) {
      if (op == "val_i") return fval(F(conv<int>(a[0])));
      if (op == "val_l") return fval(F(conv<long>(a[0])));
      if (op == "val_u") return fval(F(conv<unsigned int>(a[0])));
      if (op == "val_ul") return fval(F(conv<unsigned long>(a[0])));
      if (op.size() > 2 && op.substr(op.size() - 2) == "_i") return el_mixed<F, int>(op.substr(0, op.size() - 2), a);
      if (op.size() > 2 && op.substr(op.size() - 2) == "_l") return el_mixed<F, long>(op.substr(0, op.size() - 2), a);
      if (op.size() > 2 && op.substr(op.size() - 2) == "_u") return el_mixed<F, unsigned int>(op.substr(0, op.size() - 2), a);
    } else {
      if (op.size() > 2 && op.substr(op.size() - 2) == "_z") return el_mixed<F, Z>(op.substr(0, op.size() - 2), a);
    }
    if (op == "add") { F x = e(0); x += e(1); F r = e(0) + e(1); if (!(x == r)) return "INCONSISTENT"; return fval(r); }
    if (op == "sub") { F x = e(0); x -= e(1); F r = e(0) - e(1); if (!(x == r)) return "INCONSISTENT"; return fval(r); }
    if (op == "mul") { F x = e(0); x *= e(1); F r = e(0) * e(1); if (!(x == r)) return "INCONSISTENT"; return fval(r); }
    if (op == "mad") { F r = e(0) * e(1) + e(2); return fval(r); }
    if (op == "aam") { F r = (e(0) + e(1)) * e(2); return fval(r); }
    if (op == "eq") { bool r = (e(0) == e(1)); if ((e(0) != e(1)) == r) return "INCONSISTENT"; return str(r); }
    if (op == "inv") return fval(e(0).get_inverse());
    if (op == "pinv") { auto r = e(0).get_partial_inverse(conv<Q>(a[1])); return fval(r.first) + " " + str(r.second); }
    if (op == "pmid") return fval(F::get_partial_multiplicative_identity(conv<Q>(a[0])));
    if (op == "ids") return fval(F::get_additive_identity()) + " " + fval(F::get_multiplicative_identity()) + " " + str(F::get_characteristic());
    if (op == "move") { F x = e(0); F y(std::move(x)); F z; z = y; F w; swap(w, z); return fval(w) + " " + fval(y); }
    return "UNSUPPORTED";
  };
}

// ---- cohomology engine coefficient classes -------------------------------------------------------
static Runner cohzp_runner(std::shared_ptr<Gudhi::persistent_cohomology::Field_Zp> f) {
  return [f](const std::string& op, const Args& a) -> std::string {
    auto e = [&](int i) { return conv<int>(a[i]); };
    if (op == "pte") return str(f->plus_times_equal(e(0), e(1), e(2)));   // x + w*y  with args x y w
    if (op == "times") return str(f->times(e(0), e(1)));
    if (op == "plus") return str(f->plus_equal(e(0), e(1)));
    if (op == "tm") return str(f->times_minus(e(0), e(1)));
    if (op == "inv") { auto r = f->inverse(e(0), e(1)); return str(r.first) + " " + str(r.second); }
    if (op == "ids") return str(f->additive_identity()) + " " + str(f->multiplicative_identity()) + " " + str(f->characteristic());
    return "UNSUPPORTED";
  };
}
static Runner cohmf_runner(std::shared_ptr<Gudhi::persistent_cohomology::Multi_field> f) {
  return [f](const std::string& op, const Args& a) -> std::string {
    if (op == "pte") return str(f->plus_times_equal(a[0], a[1], a[2]));
    if (op == "times") return str(f->times(a[0], a[1]));
    if (op == "plus") return str(f->plus_equal(a[0], a[1]));
    if (op == "tm") return str(f->times_minus(a[0], a[1]));
    if (op == "inv") { auto r = f->inverse(a[0], a[1]); return str(r.first) + " " + str(r.second); }
    if (op == "pmid") return str(f->multiplicative_identity(a[0]));
    if (op == "ids") return str(f->additive_identity()) + " " + str(f->multiplicative_identity()) + " " + str(f->characteristic());
    return "UNSUPPORTED";
  };
}

// ---- compile-time instantiations -----------------------------------------------------------------
#define ZPEL_LIST X(2) X(3) X(5) X(7) X(13) X(31) X(257) X(65521)
#define MFEL_LIST X(2, 3) X(2, 5) X(3, 7) X(5, 5) X(2, 13) X(5, 13) X(2, 31)
#define MFSEL_LIST X(2, 3) X(2, 5) X(3, 7) X(5, 5) X(2, 13) X(5, 13) X(2, 17) X(2, 19) X(65519, 65521)

static Runner select(const std::string& cls, const std::vector<long>& cfg, std::string& status) {
  status = "ok";
  if (cls == "zpops") { auto o = std::make_shared<Zp_field_operators<> >(); o->set_characteristic(cfg[0]);
    return ops_runner<Zp_field_operators<>, unsigned int, true>(o); }
  if (cls == "z2ops") return z2ops_runner();
  if (cls == "z2el") return el_runner<Z2_field_element, unsigned int, unsigned int, true>();
  if (cls == "zpsh") { Shared_Zp_field_element<>::initialize(cfg[0]); return el_runner<Shared_Zp_field_element<>, unsigned int, unsigned int, true>(); }
  if (cls == "zpel") {
#define X(p) if (cfg[0] == p) return el_runner<Zp_field_element<p>, unsigned int, unsigned int, true>();
    ZPEL_LIST
#undef X
  }
  if (cls == "mfops") { auto o = std::make_shared<Multi_field_operators>(); o->set_characteristic(cfg[0], cfg[1]);
    return ops_runner<Multi_field_operators, Z, false>(o); }
  if (cls == "mfsh") { Shared_multi_field_element::initialize(cfg[0], cfg[1]); return el_runner<Shared_multi_field_element, Z, Z, false>(); }
  if (cls == "mfel") {
#define X(a, b) if (cfg[0] == a && cfg[1] == b) return el_runner<Multi_field_element<a, b>, Z, Z, false>();
    MFEL_LIST
#undef X
  }
  if (cls == "mfsops") { auto o = std::make_shared<Multi_field_operators_with_small_characteristics>(); o->set_characteristic(cfg[0], cfg[1]);
    return ops_runner<Multi_field_operators_with_small_characteristics, unsigned int, false>(o); }
  if (cls == "mfssh") { Shared_multi_field_element_with_small_characteristics<>::initialize(cfg[0], cfg[1]);
    return el_runner<Shared_multi_field_element_with_small_characteristics<>, unsigned int, unsigned int, true>(); }
  if (cls == "mfsel") {
#define X(a, b) if (cfg[0] == a && cfg[1] == b) return el_runner<Multi_field_element_with_small_characteristics<a, b>, unsigned int, unsigned int, true>();
    MFSEL_LIST
#undef X
  }
  if (cls == "cohzp") { auto f = std::make_shared<Gudhi::persistent_cohomology::Field_Zp>(); f->init(cfg[0]); return cohzp_runner(f); }
  if (cls == "cohmf") { auto f = std::make_shared<Gudhi::persistent_cohomology::Multi_field>(); f->init(cfg[0], cfg[1]); return cohmf_runner(f); }
  status = "nosuchclass";
  return Runner();
}

int main() {
  std::ios::sync_with_stdio(false);
  std::string line;
  Runner cur;
  vh::install();
  while (std::getline(std::cin, line)) {
    if (line.empty()) continue;
    std::istringstream is(line);
    std::string w;
    is >> w;
    if (w == "G") {
      std::string cls; is >> cls;
      std::vector<long> cfg; long x; while (is >> x) cfg.push_back(x);
      std::string status;
      try { cur = select(cls, cfg, status); }
      catch (const std::exception&) { status = "refused"; cur = Runner(); }
      vh::emit(status);
      continue;
    }
    Args a; std::string t; while (is >> t) a.emplace_back(t);
    if (!cur) { vh::emit("NOCLASS"); continue; }
    std::string r;
    try { r = cur(w, a); } catch (const std::exception& e) { r = "EXC"; }
    vh::emit(r);
  }
  vh::flush();
  return 0;
}
