// C11 harness: drives Gudhi::ripser through its public entry points (ripser_auto / ripser) for every input form,
// the second oracle (Rips_complex + Simplex_tree + Persistent_cohomology), and the leaf classes
// (Compressed_distance_matrix, Bitfield_encoding, Cns_encoding, Rips_filtration's entry packing).
//
// One answer line per input line.  All values are exchanged as integer KEYS: the dissimilarity is either the key itself
// (sq=0) or sqrt(key) (sq=1, Euclidean clouds with integer coordinates: key = squared distance, sqrt is correctly rounded
// and strictly monotone on the keys used, so the order of the values is the order of the keys).
//
//   R <form> <n> <dim_max> <thr|inf> <modulus> <sq> <data...>
//       form = lower | upper : n(n-1)/2 keys in that layout  -> Compressed_distance_matrix(vector&&) -> ripser_auto
//              full          : lower keys -> Full_distance_matrix(Compressed lower) -> ripser_auto
//              fullraw       : lower keys -> user-defined dense matrix (as the Python binding's Full<T>) -> ripser_auto
//              upconv        : upper keys -> Compressed lower(Compressed upper) (as utilities/ripser.cc) -> ripser_auto
//              sparse        : triples i j key (already filtered by the threshold by the caller) -> Sparse_distance_matrix(neighbors&&)
//              sparsector    : lower keys -> Sparse_distance_matrix(Compressed lower, thr) -> ripser  (as utilities/ripser.cc)
//              points        : m, then n*m integer coordinates -> Euclidean_distance_matrix -> ripser_auto
//       answer: OK enc=<64|128|129> dims=0,1,.. zero=<dropped zero-length> bars=<dim:birth:death;...sorted>   |  EXC <kind>
//   S <n> <dim_max> <thr|inf> <modulus> <sq> <lower keys, -1 = no edge>       second oracle
//   CM <lower|upper> <n>                    Compressed_distance_matrix(vector&&) with distances[k] = k+1: the n x n table of operator()
//   CMC <lower|upper> <lower|upper> <n>     converting constructor to-layout(from-layout)
//   ENC <b64|b128|cns> <n> <dim_max> <modulus> <coef> <m> v_1 < ... < v_m
#include <gudhi/ripser.h>
#include <gudhi/Rips_complex.h>
#include <gudhi/Simplex_tree.h>
#include <gudhi/Persistent_cohomology.h>
#include <algorithm>
#include <cmath>
#include <cstdint>
#include <iostream>
#include <limits>
#include <sstream>
#include <string>
#include <tuple>
#include <vector>
#include "common.h"

namespace R = Gudhi::ripser;
struct DP { typedef int vertex_t; typedef double value_t; };
typedef R::Compressed_distance_matrix<DP, R::LOWER_TRIANGULAR> Lower;
typedef R::Compressed_distance_matrix<DP, R::UPPER_TRIANGULAR> Upper;
typedef R::Full_distance_matrix<DP> FullM;
typedef R::Sparse_distance_matrix<DP> Sparse;
typedef R::Euclidean_distance_matrix<DP> Eucl;
static const double INF = std::numeric_limits<double>::infinity();

struct FullRaw {   // what the Python binding passes for a numpy array
  typedef R::Tag_dense Category;
  typedef int vertex_t;
  typedef double value_t;
  std::vector<double> a; int n;
  int size() const { return n; }
  double operator()(int i, int j) const { return a[(size_t)i * n + j]; }
};

static std::string u128s(unsigned __int128 x) {
  if (x == 0) return "0";
  std::string s;
  while (x > 0) { s += char('0' + (int)(x % 10)); x /= 10; }
  std::reverse(s.begin(), s.end());
  return s;
}
#if defined GUDHI_FORCE_FAKE_UINT128 || !defined __SIZEOF_INT128__
static std::string u128s(Gudhi::numbers::uint128_t x) {
  // no public accessors: go through shifts
  unsigned __int128 r = 0;
  for (int i = 127; i >= 0; --i) { r <<= 1; if (static_cast<std::uint64_t>((x >> (uint8_t)i) & Gudhi::numbers::uint128_t(1)) != 0) r |= 1; }
  return u128s(r);
}
#endif
static std::string u128s(std::uint64_t x) { return u128s((unsigned __int128)x); }

// unit of length of the current R line: every dissimilarity (and coordinate, and threshold) is multiplied by 2^g_unit before it
// reaches the library and every reported value divided by it (exact; the property is invariant under a change of unit)
static int g_unit = 0;
static double val_of_key(long long k, int sq) { return std::ldexp(sq ? std::sqrt((double)k) : (double)k, g_unit); }
// back from a value to its key; "BAD" if the value is not the image of an integer key
static std::string key_of_val(double v, int sq) {
  if (v == INF) return "inf";
  const double v0 = v;
  v = std::ldexp(v, -g_unit);
  if (!(v == v) || v < 0 || v > 1e15) { char b[64]; snprintf(b, sizeof b, "BAD(%a)", v0); return b; }
  long long k = sq ? std::llround(v * v) : std::llround(v);
  if (val_of_key(k, sq) != v0) { char b[64]; snprintf(b, sizeof b, "BAD(%a)", v); return b; }
  return std::to_string(k);
}

struct Collector {
  int sq;
  std::vector<int> dims;
  std::vector<std::tuple<int, std::string, std::string>> bars;
  std::vector<std::tuple<int, double, double>> raw;
  long zero = 0;
  bool bad_order = false;
  void dim(int d) { dims.push_back(d); }
  void pair(double b, double d) {
    if (dims.empty()) { bad_order = true; return; }
    if (b == d) { ++zero; return; }
    if (!(b < d)) bad_order = true;          // a negative interval is never acceptable
    raw.emplace_back(dims.back(), b, d);
  }
  std::string str() {
    std::sort(raw.begin(), raw.end());
    std::string s = "dims=";
    for (size_t i = 0; i < dims.size(); ++i) { if (i) s += ","; s += std::to_string(dims[i]); }
    if (dims.empty()) s += "-";
    s += " zero=" + std::to_string(zero) + " neg=" + std::to_string((int)bad_order) + " bars=";
    bool first = true;
    for (auto& t : raw) {
      if (!first) s += ";";
      first = false;
      s += std::to_string(std::get<0>(t)) + ":" + key_of_val(std::get<1>(t), sq) + ":" + key_of_val(std::get<2>(t), sq);
    }
    if (raw.empty()) s += "-";
    return s;
  }
};

template <class F> static std::string guarded(F&& f) {
  try { return f(); }
  catch (const std::domain_error& e) { return "EXC domain_error"; }
  catch (const std::overflow_error& e) { return "EXC overflow_error"; }
  catch (const std::invalid_argument& e) { return "EXC invalid_argument"; }
  catch (const std::out_of_range& e) { return "EXC out_of_range"; }
  catch (const std::logic_error& e) { return "EXC logic_error"; }
  catch (const std::bad_alloc& e) { return "EXC bad_alloc"; }
  catch (const std::exception& e) { return "EXC exception"; }
}

template <class Dist> static std::string run_auto(Dist&& dist, int dim_max, double thr, unsigned modulus, int sq, bool direct = false) {
  Collector c; c.sq = sq;
  R::verif_hook_last_encoding = 0;
  auto od = [&](int d) { c.dim(d); };
  auto op = [&](double b, double d) { c.pair(b, d); };
  if (direct) R::ripser(std::move(dist), dim_max, thr, modulus, od, op);
  else R::ripser_auto(std::move(dist), dim_max, thr, modulus, od, op);
  return "OK enc=" + std::to_string(R::verif_hook_last_encoding) + " " + c.str();
}

static std::vector<double> vals(const std::vector<long long>& keys, int sq) {
  std::vector<double> v; v.reserve(keys.size());
  for (long long k : keys) v.push_back(val_of_key(k, sq));
  return v;
}

static std::string do_run(std::istringstream& in) {
  std::string form, thr_s; int n, dim_max, sq; long long modulus_ll;
  in >> form >> n >> dim_max >> thr_s >> modulus_ll >> sq;
  g_unit = (sq / 2 == 1) ? -40 : (sq / 2 == 2) ? 30 : 0;      // sq field = (values are square roots of the keys) + 2 * (unit: 0 -> 1, 1 -> 2^-40, 2 -> 2^30)
  sq %= 2;
  unsigned modulus = (unsigned)modulus_ll;
  std::vector<long long> data; long long x;
  while (in >> x) data.push_back(x);
  double thr = (thr_s == "inf") ? INF : (thr_s == "max") ? std::numeric_limits<double>::max() : val_of_key(std::stoll(thr_s), sq);
  size_t tri = (size_t)n * (n - 1) / 2;
  return guarded([&]() -> std::string {
    if (form == "lower") { if (data.size() != tri) return "badinput"; return run_auto(Lower(vals(data, sq)), dim_max, thr, modulus, sq); }
    // the dense engine itself, with the threshold given explicitly (ripser_auto would convert a thresholded dense input to sparse)
    if (form == "lowerdirect") { if (data.size() != tri) return "badinput"; return run_auto(Lower(vals(data, sq)), dim_max, thr, modulus, sq, true); }
    if (form == "upper") { if (data.size() != tri) return "badinput"; return run_auto(Upper(vals(data, sq)), dim_max, thr, modulus, sq); }
    if (form == "upconv") { if (data.size() != tri) return "badinput"; Upper u(vals(data, sq)); return run_auto(Lower(u), dim_max, thr, modulus, sq); }
    if (form == "full") { if (data.size() != tri) return "badinput"; Lower l(vals(data, sq)); return run_auto(FullM(l), dim_max, thr, modulus, sq); }
    if (form == "fullraw") {
      if (data.size() != tri) return "badinput";
      FullRaw f; f.n = n; f.a.assign((size_t)n * n, 0.0);
      size_t k = 0;
      for (int i = 1; i < n; ++i) for (int j = 0; j < i; ++j) { double v = val_of_key(data[k++], sq); f.a[(size_t)i * n + j] = v; f.a[(size_t)j * n + i] = v; }
      return run_auto(std::move(f), dim_max, thr, modulus, sq);
    }
    if (form == "sparsector") { if (data.size() != tri) return "badinput"; Lower l(vals(data, sq)); return run_auto(Sparse(l, thr), dim_max, thr, modulus, sq, true); }
    if (form == "sparse") {
      if (data.size() % 3) return "badinput";
      typedef Sparse::vertex_diameter_t VD;
      std::vector<std::vector<VD>> nb(n);
      for (size_t k = 0; k < data.size(); k += 3) {
        int i = (int)data[k], j = (int)data[k + 1]; double v = val_of_key(data[k + 2], sq);
        if (i < 0 || j < 0 || i >= n || j >= n || i == j) return "badinput";
        nb[i].emplace_back(j, v); nb[j].emplace_back(i, v);
      }
      for (auto& l : nb) std::sort(l.begin(), l.end());
      return run_auto(Sparse(std::move(nb), data.size() / 3), dim_max, thr, modulus, sq);
    }
    if (form == "points") {
      if (data.empty()) return "badinput";
      int m = (int)data[0];
      if (data.size() != 1 + (size_t)n * m) return "badinput";
      std::vector<std::vector<double>> pts(n, std::vector<double>(m));
      for (int i = 0; i < n; ++i) for (int j = 0; j < m; ++j) pts[i][j] = std::ldexp((double)data[1 + (size_t)i * m + j], g_unit);
      return run_auto(Eucl(std::move(pts)), dim_max, thr, modulus, 1);
    }
    return "badform";
  });
}

// second oracle: the route the property names
static std::string do_second(std::istringstream& in) {
  std::string thr_s; int n, dim_max, sq; long long modulus;
  in >> n >> dim_max >> thr_s >> modulus >> sq;
  g_unit = 0;
  std::vector<long long> data; long long x;
  while (in >> x) data.push_back(x);
  if (data.size() != (size_t)n * (n - 1) / 2) return "badinput";
  return guarded([&]() -> std::string {
    long long maxkey = 0;
    for (long long k : data) maxkey = std::max(maxkey, k);
    long long tkey = (thr_s == "inf") ? maxkey : std::min(maxkey, std::stoll(thr_s));
    bool below = (thr_s != "inf") && std::stoll(thr_s) < 0;
    std::vector<std::vector<double>> dm(n);
    size_t k = 0;
    for (int i = 0; i < n; ++i) { dm[i].resize(i); for (int j = 0; j < i; ++j) { long long key = data[k++]; dm[i][j] = key < 0 ? INF : val_of_key(key, sq); } }
    typedef Gudhi::Simplex_tree<> ST;
    ST st;
    Gudhi::rips_complex::Rips_complex<double> rips(dm, below ? -1.0 : val_of_key(tkey, sq));
    rips.create_complex(st, std::min(dim_max, std::max(n - 2, 0)) + 1);
    typedef Gudhi::persistent_cohomology::Persistent_cohomology<ST, Gudhi::persistent_cohomology::Field_Zp> PC;
    PC pc(st, true);
    pc.init_coefficients((int)modulus);
    pc.compute_persistent_cohomology(0);
    Collector c; c.sq = sq;
    int dmax = std::min(dim_max, std::max(n - 2, 0));
    for (int d = 0; d <= dmax; ++d) {
      c.dim(d);
      for (auto& pr : pc.intervals_in_dimension(d)) c.pair(pr.first, pr.second);
    }
    return "OK nsimp=" + std::to_string(st.num_simplices()) + " " + c.str();
  });
}

template <class M> static std::string table(const M& m) {
  std::string s = "OK n=" + std::to_string(m.size()) + " t=";
  for (int i = 0; i < m.size(); ++i) for (int j = 0; j < m.size(); ++j) { if (i || j) s += ","; s += std::to_string((long long)m(i, j)); }
  return s;
}
static std::vector<double> iota_vals(int n) { std::vector<double> v((size_t)n * (n - 1) / 2); for (size_t k = 0; k < v.size(); ++k) v[k] = (double)(k + 1); return v; }

static std::string do_cm(std::istringstream& in) {
  std::string lay; int n; in >> lay >> n;
  return guarded([&]() -> std::string { if (lay == "lower") return table(Lower(iota_vals(n))); return table(Upper(iota_vals(n))); });
}
static std::string do_cmc(std::istringstream& in) {
  std::string from, to; int n; in >> from >> to >> n;
  return guarded([&]() -> std::string {
    if (from == "lower") { Lower a(iota_vals(n)); if (to == "lower") return table(Lower(a)); return table(Upper(a)); }
    Upper a(iota_vals(n)); if (to == "lower") return table(Lower(a)); return table(Upper(a));
  });
}

template <class simplex_t, template <class> class Enc> static std::string enc_op(int n, int dim_max, unsigned modulus, unsigned coef, const std::vector<int>& vs) {
  typedef R::TParams<true, simplex_t, double> P;
  typedef R::Rips_filtration<Sparse, Enc<P>, P> Filt;
  std::vector<std::vector<Sparse::vertex_diameter_t>> nb(n);
  Filt filt(Sparse(std::move(nb), 0), (typename P::dimension_t)dim_max, INF, modulus);
  simplex_t idx = 0;
  for (size_t i = 0; i < vs.size(); ++i) idx = idx + filt.simplex_encoding(vs[i], (typename P::dimension_t)(i + 1));
  auto e = filt.make_entry(idx, coef);
  simplex_t idx2 = filt.get_index(e);
  unsigned c2 = filt.get_coefficient(e);
  std::vector<int> out(vs.size(), -7);
  if (!vs.empty()) filt.get_simplex_vertices(idx2, (typename P::dimension_t)(vs.size() - 1), n, out.rbegin());
  std::string s = "OK k=" + std::to_string((int)filt.dim_max + 2) + " extra=" + std::to_string(filt.simplex_encoding.num_extra_bits()) +
                  " cbits=" + std::to_string(filt.num_bits_for_coeff()) + " idx=" + u128s(idx) + " content=" + u128s(e.content) +
                  " idx2=" + u128s(idx2) + " coef=" + std::to_string(c2) + " verts=";
  for (size_t i = 0; i < out.size(); ++i) { if (i) s += ","; s += std::to_string(out[i]); }
  if (out.empty()) s += "-";
  return s;
}
static std::string do_enc(std::istringstream& in) {
  std::string which; int n, dim_max, m; long long modulus, coef;
  in >> which >> n >> dim_max >> modulus >> coef >> m;
  std::vector<int> vs(m);
  for (int i = 0; i < m; ++i) in >> vs[i];
  return guarded([&]() -> std::string {
    if (which == "b64") return enc_op<std::uint64_t, R::Bitfield_encoding>(n, dim_max, (unsigned)modulus, (unsigned)coef, vs);
    if (which == "b128") return enc_op<Gudhi::numbers::uint128_t, R::Bitfield_encoding>(n, dim_max, (unsigned)modulus, (unsigned)coef, vs);
    return enc_op<Gudhi::numbers::uint128_t, R::Cns_encoding>(n, dim_max, (unsigned)modulus, (unsigned)coef, vs);
  });
}

// watchdog: a line normally takes milliseconds; a line that is still running after 240 s of wall time is reported as a hang
static void on_alarm(int) {
  vh::flush();
  const char* m = "CRASH HANG\n";
  ssize_t k = ::write(1, m, strlen(m)); (void)k;
  _exit(70);
}

int main() {
  vh::install();
  signal(SIGALRM, on_alarm);
  std::string line;
  while (std::getline(std::cin, line)) {
    std::istringstream in(line);
    std::string op; in >> op;
    std::string ans;
    alarm(240);
    if (op == "R") ans = do_run(in);
    else if (op == "S") ans = do_second(in);
    else if (op == "CM") ans = do_cm(in);
    else if (op == "CMC") ans = do_cmc(in);
    else if (op == "ENC") ans = do_enc(in);
    else if (op == "G") ans = "ok";
    else ans = "badop";
    alarm(0);
    vh::emit(ans);
    vh::flush();
  }
  vh::flush();
  return 0;
}
