// C12 harness: Gudhi::collapse::flag_complex_collapse_edges observed through its public API only.
// One input line = one weighted graph:  "g u v w u v w ..."  (ints; w an integer filtration value), edges in input order;
// "gs u v w ..." feeds the values w/8 instead (non-integer dyadic doubles) and prints the returned values times 8.
// One answer line:  "ORD i0 i1 ...|RES u v w u v w ..."
//   ORD = order in which the sweep processes the input edges (indices into the input list):
//         - default build (Filtration_value = double, documented one-argument entry point): the order produced by
//           the same sort call on an identical vector (std::sort / tbb::parallel_sort are deterministic functions of
//           the sequence and the comparator, so this is the order used inside);
//         - -DC12_TAGGED build (Filtration_value = a double that carries the index of its input edge and compares
//           by the double only): the order really observed from inside, through the Delay functor of the two-argument
//           entry point, which is called once per edge in processing order.
//   RES = the returned edges in the returned order.
// Build variants: with/without -DGUDHI_COLLAPSE_USE_DENSE_ARRAY, with/without -DGUDHI_USE_TBB, with/without -DC12_TAGGED.
#include <cmath>
#include <cstdint>
#include <cstdio>
#include <iostream>
#include <limits>
#include <map>
#include <sstream>
#include <string>
#include <tuple>
#include <vector>
#include "common.h"

#ifdef C12_TAGGED
struct TV {
  double v;
  int id;
};
inline bool operator<(TV const& a, TV const& b) { return a.v < b.v; }
inline bool operator>(TV const& a, TV const& b) { return a.v > b.v; }
inline bool operator<=(TV const& a, TV const& b) { return a.v <= b.v; }
inline bool operator>=(TV const& a, TV const& b) { return a.v >= b.v; }
inline bool operator==(TV const& a, TV const& b) { return a.v == b.v; }
inline bool operator!=(TV const& a, TV const& b) { return a.v != b.v; }
inline TV operator-(TV const& a) { return TV{-a.v, a.id}; }
namespace std {
template <>
struct numeric_limits<TV> {
  static constexpr bool is_specialized = true;
  static constexpr bool has_infinity = true;
  static TV infinity() { return TV{std::numeric_limits<double>::infinity(), -1}; }
};
}  // namespace std
using FV = TV;
static inline double fv_val(FV const& x) { return x.v; }
#else
using FV = double;
static inline double fv_val(FV const& x) { return x; }
#endif

#include <gudhi/Flag_complex_edge_collapser.h>

using Edge = std::tuple<int, int, FV>;

static std::string num(double d) {
  if (std::isinf(d)) return d > 0 ? "inf" : "-inf";
  if (std::isnan(d)) return "nan";
  if (d == std::floor(d) && std::fabs(d) < 9e15) return std::to_string((long long)d);
  char b[64];
  snprintf(b, sizeof b, "%a", d);
  return b;
}

int main() {
  vh::install();
  std::string line;
  while (std::getline(std::cin, line)) {
    std::istringstream is(line);
    std::string tag;
    is >> tag;
    // "gs": the same graph with every value divided by 8 (exact dyadic doubles); the answers are printed multiplied by 8
    // "gt" / "gh": the same in a very large / very small unit (values times 2^-60 / 2^40: exact, the property is scale invariant)
    const double scale = (tag == "gs") ? 8.0 : (tag == "gt") ? std::ldexp(1.0, 60) : (tag == "gh") ? std::ldexp(1.0, -40) : 1.0;
    // "go": the same graph with 2^26 added to every value (exact in double, not in single precision: a table that stores the
    // values in a narrower type merges distinct values); the answers are printed with 2^26 subtracted
    const double off = (tag == "go") ? 67108864.0 : 0.0;
    if (tag != "g" && tag != "gs" && tag != "gt" && tag != "gh" && tag != "go") { vh::emit("BADLINE"); continue; }
    std::vector<Edge> edges;
    std::map<std::pair<int, int>, int> index;
    long long u, v, w;
    int k = 0;
    while (is >> u >> v >> w) {
#ifdef C12_TAGGED
      edges.emplace_back((int)u, (int)v, TV{(double)w / scale + off, k});
#else
      edges.emplace_back((int)u, (int)v, (double)w / scale + off);
#endif
      index[{(int)u, (int)v}] = k;
      ++k;
    }
    std::vector<int> order;
    std::string ans;
    try {
#ifdef C12_TAGGED
      auto res = Gudhi::collapse::flag_complex_collapse_edges(edges, [&order](TV const& d) { order.push_back(d.id); return d; });
#else
      {
        // the same call as in flag_complex_collapse_edges, on an identical vector
        std::vector<Edge> copy(edges.begin(), edges.end());
#ifdef GUDHI_USE_TBB
        tbb::parallel_sort(copy.begin(), copy.end(), [](auto const& a, auto const& b) { return std::get<2>(a) > std::get<2>(b); });
#else
        std::sort(copy.begin(), copy.end(), [](auto const& a, auto const& b) { return std::get<2>(a) > std::get<2>(b); });
#endif
        for (auto& e : copy) order.push_back(index[{std::get<0>(e), std::get<1>(e)}]);
      }
      auto res = Gudhi::collapse::flag_complex_collapse_edges(edges);
#endif
      ans = "ORD";
      for (int i : order) ans += " " + std::to_string(i);
      ans += "|RES";
      for (auto& e : res) {
        ans += " " + std::to_string(std::get<0>(e)) + " " + std::to_string(std::get<1>(e)) + " " + num((fv_val(std::get<2>(e)) - off) * scale);
      }
    } catch (std::exception const& ex) {
      ans = std::string("EXC ") + ex.what();
    } catch (...) {
      ans = "EXC unknown";
    }
    vh::emit(ans);
    vh::flush();  // one write per case: after a hang or a crash the plug-in knows which line was being processed
  }
  vh::flush();
  return 0;
}
