// C13 harness: Bitmap_cubical_complex over the plain and the periodic base class, observed through the public API.
// stdin : "G <base|per> <top|vert> <d> <sizes x d> <mask x d> <values...>" builds a complex, then one query per line.
// stdout: one answer line per input line.
//   dims | vals | bd | cobd | inc | filt | topc | verts | skel <k> | incx <coface> <face> | pers <p> | tcof | vtx | key
#include <iostream>
#include <sstream>
#include <string>
#include <vector>
#include <algorithm>
#include <cmath>
#include <limits>
#include <memory>
#include <tuple>
#include "common.h"
#include <gudhi/Bitmap_cubical_complex_base.h>
#include <gudhi/Bitmap_cubical_complex_periodic_boundary_conditions_base.h>
#include <gudhi/Bitmap_cubical_complex.h>
#include <gudhi/Persistent_cohomology.h>

typedef Gudhi::cubical_complex::Bitmap_cubical_complex_base<double> Base;
typedef Gudhi::cubical_complex::Bitmap_cubical_complex_periodic_boundary_conditions_base<double> Per;
typedef Gudhi::cubical_complex::Bitmap_cubical_complex<Base> CBase;
typedef Gudhi::cubical_complex::Bitmap_cubical_complex<Per> CPer;

static std::string fv(double v) {
  if (std::isnan(v)) return "nan";
  if (std::isinf(v)) return v > 0 ? "inf" : "-inf";
  return std::to_string((long long)v);
}
static double pv(const std::string& s) {
  if (s == "inf") return std::numeric_limits<double>::infinity();
  if (s == "-inf") return -std::numeric_limits<double>::infinity();
  return (double)std::stoll(s);
}
static std::string join(const std::vector<std::size_t>& v, const char* sep) {
  if (v.empty()) return "-";
  std::string r;
  for (std::size_t i = 0; i < v.size(); ++i) { if (i) r += sep; r += std::to_string(v[i]); }
  return r;
}

struct Any {
  virtual ~Any() {}
  virtual std::string query(const std::vector<std::string>& w) = 0;
};

template <class C>
struct Holder : Any {
  std::unique_ptr<C> c;
  std::string query(const std::vector<std::string>& w) override {
    C& K = *c;
    const std::string& op = w[0];
    std::size_t n = K.num_simplices();
    std::string r;
    if (op == "size") return std::to_string(n) + " " + std::to_string(K.size()) + " " + std::to_string(K.number_cells()) + " " +
                             std::to_string(K.dimension()) + " " + std::to_string(std::distance(K.all_cells_range().begin(), K.all_cells_range().end()));
    if (op == "dims") {
      for (std::size_t i = 0; i < n; ++i) { if (i) r += ' '; unsigned a = K.dimension(i), b = K.get_dimension_of_a_cell(i); if (a != b) return "INCONSISTENT"; r += std::to_string(a); }
      return r;
    }
    if (op == "vals") {
      for (std::size_t i = 0; i < n; ++i) { if (i) r += ' '; double a = K.filtration(i), b = K.get_cell_data(i); if (!(a == b)) return "INCONSISTENT"; r += fv(a); }
      return r;
    }
    if (op == "bd") {
      for (std::size_t i = 0; i < n; ++i) {
        if (i) r += ' ';
        std::vector<std::size_t> a = K.boundary_simplex_range(i), b = K.get_boundary_of_a_cell(i), d = K.boundary_range(i);
        if (a != b || a != d) return "INCONSISTENT";
        r += join(a, ",");
      }
      return r;
    }
    if (op == "cobd") {
      for (std::size_t i = 0; i < n; ++i) {
        if (i) r += ' ';
        std::vector<std::size_t> a = K.get_coboundary_of_a_cell(i), b = K.coboundary_range(i);
        if (a != b) return "INCONSISTENT";
        r += join(a, ",");
      }
      return r;
    }
    if (op == "inc") {   // incidence of every cell with every element of its boundary, in the order of the enumeration
      for (std::size_t i = 0; i < n; ++i) {
        if (i) r += ' ';
        std::vector<std::size_t> a = K.get_boundary_of_a_cell(i);
        if (a.empty()) { r += "-"; continue; }
        for (std::size_t k = 0; k < a.size(); ++k) {
          if (k) r += ',';
          try { r += std::to_string(K.compute_incidence_between_cells(i, a[k])); } catch (const std::logic_error&) { r += "throw"; }
        }
      }
      return r;
    }
    if (op == "incx") {
      std::size_t a = std::stoull(w[1]), b = std::stoull(w[2]);
      std::streambuf* old = std::cerr.rdbuf(nullptr);
      try { int v = K.compute_incidence_between_cells(a, b); std::cerr.rdbuf(old); return std::to_string(v); }
      catch (const std::logic_error&) { std::cerr.rdbuf(old); return "throw"; }
    }
    if (op == "filt") {
      K.initialize_filtration();
      std::vector<std::size_t> f(K.filtration_simplex_range().begin(), K.filtration_simplex_range().end());
      for (std::size_t k = 0; k < f.size(); ++k) if (K.simplex(k) != f[k]) return "INCONSISTENT";
      return join(f, " ");
    }
    if (op == "topc") {
      std::vector<std::size_t> t;
      for (auto it = K.top_dimensional_cells_iterator_begin(); it != K.top_dimensional_cells_iterator_end(); ++it) t.push_back(*it);
      std::vector<std::size_t> t2;
      for (auto x : K.top_dimensional_cells_range()) t2.push_back(x);
      if (t != t2) return "INCONSISTENT";
      return join(t, " ");
    }
    if (op == "verts") {
      std::vector<std::size_t> t;
      for (auto it = K.vertices_iterator_begin(); it != K.vertices_iterator_end(); ++it) t.push_back(*it);
      std::vector<std::size_t> t2;
      for (auto x : K.vertices_range()) t2.push_back(x);
      if (t != t2) return "INCONSISTENT";
      return join(t, " ");
    }
    if (op == "skel") {
      std::vector<std::size_t> t;
      for (auto x : K.skeleton_simplex_range(std::stoul(w[1]))) t.push_back(x);
      return join(t, " ");
    }
    if (op == "pers") {
      int p = std::stoi(w[1]);
      typedef Gudhi::persistent_cohomology::Field_Zp Field;
      Gudhi::persistent_cohomology::Persistent_cohomology<C, Field> pc(K, true);
      pc.init_coefficients(p);
      pc.compute_persistent_cohomology(0);
      std::vector<std::tuple<int, double, double, int>> iv;
      for (auto& pr : pc.get_persistent_pairs()) {
        auto b = std::get<0>(pr), d = std::get<1>(pr);
        double bv = K.filtration(b), dv = K.filtration(d);   // null_simplex -> +inf
        iv.emplace_back((int)K.dimension(b), bv, dv, d == K.null_simplex() ? 1 : 0);
      }
      std::sort(iv.begin(), iv.end());
      for (std::size_t k = 0; k < iv.size(); ++k) {
        if (k) r += ' ';
        r += std::to_string(std::get<0>(iv[k])) + ":" + fv(std::get<1>(iv[k])) + ":" + (std::get<3>(iv[k]) ? std::string("ess") : fv(std::get<2>(iv[k])));
      }
      if (r.empty()) r = "-";
      return r;
    }
    if (op == "tcof") {  // precondition: values imposed from the top cells
      for (std::size_t i = 0; i < n; ++i) { if (i) r += ' '; r += std::to_string(K.get_top_dimensional_coface_of_a_cell(i)); }
      return r;
    }
    if (op == "vtx") {   // precondition: values imposed from the vertices
      for (std::size_t i = 0; i < n; ++i) { if (i) r += ' '; r += std::to_string(K.get_vertex_of_a_cell(i)); }
      return r;
    }
    if (op == "key") {   // assign_key / key / endpoints plumbing
      for (std::size_t i = 0; i < n; ++i) K.assign_key(i, n - 1 - i);
      for (std::size_t i = 0; i < n; ++i) if (K.key(i) != n - 1 - i) return "INCONSISTENT";
      return "ok";
    }
    return "UNSUPPORTED";
  }
};

template <class C, class... A>
static std::unique_ptr<Any> mk(A&&... a) {
  auto h = std::make_unique<Holder<C>>();
  h->c = std::make_unique<C>(std::forward<A>(a)...);
  return h;
}

int main() {
  vh::install();
  std::ios::sync_with_stdio(false);
  std::string line;
  std::unique_ptr<Any> cur;
  while (std::getline(std::cin, line)) {
    std::istringstream is(line);
    std::vector<std::string> w;
    for (std::string t; is >> t;) w.push_back(t);
    if (w.empty()) { vh::emit(""); continue; }
    if (w[0] == "G" || w[0] == "GR") {
      cur.reset();
      try {
        std::string cls = w[1];
        bool top = w[2] == "top";
        std::size_t d = std::stoul(w[3]);
        std::vector<unsigned> sizes;
        std::vector<bool> mask;
        for (std::size_t i = 0; i < d; ++i) sizes.push_back((unsigned)std::stoul(w[4 + i]));
        for (std::size_t i = 0; i < d; ++i) mask.push_back(w[4 + d + i] == "1");
        std::vector<double> vals;
        for (std::size_t i = 4 + 2 * d; i < w.size(); ++i) vals.push_back(pv(w[i]));
        if (w[0] == "G") {
        std::streambuf* old = std::cerr.rdbuf(nullptr);
        try {
          if (cls == "base") cur = mk<CBase>(sizes, vals, top);
          else if (cls == "per") cur = mk<CPer>(sizes, vals, mask, top);
          std::cerr.rdbuf(old);
        } catch (...) { std::cerr.rdbuf(old); throw; }
        vh::emit(cur ? "ok" : "UNSUPPORTED");
        } else {
          // "GR": the same complex reached through a history on one object: build it with OTHER values (the wanted ones
          // reversed), read the filtration order once, write the wanted values into the top cells / vertices through
          // get_cell_data, impose the lower star again and re-initialise the filtration
          std::vector<double> other(vals.rbegin(), vals.rend());
          auto rebuild = [&](auto& K) {
            (void)std::distance(K.filtration_simplex_range().begin(), K.filtration_simplex_range().end());
            std::size_t k = 0;
            const double inf = std::numeric_limits<double>::infinity();
            // the propagation only lowers (resp. raises) what is stored: every derived cell is first reset to the neutral value
            if (top) {
              for (std::size_t c = 0; c < K.num_simplices(); ++c) K.get_cell_data(c) = inf;
              for (auto it = K.top_dimensional_cells_iterator_begin(); it != K.top_dimensional_cells_iterator_end(); ++it) K.get_cell_data(*it) = vals.at(k++);
              K.impose_lower_star_filtration();
            } else {
              for (std::size_t c = 0; c < K.num_simplices(); ++c) K.get_cell_data(c) = -inf;
              for (auto it = K.vertices_iterator_begin(); it != K.vertices_iterator_end(); ++it) K.get_cell_data(*it) = vals.at(k++);
              K.impose_lower_star_filtration_from_vertices();
            }
            K.initialize_filtration();
          };
          std::streambuf* old = std::cerr.rdbuf(nullptr);
          try {
            if (cls == "base") { auto h = std::make_unique<Holder<CBase>>(); h->c = std::make_unique<CBase>(sizes, other, top); rebuild(*h->c); cur = std::move(h); }
            else if (cls == "per") { auto h = std::make_unique<Holder<CPer>>(); h->c = std::make_unique<CPer>(sizes, other, mask, top); rebuild(*h->c); cur = std::move(h); }
            std::cerr.rdbuf(old);
          } catch (...) { std::cerr.rdbuf(old); throw; }
          vh::emit(cur ? "ok" : "UNSUPPORTED");
        }
      } catch (const std::invalid_argument&) { vh::emit("EXC invalid_argument");
      } catch (const std::exception& e) { vh::emit(std::string("EXC ") + e.what()); }
      continue;
    }
    if (!cur) { vh::emit("NOCOMPLEX"); continue; }
    try { vh::emit(cur->query(w)); } catch (const std::exception& e) { vh::emit(std::string("EXC ") + e.what()); }
  }
  vh::flush();
  return 0;
}
