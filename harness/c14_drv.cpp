// C14 harness: drives compute_persistence_of_function_on_line (Persistence_on_a_line.h) and
// persistence_on_rectangle_from_top_cells (Persistence_on_rectangle.h) through their public interface only.
// One answer line per input line, except ENUM which answers one line per enumerated weak order plus "END <count>".
//
//   L <type> <cmp> <n> v1 .. vn        type: d (std::vector<double>) | l (std::vector<long>) | f (std::list<float>)
//                                       cmp : lt (default std::less<>) | gt (std::greater<>) | k<K> (x,y -> floor(x/K) < floor(y/K))
//       answer:  L b,d b,d ... | inf m      pairs in emission order; the last call must be (m, numeric_limits<T>::infinity())
//   R <type> <mode> <rows> <cols> v1 .. v(rows*cols)
//                                       type: d (double values, unsigned index) | l (long values, std::size_t index)
//                                       mode: v (values) | i (indices)
//       answer:  R 0: b,d ... | 1: b,d ... | min m        pairs sorted (the interface leaves their order free)
//       (type d: the value 1000003 is replaced by +infinity on the way in and back on the way out)
//   RF ...                              as R (tells the oracle to use its fast reduction; for large grids)
//   ENUM <type> <mode> <rows> <cols> <k> r1 .. rk
//       every weak order of the rows*cols cells (rank vectors onto {0..m}) that starts with the given ranks, in
//       lexicographic order; answer lines "E v1,..,vn R ..." then "END <count>"; mode b = both modes, "R .. ## R .."
// Exceptions are mapped to "EXC <kind>".
#include <gudhi/Persistence_on_a_line.h>
#include <gudhi/Persistence_on_rectangle.h>
#include "common.h"
#include <algorithm>
#include <cmath>
#include <functional>
#include <iostream>
#include <limits>
#include <list>
#include <sstream>
#include <string>
#include <utility>
#include <vector>

static std::string num(double x) {
  if (std::isinf(x)) return x > 0 ? "inf" : "-inf";
  if (std::isnan(x)) return "nan";
  long long k = (long long)x;
  if ((double)k == x) return std::to_string(k);
  char buf[64]; snprintf(buf, sizeof buf, "%a", x); return buf;
}
static std::string num(float x) { return num((double)x); }
static std::string num(long x) { return std::to_string(x); }
static std::string num(unsigned x) { return std::to_string(x); }
static std::string num(std::size_t x) { return std::to_string(x); }

struct Key_less {
  long k;
  template <class T> bool operator()(T const& x, T const& y) const {
    return std::floor((double)x / (double)k) < std::floor((double)y / (double)k);
  }
};

template <class Range, class Cmp>
static std::string run_line(Range const& in, Cmp cmp, bool dflt) {
  typedef std::decay_t<decltype(*std::begin(in))> T;
  std::vector<std::pair<T, T>> calls;
  auto out = [&](T b, T d) { calls.emplace_back(b, d); };
  if (dflt) Gudhi::persistent_cohomology::compute_persistence_of_function_on_line(in, out);
  else Gudhi::persistent_cohomology::compute_persistence_of_function_on_line(in, out, cmp);
  std::string s = "L";
  if (calls.empty()) return s + " | none";
  for (std::size_t i = 0; i + 1 < calls.size(); ++i) s += " " + num(calls[i].first) + "," + num(calls[i].second);
  T inf = std::numeric_limits<T>::infinity();
  bool okinf = calls.back().second == inf;
  s += " | inf " + num(calls.back().first);
  if (!okinf) s += " BAD-INFINITY " + num(calls.back().second);
  return s;
}

template <class Range>
static std::string line_case(Range const& in, std::string const& cmp) {
  if (cmp == "lt") return run_line(in, std::less<>(), true);
  if (cmp == "lt2") return run_line(in, std::less<>(), false);
  if (cmp == "gt") return run_line(in, std::greater<>(), false);
  if (cmp.size() > 1 && cmp[0] == 'k') return run_line(in, Key_less{std::stol(cmp.substr(1))}, false);
  return "BAD cmp";
}

template <bool idx, class F, class I>
static std::string run_rect(std::vector<F> const& v, I rows, I cols) {
  typedef std::conditional_t<idx, I, F> O;
  std::vector<std::pair<O, O>> d0, d1;
  auto m = Gudhi::cubical_complex::persistence_on_rectangle_from_top_cells<idx>(
      v.data(), rows, cols, [&](O b, O d) { d0.emplace_back(b, d); }, [&](O b, O d) { d1.emplace_back(b, d); });
  std::sort(d0.begin(), d0.end());
  std::sort(d1.begin(), d1.end());
  std::string s = "R 0:";
  for (auto& p : d0) s += " " + num(p.first) + "," + num(p.second);
  s += " | 1:";
  for (auto& p : d1) s += " " + num(p.first) + "," + num(p.second);
  s += " | min " + num((O)m);
  return s;
}

static std::string rect_case(std::string const& type, std::string const& mode, long rows, long cols,
                             std::vector<long> const& vals) {
  if (rows < 0 || cols < 0 || (long)vals.size() != rows * cols) return "BAD size";
  try {
    if (type == "d") {
      // the key 1000003 stands for +infinity (a cell that never enters): it reaches the routine as +inf and is printed back as the key
      std::vector<double> v(vals.begin(), vals.end());
      for (auto& x : v) if (x == 1000003.0) x = std::numeric_limits<double>::infinity();
      std::string r = (mode == "v") ? run_rect<false, double, unsigned>(v, (unsigned)rows, (unsigned)cols)
                                    : run_rect<true, double, unsigned>(v, (unsigned)rows, (unsigned)cols);
      for (std::size_t p = r.find("inf"); p != std::string::npos; p = r.find("inf", p)) r.replace(p, 3, "1000003");
      return r;
    } else {
      std::vector<long> v(vals.begin(), vals.end());
      if (mode == "v") return run_rect<false, long, std::size_t>(v, (std::size_t)rows, (std::size_t)cols);
      return run_rect<true, long, std::size_t>(v, (std::size_t)rows, (std::size_t)cols);
    }
  } catch (std::domain_error const&) { return "EXC domain_error";
  } catch (std::logic_error const&) { return "EXC logic_error";
  } catch (std::exception const&) { return "EXC other"; }
}

static void enumerate(std::string const& type, std::string const& mode, long rows, long cols,
                      std::vector<long>& r, std::size_t pos, long& count) {
  std::size_t n = (std::size_t)(rows * cols);
  if (pos == n) {
    // onto an initial segment {0..m} ?
    long mx = -1; unsigned seen = 0;
    for (long x : r) { mx = std::max(mx, x); seen |= 1u << x; }
    if (seen != (1u << (mx + 1)) - 1) return;
    std::string s = "E ";
    for (std::size_t i = 0; i < n; ++i) { if (i) s += ","; s += std::to_string(r[i]); }
    if (mode == "b") vh::emit(s + " " + rect_case(type, "v", rows, cols, r) + " ## " + rect_case(type, "i", rows, cols, r));
    else vh::emit(s + " " + rect_case(type, mode, rows, cols, r));
    ++count;
    return;
  }
  for (long x = 0; x < (long)n; ++x) { r[pos] = x; enumerate(type, mode, rows, cols, r, pos + 1, count); }
}

int main() {
  vh::install();
  std::string line;
  while (std::getline(std::cin, line)) {
    std::istringstream is(line);
    std::string op; is >> op;
    try {
      if (op == "L") {
        std::string type, cmp; long n; is >> type >> cmp >> n;
        std::vector<long> vals; long x; while (is >> x) vals.push_back(x);
        if ((long)vals.size() != n) { vh::emit("BAD size"); continue; }
        if (type == "d") { std::vector<double> v(vals.begin(), vals.end()); vh::emit(line_case(v, cmp)); }
        else if (type == "l") { std::vector<long> v(vals.begin(), vals.end()); vh::emit(line_case(v, cmp)); }
        else if (type == "f") { std::list<float> v(vals.begin(), vals.end()); vh::emit(line_case(v, cmp)); }
        else vh::emit("BAD type");
      } else if (op == "R" || op == "RF") {   // RF: same call; the oracle uses its fast reduction
        std::string type, mode; long rows, cols; is >> type >> mode >> rows >> cols;
        std::vector<long> vals; long x; while (is >> x) vals.push_back(x);
        vh::emit(rect_case(type, mode, rows, cols, vals));
      } else if (op == "ENUM") {
        std::string type, mode; long rows, cols, k; is >> type >> mode >> rows >> cols >> k;
        std::vector<long> r((std::size_t)(rows * cols), 0);
        for (long i = 0; i < k; ++i) is >> r[(std::size_t)i];
        long count = 0;
        enumerate(type, mode, rows, cols, r, (std::size_t)k, count);
        vh::emit("END " + std::to_string(count));
      } else if (op.empty()) {
        vh::emit("");
      } else {
        vh::emit("BAD op");
      }
    } catch (std::logic_error const&) { vh::emit("EXC logic_error");
    } catch (std::exception const&) { vh::emit("EXC other"); }
  }
  vh::flush();
  return 0;
}
