// C15 harness, Simplex_tree part: PAIR MODE.  Up to 4 objects (slots 0..3) of Simplex_tree<Opt> (Opt by -DOPTSET=k) are
// built by operation histories, derived from one another by copy-construct / copy-assign / move-construct /
// move-assign / std::swap / self-assignment, driven through DIFFERENT continuations, destroyed, serialised and
// deserialised (exact, truncated, extended, into empty and non-empty trees; every buffer lives in an exactly-sized heap
// block so that an over-read is an AddressSanitizer report), written as text and re-read.  After EVERY line the whole
// observable state of EVERY live slot is printed; props/c15.py compares it with the Coq model (ocaml/c15_oracle.ml).
// stdin : "H fx n l1..ln"  (fx is for the oracle only)   -> "ok <optset>"
//   NEW d | DEL d | CC d s | CA d s | MC d s | MA d s | SW d s
//   OP d <IS v k l.. | IF v k l.. | RM k l.. | PF v | PD d | CL | DM | FI | KY | SD>
//   FO d                      filtration_simplex_range() as it is (cache from before a move / rebuilt after a copy)
//   SER s                     get_serialization_size + serialize -> hex
//   DES d s F|T k|E k v|B p v deserialize a perturbed copy of s's buffer into slot d (fresh object when d is empty)
//   SERX s delta             serialize into a block of size+delta bytes (delta != 0: must throw invalid_argument)
//   FUZZ s n seed            n corrupted copies of s's buffer, each into a fresh tree: ok or invalid_argument only
//   SWEEP s                   every truncation and extensions by 1..9 bytes, each into a fresh tree
//   TXT d s                   operator<< of s, operator>> into slot d (fresh when empty)
// stdout: one line per input line: "r=<ret>|<dump slot0>#<dump slot1>#<dump slot2>#<dump slot3>"  ('-' = no object)
#include <iostream>
#include <sstream>
#include <string>
#include <vector>
#include <algorithm>
#include <cmath>
#include <cstdint>
#include <limits>
#include <map>
#include <memory>
#include <utility>
#include "common.h"
#include <gudhi/Simplex_tree.h>

#ifndef OPTSET
#define OPTSET 0
#endif
using namespace Gudhi;

struct Opt_flat_linked : Simplex_tree_options_default {
  static const bool link_nodes_by_label = true;
  static const bool stable_simplex_handles = false;
};
struct Opt_stable_unlinked : Simplex_tree_options_default {
  static const bool link_nodes_by_label = false;
  static const bool stable_simplex_handles = true;
};
struct Opt_stable_linked_nokey : Simplex_tree_options_default {
  static const bool store_key = false;
  static const bool link_nodes_by_label = true;
  static const bool stable_simplex_handles = true;
};
struct Opt_float : Simplex_tree_options_default {
  typedef float Filtration_value;
};
struct Opt_data_linked : Simplex_tree_options_full_featured {     // heap-owning per-simplex data
  typedef std::vector<int> Simplex_data;
};
struct Opt_data_flat : Simplex_tree_options_default {
  typedef std::string Simplex_data;
};
#if OPTSET == 0
typedef Simplex_tree_options_default Opt; static const char* OPTNAME = "default";
#elif OPTSET == 1
typedef Simplex_tree_options_full_featured Opt; static const char* OPTNAME = "full_featured";
#elif OPTSET == 2
typedef Simplex_tree_options_minimal Opt; static const char* OPTNAME = "minimal";
#elif OPTSET == 3
typedef Simplex_tree_options_fast_persistence Opt; static const char* OPTNAME = "fast_persistence";
#elif OPTSET == 4
typedef Opt_flat_linked Opt; static const char* OPTNAME = "flat_linked";
#elif OPTSET == 5
typedef Opt_stable_unlinked Opt; static const char* OPTNAME = "stable_unlinked";
#elif OPTSET == 6
typedef Opt_stable_linked_nokey Opt; static const char* OPTNAME = "stable_linked_nokey";
#elif OPTSET == 7
typedef Opt_float Opt; static const char* OPTNAME = "float_values";
#elif OPTSET == 8
typedef Opt_data_linked Opt; static const char* OPTNAME = "data_linked";
#elif OPTSET == 9
typedef Opt_data_flat Opt; static const char* OPTNAME = "data_flat";
#endif

typedef Simplex_tree<Opt> ST;
typedef ST::Vertex_handle Vh;
typedef ST::Filtration_value Fv;
typedef ST::Simplex_handle Sh;
static const bool kData = !std::is_same<ST::Simplex_data, Gudhi::No_simplex_data>::value;

static std::vector<long> U;
static std::map<long, int> Upos;
static ST* slot[4] = {nullptr, nullptr, nullptr, nullptr};

static Fv parse_val(const std::string& s) { return (Fv)std::stol(s); }
static std::string val_str(Fv v) {
  if (std::isnan((double)v)) return "nan";
  if (std::isinf((double)v)) return v > 0 ? "inf" : "-inf";
  return std::to_string((long long)v);
}
static std::string mask_of(const ST& st, Sh sh) {
  unsigned m = 0;
  for (Vh v : st.simplex_vertex_range(sh)) {
    auto it = Upos.find((long)v);
    if (it == Upos.end()) return "X";
    if (m & (1u << it->second)) return "DUP";
    m |= 1u << it->second;
  }
  return std::to_string(m);
}
static std::vector<Vh> simplex_of_mask(unsigned m) {
  std::vector<Vh> s;
  for (size_t i = 0; i < U.size(); ++i) if (m & (1u << i)) s.push_back((Vh)U[i]);
  return s;
}

template <class D> static void set_data(D& d, int i) {
  if constexpr (std::is_same<D, std::string>::value) d = std::string(20 + i, 'a' + i % 26);
  else if constexpr (std::is_same<D, std::vector<int>>::value) d = std::vector<int>(3 + i % 5, i);
}
template <class D> static std::string data_str(const D& d) {
  if constexpr (std::is_same<D, std::string>::value) return d;
  else if constexpr (std::is_same<D, std::vector<int>>::value) { std::string s; for (int x : d) s += std::to_string(x) + "."; return s; }
  else return "";
}
// (vertices, value, key, data) of every simplex in complex_simplex_range order
static std::string snapshot(const ST& st) {
  std::ostringstream o;
  for (Sh sh : st.complex_simplex_range()) {
    for (Vh v : st.simplex_vertex_range(sh)) o << (long)v << ",";
    o << ":" << val_str(st.filtration(sh));
    if constexpr (Opt::store_key) o << ":k" << (long)st.key(sh);
    if constexpr (kData) o << ":d" << data_str(st.simplex_data(sh));
    o << ";";
  }
  return o.str();
}

static std::string dump(const ST& st) {
  std::ostringstream o;
  const unsigned NM = 1u << U.size();
  o << "ub=" << st.upper_bound_dimension() << "|nv=" << st.num_vertices() << "|n=" << st.num_simplices()
    << "|e=" << (st.is_empty() ? 1 : 0);
  std::vector<unsigned> present;
  o << "|F=";
  for (unsigned m = 1; m < NM; ++m) {
    std::vector<Vh> s = simplex_of_mask(m);
    std::reverse(s.begin(), s.end());
    Sh sh = st.find(s);
    if (sh != st.null_simplex()) {
      present.push_back(m);
      o << m << ":" << val_str(st.filtration(sh)) << ":" << st.dimension(sh) << " ";
    }
  }
  o << "|V=";
  for (Vh v : st.complex_vertex_range()) o << (long)v << " ";
  o << "|C=";
  for (Sh sh : st.complex_simplex_range()) o << mask_of(st, sh) << ":" << val_str(st.filtration(sh)) << " ";
  // star (exercises the label lists rebuilt by rec_copy / moved by move_from) and cofaces of codimension 1
  o << "|K=";
  for (unsigned m : present) {
    Sh sh = st.find(simplex_of_mask(m));
    for (int c = 0; c <= 1; ++c) {
      std::vector<long> r;
      bool bad = false;
      if (c == 0) { for (Sh t : st.star_simplex_range(sh)) { std::string s = mask_of(st, t); if (s == "X" || s == "DUP") bad = true; else r.push_back(std::stol(s)); } }
      else { for (Sh t : st.cofaces_simplex_range(sh, c)) { std::string s = mask_of(st, t); if (s == "X" || s == "DUP") bad = true; else r.push_back(std::stol(s)); } }
      std::sort(r.begin(), r.end());
      o << m << "/" << c << ":";
      if (bad) o << "X";
      for (long x : r) o << x << ",";
      o << " ";
    }
  }
  // operator== against a tree rebuilt from the enumeration, and against an empty tree
  {
    ST r;
    std::vector<std::pair<std::vector<Vh>, Fv>> all;
    for (Sh sh : st.complex_simplex_range()) {
      std::vector<Vh> s(st.simplex_vertex_range(sh).begin(), st.simplex_vertex_range(sh).end());
      std::sort(s.begin(), s.end());
      all.emplace_back(s, st.filtration(sh));
    }
    std::sort(all.begin(), all.end(), [](auto& a, auto& b) { return a.first < b.first; });
    for (auto& p : all) r.insert_simplex(p.first, p.second);
    ST e;
    o << "|eq=" << (st == r ? 1 : 0) << (r == st ? 1 : 0) << (st == e ? 1 : 0);
  }
  return o.str();
}

static std::string hex(const std::vector<char>& b) {
  static const char* d = "0123456789abcdef";
  std::string s;
  for (char c : b) { s += d[(c >> 4) & 15]; s += d[c & 15]; }
  return s;
}
static std::vector<char> ser(const ST& st, std::string& note) {
  size_t n = st.get_serialization_size();
  char* p = new char[n];              // exactly sized: an over-write is an ASan report
  try { st.serialize(p, n); note = "ok"; } catch (const std::invalid_argument&) { note = "EXC-IA"; } catch (const std::exception&) { note = "EXC"; }
  std::vector<char> v(p, p + n);
  delete[] p;
  return v;
}
// deserialize from an exactly-sized heap block
static std::string des(ST& st, const std::vector<char>& buf) {
  char* p = new char[buf.size()];
  if (!buf.empty()) memcpy(p, buf.data(), buf.size());
  std::string r;
  try { st.deserialize(p, buf.size()); r = "ok"; }
  catch (const std::invalid_argument&) { r = "IA"; }
  catch (const std::logic_error&) { r = "LE"; }
  catch (const std::bad_alloc&) { r = "BA"; }
  catch (const std::exception&) { r = "EXC"; }
  delete[] p;
  return r;
}

int main() {
  vh::install();
  std::string line;
  while (std::getline(std::cin, line)) {
    std::istringstream in(line);
    std::string tok;
    in >> tok;
    if (tok == "H") {
      for (auto& s : slot) { delete s; s = nullptr; }
      U.clear(); Upos.clear();
      int fx, n; in >> fx >> n;
      for (int i = 0; i < n; ++i) { long l; in >> l; Upos[l] = (int)U.size(); U.push_back(l); }
      vh::emit(std::string("ok ") + OPTNAME); vh::flush();
      continue;
    }
    std::string ret = "?";
    try {
      if (tok == "NEW") { int d; in >> d; delete slot[d]; slot[d] = new ST(); ret = "-"; }
      else if (tok == "DEL") { int d; in >> d; delete slot[d]; slot[d] = nullptr; ret = "-"; }
      else if (tok == "CC" || tok == "CA" || tok == "MC" || tok == "MA" || tok == "SW") {
        int d, s; in >> d >> s;
        if (!slot[s]) ret = "PRE";
        else {
          std::string before_s = snapshot(*slot[s]);
          std::string before_d = slot[d] ? snapshot(*slot[d]) : "";
          if (tok == "CC") { ST* n = new ST(*slot[s]); if (d != s) delete slot[d]; else delete slot[d]; slot[d] = n; }
          else if (tok == "MC") { ST* n = new ST(std::move(*slot[s])); if (d == s) { delete slot[s]; } else delete slot[d]; slot[d] = n; }
          else {
            if (!slot[d]) slot[d] = new ST();
            if (tok == "CA") { const ST& src = *slot[s]; *slot[d] = src; }
            else if (tok == "MA") { ST& src = *slot[s]; *slot[d] = std::move(src); }
            else { using std::swap; swap(*slot[d], *slot[s]); }
          }
          bool ok = snapshot(*slot[d]) == before_s;
          if (tok == "SW") ok = ok && snapshot(*slot[s]) == (d == s ? before_s : before_d);
          if (tok == "CC" || tok == "CA") ok = ok && snapshot(*slot[s]) == before_s;
          ret = std::string("snap") + (ok ? "1" : "0");
        }
      }
      else if (tok == "OP") {
        int d; std::string op; in >> d >> op;
        if (!slot[d]) ret = "PRE";
        else {
          ST* st = slot[d];
          if (op == "IS" || op == "IF") {
            std::string vs; int k; in >> vs >> k;
            std::vector<Vh> s(k);
            for (int i = 0; i < k; ++i) { long l; in >> l; s[i] = (Vh)l; }
            Fv v = parse_val(vs);
            auto r = op == "IS" ? st->insert_simplex(s, v) : st->insert_simplex_and_subfaces(s, v);
            ret = std::string(r.second ? "1" : "0") + (r.first == st->null_simplex() ? "n" : "h");
          } else if (op == "RM") {
            int k; in >> k;
            std::vector<Vh> s(k);
            for (int i = 0; i < k; ++i) { long l; in >> l; s[i] = (Vh)l; }
            Sh sh = st->find(s);
            if (sh == st->null_simplex() || st->has_children(sh)) ret = "PRE"; else { st->remove_maximal_simplex(sh); ret = "-"; }
          } else if (op == "PF") { std::string vs; in >> vs; ret = st->prune_above_filtration(parse_val(vs)) ? "1" : "0"; }
          else if (op == "PD") { int dd; in >> dd; ret = st->prune_above_dimension(dd) ? "1" : "0"; }
          else if (op == "CL") { st->clear(); ret = "-"; }
          else if (op == "DM") { ret = "dim" + std::to_string(st->dimension()); }
          else if (op == "FI") { st->initialize_filtration(); ret = "-"; }
          else if (op == "KY") {
            if constexpr (Opt::store_key) { long i = 1000; for (Sh sh : st->complex_simplex_range()) st->assign_key(sh, (ST::Simplex_key)(i += 7)); }
            ret = "-";
          } else if (op == "SD") {
            if constexpr (kData) {
              int i = 0;
              for (Sh sh : st->complex_simplex_range()) {
                ++i;
                set_data(st->simplex_data(sh), i);
              }
            }
            ret = "-";
          } else ret = "BADOP";
        }
      }
      else if (tok == "FO") {
        int d; in >> d;
        if (!slot[d]) ret = "PRE";
        else { ret = "fo"; for (Sh sh : slot[d]->filtration_simplex_range()) ret += mask_of(*slot[d], sh) + ","; }
      }
      else if (tok == "SER") {
        int s; in >> s;
        if (!slot[s]) ret = "PRE";
        else { std::string note; std::vector<char> b = ser(*slot[s], note); ret = note + ":" + std::to_string(slot[s]->get_serialization_size()) + ":" + hex(b); }
      }
      else if (tok == "SERX") {      // serialize into an exactly-sized block of the WRONG size: must be refused, not overrun
        int s; long delta; in >> s >> delta;
        if (!slot[s]) ret = "PRE";
        else {
          long n = (long)slot[s]->get_serialization_size() + delta; if (n < 0) n = 0;
          char* p = new char[n];
          try { slot[s]->serialize(p, (size_t)n); ret = "serx:ok"; } catch (const std::invalid_argument&) { ret = "serx:IA"; } catch (const std::exception&) { ret = "serx:EXC"; }
          delete[] p;
        }
      }
      else if (tok == "DES") {
        int d, s; std::string mode; in >> d >> s >> mode;
        if (!slot[s]) ret = "PRE";
        else {
          std::string note; std::vector<char> b = ser(*slot[s], note);
          if (mode == "T") { size_t k; in >> k; if (k < b.size()) b.resize(k); }
          else if (mode == "E") { size_t k; int v; in >> k >> v; b.insert(b.end(), k, (char)v); }
          else if (mode == "B") { size_t p; int v; in >> p >> v; if (p < b.size()) b[p] = (char)v; }
          if (!slot[d]) slot[d] = new ST();
          std::string r = des(*slot[d], b);
          if (r == "IA") slot[d]->clear();      // a refused object holds what was parsed so far; it must stay usable
          ret = "des:" + r + ":" + std::to_string(b.size());
        }
      }
      else if (tok == "FUZZ") {      // corrupted buffers of the right length: any refusal is fine, no report, no crash
        int s, n; unsigned seed; in >> s >> n >> seed;
        if (!slot[s]) ret = "PRE";
        else {
          std::string note; std::vector<char> full = ser(*slot[s], note);
          std::string bad;
          for (int i = 0; i < n && !full.empty(); ++i) {
            std::vector<char> b(full);
            int flips = 1 + (seed = seed * 1103515245u + 12345u) / 65536 % 3;
            for (int f = 0; f < flips; ++f) {
              size_t p = ((seed = seed * 1103515245u + 12345u) / 65536) % b.size();
              b[p] = (char)((seed = seed * 1103515245u + 12345u) / 65536);
            }
            ST t; std::string r = des(t, b);
            if (r != "ok" && r != "IA") bad += std::to_string(i) + "=" + r + ",";
          }
          ret = "fuzz:" + (bad.empty() ? std::string("clean") : bad);
        }
      }
      else if (tok == "SWEEP") {
        int s; in >> s;
        if (!slot[s]) ret = "PRE";
        else {
          std::string note; std::vector<char> full = ser(*slot[s], note);
          std::string bad; size_t cnt = 0;
          for (size_t k = 0; k < full.size(); ++k) {
            std::vector<char> b(full.begin(), full.begin() + k);
            ST t; std::string r = des(t, b); ++cnt;
            if (r != "IA") bad += "T" + std::to_string(k) + "=" + r + ",";
            // the refused object must stay usable
            t.clear(); t.insert_simplex_and_subfaces(std::vector<Vh>{1, 2}, 0);
            if (t.num_simplices() != 3) bad += "T" + std::to_string(k) + "=unusable,";
          }
          for (size_t k = 1; k <= 9; ++k) for (int v : {0, 1, 255}) {
            std::vector<char> b(full); b.insert(b.end(), k, (char)v);
            ST t; std::string r = des(t, b); ++cnt;
            if (r != "IA") bad += "E" + std::to_string(k) + "/" + std::to_string(v) + "=" + r + ",";
          }
          { ST t; std::string r = des(t, full); ++cnt; if (r != "ok" || !(t == *slot[s])) bad += "F=" + r + ","; }
          ret = "sweep:" + std::to_string(cnt) + ":" + (bad.empty() ? "clean" : bad);
        }
      }
      else if (tok == "TXT") {
        int d, s; in >> d >> s;
        if (!slot[s]) ret = "PRE";
        else {
          std::ostringstream os; os << *slot[s];
          std::string txt = os.str();
          if (!slot[d]) slot[d] = new ST();
          std::istringstream is(txt);
          is >> *slot[d];
          std::replace(txt.begin(), txt.end(), '\n', ';');
          std::replace(txt.begin(), txt.end(), ' ', '_');
          ret = "txt:" + txt;
        }
      }
      else { vh::emit("BADOP"); vh::flush(); continue; }
    } catch (const std::exception& e) {
      ret = std::string("EXC");
    } catch (const char* m) {
      ret = std::string("EXC");
    }
    std::string d = "r=" + ret + "|";
    for (int k = 0; k < 4; ++k) {
      if (k) d += "#";
      if (!slot[k]) { d += "-"; continue; }
      try { d += dump(*slot[k]); }
      catch (const std::exception& e) { d += std::string("EXC-IN-OBSERVER=") + e.what(); }
      catch (const char* m) { d += std::string("EXC-IN-OBSERVER=") + m; }
    }
    vh::emit(d); vh::flush();
  }
  for (auto& s : slot) { delete s; s = nullptr; }
  vh::flush();
  return 0;
}
