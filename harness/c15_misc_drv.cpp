// C15 pair-mode harness for the other value-like classes (see c15_pair.h for the protocol).  -DKIND=
//   1  Gudhi::Toplex_map            N "<n>" (universe = labels 0..n-1, n <= 6)   ops: I v.. | R v.. | V x | C x y
//   2  Gudhi::Lazy_toplex_map       N "<n>"                                       ops: I v.. | R v.. | V x | C x y | F k (k filler edges
//                                                                                  far outside the universe: drives the deferred cleaning)
//   3  Bitmap_cubical_complex<Bitmap_cubical_complex_base<double>>               N "<d> <sizes x d> <top-cell values>"
//   5  Bitmap_cubical_complex<..._periodic_boundary_conditions_base<double>>     N "<d> <sizes x d> <0|1 x d> <top-cell values>"
//        ops: SET i v (get_cell_data(i) = v) | LSF (impose_lower_star_filtration) | BIN n (put_data_to_bins(n)) | IF (initialize_filtration)
//             | KEY i k (assign_key)
//   4  Persistence_representations::Persistence_landscape                        N "<den> b:d b:d ..." (coordinates b/den, d/den)
//        ops: ADD b:d.. (+= landscape of that diagram) | SUB b:d.. | MUL n q (*= n/q) | DIV n q | ABS (l = l.abs())
// Neither toplex class is assignable or swappable (const data members): only CC / MC exist for them.
#include <algorithm>
#include <cmath>
#include <limits>
#include <sstream>
#include <string>
#include <vector>
#ifndef KIND
#define KIND 1
#endif
#if KIND == 1 || KIND == 2
#include <gudhi/Toplex_map.h>
#include <gudhi/Lazy_toplex_map.h>
#elif KIND == 3 || KIND == 5
#include <gudhi/Bitmap_cubical_complex_base.h>
#include <gudhi/Bitmap_cubical_complex_periodic_boundary_conditions_base.h>
#include <gudhi/Bitmap_cubical_complex.h>
#else
#include <gudhi/Persistence_landscape.h>
#endif
#include "c15_pair.h"

static std::string hexf(double v) {
  char b[64];
  snprintf(b, sizeof b, "%a", v);
  return b;
}

#if KIND == 1 || KIND == 2
// ------------------------------------------------------------------------------------------------ toplex maps
typedef Gudhi::Toplex_map::Vertex Vertex;
struct TAux { unsigned n = 0; unsigned long long filler_next = 1ull << 40; };
static std::vector<Vertex> set_of(unsigned m, unsigned n) {
  std::vector<Vertex> r;
  for (unsigned i = 0; i < n; i++) if (m >> i & 1) r.push_back(i);
  return r;
}
static std::string simp_str(const Gudhi::Toplex_map::Simplex& s) {
  std::vector<Vertex> v(s.begin(), s.end());
  std::sort(v.begin(), v.end());
  std::string r;
  for (size_t i = 0; i < v.size(); ++i) r += (i ? "." : "") + std::to_string(v[i]);
  return r.empty() ? "e" : r;
}
static std::string set_str(const Gudhi::Toplex_map::Simplex_ptr_set& ps) {
  std::vector<std::string> v;
  for (const auto& p : ps) v.push_back(simp_str(*p));
  std::sort(v.begin(), v.end());
  std::string s;
  for (size_t i = 0; i < v.size(); i++) s += (i ? "," : "") + v[i];
  return s.empty() ? "-" : s;
}
struct Adapter {
#if KIND == 1
  typedef Gudhi::Toplex_map T;
  static const char* name() { return "toplex"; }
#else
  typedef Gudhi::Lazy_toplex_map T;
  static const char* name() { return "lazy-toplex"; }
#endif
  typedef TAux Aux;
#if KIND == 2
  static const bool dump_mutates = true;   // membership() runs the deferred cleaning
#else
  static const bool dump_mutates = false;
#endif
  static T* make(std::istream& is, Aux& a) { a = Aux(); is >> a.n; return new T(); }
  static T* make_empty(std::istream& is, Aux& a) { return make(is, a); }
  static std::string apply(T& t, Aux& a, const std::string& line) {
    std::istringstream is(line);
    std::string op;
    is >> op;
    std::vector<Vertex> v;
    unsigned long long x;
    while (is >> x) v.push_back((Vertex)x);
    try {
      if (op == "I") {
#if KIND == 1
        t.insert_simplex(v); return "OK";
#else
        return t.insert_simplex(v) ? "OK 1" : "OK 0";
#endif
      }
      if (op == "R") { t.remove_simplex(v); return "OK"; }
      if (op == "V") {
#if KIND == 1
        t.remove_vertex(v.at(0));
#else
        std::vector<Vertex> s{v.at(0)}; t.remove_simplex(s);
#endif
        return "OK";
      }
      if (op == "C") return "OK " + std::to_string(t.contraction(v.at(0), v.at(1)));
#if KIND == 2
      if (op == "F") {
        for (unsigned long long i = 0; i < v.at(0); i++) {
          std::vector<Vertex> e{(Vertex)a.filler_next, (Vertex)(a.filler_next + 1)};
          a.filler_next += 2;
          t.insert_simplex(e);
        }
        return "OK";
      }
#endif
      return "BADOP";
    } catch (const std::exception&) { return "EXC"; }
  }
  static std::string dump(T& t, Aux& a, bool) {
    unsigned N = 1u << a.n;
    std::string o = "nv=" + std::to_string(t.num_vertices());
    std::string mem, mx, cof;
#if KIND == 1
    o += " nm=" + std::to_string(t.num_maximal_simplices()) + " max=" + set_str(t.maximal_simplices());
    for (unsigned m = 0; m < N; m++) {
      auto s = set_of(m, a.n);
      mem += t.membership(s) ? '1' : '0';
      mx += t.maximality(s) ? '1' : '0';
      cof += (m ? ";" : "") + set_str(t.maximal_cofaces(s));
    }
    o += " mem=" + mem + " mx=" + mx + " cof=" + cof;
#else
    // (num_maximal_simplices counts simplices not yet cleaned away: it depends on when the queries ran; the reads are part
    // of the recipe of this class, see dump_mutates)
    o += " size=" + std::to_string(t.num_maximal_simplices());
    for (unsigned m = 0; m < N; m++) {
      auto s = set_of(m, a.n);
      mem += t.membership(s) ? '1' : '0';
      if (m) mx += t.all_facets_inside(s) ? '1' : '0';
    }
    o += " mem=" + mem + " afi=" + mx;
#endif
    return o;
  }
};

#elif KIND == 3 || KIND == 5
// ------------------------------------------------------------------------------------------------ cubical complexes
typedef Gudhi::cubical_complex::Bitmap_cubical_complex_base<double> Base;
typedef Gudhi::cubical_complex::Bitmap_cubical_complex_periodic_boundary_conditions_base<double> Per;
struct CAux { bool filt = false; };
static std::string join(const std::vector<std::size_t>& v) {
  std::string r;
  for (std::size_t i = 0; i < v.size(); ++i) { if (i) r += ','; r += std::to_string(v[i]); }
  return r.empty() ? "-" : r;
}
struct Adapter {
#if KIND == 3
  typedef Gudhi::cubical_complex::Bitmap_cubical_complex<Base> T;
  static const char* name() { return "cubical"; }
#else
  typedef Gudhi::cubical_complex::Bitmap_cubical_complex<Per> T;
  static const char* name() { return "cubical-periodic"; }
#endif
  typedef CAux Aux;
  static const bool dump_mutates = false;
  static T* make(std::istream& is, Aux& a) {
    a = Aux();
    unsigned d; is >> d;
    std::vector<unsigned> sizes(d);
    for (auto& x : sizes) is >> x;
#if KIND == 5
    std::vector<bool> mask;
    for (unsigned i = 0; i < d; ++i) { int b; is >> b; mask.push_back(b != 0); }
#endif
    std::vector<double> vals;
    double v;
    while (is >> v) vals.push_back(v);
#if KIND == 3
    return new T(sizes, vals, true);
#else
    return new T(sizes, vals, mask, true);
#endif
  }
  static T* make_empty(std::istream&, Aux&) { return nullptr; }  // no default constructor: no empty complex to compare with
  static std::string apply(T& K, Aux& a, const std::string& line) {
    std::istringstream is(line);
    std::string op;
    is >> op;
    try {
      std::size_t n = K.num_simplices();
      if (op == "SET") { std::size_t i; double v; is >> i >> v; if (i >= n) return "SKIP"; K.get_cell_data(i) = v; return "OK"; }
      if (op == "LSF") { K.impose_lower_star_filtration(); return "OK"; }
      if (op == "BIN") { std::size_t k; is >> k; if (k == 0 || n == 0) return "SKIP"; K.put_data_to_bins(k); return "OK"; }
      if (op == "IF") { K.initialize_filtration(); a.filt = true; return "OK"; }
      if (op == "KEY") { std::size_t i, k; is >> i >> k; if (i >= n) return "SKIP"; K.assign_key(i, k); return "OK"; }
      return "BADOP";
    } catch (const std::exception&) { return "EXC"; }
  }
  static std::string dump(T& K, Aux& a, bool) {
    std::size_t n = K.num_simplices();
    std::string r = "n=" + std::to_string(n) + " size=" + std::to_string(K.size()) + " dim=" + std::to_string(K.dimension());
    for (std::size_t i = 0; i < n; ++i) {
      r += " |" + std::to_string(K.get_dimension_of_a_cell(i)) + " " + hexf(K.filtration(i)) + " k" + std::to_string(K.key(i)) + " b" +
           join(K.get_boundary_of_a_cell(i)) + " c" + join(K.get_coboundary_of_a_cell(i));
    }
    std::vector<std::size_t> t;
    for (auto it = K.top_dimensional_cells_iterator_begin(); it != K.top_dimensional_cells_iterator_end(); ++it) t.push_back(*it);
    r += " top=" + join(t);
    if (a.filt) {  // the order stored by the last initialize_filtration (not recomputed by later value changes)
      std::vector<std::size_t> f;
      for (std::size_t k = 0; k < n; ++k) f.push_back(K.simplex(k));
      r += " filt=" + join(f);
    }
    return r;
  }
};

#else
// ------------------------------------------------------------------------------------------------ landscapes
using Gudhi::Persistence_representations::Persistence_landscape;
struct LAux { double den = 1; };
static std::vector<std::pair<double, double> > diagram(std::istream& is, double den) {
  std::vector<std::pair<double, double> > d;
  std::string w;
  while (is >> w) {
    size_t k = w.find(':');
    if (k == std::string::npos) continue;
    d.push_back(std::make_pair(std::stod(w.substr(0, k)) / den, std::stod(w.substr(k + 1)) / den));
  }
  return d;
}
struct Adapter {
  typedef Persistence_landscape T;
  typedef LAux Aux;
  static const bool dump_mutates = false;
  static const char* name() { return "landscape"; }
  static T* make(std::istream& is, Aux& a) {
    a = Aux();
    is >> a.den;
    auto d = diagram(is, a.den);
    return new T(d);
  }
  static T* make_empty(std::istream& is, Aux& a) { a = Aux(); is >> a.den; return new T(); }
  static std::string apply(T& l, Aux& a, const std::string& line) {
    std::istringstream is(line);
    std::string op;
    is >> op;
    try {
      if (op == "ADD" || op == "SUB") {
        T o(diagram(is, a.den));
        if (op == "ADD") l += o; else l -= o;
        return "OK";
      }
      if (op == "MUL" || op == "DIV") {
        double n, q; is >> n >> q;
        if (q == 0 || (op == "DIV" && n == 0)) return "SKIP";
        if (op == "MUL") l *= n / q; else l /= n / q;
        return "OK";
      }
      if (op == "ABS") { l = l.abs(); return "OK"; }
      return "BADOP";
    } catch (const std::exception&) { return "EXC"; }
  }
  static std::string dump(T& l, Aux& a, bool) {
    std::ostringstream os;
    os.precision(17);
    os << l;  // every critical point of every level, read through the public operator<<
    std::string s = os.str(), r = "levels=" + std::to_string(l.size()) + " nf=" + std::to_string(l.number_of_vectorize_functions()) + " ";
    for (char c : s) r += c == '\n' ? ';' : c;
    r += " val=";
    for (unsigned lev = 0; lev <= l.size(); ++lev)
      for (int x = -2; x <= 20; ++x) r += hexf(l.compute_value_at_a_given_point(lev, x / 2.0)) + ",";
    r += " max=" + hexf(l.compute_maximum()) + " int=" + hexf(l.compute_integral_of_landscape());
    return r;
  }
};
#endif

int main() {
  c15::Driver<Adapter> d;
  return d.run();
}
