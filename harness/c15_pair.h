// C15 pair-mode driver ("copies, moves and swaps yield equal, INDEPENDENT objects"), generic over an adapter A:
//   typedef ... T;                       the class under test (derivations act on T itself, never on a wrapper)
//   typedef ... Aux;                     harness-side bookkeeping that travels with the LOG (copyable value, no pointers into T)
//   static const char* name();
//   static T* make(std::istream& args, Aux&)             fresh object from the arguments of an N line (Aux reset)
//   static T* make_empty(std::istream& args, Aux&)       the EMPTY object a moved-from object has to equal (same field /
//                                                        parameters as the N line, no content), or nullptr when the class
//                                                        cannot express one (then a moved-from object is never read or driven)
//   static std::string apply(T&, Aux&, const std::string& op)   one mutating operation; short status incl. return values
//   static std::string dump(T&, Aux&, bool restricted)   WHOLE observable state, canonical (no addresses, sorted where free);
//                                                        restricted = the object is moved-from and OBSERVE_MOVED == 1: the adapter
//                                                        may leave out reads it documents as impossible on a moved-from object
//   static const bool dump_mutates                       true when reading the state may reorganise the object (lazy structures): the
//                                                        reads are then part of the recipe ("@dump" entries of the LOG), so that the
//                                                        rebuilt object has seen exactly the same sequence of public calls
// Slots 0..3 hold T* + Aux + LOG (the N arguments and every op applied): the recipe to REBUILD the object from scratch.
// One answer line per input line (flushed immediately: a sanitizer abort keeps every earlier answer on stdout):
//   H text | N d args | O d op | Q d op (the op, then NO read of any slot) | CC d s | CA d s | MC d s | MA d s | SW d s | D d | X d op (last op, then destruction
//   without a read in between) | P d (debugging aid: answers "dump <the dump of slot d>")
//   H destroys every slot (several scripts may follow each other in one process); at end of input all slots are destroyed
//   and a line "END" is printed.  CA / MA / SW onto an empty slot first make a fresh target from the N arguments of the
//   source.  A moved-from slot becomes a normal one again by being assigned to, swapped, or (classes with an empty object)
//   operated on: its recipe is then "empty object + ops".
// After every line each live slot is compared with an independently rebuilt object (replay of its log); the status of
// an O line is compared with the status the same op gets at the end of the replay.
//   ok <status> | k:<len>.<hash> ...        all agree        (m = moved-from slot, observed empty; M = not observed)
//   MISMATCH slot=k got=<dump> want=<dump>
//   STATUS-MISMATCH slot=k got=<status> want=<status>
//   MOVEDFROM-NOT-EMPTY slot=k got=<dump> want=<dump of a fresh object with the same N arguments>
//   BAD <why>                               protocol error of the script (never a verdict about the library)
//   DUMP-EXC <what> / HARNESS-EXC <what>    a std::exception escaped from reading the state / from a derivation
// -DOBSERVE_MOVED=0: moved-from objects are only destroyed / assigned to / swapped, never read;
//                =1 (default): read through the adapter's restricted dump; =2: read through the full dump.
#ifndef VERIF_C15_PAIR_H
#define VERIF_C15_PAIR_H
#include <iostream>
#include <sstream>
#include <string>
#include <vector>
#include <utility>
#include <exception>
#include <type_traits>
#include "common.h"
#ifndef OBSERVE_MOVED
#define OBSERVE_MOVED 1
#endif
// teeth: -DC15_SHALLOW=1 makes "CC" alias the source instead of copying it (must give MISMATCH / ASan reports)
#ifndef C15_SHALLOW
#define C15_SHALLOW 0
#endif

namespace c15 {

inline std::string fp(const std::string& s) {
  unsigned long long h = 1469598103934665603ull;
  for (unsigned char c : s) { h ^= c; h *= 1099511628211ull; }
  char b[40];
  snprintf(b, sizeof b, "%zu.%08llx", s.size(), (h ^ (h >> 32)) & 0xffffffffull);
  return b;
}

template <class A>
struct Driver {
  typedef typename A::T T;
  typedef typename A::Aux Aux;
  struct Slot {
    T* p = nullptr;
    Aux aux{};
    std::vector<std::string> log;  // log[0] = arguments of the N line, then the ops
    bool moved = false;            // moved-from and not written since
    bool unobservable = false;     // moved-from and the class has no empty object to compare with
    bool ebase = false;            // the recipe starts from the empty object (make_empty) instead of make
  };
  Slot s[4];

  static void say(const std::string& a) { vh::emit(a); vh::flush(); }

  static T* fresh(const std::string& args, Aux& aux) {
    std::istringstream is(args);
    aux = Aux{};
    return A::make(is, aux);
  }
  static T* empty(const std::string& args, Aux& aux) {
    std::istringstream is(args);
    aux = Aux{};
    return A::make_empty(is, aux);
  }
  static bool has_empty(const std::string& args) {
    Aux a{};
    T* e = empty(args, a);
    bool r = e != nullptr;
    delete e;
    return r;
  }
  // rebuild from a log; returns the status of the last op
  static T* rebuild(const std::vector<std::string>& log, bool ebase, Aux& aux, std::string& last) {
    T* r = ebase ? empty(log.at(0), aux) : fresh(log.at(0), aux);
    for (size_t i = 1; i < log.size(); ++i) {
      if (log[i] == "@dump") (void)A::dump(*r, aux, false);
      else last = A::apply(*r, aux, log[i]);
    }
    return r;
  }
  void copy_meta(int d, int k) {
    T* keep = s[d].p;
    s[d] = s[k];
    s[d].p = keep;
  }
  void kill(int d) {
    delete s[d].p;
    s[d] = Slot();
  }
  // the source of a move: still owns a T (moved-from), whose recipe is "fresh object, no operations"
  void mark_moved(int k) {
    Slot& x = s[k];
    x.moved = true;
    x.ebase = true;
    x.log.resize(1);
    Aux a{};
    T* tmp = empty(x.log[0], a);  // only to obtain the bookkeeping of an empty object
    x.unobservable = tmp == nullptr;
    delete tmp;
    x.aux = a;
  }

  // compare every live slot with its rebuilt twin; "" when all agree (then `sum` holds the fingerprints)
  std::string verify(std::string& sum) {
    for (int k = 0; k < 4; ++k) {
      Slot& x = s[k];
      if (!x.p) continue;
      if (x.moved && (!OBSERVE_MOVED || x.unobservable)) { sum += " " + std::to_string(k) + ":M"; continue; }
      bool restr = x.moved && OBSERVE_MOVED == 1;
      std::string got = A::dump(*x.p, x.aux, restr);
      Aux ra{};
      std::string last;
      T* r = rebuild(x.log, x.ebase, ra, last);
      std::string want = A::dump(*r, ra, restr);
      delete r;
      if (got != want)
        return std::string(x.moved ? "MOVEDFROM-NOT-EMPTY" : "MISMATCH") + " slot=" + std::to_string(k) + " got=" + got + " want=" + want;
      if (A::dump_mutates) x.log.push_back("@dump");
      sum += " " + std::to_string(k) + ":" + (x.moved ? "m" : "") + fp(got);
    }
    return "";
  }

  int run() {
    vh::install();
    std::string line;
    while (std::getline(std::cin, line)) {
      std::istringstream is(line);
      std::string w;
      is >> w;
      if (w.empty()) { say("BAD empty"); continue; }
      if (w == "H") {
        for (int k = 0; k < 4; ++k) kill(k);
        say(std::string("ok ") + A::name());
        continue;
      }
      int d = -1, src = -1;
      is >> d;
      if (d < 0 || d > 3) { say("BAD slot"); continue; }
      std::string rest;
      std::getline(is, rest);
      size_t b = rest.find_first_not_of(' ');
      rest = b == std::string::npos ? "" : rest.substr(b);
      std::string status = "-", bad;
      try {
        if (w == "N") {
          kill(d);
          s[d].log.push_back(rest);
          s[d].p = fresh(rest, s[d].aux);
        } else if (w == "O") {
          if (!s[d].p) { say("BAD null slot"); continue; }
          if (s[d].moved && s[d].unobservable) { say("BAD moved-from object of a class without empty state"); continue; }
          status = A::apply(*s[d].p, s[d].aux, rest);
          s[d].log.push_back(rest);
          s[d].moved = false;
          // the same op at the end of a replay must answer the same
          Aux ra{};
          std::string last;
          T* r = rebuild(s[d].log, s[d].ebase, ra, last);
          delete r;
          if (last != status) bad = "STATUS-MISMATCH slot=" + std::to_string(d) + " got=" + status + " want=" + last;
        } else if (w == "Q") {  // an operation NOT followed by any read: lazily deferred work stays pending for the next line
          if (!s[d].p) { say("BAD null slot"); continue; }
          if (s[d].moved && s[d].unobservable) { say("BAD moved-from object of a class without empty state"); continue; }
          status = A::apply(*s[d].p, s[d].aux, rest);
          s[d].log.push_back(rest);
          s[d].moved = false;
          say("ok " + status + " | quiet");
          continue;
        } else if (w == "D") {
          kill(d);
        } else if (w == "P") {  // debugging aid: the dump itself
          say(s[d].p ? "dump " + A::dump(*s[d].p, s[d].aux, s[d].moved && OBSERVE_MOVED == 1) : "dump null");
          continue;
        } else if (w == "X") {  // destroy right after a last operation (no observation in between)
          if (s[d].p) { status = A::apply(*s[d].p, s[d].aux, rest); kill(d); }
        } else if (w == "CC" || w == "CA" || w == "MC" || w == "MA" || w == "SW") {
          std::istringstream is2(rest);
          is2 >> src;
          if (src < 0 || src > 3 || !s[src].p) { say("BAD source"); continue; }
          Slot& S = s[src];
          if (S.moved && w != "SW" && (!(OBSERVE_MOVED) || S.unobservable)) { say("BAD moved-from source"); continue; }
          if (w == "CC") {
            if (d == src) { say("BAD CC d d"); continue; }
            delete s[d].p;
            s[d].p = nullptr;
#if C15_SHALLOW
            s[d].p = S.p;  // deliberately wrong: alias
#else
            s[d].p = new T(*S.p);
#endif
            copy_meta(d, src);
          } else if (w == "MC") {
            if (d == src) { say("BAD MC d d"); continue; }
            delete s[d].p;
            s[d].p = nullptr;
            s[d].p = new T(std::move(*S.p));
            copy_meta(d, src);
            mark_moved(src);
          } else {
            if (!s[d].p) {  // a target is needed: a fresh object with the arguments of the source
              s[d].log.assign(1, S.log[0]);
              s[d].p = fresh(S.log[0], s[d].aux);
            }
            if (w == "CA") {
              if constexpr (std::is_copy_assignable<T>::value) *s[d].p = *S.p; else { say("BAD unsupported"); continue; }
              if (d != src) { copy_meta(d, src); }
            } else if (w == "MA") {
              if constexpr (std::is_move_assignable<T>::value) *s[d].p = std::move(*S.p); else { say("BAD unsupported"); continue; }
              if (d != src) {
                copy_meta(d, src);
                mark_moved(src);
              }
              // d == src: self-move-assignment; the property (and the standard library convention) only asks for a
              // valid object: it is treated as moved-from unless it still equals its recipe
              else if (!S.moved) {
                status = "selfmove";
                Aux ra{}; std::string last;
                T* r = rebuild(S.log, S.ebase, ra, last);
                std::string want = A::dump(*r, ra, false);
                delete r;
                if (!(OBSERVE_MOVED) || A::dump(*S.p, S.aux, false) != want) { mark_moved(src); status = "selfmove-emptied"; }
              }
            } else {
              if constexpr (std::is_swappable<T>::value) {
                using std::swap;
                swap(*s[d].p, *S.p);  // member/friend swap by ADL, else std::swap
              } else { say("BAD unsupported"); continue; }
              if (d != src) { T* a = s[d].p; T* b = S.p; std::swap(s[d], S); s[d].p = a; S.p = b; }
            }
          }
        } else { say("BAD command"); continue; }
      } catch (const std::exception& e) {
        say(std::string("HARNESS-EXC ") + e.what());
        continue;
      }
      if (!bad.empty()) { say(bad); continue; }
      std::string sum;
      try {
        bad = verify(sum);
      } catch (const std::exception& e) { bad = std::string("DUMP-EXC ") + e.what(); }
      say(bad.empty() ? "ok " + status + " |" + sum : bad);
    }
    for (int k = 0; k < 4; ++k) kill(k);
    say("END");
    return 0;
  }
};

}  // namespace c15
#endif
