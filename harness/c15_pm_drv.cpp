// C15 pair-mode harness for Gudhi::persistence_matrix::Matrix<Options> (see c15_pair.h for the protocol).
// One binary per option set.  -DBASE=1: general-purpose (base) matrix with the macros of c09_drv.cpp
//   COLT Z2 ROWS INTR_ROWS REM_ROWS MAPC SWAPS COMPR
// otherwise (-DBASE=0, default) the macros of pm_drv.cpp
//   COLT Z2 BOUNDARY IDX ROWS INTR_ROWS REM_ROWS REM_COLS MAPC PAIR VINE REP MAXDIM
// N arguments:  base: "<p> <NR> <B>" (characteristic, rows observed, column indices observed);  others: "<p>"
// ops (base):   IC r:v.. | RL | RC j | ADD s t | MTA s c t | MSA c s t | ZE c r | ZC c | SR a b | SC a b
// ops (others): I id dim r:v.. | RL | RM k | VS k | BC (reads the barcode: for a boundary-only matrix this reduces it)
//               | REP (update_representative_cycles)
//   k = filtration position; the harness keeps (in Aux) the cell identifier / dimension at each position like pm_drv.cpp.
//   SKIP = not available for the option set or outside the documented preconditions: nothing was called.
#include <iostream>
#include <sstream>
#include <string>
#include <vector>
#include <set>
#include <algorithm>
#include <gudhi/Matrix.h>
#include <gudhi/persistence_matrix_options.h>
#include <gudhi/Fields/Zp_field_operators.h>
#include "c15_pair.h"

using namespace Gudhi::persistence_matrix;

#ifndef BASE
#define BASE 0
#endif
#ifndef COLT
#define COLT INTRUSIVE_SET
#endif
#ifndef Z2
#define Z2 1
#endif
#ifndef BOUNDARY
#define BOUNDARY 1
#endif
#ifndef IDX
#define IDX CONTAINER
#endif
#ifndef ROWS
#define ROWS 0
#endif
#ifndef INTR_ROWS
#define INTR_ROWS 1
#endif
#ifndef REM_ROWS
#define REM_ROWS 0
#endif
#ifndef REM_COLS
#define REM_COLS 0
#endif
#ifndef MAPC
#define MAPC 0
#endif
#ifndef PAIR
#define PAIR 1
#endif
#ifndef VINE
#define VINE 0
#endif
#ifndef REP
#define REP 0
#endif
#ifndef MAXDIM
#define MAXDIM 0
#endif
#ifndef SWAPS
#define SWAPS 0
#endif
#ifndef COMPR
#define COMPR 0
#endif

#if BASE
struct Opt : Default_options<Column_types::COLT, Z2 != 0, Gudhi::persistence_fields::Zp_field_operators<> > {
  static const bool has_column_compression = COMPR;
  static const bool has_column_and_row_swaps = SWAPS;
  static const bool has_map_column_container = MAPC;
  static const bool has_removable_columns = MAPC;
  static const bool has_row_access = ROWS;
  static const bool has_intrusive_rows = INTR_ROWS;
  static const bool has_removable_rows = REM_ROWS;
};
#else
struct Opt : Default_options<Column_types::COLT, Z2 != 0, Gudhi::persistence_fields::Zp_field_operators<> > {
  static const Column_indexation_types column_indexation_type = Column_indexation_types::IDX;
  static const bool has_map_column_container = MAPC;
  static const bool has_removable_columns = REM_COLS;
  static const bool has_row_access = ROWS;
  static const bool has_intrusive_rows = INTR_ROWS;
  static const bool has_removable_rows = REM_ROWS;
  static const bool is_of_boundary_type = BOUNDARY;
  static const bool has_matrix_maximal_dimension_access = MAXDIM;
  static const bool has_column_pairings = PAIR;
  static const bool has_vine_update = VINE;
  static const bool can_retrieve_representative_cycles = REP;
};
#endif
typedef Matrix<Opt> M;
static const bool kIdent = Opt::column_indexation_type == Column_indexation_types::IDENTIFIER;
static const bool kPos = Opt::column_indexation_type == Column_indexation_types::POSITION;
static const bool kBoundaryOnly = !BASE && BOUNDARY && !VINE && !REP;
static const bool kRU = !BASE && BOUNDARY && (VINE || REP);

struct Aux {
  unsigned p = 2;
  // base
  unsigned NR = 0, B = 0, rowsSized = 0;
  // others
  std::vector<unsigned> order;  // cell ids by filtration position
  std::vector<int> dims;
  unsigned maxid = 0;
  bool reduced = false;   // boundary-only: the barcode has been read (lazy reduction done)
  bool repfresh = false;  // representative cycles updated and nothing modified since
};

static std::vector<std::pair<unsigned, unsigned> > parse_entries(std::istream& is) {
  std::vector<std::pair<unsigned, unsigned> > b;
  std::string t;
  while (is >> t) {
    size_t c = t.find(':');
    b.push_back({(unsigned)std::stoul(t.substr(0, c)), (unsigned)std::stoul(t.substr(c + 1))});
  }
  return b;
}
#if Z2
static std::vector<unsigned> to_range(const std::vector<std::pair<unsigned, unsigned> >& e) {
  std::vector<unsigned> r;
  for (auto& x : e) if (x.second % 2) r.push_back(x.first);
  return r;
}
#else
static std::vector<std::pair<unsigned, typename M::Element> > to_range(const std::vector<std::pair<unsigned, unsigned> >& e) {
  std::vector<std::pair<unsigned, typename M::Element> > r;
  for (auto& x : e) r.push_back({x.first, (typename M::Element)x.second});
  return r;
}
#endif
template <class E>
static std::string col_str(const std::vector<E>& v) {
  std::ostringstream os;
  for (size_t i = 0; i < v.size(); ++i)
    if (v[i] != 0) os << " " << i << ":" << (unsigned)v[i];
  return os.str();
}
template <class Row>
static std::string row_str(const Row& row, unsigned r) {
  std::vector<std::pair<unsigned, unsigned> > es;
  bool bad = false;
  for (const auto& e : row) {
    unsigned val = 1;
    if constexpr (!Opt::is_z2) val = (unsigned)e.get_element();
    es.push_back(std::make_pair((unsigned)e.get_column_index(), val));
    if (e.get_row_index() != r) bad = true;
  }
  std::sort(es.begin(), es.end());
  std::ostringstream os;
  for (size_t i = 0; i < es.size(); ++i) os << (i ? "," : "") << es[i].first << ":" << es[i].second;
  if (bad) os << "!rowindex";
  return os.str();
}

#if BASE
// ------------------------------------------------------------------------------------------------ base matrices
template <class MM>
static bool col_in_range(MM& m, unsigned j) {
  if (MAPC && !COMPR) return true;
  return j < m.get_number_of_columns();
}
struct Adapter {
  typedef M T;
  typedef ::Aux Aux;
  static const bool dump_mutates = false;
  static const char* name() { return "pm-base"; }
  static T* make(std::istream& is, Aux& a) {
    a = Aux();
    is >> a.p >> a.NR >> a.B;
    T* m = new T();
    m->set_characteristic(a.p);
    return m;
  }
  static T* make_empty(std::istream& is, Aux& a) { return make(is, a); }  // a fresh matrix (with its characteristic) is empty
  // (templates on the matrix type: the statements discarded by `if constexpr` must not be instantiated)
  static std::string apply(T& m, Aux& a, const std::string& line) { return apply_t<T>(m, a, line); }
  static std::string dump(T& m, Aux& a, bool restricted) { return dump_t<T>(m, a, restricted); }
  template <class MM>
  static std::string apply_t(MM& m, Aux& a, const std::string& line) {
    std::istringstream is(line);
    std::string w;
    is >> w;
    std::string status = "OK";
    try {
      if (w == "IC") {
        auto e = parse_entries(is);
        m.insert_column(to_range(e));
        if (!e.empty()) a.rowsSized = std::max(a.rowsSized, e.back().first + 1);
      } else if (w == "RC") {
        unsigned idx; is >> idx;
        if constexpr (Opt::has_map_column_container && !Opt::has_column_compression) m.remove_column(idx);
        else status = "SKIP";
      } else if (w == "RL") {
        if constexpr (!Opt::has_column_compression) { if (m.get_number_of_columns() > 0) m.remove_last(); else status = "SKIP"; }
        else status = "SKIP";
      } else if (w == "ADD") {
        unsigned s, t; is >> s >> t;
        if (!col_in_range(m, s) || !col_in_range(m, t)) status = "SKIP"; else m.add_to(s, t);
      } else if (w == "MTA") {
        unsigned s, t; int c; is >> s >> c >> t;
        if (!col_in_range(m, s) || !col_in_range(m, t)) status = "SKIP"; else m.multiply_target_and_add_to(s, c, t);
      } else if (w == "MSA") {
        unsigned s, t; int c; is >> c >> s >> t;
        if (!col_in_range(m, s) || !col_in_range(m, t)) status = "SKIP"; else m.multiply_source_and_add_to(c, s, t);
      } else if (w == "ZE") {
        unsigned c, r; is >> c >> r;
        if constexpr (!Opt::has_column_compression) { if (!col_in_range(m, c)) status = "SKIP"; else m.zero_entry(c, r); }
        else status = "SKIP";
      } else if (w == "ZC") {
        unsigned c; is >> c;
        if constexpr (!Opt::has_column_compression) { if (!col_in_range(m, c)) status = "SKIP"; else m.zero_column(c); }
        else status = "SKIP";
      } else if (w == "SR") {
        unsigned x, y; is >> x >> y;
        if constexpr (Opt::has_column_and_row_swaps && !Opt::has_column_compression) m.swap_rows(x, y);
        else status = "SKIP";
      } else if (w == "SC") {
        unsigned x, y; is >> x >> y;
        if constexpr (Opt::has_column_and_row_swaps && !Opt::has_column_compression) {
          if (!col_in_range(m, x) || !col_in_range(m, y)) status = "SKIP"; else m.swap_columns(x, y);
        } else status = "SKIP";
      } else status = "BADOP";
    } catch (const std::exception&) { status = "EXC"; }
    return status;
  }
  template <class MM>
  static std::string dump_t(MM& m, Aux& a, bool restricted) {
    std::ostringstream os;
    os << "N=" << m.get_number_of_columns();
    for (unsigned j = 0; j < a.B; ++j) {
      os << " C" << j << "=";
      if (!col_in_range(m, j)) { os << "A"; continue; }
      try {
        const auto& c = m.get_column(j);
        auto v = c.get_content((int)a.NR);
        for (size_t i = 0; i < v.size(); ++i) os << (i ? "," : "") << (unsigned)v[i];
        os << "/" << (m.is_zero_column(j) ? 1 : 0) << "/";
        for (unsigned r = 0; r < a.NR; ++r) os << (m.is_zero_entry(j, r) ? 1 : 0);
      } catch (const std::out_of_range&) { os << "A"; }
    }
    if constexpr (Opt::has_row_access) {
      // a moved-from Matrix has no row container at all (null pointer): rows are not read in the restricted dump
      if (!restricted) {
        for (unsigned r = 0; r < a.NR; ++r) {
          os << " R" << r << "=";
          if (!Opt::has_removable_rows && r >= a.rowsSized) continue;
          try {
            const auto& row = m.get_row(r);
            if constexpr (Opt::has_column_compression) {
              // entries carry the index of the stored representative of a class of identical columns: report the
              // smallest index with the same content
              std::vector<std::pair<unsigned, unsigned> > es;
              unsigned n = m.get_number_of_columns();
              for (const auto& e : row) {
                unsigned val = 1, cidx = (unsigned)e.get_column_index();
                if constexpr (!Opt::is_z2) val = (unsigned)e.get_element();
                if (cidx < n) {
                  auto ref = m.get_column(cidx).get_content((int)a.NR);
                  for (unsigned j = 0; j < n; ++j) if (m.get_column(j).get_content((int)a.NR) == ref) { cidx = j; break; }
                }
                es.push_back({cidx, val});
              }
              std::sort(es.begin(), es.end());
              for (size_t i = 0; i < es.size(); ++i) os << (i ? "," : "") << es[i].first << ":" << es[i].second;
            } else os << row_str(row, r);
          } catch (const std::out_of_range&) {}
        }
      }
    }
    return os.str();
  }
};
#else
// ------------------------------------------------------------------------------------------------ boundary / RU / chain
template <class MM>
static unsigned acc(MM& m, Aux& a, unsigned k) {
  if constexpr (Opt::is_of_boundary_type) {
    return kIdent ? a.order[k] : k;
  } else {
    if (kIdent) return a.order[k];
    if (kPos) return k;
    return m.get_column_with_pivot(a.order[k]);
  }
}
static std::string bar_str(const typename M::Barcode& bc) {
  std::vector<std::vector<long> > v;
  for (const auto& b : bc)
    v.push_back({(long)b.dim, b.birth == (unsigned)-1 ? -1 : (long)b.birth, b.death == (unsigned)-1 ? -1 : (long)b.death});
  std::sort(v.begin(), v.end());
  std::ostringstream os;
  for (auto& x : v) os << " " << x[0] << ":" << x[1] << ":" << x[2];
  return os.str();
}
struct Adapter {
  typedef M T;
  typedef ::Aux Aux;
  static const bool dump_mutates = false;
  static const char* name() { return kBoundaryOnly ? "pm-boundary" : kRU ? "pm-ru" : "pm-chain"; }
  static T* make(std::istream& is, Aux& a) {
    a = Aux();
    is >> a.p;
    T* m = new T();
    if constexpr (!Opt::is_z2) m->set_characteristic(a.p);
    return m;
  }
  static T* make_empty(std::istream& is, Aux& a) { return make(is, a); }  // a fresh matrix (with its characteristic) is empty
  // (templates on the matrix type: the statements discarded by `if constexpr` must not be instantiated)
  static std::string apply(T& m, Aux& a, const std::string& line) { return apply_t<T>(m, a, line); }
  static std::string dump(T& m, Aux& a, bool restricted) { return dump_t<T>(m, a, restricted); }
  template <class MM>
  static std::string apply_t(MM& m, Aux& a, const std::string& line) {
    std::istringstream is(line);
    std::string w;
    is >> w;
    std::ostringstream st;
    try {
      if (w == "I") {
        unsigned id; int dim; is >> id >> dim;
        auto e = parse_entries(is);
        if (kBoundaryOnly && a.reduced) return "SKIP";   // documented: no insertion once the barcode was read
        m.insert_boundary(id, to_range(e), dim);
        a.order.push_back(id); a.dims.push_back(dim); a.maxid = std::max(a.maxid, id);
        a.repfresh = false;
        st << "OK";
      } else if (w == "RL") {
        if constexpr (Opt::has_removable_columns && (Opt::is_of_boundary_type || Opt::has_map_column_container || !Opt::has_vine_update)) {
          if (a.order.empty()) return "SKIP";
          m.remove_last(); a.order.pop_back(); a.dims.pop_back(); a.repfresh = false;
          st << "OK";
        } else return "SKIP";
      } else if (w == "RM") {
        unsigned k; is >> k;
        if constexpr (Opt::has_removable_columns && Opt::has_vine_update && (Opt::is_of_boundary_type || (Opt::has_map_column_container && Opt::has_column_pairings))) {
          if (k >= a.order.size()) return "SKIP";
          if constexpr (Opt::is_of_boundary_type) m.remove_maximal_cell(acc(m, a, k));
          else if constexpr (Opt::column_indexation_type == Column_indexation_types::POSITION) m.remove_maximal_cell(k);
          else m.remove_maximal_cell(a.order[k]);
          a.order.erase(a.order.begin() + k); a.dims.erase(a.dims.begin() + k); a.repfresh = false;
          st << "OK";
        } else return "SKIP";
      } else if (w == "VS") {
        unsigned k; is >> k;
        if constexpr (Opt::has_vine_update) {
          if (k + 1 >= a.order.size()) return "SKIP";
          if constexpr (Opt::is_of_boundary_type ? (Opt::column_indexation_type != Column_indexation_types::IDENTIFIER) : (Opt::column_indexation_type == Column_indexation_types::POSITION)) {
            bool r = m.vine_swap(k);
            st << "SWAP bool " << (r ? 1 : 0);
          } else {
            unsigned a1 = acc(m, a, k), a2 = acc(m, a, k + 1);
            unsigned r = m.vine_swap(a1, a2);
            st << "SWAP idx " << r << " of " << a1 << " " << a2;
          }
          std::swap(a.order[k], a.order[k + 1]); std::swap(a.dims[k], a.dims[k + 1]); a.repfresh = false;
        } else return "SKIP";
      } else if (w == "BC") {
        if constexpr (Opt::has_column_pairings) {
          st << "BC" << bar_str(m.get_current_barcode());
          a.reduced = true;
        } else return "SKIP";
      } else if (w == "REP") {
        if constexpr (Opt::can_retrieve_representative_cycles) {
          m.update_representative_cycles();
          a.repfresh = true;
          st << "OK";
        } else return "SKIP";
      } else return "BADOP";
    } catch (const std::exception&) { return "EXC"; }
    return st.str();
  }
  template <class MM>
  static std::string dump_t(MM& m, Aux& a, bool restricted) {
    std::ostringstream os;
    unsigned n = a.order.size();
    os << "NCOL " << m.get_number_of_columns() << " " << n;
    if constexpr (Opt::has_matrix_maximal_dimension_access) os << " MAXDIM " << m.get_max_dimension();
    if constexpr (Opt::has_column_pairings) {
      if (!kBoundaryOnly || a.reduced) os << " BAR" << bar_str(m.get_current_barcode());
    }
    std::set<unsigned> rowsR, rowsU;
    for (unsigned k = 0; k < n; ++k) {
      os << " | COL " << k;
      unsigned x = 0;
      try { x = acc(m, a, k); } catch (const std::exception&) { os << " EXC-ACC"; continue; }
      try {
        os << " id " << a.order[k] << " dim " << m.get_column_dimension(x);
        os << " piv " << (long)((m.get_pivot(x) == (unsigned)-1) ? -1 : (long)m.get_pivot(x));
        os << " zero " << (m.is_zero_column(x) ? 1 : 0);
        if constexpr (kRU && Opt::column_indexation_type != Column_indexation_types::IDENTIFIER) {
          auto r = m.get_column(x, true).get_content(a.maxid + 1);
          auto u = m.get_column(x, false).get_content(a.maxid + 1);
          for (size_t i = 0; i < r.size(); ++i) if (r[i] != 0) rowsR.insert(i);
          for (size_t i = 0; i < u.size(); ++i) if (u[i] != 0) rowsU.insert(i);
          os << " R:" << col_str(r) << " U:" << col_str(u);
        } else {
          auto r = m.get_column(x).get_content(a.maxid + 1);
          for (size_t i = 0; i < r.size(); ++i) if (r[i] != 0) rowsR.insert(i);
          os << " R:" << col_str(r);
        }
        if constexpr (!Opt::is_of_boundary_type || Opt::has_vine_update || Opt::can_retrieve_representative_cycles) {
          unsigned piv = m.get_pivot(x);
          if (piv != (unsigned)-1) os << " cwp " << m.get_column_with_pivot(piv) << " self " << x;
        }
      } catch (const std::exception& e) { os << " EXC " << e.what(); }
    }
    if constexpr (Opt::has_row_access) {
      // rows: every row that holds an entry of an observed column, and (removable rows: checked access) every
      // identifier up to the largest one; never on a moved-from matrix in the restricted dump (null row container)
      if (!restricted) {
        if constexpr (Opt::has_removable_rows) for (unsigned r = 0; r <= a.maxid && n > 0; ++r) { rowsR.insert(r); if (kRU) rowsU.insert(r); }
        for (unsigned r : rowsR) {
          os << " | ROW " << r << " ";
          try {
            if constexpr (kRU && Opt::column_indexation_type != Column_indexation_types::IDENTIFIER) os << row_str(m.get_row(r, true), r);
            else os << row_str(m.get_row(r), r);
          } catch (const std::out_of_range&) {}  // removable rows: an absent row and an empty row are the same observation
        }
        if constexpr (kRU && Opt::column_indexation_type != Column_indexation_types::IDENTIFIER) {
          for (unsigned r : rowsU) {
            os << " | UROW " << r << " ";
            try { os << row_str(m.get_row(r, false), r); } catch (const std::out_of_range&) {}
          }
        }
      }
    }
    if constexpr (Opt::can_retrieve_representative_cycles) {
      if (a.repfresh) {
        std::vector<std::string> cs;
        for (const auto& c : m.get_representative_cycles()) {
          std::vector<unsigned> v(c.begin(), c.end());
          std::ostringstream o;
          for (auto x : v) o << " " << x;
          cs.push_back(o.str());
        }
        std::sort(cs.begin(), cs.end());
        os << " | CYCLES";
        for (auto& c : cs) os << " [" << c << " ]";
        if constexpr (Opt::has_column_pairings) {
          std::vector<std::string> bs;
          for (const auto& b : m.get_current_barcode()) {
            std::ostringstream o;
            o << b.dim << ":" << (long)(b.birth == (unsigned)-1 ? -1 : (long)b.birth) << ":" << (long)(b.death == (unsigned)-1 ? -1 : (long)b.death) << "=";
            for (auto x : m.get_representative_cycle(b)) o << " " << x;
            bs.push_back(o.str());
          }
          std::sort(bs.begin(), bs.end());
          for (auto& c : bs) os << " {" << c << " }";
        }
      }
    }
    return os.str();
  }
};
#endif

int main() {
  c15::Driver<Adapter> d;
  return d.run();
}
