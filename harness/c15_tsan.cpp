// C15, thread part (compiled with -fsanitize=thread): 8 threads, each owning its objects, all reading the same CONST
// data (a list of simplices, a const Simplex_tree, a const boundary list, a const Matrix).  Every thread builds, copies,
// moves, swaps, mutates, destroys, serialises and deserialises its own objects and computes a checksum; the checksums
// must equal the one computed sequentially beforehand.  Only const member functions without a mutable cache are
// called on the shared objects (copy construction, serialize, get_serialization_size, num_simplices, find):
// dimension(), filtration_simplex_range() are documented as not thread safe.
// argv[1] = seed.  stdout: "sum <n> ... ok" or "MISMATCH".
#include <algorithm>
#include <cstdint>
#include <cstdlib>
#include <iostream>
#include <thread>
#include <utility>
#include <vector>
#include <gudhi/Simplex_tree.h>
#include <gudhi/Matrix.h>
#include <gudhi/persistence_matrix_options.h>
#include <gudhi/Toplex_map.h>

using namespace Gudhi;
typedef Simplex_tree<Simplex_tree_options_full_featured> ST;
typedef Simplex_tree<Simplex_tree_options_default> ST0;

struct RUopt : persistence_matrix::Default_options<persistence_matrix::Column_types::INTRUSIVE_SET, true> {
  static const bool has_column_pairings = true;
  static const bool has_vine_update = true;
  static const bool has_row_access = true;
  static const bool has_intrusive_rows = true;
  static const bool can_retrieve_representative_cycles = true;
};
struct CHopt : persistence_matrix::Default_options<persistence_matrix::Column_types::INTRUSIVE_LIST, true> {
  static const bool is_of_boundary_type = false;
  static const bool has_column_pairings = true;
  static const bool has_vine_update = true;
  static const bool has_row_access = true;
  static const persistence_matrix::Column_indexation_types column_indexation_type = persistence_matrix::Column_indexation_types::POSITION;
};
typedef persistence_matrix::Matrix<RUopt> RU;
typedef persistence_matrix::Matrix<CHopt> CH;

typedef std::vector<std::pair<std::vector<int>, double>> Simplices;
typedef std::vector<std::pair<std::vector<unsigned>, int>> Boundaries;

template <class T>
static uint64_t tree_sum(const T& st) {
  uint64_t h = 1469598103934665603ull;
  for (auto sh : st.complex_simplex_range()) {
    for (auto v : st.simplex_vertex_range(sh)) h = (h ^ (uint64_t)(v + 17)) * 1099511628211ull;
    h = (h ^ (uint64_t)(long long)st.filtration(sh)) * 1099511628211ull;
  }
  return h ^ st.num_simplices();
}
template <class M>
static uint64_t bar_sum(M& m) {
  uint64_t h = 7;
  std::vector<uint64_t> v;
  for (const auto& b : m.get_current_barcode()) v.push_back(((uint64_t)b.dim << 40) ^ ((uint64_t)b.birth << 20) ^ (uint64_t)(b.death == (unsigned)-1 ? 0xFFFFF : b.death));
  std::sort(v.begin(), v.end());
  for (auto x : v) h = (h ^ x) * 1099511628211ull;
  return h ^ m.get_number_of_columns();
}

template <class T>
static uint64_t tree_work(const Simplices& data, const T& shared, unsigned seed) {
  uint64_t acc = 0;
  for (int round = 0; round < 6; ++round) {
    T a;
    for (size_t i = 0; i < data.size(); ++i)
      if ((i + round) % 5 != 0) a.insert_simplex_and_subfaces(data[i].first, data[i].second);
    {                                         // the same complex simplex by simplex (insert_simplex, faces first)
      std::vector<std::pair<std::vector<typename T::Vertex_handle>, typename T::Filtration_value>> all;
      for (auto sh : a.complex_simplex_range()) {
        std::vector<typename T::Vertex_handle> vs;
        for (auto v : a.simplex_vertex_range(sh)) vs.push_back(v);
        all.emplace_back(vs, a.filtration(sh));
      }
      std::stable_sort(all.begin(), all.end(), [](const auto& x, const auto& y) { return x.first.size() < y.first.size(); });
      T f;
      for (auto& s : all) f.insert_simplex(s.first, s.second);
      acc += 13 * tree_sum(f) + (f == a ? 1 : 0);
    }
    T b(a);                                   // copy-construct
    T c(shared);                              // copy from the shared const tree
    T d;
    d = b;                                    // copy-assign
    T e(std::move(b));                        // move-construct
    b = c;                                    // assign to the moved-from object
    std::swap(c, d);
    a.prune_above_filtration(3);              // diverge
    e.prune_above_dimension(1);
    acc += tree_sum(a) + 3 * tree_sum(b) + 5 * tree_sum(c) + 7 * tree_sum(d) + 11 * tree_sum(e);
    // serialise own and shared, deserialise into fresh trees
    for (const T* src : std::vector<const T*>{&a, &shared, &e}) {
      size_t n = src->get_serialization_size();
      char* buf = new char[n];
      src->serialize(buf, n);
      T r;
      r.deserialize(buf, n);
      acc += 13 * tree_sum(r) + (r == *src ? 1 : 0);
      try { T bad; bad.deserialize(buf, n - 1 - (seed + round) % 3); acc += 1000003; } catch (const std::invalid_argument&) { acc += 17; }
      delete[] buf;
    }
    d = std::move(e);                         // move-assign, then destroy in different orders
    acc += tree_sum(d);
  }
  return acc;
}

template <class M>
static uint64_t matrix_work(const Boundaries& bd, const M& shared) {
  uint64_t acc = 0;
  for (int round = 0; round < 4; ++round) {
    M* a = new M();
    for (size_t i = 0; i + round < bd.size(); ++i) a->insert_boundary((unsigned)i, bd[i].first, bd[i].second);
    M b(*a);                                  // copy
    M c(shared);                              // copy of the shared const matrix
    M d(std::move(*a));                       // move
    delete a;                                 // destroy the moved-from original
    M e; e = b;                               // assign
    swap(c, e);
    // diverge: vine swaps of two adjacent vertices (positions 0 and 1 are vertices in the data)
    b.vine_swap(0);
    d.vine_swap(1);
    acc += bar_sum(b) + 3 * bar_sum(c) + 5 * bar_sum(d) + 7 * bar_sum(e);
  }
  return acc;
}

static uint64_t toplex_work(const Simplices& data) {
  uint64_t acc = 0;
  Toplex_map t;
  for (auto& p : data) t.insert_simplex(p.first);
  Toplex_map u(t);
  Toplex_map w(std::move(t));
  u.remove_simplex(data[0].first);
  acc += u.num_maximal_simplices() * 31 + w.num_maximal_simplices() * 7 + u.num_vertices();
  return acc;
}

int main(int argc, char** argv) {
  unsigned seed = argc > 1 ? (unsigned)atoi(argv[1]) : 1;
  Simplices data;
  unsigned s = seed * 2654435761u + 1;
  auto rnd = [&](unsigned m) { s = s * 1103515245u + 12345u; return (s >> 16) % m; };
  for (int i = 0; i < 40; ++i) {
    std::vector<int> v;
    int k = 1 + rnd(4);
    while ((int)v.size() < k) { int x = rnd(12); if (std::find(v.begin(), v.end(), x) == v.end()) v.push_back(x); }
    std::sort(v.begin(), v.end());
    data.emplace_back(v, (double)rnd(7));
  }
  // a small filtered complex as boundary list: 4 vertices, 5 edges, 2 triangles
  Boundaries bd = {{{}, 0}, {{}, 0}, {{}, 0}, {{}, 0}, {{0, 1}, 1}, {{1, 2}, 1}, {{0, 2}, 1}, {{4, 5, 6}, 2}, {{2, 3}, 1}, {{1, 3}, 1}, {{5, 8, 9}, 2}};
  ST shared1; ST0 shared0;
  for (auto& p : data) { shared1.insert_simplex_and_subfaces(p.first, p.second); shared0.insert_simplex_and_subfaces(p.first, p.second); }
  RU sharedRU; CH sharedCH;
  for (size_t i = 0; i < bd.size(); ++i) { sharedRU.insert_boundary((unsigned)i, bd[i].first, bd[i].second); sharedCH.insert_boundary((unsigned)i, bd[i].first, bd[i].second); }
  const ST& cs1 = shared1; const ST0& cs0 = shared0; const RU& cru = sharedRU; const CH& cch = sharedCH; const Simplices& cdata = data; const Boundaries& cbd = bd;
  auto job = [&](unsigned) -> uint64_t {
    return tree_work<ST>(cdata, cs1, seed) + 3 * tree_work<ST0>(cdata, cs0, seed) + 5 * matrix_work<RU>(cbd, cru) + 7 * matrix_work<CH>(cbd, cch) + toplex_work(cdata);
  };
  uint64_t want = job(0);
  const int NT = 8;
  std::vector<uint64_t> got(NT, 0);
  std::vector<std::thread> th;
  for (int t = 0; t < NT; ++t) th.emplace_back([&, t] { got[t] = job(t); });
  for (auto& t : th) t.join();
  bool ok = true;
  for (int t = 0; t < NT; ++t) if (got[t] != want) ok = false;
  std::cout << "sum " << want << (ok ? " ok" : " MISMATCH") << std::endl;
  return ok ? 0 : 3;
}
