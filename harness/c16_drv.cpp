// C16 harness: drives Gudhi::Toplex_map (eager) and Gudhi::Lazy_toplex_map (lazy) with the same history and prints,
// after EVERY operation, the whole observable state of both through the public API only.
//
// input lines
//   G l0 l1 ... l(n-1)        new case: fresh maps; the queried universe is these n <= 7 labels (ascending)
//   I v...                    insert_simplex(range as given: may be unsorted / contain repeats)
//   R v...                    remove_simplex
//   V x                       eager: remove_vertex(x); lazy (no such member): remove_simplex({x})
//   C x y                     contraction(x, y)
//   F k                       filler: insert k disjoint edges on fresh labels (far outside the universe) into the LAZY map only,
//                             so that its deferred cleaning (size threshold) really runs; must be invisible on the universe
// output: one line per input line
//   G ...  -> "ok"
//   op     -> "E <ret> nv=<n> nm=<n> max=<masks> mem=<bits> mx=<bits> cof=<masks;masks;...> lim=<0|1> || L <ret> nv=<n> size=<n> mem=<bits> e=<0|1>"
// A simplex over the universe is printed as the bit mask of its label indices; sets of simplices are sorted.
// bits strings are indexed by mask 0..2^n-1 (mask 0 = the empty vertex set).
#include <gudhi/Toplex_map.h>
#include <gudhi/Lazy_toplex_map.h>
#include <algorithm>
#include <memory>
#include <sstream>
#include <string>
#include <vector>
#include "common.h"

using Vertex = Gudhi::Toplex_map::Vertex;
using Simplex = Gudhi::Toplex_map::Simplex;
static std::vector<Vertex> U;

static std::string mask_of(const Simplex& s) {
  unsigned m = 0;
  for (Vertex v : s) {
    auto it = std::find(U.begin(), U.end(), v);
    if (it == U.end()) return "?" + std::to_string(v);
    m |= 1u << (it - U.begin());
  }
  return std::to_string(m);
}
static std::vector<Vertex> set_of(unsigned m) {
  std::vector<Vertex> r;
  for (size_t i = 0; i < U.size(); i++)
    if (m >> i & 1) r.push_back(U[i]);
  return r;
}
static std::string masks(const Gudhi::Toplex_map::Simplex_ptr_set& ps) {
  std::vector<std::string> v;
  std::vector<unsigned long> num;
  for (const auto& p : ps) v.push_back(mask_of(*p));
  std::sort(v.begin(), v.end(), [](const std::string& a, const std::string& b) { return a.size() != b.size() ? a.size() < b.size() : a < b; });
  std::string s;
  for (size_t i = 0; i < v.size(); i++) s += (i ? "," : "") + v[i];
  return s.empty() ? "-" : s;
}

int main() {
  vh::install();
  std::unique_ptr<Gudhi::Toplex_map> E;
  std::unique_ptr<Gudhi::Lazy_toplex_map> L;
  std::string line;
  unsigned long long filler_next = 1ull << 40;
  std::size_t fillers = 0;
  char buf[1 << 16];
  while (fgets(buf, sizeof buf, stdin)) {
    line = buf;
    std::istringstream is(line);
    std::string op;
    is >> op;
    std::vector<Vertex> a;
    unsigned long long x;
    while (is >> x) a.push_back((Vertex)x);
    if (op == "G") {
      U = a;
      fillers = 0;
      E.reset(new Gudhi::Toplex_map());
      L.reset(new Gudhi::Lazy_toplex_map());
      vh::emit("ok");
      continue;
    }
    if (!E) { vh::emit("nogroup"); continue; }
    std::string re = "-", rl = "-";
    if (op == "F") {
      try {
        for (unsigned long long i = 0; i < (a.empty() ? 0 : a[0]); i++) {
          std::vector<Vertex> e{(Vertex)filler_next, (Vertex)(filler_next + 1)};
          filler_next += 2;
          L->insert_simplex(e);
          fillers++;
        }
      } catch (const std::exception&) { rl = "EXC"; }
    }
    try {
      if (op == "F") {}
      else if (op == "I") E->insert_simplex(a);
      else if (op == "R") E->remove_simplex(a);
      else if (op == "V") E->remove_vertex(a.at(0));
      else if (op == "C") re = std::to_string(E->contraction(a.at(0), a.at(1)));
      else re = "badop";
    } catch (const std::exception&) { re = "EXC"; }
    try {
      if (op == "F") {}
      else if (op == "I") L->insert_simplex(a);
      else if (op == "R") { L->remove_simplex(a); if (a.empty()) fillers = 0; /* the empty simplex clears the map */ }
      else if (op == "V") { std::vector<Vertex> s{a.at(0)}; L->remove_simplex(s); }
      else if (op == "C") rl = std::to_string(L->contraction(a.at(0), a.at(1)));
      else rl = "badop";
    } catch (const std::exception&) { rl = "EXC"; }
    unsigned N = 1u << U.size();
    std::string o = "E " + re;
    try {
      o += " nv=" + std::to_string(E->num_vertices()) + " nm=" + std::to_string(E->num_maximal_simplices());
      o += " max=" + masks(E->maximal_simplices());
      std::string mem, mx, cof;
      bool lim = true;
      for (unsigned m = 0; m < N; m++) {
        auto s = set_of(m);
        mem += E->membership(s) ? '1' : '0';
        mx += E->maximality(s) ? '1' : '0';
        auto c = E->maximal_cofaces(s);
        cof += (m ? ";" : "") + masks(c);
        for (std::size_t k = 1; k <= 2; k++) {
          auto ck = E->maximal_cofaces(s, k);
          if (ck.size() != std::min<std::size_t>(k, c.size())) lim = false;
          for (const auto& p : ck) if (!c.count(p)) lim = false;
        }
      }
      o += " mem=" + mem + " mx=" + mx + " cof=" + cof + " lim=" + (lim ? "1" : "0");
    } catch (const std::exception&) { o += " QEXC"; }
    o += " || L " + rl;
    try {
      std::string mem;
      for (unsigned m = 1; m < N; m++) mem += L->membership(set_of(m)) ? '1' : '0';
      bool e = L->membership(set_of(0));
      o += " nv=" + std::to_string(L->num_vertices() - 2 * fillers) + " size=" + std::to_string(L->num_maximal_simplices() - fillers);
      o += " mem=x" + mem + " e=" + (e ? "1" : "0");
    } catch (const std::exception&) { o += " QEXC"; }
    vh::emit(o);
  }
  vh::flush();
  return 0;
}
