// C17 harness: drives Gudhi::skeleton_blocker::Skeleton_blocker_complex<Skeleton_blocker_simple_traits> through its
// public API.  One input line = one operation; one output line = the whole observable state after it.
//   H <name>            new history (fresh empty complex)              -> "ok"
//   av                  add_vertex()
//   ae a b              add_edge(a,b)                 (edge + blockers on the triangles it would close)
//   aw a b              add_edge_without_blockers(a,b)
//   as v..              add_simplex({v..})
//   ab v..              add_blocker({v..})            (public; used to set up "arbitrary 1-skeleta and blocker sets")
//   rv v                remove_star(Vertex_handle v)
//   re a b              remove_star(a,b)
//   rs v..              remove_star(Simplex{v..})     (dispatches on the dimension)
//   ce a b              contract_edge(a,b) of an edge
//   ci a b              contract_edge(a,b) of two non-adjacent vertices (identification)
//   mk n ; f1 ; f2 ..   make_complex_from_top_faces (constructor from a simplex list, blockers computed by the tries)
//   lk v..              observe link(Simplex{v..}) (the complex is not modified): answer
//                       "LK V=<ids> E=<edges> B=<blockers of the link> R=<subsets of the link vertices accepted by contains()>"
//   cp                  replace the complex by a copy of itself (copy constructor), state must be unchanged
// answer: "nv=<num_vertices> ne=<num_edges> nb=<num_blockers> V=<active vertices> E=<edges> B=<blocker_range, sorted>
//          S=<hex mask of contains() over all non-empty subsets of the vertex slots> ns=<num_simplices>
//          R=<complex_simplex_range, sorted, with multiplicities> cc=<num_connected_components> LC=<edges a-b with link_condition>"
#include <gudhi/Skeleton_blocker.h>
#include <algorithm>
#include <iostream>
#include <memory>
#include <sstream>
#include <string>
#include <vector>
#include <sys/time.h>
#include "common.h"

using namespace Gudhi::skeleton_blocker;
typedef Skeleton_blocker_complex<Skeleton_blocker_simple_traits> Complex;
typedef Complex::Vertex_handle Vertex_handle;
typedef Complex::Simplex Simplex;

static std::string vs(const std::vector<int>& v) {
  std::string s;
  for (size_t i = 0; i < v.size(); ++i) { if (i) s += '.'; s += std::to_string(v[i]); }
  return s;
}
static std::vector<int> verts(const Simplex& s) { std::vector<int> v; for (auto x : s) v.push_back(x.vertex); return v; }
static Simplex mk(const std::vector<int>& v) { Simplex s; for (int x : v) s.add_vertex(Vertex_handle(x)); return s; }
static std::string join_sorted(std::vector<std::vector<int>>& l) {
  std::sort(l.begin(), l.end(), [](const std::vector<int>& a, const std::vector<int>& b) {
    if (a.size() != b.size()) return a.size() < b.size(); return a < b; });
  std::string s;
  for (size_t i = 0; i < l.size(); ++i) { if (i) s += ','; s += vs(l[i]); }
  return s.empty() ? "-" : s;
}

static std::string dump(const Complex& c, int nslots) {
  std::ostringstream o;
  o << "nv=" << c.num_vertices() << " ne=" << c.num_edges() << " nb=" << c.num_blockers();
  std::vector<std::vector<int>> V, E, B, R, LC;
  for (auto v : c.vertex_range()) V.push_back({v.vertex});
  for (auto e : c.edge_range()) {
    int a = c.first_vertex(e).vertex, b = c.second_vertex(e).vertex;
    E.push_back({std::min(a, b), std::max(a, b)});
  }
  for (auto b : c.const_blocker_range()) B.push_back(verts(*b));
  o << " V=" << join_sorted(V) << " E=" << join_sorted(E) << " B=" << join_sorted(B);
  // contains() on every non-empty subset of the slots 0..nslots-1, as a hex string (subset m -> bit m-1)
  std::string hex;
  unsigned acc = 0; int nb = 0;
  for (unsigned m = 1; m < (1u << nslots); ++m) {
    std::vector<int> v;
    for (int i = 0; i < nslots; ++i) if (m & (1u << i)) v.push_back(i);
    bool in = c.contains(mk(v));
    acc |= (in ? 1u : 0u) << nb; ++nb;
    if (nb == 4) { hex += "0123456789abcdef"[acc]; acc = 0; nb = 0; }
  }
  if (nb) hex += "0123456789abcdef"[acc];
  o << " S=" << (hex.empty() ? "-" : hex);
  o << " ns=" << c.num_simplices();
  for (const auto& s : c.complex_simplex_range()) R.push_back(verts(s));
  o << " R=" << join_sorted(R);
  o << " cc=" << c.num_connected_components();
  for (auto e : c.edge_range()) {
    int a = c.first_vertex(e).vertex, b = c.second_vertex(e).vertex;
    bool l1 = c.link_condition(Vertex_handle(a), Vertex_handle(b));
    bool l2 = c.link_condition(e);
    if (l1 != l2) LC.push_back({-1, std::min(a, b), std::max(a, b)});
    if (l1) LC.push_back({std::min(a, b), std::max(a, b)});
  }
  o << " LC=" << join_sorted(LC);
  return o.str();
}

static std::string dump_link(const Complex& c, const Simplex& alpha) {
  typedef Complex::Link_complex Link;
  Link l = c.link(alpha);
  std::vector<int> ids; std::vector<Vertex_handle> addr;
  for (auto v : l.vertex_range()) { addr.push_back(v); ids.push_back(l.get_id(v).vertex); }
  std::vector<std::vector<int>> V, E, B, R;
  for (int i : ids) V.push_back({i});
  for (auto e : l.edge_range()) {
    int a = l.get_id(l.first_vertex(e)).vertex, b = l.get_id(l.second_vertex(e)).vertex;
    E.push_back({std::min(a, b), std::max(a, b)});
  }
  for (auto b : l.const_blocker_range()) {
    std::vector<int> v; for (auto x : *b) v.push_back(l.get_id(x).vertex); std::sort(v.begin(), v.end()); B.push_back(v);
  }
  size_t n = ids.size();
  if (n > 10) return "LK TOO-BIG";
  for (unsigned m = 1; m < (1u << n); ++m) {
    Simplex s; std::vector<int> v;
    for (size_t i = 0; i < n; ++i) if (m & (1u << i)) { s.add_vertex(addr[i]); v.push_back(ids[i]); }
    std::sort(v.begin(), v.end());
    if (l.contains(s)) R.push_back(v);
  }
  std::ostringstream o;
  o << "LK nv=" << l.num_vertices() << " ne=" << l.num_edges() << " nb=" << l.num_blockers() << " V=" << join_sorted(V)
    << " E=" << join_sorted(E) << " B=" << join_sorted(B) << " R=" << join_sorted(R);
  return o.str();
}

int main() {
  vh::install();
  std::ios::sync_with_stdio(false);
  std::unique_ptr<Complex> c(new Complex());
  std::string line;
  // silence the library's chatter on cerr/clog
  std::cerr.setstate(std::ios::failbit);
  std::clog.setstate(std::ios::failbit);
  // watchdog: a history that burns more than 6 s of CPU time (not wall time: the machine may be loaded) is reported as a crash
  signal(SIGVTALRM, vh::on_crash);
  bool skipping = true;   // after a restart in the middle of a history: answer SKIP until the next history starts
  while (std::getline(std::cin, line)) {
    std::istringstream in(line);
    std::string op;
    in >> op;
    if (op.empty()) { vh::emit("ok"); continue; }
    if (op == "H") { c.reset(new Complex()); skipping = false; { struct itimerval it = {{0, 0}, {6, 0}}; setitimer(ITIMER_VIRTUAL, &it, nullptr); } vh::emit("ok"); continue; }
    if (skipping) { vh::emit("SKIP"); continue; }
    std::vector<int> a;
    std::string ans;
    try {
      if (op == "mk") {
        int n; in >> n;
        std::vector<Simplex> tops;
        std::string tok;
        std::vector<int> cur;
        while (in >> tok) {
          if (tok == ";") { if (!cur.empty()) tops.push_back(mk(cur)); cur.clear(); }
          else cur.push_back(std::stoi(tok));
        }
        if (!cur.empty()) tops.push_back(mk(cur));
        for (int i = 0; i < n; ++i) tops.push_back(mk({i}));
        c.reset(new Complex(make_complex_from_top_faces<Complex>(tops.begin(), tops.end(), false)));
      } else {
        int x;
        while (in >> x) a.push_back(x);
        if (op == "lk") { vh::emit(dump_link(*c, mk(a))); continue; }
        if (op == "av") c->add_vertex();
        else if (op == "ae") c->add_edge(Vertex_handle(a.at(0)), Vertex_handle(a.at(1)));
        else if (op == "aw") c->add_edge_without_blockers(Vertex_handle(a.at(0)), Vertex_handle(a.at(1)));
        else if (op == "as") c->add_simplex(mk(a));
        else if (op == "ab") c->add_blocker(mk(a));
        else if (op == "rv") c->remove_star(Vertex_handle(a.at(0)));
        else if (op == "re") c->remove_star(Vertex_handle(a.at(0)), Vertex_handle(a.at(1)));
        else if (op == "rs") c->remove_star(mk(a));
        else if (op == "ce" || op == "ci") c->contract_edge(Vertex_handle(a.at(0)), Vertex_handle(a.at(1)));
        else if (op == "cp") { std::unique_ptr<Complex> d(new Complex(*c)); bool eq = (*d == *c); c = std::move(d); if (!eq) ans = "COPY-NOT-EQUAL "; }
        else { vh::emit("BADOP"); continue; }
      }
      // number of vertex slots = largest index ever created + 1: probe contains_vertex upward is not enough (inactive
      // slots), so count through the public vertex handles: slots are numbered by add_vertex, we track the maximum
      static int dummy = 0; (void)dummy;
      int nslots = 0;
      { // add_vertex returns the next slot; we do not want to modify the complex, so use a copy
        Complex tmp(*c); nslots = tmp.add_vertex().vertex; }
      if (nslots > 10) { vh::emit("TOO-MANY-SLOTS"); continue; }
      ans += dump(*c, nslots);
    } catch (const std::exception& e) {
      ans = std::string("EXC ") + e.what();
    }
    vh::emit(ans);
  }
  vh::flush();
  return 0;
}
