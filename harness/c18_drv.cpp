// C18 harness: drives Persistence_landscape / Persistence_landscape_on_grid through their public interface.
// One answer line per input line; every double is printed as an exact rational (n or n/2^k).
//   X den | D | nlev | pts                      exact landscape of one diagram
//   E den | D1 ; D2 ; ... | prog | pts          expression over exact landscapes (RPN)
//   T den | A ; B ; C                           distances, inner products, integrals on a triple
//   G den | D | gmin gmax npts nlev | pts       landscape on a grid
//   H den | D1 ; D2 ; ... | gmin gmax npts | prog | pts     expression over grid landscapes
// integers n in diagrams / pts / grid bounds stand for n/den; scalars in programs are written p/q.
#include <iostream>
#include <sstream>
#include <string>
#include <vector>
#include <cmath>
#include <limits>
#include <cstdint>
#include <algorithm>
#include <gudhi/Persistence_landscape.h>
#include <gudhi/Persistence_landscape_on_grid.h>
#include "common.h"

using Gudhi::Persistence_representations::Persistence_landscape;
using Gudhi::Persistence_representations::Persistence_landscape_on_grid;
typedef std::vector<std::pair<double, double> > Diagram;

static std::string rat(double v) {
  if (std::isnan(v)) return "nan";
  if (std::isinf(v)) return v > 0 ? "inf" : "-inf";
  if (v == 0) return "0";
  int e;
  double m = std::frexp(v, &e);                 // v = m * 2^e, 0.5 <= |m| < 1
  long long n = (long long)std::ldexp(m, 53);   // exact
  e -= 53;
  while ((n % 2) == 0) { n /= 2; ++e; }
  std::ostringstream o;
  if (e >= 0) {
    if (e > 70) { char buf[64]; snprintf(buf, sizeof buf, "%a", v); return buf; }
    bool neg = n < 0;
    unsigned __int128 big = (unsigned __int128)(neg ? -n : n) << e;
    std::string s; if (big == 0) s = "0";
    while (big > 0) { s.insert(s.begin(), char('0' + (int)(big % 10))); big /= 10; }
    return (neg ? "-" : "") + s;
  }
  if (-e > 62) { char buf[64]; snprintf(buf, sizeof buf, "%a", v); return buf; }
  o << n << "/" << (1LL << (-e));
  return o.str();
}

static std::vector<std::string> split(const std::string& s, char c) {
  std::vector<std::string> r; std::string cur;
  for (char ch : s) { if (ch == c) { r.push_back(cur); cur.clear(); } else cur += ch; }
  r.push_back(cur);
  return r;
}
static std::vector<std::string> words(const std::string& s) {
  std::vector<std::string> r; std::istringstream is(s); std::string w;
  while (is >> w) r.push_back(w);
  return r;
}
static double scalar(const std::string& w) {   // p/q or p
  size_t k = w.find('/');
  if (k == std::string::npos) return std::stod(w);
  return std::stod(w.substr(0, k)) / std::stod(w.substr(k + 1));
}
static Diagram diagram(const std::string& s, double den) {
  Diagram d;
  for (auto& w : words(s)) {
    if (w == "-") continue;
    size_t k = w.find(':');
    d.push_back(std::make_pair(std::stod(w.substr(0, k)) / den, std::stod(w.substr(k + 1)) / den));
  }
  return d;
}
static std::vector<double> points(const std::string& s, double den) {
  std::vector<double> r;
  for (auto& w : words(s)) r.push_back(std::stod(w) / den);
  return r;
}

// the breakpoints of every level, read through the public operator<< at full precision
static std::vector<std::vector<std::pair<double, double> > > structure(Persistence_landscape& l) {
  std::ostringstream os; os.precision(17); os << l;
  std::vector<std::vector<std::pair<double, double> > > r;
  std::istringstream is(os.str()); std::string line;
  const double inf = std::numeric_limits<int>::max();
  while (std::getline(is, line)) {
    if (line.compare(0, 7, "Lambda_") == 0) { r.emplace_back(); continue; }
    size_t k = line.find(" , ");
    if (k == std::string::npos || r.empty()) continue;
    std::string xs = line.substr(0, k), ys = line.substr(k + 3);
    double x = xs == "-inf" ? -inf : xs == "+inf" ? inf : std::stod(xs);
    r.back().push_back(std::make_pair(x, std::stod(ys)));
  }
  return r;
}
static std::string structure_str(Persistence_landscape& l) {
  std::string s;
  auto st = structure(l);
  for (size_t i = 0; i < st.size(); ++i) {
    if (i) s += ";";
    for (size_t j = 0; j < st[i].size(); ++j) { if (j) s += " "; s += rat(st[i][j].first) + "," + rat(st[i][j].second); }
  }
  return s;
}
template <class L>
static std::string values_str(const L& l, size_t K, const std::vector<double>& pts) {
  std::string s;
  for (size_t k = 0; k <= K; ++k) {
    if (k) s += ";";
    for (size_t j = 0; j < pts.size(); ++j) { if (j) s += " "; s += rat(l.compute_value_at_a_given_point((unsigned)k, pts[j])); }
  }
  return s;
}
static std::string grid_structure_str(const Persistence_landscape_on_grid& g) {
  std::string s;
  auto v = g.output_for_visualization();
  for (size_t i = 0; i < v.size(); ++i) {
    if (i) s += ";";
    for (size_t j = 0; j < v[i].size(); ++j) { if (j) s += " "; s += rat(v[i][j]); }
  }
  return s;
}

static const double DMAX = std::numeric_limits<double>::max();

static std::string do_X(const std::vector<std::string>& f, double den) {
  Diagram d = diagram(f[1], den);
  long nlev = std::stol(words(f[2])[0]);
  std::vector<double> pts = points(f[3], den);
  Persistence_landscape l = nlev > 0 ? Persistence_landscape(d, (size_t)nlev) : Persistence_landscape(d);
  size_t K = d.size();
  std::string s = std::to_string(l.size()) + " # " + structure_str(l) + " # " + values_str(l, K, pts) + " # ";
  s += rat(l.compute_integral_of_landscape());
  for (size_t k = 0; k <= K; ++k) s += " " + rat(l.compute_integral_of_a_level_of_a_landscape(k));
  s += " # ";
  for (size_t k = 0; k < l.size(); ++k) { if (k) s += " "; s += rat(l.find_max((unsigned)k)); }
  s += " # ";
  for (size_t k = 0; k < l.size(); ++k) {            // vectorize(k): the ordinates of the breakpoints of level k
    if (k) s += ";";
    std::vector<double> v = l.vectorize((int)k);
    for (size_t j = 0; j < v.size(); ++j) { if (j) s += " "; s += rat(v[j]); }
  }
  // levels at and beyond size() are the zero function: vectorize must answer with an empty vector
  s += " # " + std::to_string(l.vectorize((int)l.size()).size()) + " " + std::to_string(l.vectorize((int)l.size() + 1).size());
  // find_max of the zero levels at and beyond size()
  s += " # " + rat(l.find_max((unsigned)l.size())) + " " + rat(l.find_max((unsigned)l.size() + 1));
  return s;
}

static std::string do_E(const std::vector<std::string>& f, double den) {
  std::vector<Persistence_landscape> ls;
  size_t K = 0;
  for (auto& ds : split(f[1], ';')) { Diagram d = diagram(ds, den); K = std::max(K, d.size()); ls.push_back(Persistence_landscape(d)); }
  std::vector<Persistence_landscape> st;
  for (auto& w : words(f[2])) {
    if (w[0] == 'L') st.push_back(ls.at(std::stoul(w.substr(1))));
    else if (w == "add") { auto b = st.back(); st.pop_back(); auto a = st.back(); st.pop_back(); st.push_back(a + b); }
    else if (w == "sub") { auto b = st.back(); st.pop_back(); auto a = st.back(); st.pop_back(); st.push_back(a - b); }
    else if (w == "addeq") { auto b = st.back(); st.pop_back(); st.back() += b; }
    else if (w == "subeq") { auto b = st.back(); st.pop_back(); st.back() -= b; }
    else if (w.compare(0, 4, "mul:") == 0) { auto a = st.back(); st.pop_back(); st.push_back(a * scalar(w.substr(4))); }
    else if (w.compare(0, 5, "lmul:") == 0) { auto a = st.back(); st.pop_back(); st.push_back(scalar(w.substr(5)) * a); }
    else if (w.compare(0, 6, "muleq:") == 0) { st.back() *= scalar(w.substr(6)); }
    else if (w.compare(0, 6, "diveq:") == 0) { st.back() /= scalar(w.substr(6)); }
    else if (w == "abs") { auto a = st.back(); st.pop_back(); st.push_back(a.abs()); }
    else if (w.compare(0, 4, "avg:") == 0) {
      size_t n = std::stoul(w.substr(4));
      std::vector<Persistence_landscape> args(st.end() - n, st.end());
      st.resize(st.size() - n);
      std::vector<Persistence_landscape*> ptrs;
      for (auto& a : args) ptrs.push_back(&a);
      // in half of the cases (a function of the arguments) the receiving object is itself one of the arguments: a running mean
      if (n >= 2 && (args.front().size() + args.back().size()) % 2 == 0) { args.back().compute_average(ptrs); st.push_back(args.back()); }
      else { Persistence_landscape r; r.compute_average(ptrs); st.push_back(r); }
    } else return "BADPROG";
  }
  Persistence_landscape r = st.back();
  std::vector<double> pts = points(f[3], den);
  return std::to_string(r.size()) + " # " + structure_str(r) + " # " + values_str(r, K, pts);
}

static std::string do_T(const std::vector<std::string>& f, double den) {
  std::vector<Persistence_landscape> ls;
  for (auto& ds : split(f[1], ';')) ls.push_back(Persistence_landscape(diagram(ds, den)));
  Persistence_landscape &A = ls.at(0), &B = ls.at(1), &C = ls.at(2);
  std::string s;
  auto put = [&](const char* name, double v) { if (!s.empty()) s += " "; s += std::string(name) + "=" + rat(v); };
  put("d1AB", A.distance(B, 1)); put("d1BA", B.distance(A, 1)); put("d1AA", A.distance(A, 1));
  put("d1AC", A.distance(C, 1)); put("d1BC", B.distance(C, 1));
  put("dsAB", A.distance(B, DMAX)); put("dsBA", B.distance(A, DMAX)); put("dsAA", A.distance(A, DMAX));
  put("dsAC", A.distance(C, DMAX)); put("dsBC", B.distance(C, DMAX));
  put("d2AB", A.distance(B, 2)); put("d2BA", B.distance(A, 2)); put("d2AA", A.distance(A, 2));
  put("d2AC", A.distance(C, 2)); put("d2BC", B.distance(C, 2));
  put("ipAB", A.compute_scalar_product(B)); put("ipBA", B.compute_scalar_product(A)); put("ipAA", A.compute_scalar_product(A));
  put("ipAC", A.compute_scalar_product(C)); put("ipBC", B.compute_scalar_product(C));
  put("ipSC", (A + B).compute_scalar_product(C)); put("ipCS", C.compute_scalar_product(A + B));
  put("ip2AB", (A * 2.0).compute_scalar_product(B)); put("ipA2B", A.compute_scalar_product(0.5 * B));
  put("ipDC", (A - B).compute_scalar_product(C));
  put("intA", A.compute_integral_of_landscape()); put("n1A", A.compute_norm_of_landscape(1));
  put("nsA", A.compute_norm_of_landscape(DMAX)); put("n2A", A.compute_norm_of_landscape(2));
  return s;
}

static Persistence_landscape_on_grid make_grid(const Diagram& d, double gmin, double gmax, size_t npts, long nlev) {
  return nlev > 0 ? Persistence_landscape_on_grid(d, gmin, gmax, npts, (unsigned)nlev)
                  : Persistence_landscape_on_grid(d, gmin, gmax, npts);
}
static std::string do_G(const std::vector<std::string>& f, double den) {
  Diagram d = diagram(f[1], den);
  auto g = words(f[2]);
  double gmin = std::stod(g[0]) / den, gmax = std::stod(g[1]) / den;
  size_t npts = std::stoul(g[2]); long nlev = std::stol(g[3]);
  Persistence_landscape_on_grid l = make_grid(d, gmin, gmax, npts, nlev);
  std::vector<double> pts = points(f[3], den);
  std::string s = grid_structure_str(l) + " # " + values_str(l, d.size(), pts) + " # ";
  for (size_t k = 0; k <= d.size(); ++k) {      // vectorize(k) = values of level k at the grid points
    if (k) s += ";";
    if (k > npts) continue;                     // vectorize refuses number_of_function >= number of grid points
    std::vector<double> v = l.vectorize((int)k);
    for (size_t j = 0; j < v.size(); ++j) { if (j) s += " "; s += rat(v[j]); }
  }
  return s;
}
static std::string do_H(const std::vector<std::string>& f, double den) {
  auto g = words(f[2]);
  double gmin = std::stod(g[0]) / den, gmax = std::stod(g[1]) / den;
  size_t npts = std::stoul(g[2]);
  std::vector<Persistence_landscape_on_grid> ls;
  size_t K = 0;
  for (auto& ds : split(f[1], ';')) { Diagram d = diagram(ds, den); K = std::max(K, d.size()); ls.push_back(make_grid(d, gmin, gmax, npts, 0)); }
  std::vector<Persistence_landscape_on_grid> st;
  for (auto& w : words(f[3])) {
    if (w[0] == 'L') st.push_back(ls.at(std::stoul(w.substr(1))));
    else if (w == "add") { auto b = st.back(); st.pop_back(); auto a = st.back(); st.pop_back(); st.push_back(a + b); }
    else if (w == "sub") { auto b = st.back(); st.pop_back(); auto a = st.back(); st.pop_back(); st.push_back(a - b); }
    else if (w.compare(0, 4, "mul:") == 0) { auto a = st.back(); st.pop_back(); st.push_back(a * scalar(w.substr(4))); }
    else if (w.compare(0, 6, "diveq:") == 0) { st.back() /= scalar(w.substr(6)); }
    else if (w == "abs") { st.back().abs(); }
    else if (w.compare(0, 4, "avg:") == 0) {
      size_t n = std::stoul(w.substr(4));
      std::vector<Persistence_landscape_on_grid> args(st.end() - n, st.end());
      st.resize(st.size() - n);
      std::vector<Persistence_landscape_on_grid*> ptrs;
      for (auto& a : args) ptrs.push_back(&a);
      Persistence_landscape_on_grid r; r.compute_average(ptrs); st.push_back(r);
    } else return "BADPROG";
  }
  Persistence_landscape_on_grid r = st.back();
  std::vector<double> pts = points(f[4], den);
  return values_str(r, K, pts);
}

// U den | A ; B ; C | gmin gmax npts : grid landscapes of three diagrams on one grid; prints the stored values of every
// level at every grid point (vectorize) and the inner products the class computes, for the exact cell-wise check
static std::string do_U(const std::vector<std::string>& f, double den) {
  auto g = words(f[2]);
  double gmin = std::stod(g[0]) / den, gmax = std::stod(g[1]) / den;
  size_t npts = std::stoul(g[2]);
  std::vector<Persistence_landscape_on_grid> ls;
  size_t K = 0;
  for (auto& ds : split(f[1], ';')) { Diagram d = diagram(ds, den); K = std::max(K, d.size()); ls.push_back(make_grid(d, gmin, gmax, npts, 0)); }
  Persistence_landscape_on_grid &A = ls.at(0), &B = ls.at(1), &C = ls.at(2);
  std::string s;
  std::vector<double> gpts;                       // the npts + 1 grid points
  for (size_t i = 0; i <= npts; ++i) gpts.push_back(gmin + (gmax - gmin) * (double)i / (double)npts);
  for (size_t t = 0; t < 3; ++t) {
    if (t) s += " # ";
    s += values_str(ls[t], K, gpts);               // every level 0..K at every grid point
  }
  s += " # ";
  auto put = [&](const char* name, double v) { s += std::string(name) + "=" + rat(v) + " "; };
  put("ipAB", A.compute_scalar_product(B)); put("ipBA", B.compute_scalar_product(A)); put("ipAA", A.compute_scalar_product(A));
  put("ipAC", A.compute_scalar_product(C)); put("ipBC", B.compute_scalar_product(C)); put("ipCC", C.compute_scalar_product(C));
  put("ipSC", (A + B).compute_scalar_product(C)); put("ipCS", C.compute_scalar_product(A + B));
  put("ip2AB", (A * 2.0).compute_scalar_product(B));
  // the average, built by compute_average into a fresh object, must behave like (A + B) / 2 in every later use
  {
    Persistence_landscape_on_grid av;
    std::vector<Persistence_landscape_on_grid*> ptrs{&A, &B};
    av.compute_average(ptrs);
    put("ipVC", av.compute_scalar_product(C)); put("ipCV", C.compute_scalar_product(av));
    put("intA", A.compute_integral_of_landscape()); put("intB", B.compute_integral_of_landscape()); put("intV", av.compute_integral_of_landscape());
    put("szA", (double)A.size()); put("szB", (double)B.size()); put("szV", (double)av.size());
  }
  return s;
}

int main() {
  vh::install();
  std::string line;
  while (std::getline(std::cin, line)) {
    std::string ans;
    try {
      std::vector<std::string> f = split(line, '|');
      std::vector<std::string> h = words(f.at(0));
      double den = std::stod(h.at(1));
      if (h[0] == "C") ans = "ok";
      else if (h[0] == "X") ans = do_X(f, den);
      else if (h[0] == "E") ans = do_E(f, den);
      else if (h[0] == "T") ans = do_T(f, den);
      else if (h[0] == "U") ans = do_U(f, den);
      else if (h[0] == "G") ans = do_G(f, den);
      else if (h[0] == "H") ans = do_H(f, den);
      else ans = "BADLINE";
    } catch (const char* msg) {
      ans = "EXC";
    } catch (const std::exception& e) {
      ans = std::string("EXC std ") + e.what();
    } catch (...) {
      ans = "EXC";
    }
    vh::emit(ans);
    vh::flush();
  }
  vh::flush();
  return 0;
}
