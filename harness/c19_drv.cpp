// C19 harness: builds Gudhi::rips_complex::Sparse_rips_complex through its two public constructors and prints the whole
// resulting filtered complex (every simplex with its filtration value as a hex float).
//
// The farthest-point order used by the class starts at a RANDOM point (choose_n_farthest_points_metric is called with
// starting_point == random_starting_point) and is private.  It is observed without a hook: the distance functor / the
// distance-matrix rows handed to the constructor are ours and log every call; compute_sparse_graph evaluates
// dist(sorted[i], sorted[j]) for all i < j < #kept in lexicographic order as its last calls, so the tail of the log IS the
// order (validated in full below; "ORD ?" if the tail does not have that shape).
//
// input line:   C <ctor> <n> <eps_num> <eps_den> <mini> <maxi> <dim_max> <k> <data>
//   ctor M : distance-matrix constructor, k = 0, data = n*n integers (row major, symmetric, zero diagonal)
//   ctor E : point constructor with Gudhi::Euclidean_distance, data = n*k integer coordinates
//   ctor L : point constructor with the L1 distance, ctor X : with the L-infinity distance
//   mini / maxi : "-inf" | "inf" | p/q (q a power of two)
// input line:   H <s> <pre> <ctor> ... : the same in another unit and later in the life of the object: every distance / coordinate /
//   bound is multiplied by 2^s before it reaches the class and every filtration value divided by 2^s afterwards (exact in binary
//   floating point: the answer must be the same line as for s = 0), and create_complex has already been called <pre> times on the
//   same Sparse_rips_complex object (into other simplex trees, with other dimensions) before the call that is reported
// output line:  ORD p0 p1 .. | S v,v,..:hexfloat v,..:hexfloat ...      or   EXC <what>
#include <gudhi/Sparse_rips_complex.h>
#include <gudhi/Simplex_tree.h>
#include <gudhi/distance_functions.h>
#include <algorithm>
#include <cmath>
#include <limits>
#include <sstream>
#include <string>
#include <vector>
#include "common.h"

static std::vector<std::pair<int, int>> calllog;

struct Pt : std::vector<double> { int id; };
struct Row {
  int r; std::vector<double> v;
  double operator[](std::size_t c) const { calllog.emplace_back(r, (int)c); return v[c]; }
};
struct DM : std::vector<Row> {};

static double parse_bound(const std::string& s) {
  if (s == "inf") return std::numeric_limits<double>::infinity();
  if (s == "-inf") return -std::numeric_limits<double>::infinity();
  auto p = s.find('/');
  if (p == std::string::npos) return std::stod(s);
  return std::stod(s.substr(0, p)) / std::stod(s.substr(p + 1));
}
static bool same_pair(std::pair<int, int> a, int x, int y) { return (a.first == x && a.second == y) || (a.first == y && a.second == x); }
static bool has(std::pair<int, int> a, int x) { return a.first == x || a.second == x; }

using ST = Gudhi::Simplex_tree<>;
using SR = Gudhi::rips_complex::Sparse_rips_complex<double>;

int main() {
  vh::install();
  std::string line;
  static char buf[1 << 20];
  while (fgets(buf, sizeof buf, stdin)) {
    std::istringstream in(buf);
    std::string tag, ctor, smini, smaxi;
    long n, en, ed, dim, k, sc = 0, pre = 0;
    in >> tag;
    if (tag == "H") in >> sc >> pre;
    else if (tag != "C") { vh::emit("ok"); continue; }
    in >> ctor >> n >> en >> ed >> smini >> smaxi >> dim >> k;
    double eps = (double)en / (double)ed, mini = std::ldexp(parse_bound(smini), (int)sc), maxi = std::ldexp(parse_bound(smaxi), (int)sc);
    auto earlier = [&](SR& sr) { for (long q = 0; q < pre; q++) { ST other; sr.create_complex(other, (int)((dim + 1 + q) % 3)); } };
    calllog.clear();
    std::string res;
    try {
      ST st;
      if (ctor == "M") {
        DM dm;
        std::vector<double> full(n * n);
        for (long i = 0; i < n * n; i++) { in >> full[i]; full[i] = std::ldexp(full[i], (int)sc); }
        for (long i = 0; i < n; i++) { Row r; r.r = (int)i; for (long j = 0; j < i; j++) r.v.push_back(full[i * n + j]); dm.push_back(r); }
        SR sr(dm, eps, mini, maxi);
        earlier(sr);
        sr.create_complex(st, (int)dim);
      } else {
        std::vector<Pt> pts(n);
        for (long i = 0; i < n; i++) { pts[i].id = (int)i; pts[i].resize(k); for (long c = 0; c < k; c++) { in >> pts[i][c]; pts[i][c] = std::ldexp(pts[i][c], (int)sc); } }
        char m = ctor[0];
        auto dist = [m](Pt const& a, Pt const& b) -> double {
          calllog.emplace_back(a.id, b.id);
          if (m == 'E') return Gudhi::Euclidean_distance()(static_cast<std::vector<double> const&>(a), static_cast<std::vector<double> const&>(b));
          double s = 0;
          for (std::size_t c = 0; c < a.size(); c++) { double t = std::fabs(a[c] - b[c]); if (m == 'L') s += t; else s = std::max(s, t); }
          return s;
        };
        SR sr(pts, dist, eps, mini, maxi);
        earlier(sr);
        sr.create_complex(st, (int)dim);
      }
      // recover the order from the tail of the call log
      std::size_t m = st.num_vertices();
      std::vector<int> ord;
      bool ok = true;
      if (m == 1) {
        for (auto v : st.complex_vertex_range()) ord.push_back(v);
      } else if (m >= 2) {
        std::size_t need = m * (m - 1) / 2;
        if (calllog.size() < need) ok = false;
        else {
          auto* T = &calllog[calllog.size() - need];
          int p0;
          if (ctor != "M") p0 = T[0].first;
          else if (m >= 3) p0 = (has(T[1], T[0].first)) ? T[0].first : T[0].second;
          else if (n >= 3 && calllog.size() >= need + 2) p0 = has(calllog[1], calllog[0].first) ? calllog[0].first : calllog[0].second;
          else p0 = T[0].first;
          ord.push_back(p0);
          for (std::size_t j = 1; j < m && ok; j++) {
            if (!has(T[j - 1], p0)) { ok = false; break; }
            ord.push_back(T[j - 1].first == p0 ? T[j - 1].second : T[j - 1].first);
          }
          std::size_t idx = 0;
          for (std::size_t i = 0; i < m && ok; i++)
            for (std::size_t j = i + 1; j < m; j++, idx++)
              if (!same_pair(T[idx], ord[i], ord[j])) { ok = false; break; }
        }
      }
      res = "ORD";
      if (!ok) res += " ?";
      else for (int v : ord) res += " " + std::to_string(v);
      res += " | S";
      for (auto sh : st.complex_simplex_range()) {
        std::vector<int> vs;
        for (auto v : st.simplex_vertex_range(sh)) vs.push_back(v);
        std::sort(vs.begin(), vs.end());
        res += " ";
        for (std::size_t i = 0; i < vs.size(); i++) res += (i ? "," : "") + std::to_string(vs[i]);
        char b[64];
        snprintf(b, sizeof b, ":%a", std::ldexp((double)st.filtration(sh), (int)-sc));
        res += b;
      }
    } catch (const std::exception& e) {
      res = std::string("EXC ") + e.what();
    } catch (const char* e) {
      res = std::string("EXC ") + e;
    } catch (...) {
      res = "EXC unknown";
    }
    for (auto& c : res) if (c == '\n') c = ' ';
    vh::emit(res);
  }
  vh::flush();
  return 0;
}
