// C20 harness: Permutahedral_representation (vertex_range, face_range, facet_range, coface_range, cofacet_range,
// is_face_of, operator==), the helper iterators (Combination / Integer_combination / Ordered_set_partition) and
// Freudenthal_triangulation / Coxeter_triangulation (locate_point, cartesian_coordinates, barycenter).
// stdin:  "G <d> perm|freud|affine|chg|coxeter [d*d matrix entries row-major, d offset entries as n/den]", then one
//         operation per line.   stdout: one answer line per input line.
// simplex syntax:  v1,v2,...;a,b|c|d,e      rationals: n/den (den a power of two) — converted to double exactly.
#include <iostream>
#include <sstream>
#include <string>
#include <vector>
#include <cmath>
#include <memory>
#include <algorithm>
#include "common.h"
#include <gudhi/Permutahedral_representation.h>
#include <gudhi/Freudenthal_triangulation.h>
#include <gudhi/Coxeter_triangulation.h>

using namespace Gudhi::coxeter_triangulation;
typedef std::vector<int> Vertex;
typedef std::vector<std::size_t> Part;
typedef std::vector<Part> OPart;
typedef Permutahedral_representation<Vertex, OPart> Simplex;
typedef Freudenthal_triangulation<Simplex> Triangulation;

static std::vector<std::string> split(const std::string& s, char c) {
  std::vector<std::string> r; std::string cur;
  for (char ch : s) { if (ch == c) { r.push_back(cur); cur.clear(); } else cur += ch; }
  r.push_back(cur);
  return r;
}
static Simplex parse_simplex(const std::string& s) {
  auto vp = split(s, ';');
  Vertex v; OPart ps;
  if (!vp[0].empty()) for (auto& t : split(vp[0], ',')) v.push_back(std::stoi(t));
  if (vp.size() > 1) for (auto& p : split(vp[1], '|')) { Part q; if (!p.empty()) for (auto& t : split(p, ',')) q.push_back(std::stoul(t)); ps.push_back(q); }
  return Simplex(v, ps);
}
static std::string vstr(const Vertex& v) {
  std::string r; for (std::size_t i = 0; i < v.size(); i++) { if (i) r += ','; r += std::to_string(v[i]); } return r;
}
static std::string sstr(const Simplex& s) {
  std::string r = vstr(s.vertex()) + ";";
  for (std::size_t j = 0; j < s.partition().size(); j++) {
    if (j) r += '|';
    const auto& p = s.partition()[j];
    for (std::size_t i = 0; i < p.size(); i++) { if (i) r += ','; r += std::to_string(p[i]); }
  }
  return r;
}
static double parse_q(const std::string& t) {
  auto nd = split(t, '/');
  double n = std::stod(nd[0]);
  double d = nd.size() > 1 ? std::stod(nd[1]) : 1.0;
  return n / d;   // exact: the generators only emit dyadic rationals with small numerators
}
// exact value of a double as a reduced fraction n/2^k
static std::string qstr(double x) {
  if (!std::isfinite(x)) return "nonfinite";
  if (x == 0) return "0/1";
  int e; double m = std::frexp(x, &e);            // x = m * 2^e, 0.5 <= |m| < 1
  long long mant = (long long)std::ldexp(m, 53);  // exact
  e -= 53;
  while (mant % 2 == 0) { mant /= 2; e++; }
  if (e >= 0) { if (std::fabs(x) >= 4611686018427387904.0) return "big"; return std::to_string((long long)x) + "/1"; }
  if (-e > 62) return "tiny";
  return std::to_string(mant) + "/" + std::to_string(1LL << (-e));
}
static std::string vecq(const Eigen::VectorXd& v) {
  std::string r; for (int i = 0; i < v.size(); i++) { if (i) r += ' '; r += qstr(v(i)); } return r;
}
static const long CAP = 20000;   // no range of the generated inputs has that many elements; a broken iterator must not run forever
#define RUNAWAY(cnt) if (++cnt > CAP) { r = "RUNAWAY"; break; }
template <class U> static std::string ulist(const U& v) {
  std::string r; bool first = true; for (auto x : v) { if (!first) r += ','; first = false; r += std::to_string(x); } return r;
}

int main() {
  std::ios::sync_with_stdio(false);
  vh::install();
  std::string line;
  unsigned d = 0;
  std::string kind;
  std::unique_ptr<Triangulation> tri;
  while (std::getline(std::cin, line)) {
    if (line.empty()) continue;
    std::istringstream is(line);
    std::string w; is >> w;
    std::vector<std::string> a; std::string t; while (is >> t) a.push_back(t);
    std::string r;
    try {
      if (w == "G") {
        d = std::stoul(a[0]); kind = a[1];
        tri.reset();
        if (kind == "freud") tri.reset(new Triangulation(d));
        else if (kind == "coxeter") tri.reset(new Coxeter_triangulation<Simplex>(d));
        else if (kind == "affine" || kind == "chg" || kind == "matrix" || kind == "offs") {
          Eigen::MatrixXd M(d, d); Eigen::VectorXd off(d);
          for (unsigned i = 0; i < d; i++) for (unsigned j = 0; j < d; j++) M(i, j) = parse_q(a[2 + i * d + j]);
          for (unsigned i = 0; i < d; i++) off(i) = parse_q(a[2 + d * d + i]);
          if (kind == "affine") tri.reset(new Triangulation(d, M, off));
          else if (kind == "matrix") tri.reset(new Triangulation(d, M));   // offset entries must be 0
          else if (kind == "offs") { tri.reset(new Triangulation(d)); tri->change_offset(off); }   // identity matrix expected: only the offset is changed, after the one-argument constructor
          else { tri.reset(new Triangulation(d)); tri->change_matrix(M); tri->change_offset(off); }
        }
        r = "ok";
      } else if (w == "V") {
        Simplex s = parse_simplex(a[0]);
        bool f = true; long cnt = 0; for (const auto& v : s.vertex_range()) { RUNAWAY(cnt) if (!f) r += ' '; f = false; r += vstr(v); }
      } else if (w == "D") {
        r = std::to_string(parse_simplex(a[0]).dimension());
      } else if (w == "F" || w == "FT") {
        Simplex s = parse_simplex(w == "F" ? a[1] : a[0]);
        bool f = true; long cnt = 0;
        if (w == "F") { for (const auto& x : s.face_range(std::stoul(a[0]))) { RUNAWAY(cnt) if (!f) r += ' '; f = false; r += sstr(x); } }
        else { for (const auto& x : s.facet_range()) { RUNAWAY(cnt) if (!f) r += ' '; f = false; r += sstr(x); } }
      } else if (w == "C" || w == "CT") {
        Simplex s = parse_simplex(w == "C" ? a[1] : a[0]);
        bool f = true; long cnt = 0;
        if (w == "C") { for (const auto& x : s.coface_range(std::stoul(a[0]))) { RUNAWAY(cnt) if (!f) r += ' '; f = false; r += sstr(x); } }
        else { for (const auto& x : s.cofacet_range()) { RUNAWAY(cnt) if (!f) r += ' '; f = false; r += sstr(x); } }
      } else if (w == "I") {
        Simplex s = parse_simplex(a[0]), u = parse_simplex(a[1]);
        r = s.is_face_of(u) ? "1" : "0";
      } else if (w == "EQ") {
        Simplex s = parse_simplex(a[0]), u = parse_simplex(a[1]);
        r = std::string(s == u ? "1" : "0") + (s != u ? "1" : "0");
      } else if (w == "CMB") {
        unsigned n = std::stoul(a[0]), k = std::stoul(a[1]);
        bool f = true; long cnt = 0;
        for (Combination_iterator it(n, k), end; it != end; ++it) { RUNAWAY(cnt) if (!f) r += ' '; f = false; r += ulist(*it); }
      } else if (w == "ICB") {
        unsigned n = std::stoul(a[0]), k = std::stoul(a[1]);
        std::vector<unsigned> b; if (a.size() > 2) for (auto& x : split(a[2], ',')) b.push_back(std::stoul(x));
        bool f = true; long cnt = 0;
        for (Integer_combination_iterator it(n, k, b), end; it != end; ++it) {
          RUNAWAY(cnt) if (!f) r += ' '; f = false;
          std::vector<unsigned> val((*it).begin(), (*it).begin() + k); r += ulist(val);
        }
      } else if (w == "OSP" || w == "OSPI") {   // OSPI: compared in the order of enumeration
        unsigned n = std::stoul(a[0]), k = std::stoul(a[1]);
        bool f = true; long cnt = 0;
        for (Ordered_set_partition_iterator it(n, k), end; it != end; ++it) {
          RUNAWAY(cnt) if (!f) r += ' '; f = false;
          for (unsigned j = 0; j < k; j++) { if (j) r += '|'; r += ulist((*it)[j]); }
        }
      } else if (w == "L" || w == "LC") {
        // L scale p1..pd [| hint]      LC scale x1..xd : p := matrix*(x/scale)+offset computed here in doubles
        double scale = parse_q(a[0]);
        std::vector<double> p;
        for (std::size_t i = 1; i < a.size() && a[i] != "|"; i++) p.push_back(parse_q(a[i]));
        if (w == "LC") {
          Eigen::VectorXd x(d); for (unsigned i = 0; i < d; i++) x(i) = p[i] / scale;
          Eigen::VectorXd q = tri->matrix() * x + tri->offset();
          for (unsigned i = 0; i < d; i++) p[i] = q(i);
        }
        Simplex s = tri->locate_point(p, scale);
        r = sstr(s);
      } else if (w == "K") {
        double scale = parse_q(a[0]);
        Vertex v; for (auto& x : split(a[1], ',')) v.push_back(std::stoi(x));
        r = vecq(tri->cartesian_coordinates(v, scale));
      } else if (w == "B") {
        double scale = parse_q(a[0]);
        Simplex s = parse_simplex(a[1]);
        r = vecq(tri->barycenter(s, scale));
      } else if (w == "LB") {
        // round trip: the barycenter of a simplex is located in that simplex
        double scale = parse_q(a[0]);
        Simplex s = parse_simplex(a[1]);
        Eigen::VectorXd b = tri->barycenter(s, scale);
        std::vector<double> p(b.data(), b.data() + b.size());
        r = sstr(tri->locate_point(p, scale));
      } else if (w == "DIM") {
        r = std::to_string(tri->dimension());
      } else r = "NOSUCHOP";
    } catch (const std::exception& e) { r = "EXC"; }
    vh::emit(r);
  }
  vh::flush();
  return 0;
}
