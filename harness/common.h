// shared by all harness drivers: buffered output that survives a crash (the buffer is written out from the
// signal handler, followed by a CRASH line), so that the failing input line can be identified.
#ifndef VERIF_HARNESS_COMMON_H
#define VERIF_HARNESS_COMMON_H
#include <csignal>
#include <cstdio>
#include <cstdlib>
#include <cstring>
#include <string>
#include <unistd.h>
#include <sys/time.h>
namespace vh {
static std::string out;
static volatile unsigned long emitted = 0, emitted_at_last_tick = (unsigned long)-1;   // for the hang watchdog below
inline void flush() { if (!out.empty()) { size_t o = 0; while (o < out.size()) { ssize_t k = ::write(1, out.data() + o, out.size() - o); if (k <= 0) break; o += k; } out.clear(); } }
inline void emit(const std::string& s) { ++emitted; out += s; out += '\n'; if (out.size() > (1u << 20)) flush(); }
inline void on_crash(int sig) {
  flush();
  const char* m = sig == SIGFPE ? "CRASH SIGFPE\n" : sig == SIGSEGV ? "CRASH SIGSEGV\n" : sig == SIGABRT ? "CRASH SIGABRT\n" : "CRASH\n";
  ssize_t k = ::write(1, m, strlen(m)); (void)k;
  _exit(70);
}
// hang watchdog, in CPU time (a loaded machine must not look like a hang): every WATCHDOG_CPU_S seconds of CPU burnt
// by this process the number of answers emitted so far is compared with the previous tick; no progress = the
// implementation loops on the current input line: the buffered answers are written out, followed by a CRASH line.
#ifndef WATCHDOG_CPU_S
#define WATCHDOG_CPU_S 40
#endif
inline void on_tick(int) {
  if (emitted == emitted_at_last_tick) {
    flush();
    const char* m = "CRASH HANG (no answer within the CPU-time watchdog)\n";
    ssize_t k = ::write(1, m, strlen(m)); (void)k;
    _exit(70);
  }
  emitted_at_last_tick = emitted;
}
inline void install() {
  out.reserve(1 << 21);
  signal(SIGFPE, on_crash); signal(SIGSEGV, on_crash); signal(SIGABRT, on_crash); signal(SIGBUS, on_crash); signal(SIGILL, on_crash);
  signal(SIGVTALRM, on_tick);
  struct itimerval it = {{WATCHDOG_CPU_S, 0}, {WATCHDOG_CPU_S, 0}};
  setitimer(ITIMER_VIRTUAL, &it, nullptr);
}
}  // namespace vh
#endif
