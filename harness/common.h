// shared by all harness drivers: buffered output that survives a crash (the buffer is written out from the
// signal handler, followed by a CRASH line), so that the failing input line can be identified.
#ifndef VERIF_HARNESS_COMMON_H
#define VERIF_HARNESS_COMMON_H
#include <csignal>
#include <cstdio>
#include <cstdlib>
#include <cstring>
#include <string>
#include <unistd.h>
namespace vh {
static std::string out;
inline void flush() { if (!out.empty()) { size_t o = 0; while (o < out.size()) { ssize_t k = ::write(1, out.data() + o, out.size() - o); if (k <= 0) break; o += k; } out.clear(); } }
inline void emit(const std::string& s) { out += s; out += '\n'; if (out.size() > (1u << 20)) flush(); }
inline void on_crash(int sig) {
  flush();
  const char* m = sig == SIGFPE ? "CRASH SIGFPE\n" : sig == SIGSEGV ? "CRASH SIGSEGV\n" : sig == SIGABRT ? "CRASH SIGABRT\n" : "CRASH\n";
  ssize_t k = ::write(1, m, strlen(m)); (void)k;
  _exit(70);
}
inline void install() {
  out.reserve(1 << 21);
  signal(SIGFPE, on_crash); signal(SIGSEGV, on_crash); signal(SIGABRT, on_crash); signal(SIGBUS, on_crash); signal(SIGILL, on_crash);
}
}  // namespace vh
#endif
