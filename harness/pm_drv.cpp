// Persistence_matrix harness for C05 / C06 / C08 (boundary, RU and chain matrices).
// One binary per option set, selected by -D macros:
//   COLT (Column_types enumerator), Z2 (0/1), BOUNDARY (1 = boundary/RU type, 0 = chain), IDX (CONTAINER|POSITION|IDENTIFIER),
//   ROWS, INTR_ROWS, REM_ROWS, REM_COLS, MAPC, PAIR, VINE, REP, MAXDIM
// stdin: scripts; every input line is echoed as "> line" followed by the answers.
//   CASE name | NEW p | I id dim r:c ... | RL | RM k | VS k | VZ k | DUMP | REP
#include <iostream>
#include <sstream>
#include <string>
#include <vector>
#include <algorithm>
#include <memory>
#include "common.h"
#include <gudhi/Matrix.h>
#include <gudhi/persistence_matrix_options.h>
#include <gudhi/Fields/Zp_field_operators.h>

using namespace Gudhi::persistence_matrix;

#ifndef COLT
#define COLT INTRUSIVE_SET
#endif
#ifndef Z2
#define Z2 1
#endif
#ifndef BOUNDARY
#define BOUNDARY 1
#endif
#ifndef IDX
#define IDX CONTAINER
#endif
#ifndef ROWS
#define ROWS 0
#endif
#ifndef INTR_ROWS
#define INTR_ROWS 1
#endif
#ifndef REM_ROWS
#define REM_ROWS 0
#endif
#ifndef REM_COLS
#define REM_COLS 0
#endif
#ifndef MAPC
#define MAPC 0
#endif
#ifndef PAIR
#define PAIR 1
#endif
#ifndef VINE
#define VINE 0
#endif
#ifndef REP
#define REP 0
#endif
#ifndef MAXDIM
#define MAXDIM 0
#endif

struct Opt : Default_options<Column_types::COLT, Z2 != 0, Gudhi::persistence_fields::Zp_field_operators<> > {
  static const Column_indexation_types column_indexation_type = Column_indexation_types::IDX;
  static const bool has_map_column_container = MAPC;
  static const bool has_removable_columns = REM_COLS;
  static const bool has_row_access = ROWS;
  static const bool has_intrusive_rows = INTR_ROWS;
  static const bool has_removable_rows = REM_ROWS;
  static const bool is_of_boundary_type = BOUNDARY;
  static const bool has_matrix_maximal_dimension_access = MAXDIM;
  static const bool has_column_pairings = PAIR;
  static const bool has_vine_update = VINE;
  static const bool can_retrieve_representative_cycles = REP;
};
static const bool kHasU = BOUNDARY && (VINE || REP);
static const bool kIdent = Opt::column_indexation_type == Column_indexation_types::IDENTIFIER;
static const bool kPos = Opt::column_indexation_type == Column_indexation_types::POSITION;

template <class M>
struct State {
  std::unique_ptr<M> m;
  std::vector<unsigned> order;  // cell ids by filtration position (harness-side bookkeeping)
  std::vector<int> dims;
  unsigned maxid = 0;
  unsigned p = 2;
};

template <class E>
static std::string col_str(const std::vector<E>& v) {
  std::ostringstream os;
  for (size_t i = 0; i < v.size(); ++i)
    if (v[i] != 0) os << " " << i << ":" << (unsigned)v[i];
  return os.str();
}

// index by which the API designates the column of the cell at position k
template <class M>
static unsigned acc(State<M>& s, unsigned k) {
  using O = typename M::Option_list;
  if constexpr (O::is_of_boundary_type) {
    return kIdent ? s.order[k] : k;
  } else {
    if (kIdent) return s.order[k];
    if (kPos) return k;
    return s.m->get_column_with_pivot(s.order[k]);  // MatIdx of the chain whose leading cell is that id
  }
}

template <class M>
static void dump(State<M>& s) {
  using O = typename M::Option_list;
  M& m = *s.m;
  unsigned n = s.order.size();
  vh::emit("NCOL " + std::to_string(m.get_number_of_columns()) + " " + std::to_string(n));
  if constexpr (O::has_matrix_maximal_dimension_access) vh::emit("MAXDIM " + std::to_string(m.get_max_dimension()));
  if constexpr (O::has_column_pairings) {
    // for the boundary-only flavour this triggers the reduction
    const auto& bc = m.get_current_barcode();
    for (const auto& b : bc) {
      std::ostringstream os;
      os << "BAR " << b.dim << " " << (long)(b.birth == (unsigned)-1 ? -1 : (long)b.birth) << " "
         << (long)(b.death == (unsigned)-1 ? -1 : (long)b.death);
      vh::emit(os.str());
    }
  }
  for (unsigned k = 0; k < n; ++k) {
    std::ostringstream os;
    unsigned a = 0;
    try { a = acc(s, k); } catch (const std::exception& e) { vh::emit("COL " + std::to_string(k) + " EXC-ACC"); continue; }
    try {
      os << "COL " << k << " id " << s.order[k] << " dim " << m.get_column_dimension(a);
      os << " piv " << (long)((m.get_pivot(a) == (unsigned)-1) ? -1 : (long)m.get_pivot(a));
      os << " zero " << (m.is_zero_column(a) ? 1 : 0);
      if constexpr (O::is_of_boundary_type && (O::has_vine_update || O::can_retrieve_representative_cycles) && O::column_indexation_type != Column_indexation_types::IDENTIFIER) {
        os << " R:" << col_str(m.get_column(a, true).get_content(s.maxid + 1));
        os << " U:" << col_str(m.get_column(a, false).get_content(s.maxid + 1));
      } else {
        os << " R:" << col_str(m.get_column(a).get_content(s.maxid + 1));
      }
    } catch (const std::exception& e) { os << " EXC " << e.what(); }
    vh::emit(os.str());
  }
  // pivots back to columns
  for (unsigned k = 0; k < n; ++k) {
    std::ostringstream os;
    // row identifiers: chain -> the cell id; boundary -> the id that was at this position initially (kept by the oracle)
    os << "CWP " << k;
    try {
      unsigned piv = m.get_pivot(acc(s, k));
      if constexpr (!O::is_of_boundary_type || O::has_vine_update || O::can_retrieve_representative_cycles) {
        if (piv != (unsigned)-1) os << " piv " << piv << " col " << m.get_column_with_pivot(piv) << " self " << acc(s, k);
        else os << " none";
      } else os << " unavailable";
    } catch (const std::exception& e) { os << " EXC"; }
    vh::emit(os.str());
  }
}

template <class M>
int run() {
  using O = typename M::Option_list;
  vh::install();
  std::string line;
  State<M> s;
  while (std::getline(std::cin, line)) {
    if (line.empty()) continue;
    vh::emit("> " + line);
    std::istringstream is(line);
    std::string w; is >> w;
    try {
      if (w == "CASE") { s = State<M>(); continue; }
      if (w == "NEW") {
        unsigned p; is >> p; s = State<M>(); s.p = p;
        s.m.reset(new M());
        if constexpr (!O::is_z2) s.m->set_characteristic(p);
        continue;
      }
      if (w == "I") {
        unsigned id; int dim; is >> id >> dim;
        std::string t;
        std::vector<typename M::Entry_representative> b;
        while (is >> t) {
          size_t c = t.find(':');
          unsigned r = std::stoul(t.substr(0, c)); unsigned v = std::stoul(t.substr(c + 1));
#if Z2
          if (v % 2) b.push_back(r);
#else
          b.push_back({r, (typename M::Element)v});
#endif
        }
        s.m->insert_boundary(id, b, dim);
        s.order.push_back(id); s.dims.push_back(dim); s.maxid = std::max(s.maxid, id);
        continue;
      }
      if (w == "RL") {
        if constexpr (O::has_removable_columns && (O::is_of_boundary_type || O::has_map_column_container || !O::has_vine_update)) { s.m->remove_last(); s.order.pop_back(); s.dims.pop_back(); }
        else vh::emit("UNSUPPORTED");
        continue;
      }
      if (w == "RM") {
        unsigned k; is >> k;
        if constexpr (O::has_removable_columns && O::has_vine_update && (O::is_of_boundary_type || (O::has_map_column_container && O::has_column_pairings))) {
          if constexpr (O::is_of_boundary_type) s.m->remove_maximal_cell(acc(s, k));
          else if constexpr (O::column_indexation_type == Column_indexation_types::POSITION) s.m->remove_maximal_cell(k);
          else s.m->remove_maximal_cell(s.order[k]);
          s.order.erase(s.order.begin() + k); s.dims.erase(s.dims.begin() + k);
        } else vh::emit("UNSUPPORTED");
        continue;
      }
      if (w == "VS" || w == "VZ") {
        unsigned k; is >> k;
        if constexpr (O::has_vine_update) {
          std::ostringstream os;
          // the z_eq_1 variant has a precondition (same dimension and a non-zero entry linking the two columns,
          // or two positive columns for RU); it is only used when the public API says it holds
          bool usez = (w == "VZ") && s.dims[k] == s.dims[k + 1];
          if (usez) {
            if constexpr (O::is_of_boundary_type) {
              if constexpr (O::column_indexation_type != Column_indexation_types::IDENTIFIER) {
                auto uc = s.m->get_column(k, false).get_content(s.maxid + 2);
                usez = uc.size() > k + 1 && uc[k + 1] != 0;
              } else usez = false;
            } else {
              usez = !s.m->is_zero_entry(acc(s, k + 1), s.order[k]);
            }
          }
          if (w == "VZ" && !usez) os << "(VS) ";
          if constexpr (O::is_of_boundary_type ? (O::column_indexation_type != Column_indexation_types::IDENTIFIER) : (O::column_indexation_type == Column_indexation_types::POSITION)) {
            bool r = (!usez) ? s.m->vine_swap(k) : s.m->vine_swap_with_z_eq_1_case(k);
            os << "SWAP bool " << (r ? 1 : 0);
          } else {
            unsigned a1 = acc(s, k), a2 = acc(s, k + 1);
            unsigned r = (!usez) ? s.m->vine_swap(a1, a2) : s.m->vine_swap_with_z_eq_1_case(a1, a2);
            os << "SWAP idx " << r << " of " << a1 << " " << a2;
          }
          std::swap(s.order[k], s.order[k + 1]); std::swap(s.dims[k], s.dims[k + 1]);
          vh::emit(os.str());
        } else vh::emit("UNSUPPORTED");
        continue;
      }
      if (w == "DUMP") { dump(s); continue; }
      if (w == "REP") {
        if constexpr (O::can_retrieve_representative_cycles) {
          s.m->update_representative_cycles();
          const auto& cycles = s.m->get_representative_cycles();
          for (const auto& c : cycles) {
            std::ostringstream os; os << "CYCLE";
            for (auto x : c) os << " " << x;
            vh::emit(os.str());
          }
          if constexpr (O::has_column_pairings) {
            const auto& bc = s.m->get_current_barcode();
            for (const auto& b : bc) {
              std::ostringstream os;
              os << "BARCYCLE " << b.dim << " " << (long)(b.birth == (unsigned)-1 ? -1 : (long)b.birth) << " "
                 << (long)(b.death == (unsigned)-1 ? -1 : (long)b.death) << " :";
              const auto& c = s.m->get_representative_cycle(b);
              for (auto x : c) os << " " << x;
              vh::emit(os.str());
            }
          }
        } else vh::emit("UNSUPPORTED");
        continue;
      }
      vh::emit("BADCMD");
    } catch (const std::exception& e) {
      vh::emit(std::string("EXC ") + e.what());
    }
  }
  vh::flush();
  return 0;
}

int main() { return run<Matrix<Opt> >(); }
