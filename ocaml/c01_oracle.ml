(* C01 oracle: reads the same lines as harness/c01_drv.cpp and prints, per operation, the dump that the ALGORITHM
   model (coq/C01_Model.v, extracted) predicts, in exactly the harness's format, followed by "|spec=..." :
   the verdict of the SPECIFICATION model (abstract complex of the history, coq/Simplex.v) on that dump
   (ok / DIFF:<section> / na when the history has left the documented preconditions: not closed, not monotone).
   Header: "H n l1..ln L"  (L = 1 when the option set links nodes by label: selects the coface algorithm).
   Environment C01_FX=0 runs the model of the UNREPAIRED code (findings F1-F3). *)
let fx = (try Sys.getenv "C01_FX" <> "0" with Not_found -> true)
let inf_z = z_of_int 1000000000
let ninf_z = z_of_int (-1000000000)
let zeq a b = (match Z.compare a b with Eq -> true | _ -> false)
let pv s = if s = "inf" then inf_z else if s = "-inf" then ninf_z else z_of_string s
let sv z = if zeq z inf_z then "inf" else if zeq z ninf_z then "-inf" else string_of_z z
let zi = int_of_z

let univ = ref [||]            (* labels as OCaml ints, ascending *)
let linked = ref false
let st = ref empty_state
let spec = ref ([] : cplx)
let ok = ref true

let mask_of (s : simplex) : int =
  List.fold_left (fun m x ->
      let xi = zi x in
      let r = ref (-1) in
      Array.iteri (fun i l -> if l = xi then r := i) !univ;
      if !r < 0 then failwith "label outside universe" else m lor (1 lsl !r)) 0 s
let simplex_of_mask m : simplex =
  let l = ref [] in
  for i = Array.length !univ - 1 downto 0 do if m land (1 lsl i) <> 0 then l := z_of_int !univ.(i) :: !l done;
  !l
let popcount m = let c = ref 0 in let m = ref m in while !m <> 0 do (c := !c + (!m land 1); m := !m lsr 1) done; !c
let sorted_masks l = List.sort compare (List.map mask_of l)

let dump (st0 : state) callD callN =
  let b = Buffer.create 4096 in
  let p fmt = Printf.bprintf b fmt in
  let n = Array.length !univ in
  let nm = 1 lsl n in
  let t = tree st0 in
  p "ub=%d|nv=%d|n=%d|e=%d" (zi (dim_ub st0)) (List.length t) (zi (size_t (Node t))) (if is_empty st0 then 1 else 0);
  p "|F=";
  let present = ref [] in
  for m = 1 to nm - 1 do
    let s = simplex_of_mask m in
    match find_val s t with
    | Some v -> present := m :: !present; p "%d:%s:%d " m (sv v) (popcount m - 1)
    | None -> ()
  done;
  let present = List.rev !present in
  p "|V=";
  List.iter (fun ((x, _), _) -> p "%d " (zi x)) t;
  p "|C=";
  List.iter (fun (s, v) -> p "%d:%s " (mask_of s) (sv v)) (enum_t (Node t));
  for d = 0 to n do
    p "|S%d=" d;
    List.iter (fun (s, _) -> p "%d " (mask_of s)) (skel_t (Node t) (nat_of_int d))
  done;
  p "|B=";
  List.iter (fun m ->
      let s = simplex_of_mask m in
      let bd = boundary_t t s in
      p "%d:" m;
      if List.exists (fun (_, o) -> o = None) bd then p "! "
      else begin
        List.iter (fun ((f, _), _) -> p "%d," (mask_of f)) bd;
        p "/";
        List.iter (fun ((f, o), _) -> p "%d^%d," (mask_of f) (zi o)) bd;
        p " "
      end) present;
  p "|K=";
  let kdiff = ref false in
  List.iter (fun m ->
      let s = simplex_of_mask m in
      for c = 0 to n do
        let cz = z_of_int c in
        let ru = sorted_masks (cofaces_unlinked fx st0 s cz) and rl = sorted_masks (cofaces_linked st0 s cz) in
        if fx && ru <> rl then kdiff := true;
        let r = if !linked then rl else ru in
        if not (r = [] && c > 0) then begin
          p "%d/%d:" m c;
          List.iter (fun x -> p "%d," x) r;
          p " "
        end
      done) present;
  p "|eq=%s%s%s" (bstr (eq_rebuilt st0)) (bstr (eq_rebuilt st0)) (bstr (eq_empty st0));
  let st1 = ref st0 in
  if callD then begin
    let (s', d) = dimension !st1 in st1 := s'; p "|dim=%d" (zi d)
  end;
  if callN then begin
    let (s', r) = count_by_dim !st1 in st1 := s';
    p "|nbd=";
    (match r with Some l -> List.iter (fun c -> p "%d," (zi c)) l | None -> p "OOB")
  end;
  if callD || callN then p "|ub2=%d" (zi (dim_ub !st1));
  (Buffer.contents b, !st1, present, !kdiff)

(* verdict of the specification on the state st0 (abstract complex k) *)
let spec_verdict (st0 : state) (k : cplx) present kdiff =
  let n = Array.length !univ in
  let t = tree st0 in
  let bad = ref [] in
  let chk name c = if not c then bad := name :: !bad in
  chk "wf" (wfb_t (Node t));
  chk "linked-vs-unlinked-cofaces" (not kdiff);
  (* membership and values *)
  for m = 1 to (1 lsl n) - 1 do
    let s = simplex_of_mask m in
    if lookup k s <> find_val s t then chk "find" false
  done;
  chk "num_simplices" (List.length k = zi (size_t (Node t)));
  let sk = List.sort compare (List.map (fun (s, v) -> (mask_of s, sv v)) k) in
  chk "complex_range" (sk = List.sort compare (List.map (fun (s, v) -> (mask_of s, sv v)) (enum_t (Node t))));
  chk "vertex_range" (List.map (fun ((x, _), _) -> [x]) t = List.filter (fun s -> List.length s = 1) (List.map simplex_of_mask (List.map fst sk)));
  for d = 0 to n do
    let want = List.filter (fun m -> popcount m - 1 <= d) (List.map fst sk) in
    if want <> List.sort compare (List.map (fun (s, _) -> mask_of s) (skel_t (Node t) (nat_of_int d))) then chk "skeleton_range" false
  done;
  List.iter (fun m ->
      let s = simplex_of_mask m in
      (* boundary: exactly the facets, each in the complex (closedness), with the opposite vertex *)
      let bd = boundary_t t s in
      if List.map (fun ((f, o), _) -> (f, o)) bd <> boundary s || List.exists (fun ((f, _), v) -> v = None || v <> lookup k f) bd then chk "boundary" false;
      if List.exists (fun ((f, o), _) -> mask_of f lor (mask_of [o]) <> m || popcount (mask_of f) <> popcount m - 1) bd
         || List.length bd <> (if popcount m = 1 then 0 else popcount m) then chk "boundary" false;
      for c = 0 to n do
        let cz = z_of_int c in
        let want = if c = 0 then sorted_masks (star k s) else sorted_masks (cofaces k s cz) in
        let got = sorted_masks (if !linked then cofaces_linked st0 s cz else cofaces_unlinked fx st0 s cz) in
        if want <> got then chk (if c = 0 then "star" else "cofaces") false
      done) present;
  let ed = cdim k in
  chk "upper_bound_dimension" (zi (dim_ub st0) >= zi ed);
  chk "dimension" (zeq (snd (dimension st0)) ed);
  chk "equality" (eq_rebuilt st0 && (eq_empty st0 = (k = [])));
  (match snd (count_by_dim st0) with
   | Some l -> chk "num_simplices_by_dimension" (List.map zi l = List.init (zi ed + 1) (fun d -> zi (count_dim k (z_of_int d))))
   | None -> chk "num_simplices_by_dimension" false);
  match List.rev !bad with [] -> "ok" | l -> "DIFF:" ^ String.concat "," (List.sort_uniq compare l)

let rec take n l = if n = 0 then [] else match l with x :: r -> x :: take (n - 1) r | [] -> failwith "short line"
let rec drop n l = if n = 0 then l else match l with _ :: r -> drop (n - 1) r | [] -> failwith "short line"

let handle line =
  match words line with
  | "H" :: ns :: rest ->
    let n = int_of_string ns in
    univ := Array.of_list (List.map int_of_string (take n rest));
    linked := (match drop n rest with "1" :: _ -> true | _ -> false);
    st := empty_state; spec := []; ok := true;
    emit "ok"
  | tok :: args ->
    let (tok, flags) = match String.index_opt tok ':' with
      | Some i -> (String.sub tok 0 i, String.sub tok (i + 1) (String.length tok - i - 1))
      | None -> (tok, "") in
    let callD = String.contains flags 'D' and callN = String.contains flags 'N' in
    let s0 = !st in
    let parse_vk args = match args with
      | v :: k :: r -> (pv v, List.map z_of_string (take (int_of_string k) r))
      | _ -> failwith "bad args" in
    let (o, ret) =
      match tok with
      | "IS" -> let (v, s) = parse_vk args in
        let (a, h) = ret_insert s0 s v in (Some (OInsert (s, v)), bstr a ^ (if h then "h" else "n"))
      | "IF" -> let (v, s) = parse_vk args in
        let (a, h) = ret_insert s0 s v in (Some (OInsertSub (s, v)), bstr a ^ (if h then "h" else "n"))
      | "IB" -> let (v, s) = parse_vk args in (Some (OBatch (s, v)), "-")
      | "IG" ->
        let nv = int_of_string (List.hd args) in
        let vw = List.map pv (take nv (List.tl args)) in
        let r = drop nv (List.tl args) in
        let ne = int_of_string (List.hd r) in
        let rec edges k l = if k = 0 then [] else match l with
            | u :: v :: w :: r -> ((z_of_string u, z_of_string v), pv w) :: edges (k - 1) r
            | _ -> failwith "bad edges" in
        if is_empty s0 then (Some (OGraph (vw, edges ne (List.tl r))), "-") else (None, "PRE")
      | "RM" ->
        let s = List.map z_of_string (take (int_of_string (List.hd args)) (List.tl args)) in
        (match find (norm s) (tree s0) with
         | Some (_, Node []) -> (Some (ORemove s), "-")
         | _ -> (None, "PRE"))
      | "PF" -> (Some (OPruneF (pv (List.hd args))), "m")
      | "PD" -> (Some (OPruneD (z_of_string (List.hd args))), "m")
      | "CL" -> (Some OClear, "-")
      | "EX" ->
        let k = abs (tree s0) in
        if zi (cdim k) <= 1 && closedb k then (Some (OExpand (z_of_string (List.hd args))), "-") else (None, "PRE")
      | _ -> failwith ("bad op " ^ tok) in
    let s1 = match o with Some o -> step fx s0 o | None -> s0 in
    let ret = if ret = "m" then bstr (ret_modified s0 s1) else ret in
    (match o with
     | Some o ->
       if !ok && not (pre_op !spec o) then ok := false;
       spec := spec_step !spec o;
       if !ok && not (good !spec) then ok := false
     | None -> ok := false);
    let (txt, s2, present, kdiff) = dump s1 callD callN in
    st := s2;
    let verdict = if !ok then spec_verdict s1 !spec present kdiff
      else if kdiff then "DIFF:linked-vs-unlinked-cofaces" (* outside the preconditions the two searches must still agree *)
      else "na" in
    emit ("r=" ^ ret ^ "|" ^ txt ^ "|spec=" ^ verdict)
  | [] -> emit "EMPTY"

let () =
  iter_lines (fun l -> try handle l with Failure m -> emit ("ORACLE-ERROR " ^ m));
  flush_out ()
