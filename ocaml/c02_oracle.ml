(* C02 oracle.  Lines:
     K <v,v:f;v,v:f;...>                         the complex in the order of filtration_simplex_range() as printed by the C++
     Z <p> <flag> <m> # <cpp pairs>              Field_Zp run; <cpp pairs> = b:d:ch,... as printed by harness/c02_drv.cpp
     M <lo> <hi> <flag> <m> # <cpp pairs>        Multi_field run
   Answer to a run line (space separated fields):
     mp=   pair list of the algorithm model [pcoh] (emission order)
     sv=   per prime q of the run: the proved oracle's diagram over Z_q as sorted (dim,b,d) list          (specification)
     cv=   per prime q: the (dim,b,d) of the C++ pairs whose characteristic q divides, sorted             (implementation)
     mv=   the same for the model's pairs
     sg= / cg= / mg=   (dim,b,d,product) multisets: oracle grouped by pair of keys / C++ / model
     iv= betti= bn= pbn= diag=   the read-outs as functions of the C++ pair list (Gallina definitions) *)
let cells : cell list ref = ref []
let ok = ref false
let sw = ref false      (* order of endpoints(): false on a Simplex_tree, true on a Hasse / cubical complex *)
let memo : (int, (nat * nat option) list option) Hashtbl.t = Hashtbl.create 16
let zs = string_of_z
let nat_s n = string_of_int (int_of_nat n)
let ozs = function None -> "inf" | Some z -> zs z
let join sep l = if l = [] then "-" else String.concat sep l
let sorted l = List.sort compare l

let parse_order s =
  if s = "-" then [] else
  List.map (fun item ->
    match String.split_on_char ':' item with
    | [vs; f] -> (List.map z_of_string (String.split_on_char ',' vs), z_of_string f)
    | _ -> failwith "bad simplex") (String.split_on_char ';' s)

(* cubical complexes: <dim>/<facet positions>/<value>;... *)
let parse_cells s =
  if s = "-" then [] else
  List.map (fun item ->
    match String.split_on_char '/' item with
    | [d; fs; f] ->
      { c_dim = nat_of_int (int_of_string d);
        c_faces = (if fs = "-" then [] else List.map (fun x -> nat_of_int (int_of_string x)) (String.split_on_char ',' fs));
        c_val = z_of_string f }
    | _ -> failwith "bad cell") (String.split_on_char ';' s)

let parse_pairs s : ((nat * nat option) * z) list =
  if s = "-" || s = "" then [] else
  List.map (fun item ->
    match String.split_on_char ':' item with
    | [b; d; ch] -> let d = int_of_string d in
      ((nat_of_int (int_of_string b), (if d < 0 then None else Some (nat_of_int d))), z_of_string ch)
    | _ -> failwith "bad pair") (String.split_on_char ',' s)

let pairs_str ps =
  join "," (List.map (fun ((b, d), ch) -> Printf.sprintf "%s:%s:%s" (nat_s b) (match d with None -> "-1" | Some d -> nat_s d) (zs ch)) ps)

let oracle q =
  match Hashtbl.find_opt memo q with
  | Some r -> r
  | None -> let r = oracle_pairs (z_of_int q) !cells in Hashtbl.add memo q r; r

let bar_s ((d, b), e) = Printf.sprintf "%s/%s/%s" (zs d) (zs b) (ozs e)
let view q ps = join "," (sorted (List.map bar_s (value_view !cells (z_of_int q) ps)))
let grouped ps = join "," (sorted (List.map (fun (bd, ch) -> bar_s (value_bar !cells bd) ^ "/" ^ zs ch) ps))

let distinct_values () =
  let vs = List.sort_uniq compare (List.map (fun c -> int_of_z c.c_val) !cells) in
  match vs with [] -> [] | x :: _ -> (x - 1) :: vs

let run_line multi a b flag m cpp =
  let primes = if multi then List.map int_of_z (primes_between (z_of_int a) (z_of_int b)) else [a] in
  let fo = if multi then mf_ops (List.map z_of_int primes) else zp_ops (z_of_int a) in
  let dim_max = dim_max_of !cells flag in
  let mp = pcoh_gen !sw fo !cells flag m in
  (* specification *)
  let per_q = List.map (fun q -> (q, (match oracle q with
                                       | Some l -> Some (List.filter (keep_pair !cells dim_max m) l) | None -> None))) primes in
  let certified = List.for_all (fun (_, o) -> o <> None) per_q in
  let per_q' = List.map (fun (q, o) -> (z_of_int q, match o with Some l -> l | None -> [])) per_q in
  let pos = (match Z.compare dim_max Z0 with Gt -> true | _ -> false) in
  let sv = join ";" (List.map (fun (q, l) -> Printf.sprintf "%s:%s" (zs q)
                                  (if pos then join "," (sorted (List.map (fun bd -> bar_s (value_bar !cells bd)) l)) else "-")) per_q') in
  let vw ps = join ";" (List.map (fun q -> Printf.sprintf "%d:%s" q (view q ps)) primes) in
  let sg = if pos then grouped (mf_group per_q') else "-" in
  (* read-outs of the C++ pair list *)
  let dd = int_of_z (complex_dim !cells) in
  let dtop = (max dd 0) + 2 in
  let dims = List.init (dtop + 1) (fun d -> d) in
  let iv = String.concat ";" (List.map (fun d ->
      Printf.sprintf "%d:%s" d (join "," (List.map (fun (x, y) -> zs x ^ "~" ^ ozs y) (intervals_in_dimension !cells cpp (nat_of_int d))))) dims) in
  let vec l = join "," (List.map zs l) in
  let betti = vec (betti_numbers !cells dim_max cpp) in
  let bn = vec (List.map (fun d -> betti_number !cells cpp (nat_of_int d)) dims) in
  let vs = distinct_values () in
  let pbn = join ";" (List.concat_map (fun f -> List.filter_map (fun t ->
      if f = t then None else
        Some (Printf.sprintf "%d:%d:%s" f t (vec (persistent_betti_numbers !cells dim_max cpp (z_of_int f) (z_of_int t))))) vs) vs) in
  let diag = join "|" (sorted (List.map (fun (((ch, d), b), e) -> Printf.sprintf "%s__%s_%s_%s_" (zs ch) (zs d) (zs b) (ozs e))
                                 (diagram_lines !cells cpp))) in
  Printf.sprintf "mp=%s cert=%s sv=%s cv=%s mv=%s sg=%s cg=%s mg=%s iv=%s betti=%s bn=%s pbn=%s diag=%s"
    (pairs_str mp) (bstr certified) sv (vw cpp) (vw mp) sg (grouped cpp) (grouped mp) iv betti bn pbn diag

let () =
  iter_lines (fun line ->
    (try
      match words line with
      | [] -> emit "empty"
      | [k; o] when k = "K" || k = "KH" || k = "KC" ->
        Hashtbl.reset memo;
        sw := (k <> "K");
        let parsed = if k = "KC" then Some (parse_cells o) else cells_of (parse_order o) in
        (match parsed with
         | Some c when not (valid_b c) -> cells := []; ok := false; emit "notvalid"
         | Some c when not (dd_zero c) -> cells := []; ok := false; emit "notchain"
         | Some c -> cells := c; ok := true;
           emit (Printf.sprintf "ok n=%d dim=%s" (List.length c) (zs (complex_dim c)))
         | None -> cells := []; ok := false; emit "notacomplex")
      | "Z" :: p :: flag :: m :: "#" :: rest when !ok ->
        emit (run_line false (int_of_string p) 0 (flag = "1") (z_of_string m) (parse_pairs (String.concat "" rest)))
      | "M" :: lo :: hi :: flag :: m :: "#" :: rest when !ok ->
        emit (run_line true (int_of_string lo) (int_of_string hi) (flag = "1") (z_of_string m) (parse_pairs (String.concat "" rest)))
      | _ -> emit "badline"
    with e -> emit ("ORACLE-EXC " ^ Printexc.to_string e)));
  flush_out ()
