(* C03 oracle: reads the same lines as harness/c03_drv.cpp and prints what the extracted Coq model
   (coq/C03_Model.v) answers.  Values are exact rationals (Q of Coq); +-infinity are the sentinels +-q_inf. *)
let two = z_of_int 2
let q_of_z z = { qnum = z; qden = XH }
let rec pos_of_z z = match z with Zpos p -> p | _ -> failwith "denominator"
let q_neg_inf = qopp q_inf
let parse_q s =
  if s = "inf" then q_inf else if s = "-inf" then q_neg_inf else
  match String.index_opt s '/' with
  | None -> q_of_z (z_of_string s)
  | Some k -> { qnum = z_of_string (String.sub s 0 k); qden = pos_of_z (z_of_string (String.sub s (k + 1) (String.length s - k - 1))) }
let qeq a b = qeq_bool a b
let fmt_q x =
  if qeq x q_inf then "inf" else if qeq x q_neg_inf then "-inf" else
  let r = q_red x in
  match r.qden with
  | XH -> string_of_z r.qnum
  | d -> string_of_z r.qnum ^ "/" ^ string_of_z (Zpos d)
let fmt_qo = function Some x -> fmt_q x | None -> "nan"
let parse_simplex s = List.map z_of_string (List.filter (fun x -> x <> "") (String.split_on_char ',' s))
let ints s = List.map int_of_z s
let sstr s = String.concat "," (List.map string_of_int (ints s))

let dump (k : qcplx) =
  let l = List.map (fun (s, v) -> (ints s, v)) k in
  let l = List.sort (fun (a, _) (b, _) -> compare a b) l in
  let b = Buffer.create 4096 in
  List.iter (fun (s, v) -> Buffer.add_string b (String.concat "," (List.map string_of_int s)); Buffer.add_char b ':';
              Buffer.add_string b (fmt_q v); Buffer.add_char b ';') l;
  Buffer.contents b

let range_str (l : (simplex * q option) list) =
  let b = Buffer.create 4096 in
  List.iter (fun (s, v) -> Buffer.add_string b (sstr s); Buffer.add_char b ':'; Buffer.add_string b (fmt_qo v); Buffer.add_char b ';') l;
  Buffer.contents b

let st : q state ref = ref ([], [])
let efd : (q * q) option ref = ref None
let vmin = ref (z_of_int 0)
let have = ref false
let tname t = match int_of_z t with 0 -> "UP" | 1 -> "DOWN" | _ -> "EXTRA"

let op w =
  let with_dump r = r ^ " # " ^ dump (fst !st) in
  match w with
  | ["ins"; s; v] ->
    let s = parse_simplex s and v = parse_q v in
    let k = fst !st in
    let was = (match q_lookup k s with Some _ -> true | None -> false) in
    st := clear_filtration (q_insert k s v, snd !st);
    with_dump (if was then "old" else "new")
  | ["set"; s; v] ->
    let s = parse_simplex s and v = parse_q v in
    let k = fst !st in
    (match q_lookup k s with
     | None -> with_dump "absent"
     | Some _ -> st := clear_filtration (q_set k s v, snd !st); with_dump "ok")
  | ["range"] ->
    let (st', r) = q_range !st in
    st := st';
    with_dump (range_str r)
  | ["init"; ign] ->
    let ig = (ign = "1") in
    st := q_init ig !st;
    (* cross-check inside the model: another sorting routine gives the same list (theorem C03_sort_independent) *)
    let k = fst !st in
    if List.length k <= 400 && q_init_isort ig k <> snd !st then "MODELDIFF(sort)" else
    let (st', r) = q_range !st in
    st := st';
    with_dump (range_str r)
  | ["mfnd"] ->
    let (st', b) = q_mfnd !st in
    st := st';
    with_dump (bstr b)
  | ["prune"; v] ->
    let (st', b) = q_prune (parse_q v) !st in
    st := st';
    with_dump (bstr b)
  | ["extend"] ->
    let (st', (mn, mx)) = op_extend !vmin !st in
    st := st'; efd := Some (mn, mx);
    with_dump (fmt_q mn ^ " " ^ fmt_q mx)
  | ["decodeall"] ->
    (match !efd with
     | None -> with_dump "noefd"
     | Some (mn, mx) ->
       let l = List.map (fun (s, v) -> let (o, t) = decode_extended_filtration v mn mx in (ints s, fmt_qo o ^ ":" ^ tname t)) (fst !st) in
       let l = List.sort compare l in
       with_dump (String.concat "" (List.map (fun (s, x) -> String.concat "," (List.map string_of_int s) ^ ":" ^ x ^ ";") l)))
  | ["decode"; f; mn; mx] ->
    let (o, t) = decode_extended_filtration (parse_q f) (parse_q mn) (parse_q mx) in
    fmt_qo o ^ ":" ^ tname t
  | _ -> "BADLINE"

let () =
  iter_lines (fun line ->
      let w = words line in
      let ans =
        try
          match w with
          | ["G"; os; _] ->
            if List.mem os ["def"; "full"; "fast"; "stable"; "link"; "nokey"; "intv"] then begin
              have := true; st := ([], []); efd := None;
              vmin := (if os = "link" then z_of_int (-32768) else z_of_int (-2147483648));
              "ok" end
            else (have := false; "nosuchoptions")
          | [] -> "BADLINE"
          | _ -> if not !have then "NOGROUP" else op w
        with Failure m -> "BADLINE"
      in
      emit ans);
  flush_out ()
