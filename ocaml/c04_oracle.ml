(* C04 oracle: reads the harness's operation lines, runs the extracted algorithm models of C04_Model.v and prints
   "<model answer in the harness's syntax> || <specification: dim=.. S=..  or -> || <notes>"
   header "G [fx]" : fx = 1 when the repaired expansion_with_blockers (no expansion for max_dim <= 1) is modelled *)
let zs = string_of_z
let cmp_z a b = match Z.compare a b with Lt -> -1 | Eq -> 0 | Gt -> 1
let rec cmp_s a b = match a, b with
  | [], [] -> 0 | [], _ -> -1 | _, [] -> 1
  | x :: a', y :: b' -> let c = cmp_z x y in if c <> 0 then c else cmp_s a' b'
let str_s s = String.concat "," (List.map zs s)
let str_items (l : (z list * string) list) =
  let l = List.sort (fun (a, x) (b, y) -> let c = cmp_s a b in if c <> 0 then c else compare x y) l in
  if l = [] then "-" else String.concat ";" (List.map (fun (s, v) -> if v = "" then str_s s else str_s s ^ ":" ^ v) l)
let str_cplx (k : cplx) = str_items (List.map (fun (s, w) -> (s, zs w)) k)
let dump (st : state) =
  let k = abs st.tree in
  Printf.sprintf "dim=%s ub=%s nv=%d n=%d S=%s" (zs st.dimn) (zs st.dimn) (List.length st.tree) (List.length k) (str_cplx k)
let spec_str (k : cplx) = Printf.sprintf "dim=%s S=%s" (zs (cdim k)) (str_cplx k)
let keys_diff (a : cplx) (b : cplx) =       (* simplices of b that are not in a *)
  List.filter (fun (s, _) -> not (List.exists (fun (t, _) -> cmp_s s t = 0) a)) b

let () =
  let st = ref empty_state in
  let g = ref { gverts = []; gedges = [] } in
  let fx = ref true in
  let inorder = ref true and last = ref None and okhist = ref true and edge_route = ref false in
  let zero = z_of_int 0 in
  iter_lines (fun line ->
    let w = words line in
    (try
      match w with
      | "G" :: rest ->
        st := empty_state; g := { gverts = []; gedges = [] };
        fx := (match rest with "0" :: _ -> false | _ -> true);
        inorder := true; last := None; okhist := true; edge_route := false;
        emit "ok"
      | "graph" :: rest ->
        let vs = ref [] and es = ref [] and inedges = ref false in
        List.iter (fun tok ->
          if tok = "|" then inedges := true else begin
            let c = String.index tok ':' in
            let a = String.sub tok 0 c and wv = z_of_string (String.sub tok (c + 1) (String.length tok - c - 1)) in
            if not !inedges then vs := (z_of_string a, wv) :: !vs
            else begin
              let k = String.index a ',' in
              es := ((z_of_string (String.sub a 0 k), z_of_string (String.sub a (k + 1) (String.length a - k - 1))), wv) :: !es
            end
          end) rest;
        g := { gverts = List.rev !vs; gedges = List.rev !es };
        (match ins_graph !g with
         | Some s -> st := s;
           emit (Printf.sprintf "ok %s || %s || ok=%s mono=%s" (dump s) (spec_str (flag_cplx !g (z_of_int 1))) (bstr (graph_okb !g)) (bstr (graph_monob !g)))
         | None -> emit "EXC invalid_argument || - || -")
      | [ "exp"; d ] ->
        let d = z_of_string d in
        st := expansion !st d;
        emit (Printf.sprintf "ok %s || %s || -" (dump !st) (spec_str (flag_cplx !g d)))
      | "blk" :: d :: kind :: ps ->
        let d = z_of_string d in
        let b = match kind, ps with
          | "none", _ -> BNone
          | "dimge", [ m ] -> BDimGe (z_of_string m)
          | "val", [ t ] -> BVal (z_of_string t)
          | "hash", [ m; r ] -> BHash (z_of_string m, z_of_string r)
          | _ -> failwith "blocker" in
        let (s, log) = exp_blockers (blocks b) !fx !st d in
        st := s;
        emit (Printf.sprintf "ok %s B=%s || %s || -" (dump s) (str_cplx log) (spec_str (bflag_cplx !g d (blocks b))))
      | ("vtx" | "edge") :: rest ->
        let (u, v, wv, d) = match w with
          | [ "vtx"; x; wv; d ] -> (z_of_string x, z_of_string x, z_of_string wv, z_of_string d)
          | [ "edge"; u; v; wv; d ] -> (z_of_string u, z_of_string v, z_of_string wv, z_of_string d)
          | _ -> failwith "edge" in
        edge_route := true;
        let op = if cmp_z u v = 0 then EV (u, wv) else EE (u, v, wv) in
        if not (eops_okb !g [ op ]) then okhist := false;
        (match !last with Some l when cmp_z wv l < 0 -> inorder := false | _ -> ());
        (* a vertex inserted twice keeps its first value and does not count as a step of the order *)
        (match op with EV (x, _) when (match vval !g x with Some _ -> true | None -> false) -> () | _ -> last := Some wv);
        g := (match op with EV (x, wv) -> g_add_vertex !g x wv | EE (a, b, wv) -> g_add_edge !g a b wv);
        let before = abs !st.tree in
        st := insert_edge_as_flag !st u v wv d;
        let added = keys_diff before (abs !st.tree) in
        let dd = if cmp_z d (z_of_int (-1)) = 0 then z_of_int (List.length !g.gverts) else d in
        let spec = if !inorder && !okhist then
            spec_str (cplx_of (fun s -> match flag !g dd s with Some _ -> Some (fval_all !g s) | None -> None) (vlabels !g))
          else "-" in
        emit (Printf.sprintf "ok %s A=%s || %s || inorder=%s okhist=%s" (dump !st) (str_items (List.map (fun (s, _) -> (s, "")) added)) spec
                (bstr !inorder) (bstr !okhist))
      | [ "mfnd" ] ->
        let before = abs !st.tree in
        st := mfnd !st;
        let changed = before <> abs !st.tree in
        emit (Printf.sprintf "%s %s || - || -" (bstr changed) (dump !st))
      | [ "chk"; d ] ->     (* oracle only: the specification for the graph accumulated so far (values incl. vertices) *)
        let d = z_of_string d in
        let dd = if cmp_z d (z_of_int (-1)) = 0 then z_of_int (List.length !g.gverts) else d in
        emit (Printf.sprintf "ok %s || %s || okhist=%s" (dump !st)
                (if not !okhist then "-" else spec_str (cplx_of (fun s -> match flag !g dd s with Some _ -> Some (fval_all !g s) | None -> None) (vlabels !g))) (bstr !okhist))
      | ("ripsp" | "ripsm") :: d :: thr :: "|" :: rest ->
        let d = z_of_string d and thr = z_of_string thr in
        let (n, dist) =
          if List.hd w = "ripsp" then begin
            let pts = List.map (fun tok -> List.map z_of_string (String.split_on_char ',' tok)) rest in
            (List.length pts, dist_pts pts)
          end else begin
            let rows = ref [ [] ] in
            List.iter (fun tok -> if tok = ";" then rows := [] :: !rows else rows := (z_of_string tok :: List.hd !rows) :: List.tl !rows) rest;
            let m = List.rev_map List.rev !rows in
            (List.length m, dist_mat m)
          end in
        let nn = nat_of_int n in
        g := prox_graph nn dist thr;
        (match rips nn dist thr d with
         | Some s -> st := s;
           emit (Printf.sprintf "ok %s || %s || -" (dump s) (spec_str (cplx_of (rips_spec nn dist thr d) (zrange zero nn))))
         | None -> emit "EXC || - || -")
      | _ -> emit "? || - || -"
    with Failure m -> emit ("ORACLE-ERROR " ^ m ^ " || - || -") | Not_found -> emit "ORACLE-ERROR parse || - || -"));
  flush_out ()
