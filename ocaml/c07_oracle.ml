(* C07 oracle: evaluates the extracted SPECIFICATION of the zigzag barcode (coq/C07_Model.v) and the models of the
   filtered front-ends on the case lines of harness/c07_drv.cpp and prints the same per-arrow observations, followed by
     ## bars=<index barcode k,b,d;...>  valid=<0|1>  betti=<0|1>  po=<0|1|->  fullres=<0|1|->  mnn=<0|1>  kok=<0|1>
   betti   : for every arrow i and dimension k, the number of bars alive at i equals the Betti number of K_i (by ranks)
   mnn     : no multiplicity r(b,e)-r(b-1,e)-r(b,e+1)+r(b-1,e+1) is negative (hypothesis of C07_alive_count_is_rank_at_i)
   kok     : keyed_ok (hypothesis of C07_ignored_dimensions): keys not re-inserted while bound, boundary keys name present cells of dim-1
   po      : insertion-only sequence: the barcode equals the certified ordinary persistence pairing (coq/ReduceExec.v)
   fullres : with_storage + dimmax: bars of kept dimensions of the skipped sequence = those of the full sequence *)
let zs = string_of_z
let ns n = string_of_int (int_of_nat n)
let join sorted l = let l = if sorted then List.sort compare l else l in if l = [] then "-" else String.concat ";" l
let split_on c s = String.split_on_char c s

let parse_case line =
  match split_on ';' line with
  | [] -> None
  | hd :: rest ->
    (match words hd with
     | [m; dm; sh] ->
       let ops = List.filter_map (fun p ->
         match words p with
         | [] -> None
         | "I" :: k :: d :: f :: bd -> Some (Ins (z_of_string k, z_of_string d, z_of_string f, List.map z_of_string bd))
         | ["R"; k; f] -> Some (Rem (z_of_string k, z_of_string f))
         | ["N"] -> Some Nop
         | _ -> failwith "bad op") rest in
       Some (m, z_of_string dm, z_of_string sh, ops)
     | _ -> None)

let bar_str (((k, b), d) : bar) = zs k ^ "," ^ ns b ^ "," ^ (match d with Some d -> ns d | None -> "inf")
let vbar_str ((k, b), d) = zs k ^ "," ^ zs b ^ "," ^ (match d with Some d -> zs d | None -> "inf")
let same_multiset a b = List.sort compare a = List.sort compare b
let minus_one = z_of_int (-1)
let zeq a b = (match Z.compare a b with Eq -> true | _ -> false)

(* the barcode depends only on the (skipped) normalised sequence: computed once for the Z / F / S lines of one sequence *)
let memo : (string, bar list) Hashtbl.t = Hashtbl.create 64
let barcode_memo key s =
  match Hashtbl.find_opt memo key with
  | Some b -> b
  | None -> if Hashtbl.length memo > 2000 then Hashtbl.reset memo; let b = barcode s in Hashtbl.add memo key b; b
let ops_part line = match String.index_opt line ';' with Some i -> String.sub line i (String.length line - i) | None -> ""

let case_line line =
  match parse_case line with
  | None -> "BADLINE"
  | Some (mode, dimmax, shortest, ops) ->
    let dimmax = if mode = "S" then dimmax else minus_one in
    let s = normalize dimmax ops in
    let n = List.length s in
    let bs = barcode_memo (zs dimmax ^ ops_part line) s in
    let steps = List.init n (fun i -> i) in
    let seg i =
      let ni = nat_of_int i in
      match mode with
      | "Z" ->
        Printf.sprintf "%d s=%s o=%s" i (join false (List.map bar_str (streamed_at bs ni)))
          (join true (List.map (fun (k, b) -> zs k ^ "," ^ ns b) (open_after bs ni)))
      | "F" ->
        Printf.sprintf "%d s=%s o=%s" i
          (join false (List.map (fun ((k, fb), fd) -> zs k ^ "," ^ zs fb ^ "," ^ zs fd) (f_streamed ops bs ni)))
          (join true (List.map (fun (k, fb) -> zs k ^ "," ^ zs fb) (f_open ops bs ni)))
      | _ ->
        let vals = arrow_values dimmax ops in
        let rec firstn k l = if k = 0 then [] else (match l with [] -> [] | x :: r -> x :: firstn (k - 1) r) in
        let pre = firstn (i + 1) vals in
        let first_stored = let rec go j = function [] -> -1 | Some _ :: _ -> j | None :: r -> go (j + 1) r in go 0 pre in
        let v = if first_stored < 0 then [] else
            List.init (i - first_stored + 1) (fun j -> match fv_from_index pre (nat_of_int (first_stored + j)) with
                | Some f -> zs f | None -> "UB") in
        Printf.sprintf "%d x=%s p=%s q=%s v=%s" i
          (join true (List.map bar_str (s_index_diagram dimmax bs ni)))
          (join true (List.map vbar_str (s_diagram dimmax ops bs Z0 true ni)))
          (join true (List.map vbar_str (s_diagram dimmax ops bs shortest false ni)))
          (join false v) in
    let segs = String.concat " | " (List.map seg steps) in
    let v = valid s in
    let betti_ok = List.for_all (fun k -> List.for_all (fun i ->
        zeq (alive_count bs k (nat_of_int i)) (betti s k (nat_of_int i))) steps) (dims s) in
    let po = if n > 0 && insertion_only s then
        (match ordinary_bars s with
         | Some ob -> if same_multiset (List.map bar_str ob) (List.map bar_str bs) then "1" else "0"
         | None -> "0")
      else "-" in
    let fullres = if mode = "S" && not (zeq dimmax minus_one) then begin
        let full = barcode_memo (zs minus_one ^ ops_part line) (normalize minus_one ops) in
        let keep l = List.filter (fun ((k, _), _) -> dim_kept dimmax k) l in
        if same_multiset (List.map bar_str (keep full)) (List.map bar_str (keep bs)) then "1" else "0" end
      else "-" in
    let mnn = List.for_all (fun k -> mult_nonneg s k) (dims s) in
    Printf.sprintf "%s ## bars=%s valid=%s betti=%s po=%s fullres=%s mnn=%s kok=%s" segs (join true (List.map bar_str bs))
      (bstr v) (bstr betti_ok) po fullres (bstr mnn) (bstr (keyed_ok ops))

let () =
  iter_lines (fun line ->
    if String.length line > 0 && line.[0] = 'G' then emit "ok"
    else emit (try case_line line with Failure m -> "ORACLE-ERROR " ^ m | Not_found -> "ORACLE-ERROR notfound"));
  flush_out ()
