(* C09 oracle driver: reads the same lines as harness/c09_drv.cpp, runs the extracted specification (dense matrix) and
   the extracted algorithm models (sparse merge / heap multiset / lazy vector, lazy swaps, compression union-find) and
   prints, per input line, the line the harness must print.  When the algorithm model and the specification disagree
   (impossible under the theorems of Properties_C09.v for the repaired models) the line starts with MODELDIFF. *)
let zi = z_of_int
let iz = int_of_z
let ni = nat_of_int

type alg = A of amat | K of kmat

type st = {
  mutable kind : z; mutable z2 : bool; mutable rows : bool; mutable remrows : bool; mutable mapc : bool; mutable swaps : bool;
  mutable compr : bool; mutable p : z; mutable nr : int; mutable b : int;
  mutable d : dmat; mutable a : alg; mutable known : bool array; mutable rows_sized : int; mutable fl : flags;
  mutable live : bool }

let s = { kind = zi 0; z2 = false; rows = false; remrows = false; mapc = false; swaps = false; compr = false; p = zi 2; nr = 0; b = 0;
          d = d_empty; a = A (a_empty O); known = [||]; rows_sized = 0; fl = all_fixed false; live = false }

let parse_entries ws =
  List.map (fun t -> match String.split_on_char ':' t with
    | [r; v] -> (z_of_string r, z_of_string v) | _ -> failwith "entry") ws

let row_known r = r < Array.length s.known && s.known.(r)
let learn_rows es =
  match List.rev es with
  | [] -> ()
  | (pr, _) :: _ ->
    let piv = iz pr in
    if Array.length s.known <= piv then begin
      let k = Array.make (piv + 1) false in Array.blit s.known 0 k 0 (Array.length s.known); s.known <- k end;
    if s.mapc then List.iter (fun (r, _) -> s.known.(iz r) <- true) es
    else for i = 0 to piv do s.known.(i) <- true done;
    s.rows_sized <- max s.rows_sized (piv + 1)

let ncols_spec () = iz (d_ncols (s.mapc && not s.compr) s.d)
let col_in_range j = if s.mapc && not s.compr then true else j < ncols_spec ()

let vec_str v = String.concat "," (List.map string_of_z v)
let row_str es =
  let es = List.sort compare (List.map (fun (j, v) -> (iz j, iz v)) es) in
  String.concat "," (List.map (fun (j, v) -> Printf.sprintf "%d:%d" j v) es)

(* dump from the specification *)
let dump_spec () =
  let buf = Buffer.create 256 in
  Buffer.add_string buf (Printf.sprintf "N=%d" (ncols_spec ()));
  for j = 0 to s.b - 1 do
    Buffer.add_string buf (Printf.sprintf " C%d=" j);
    if not (col_in_range j) then Buffer.add_string buf "A" else
    match d_col s.d (zi j) with
    | None -> Buffer.add_string buf "A"
    | Some v ->
      Buffer.add_string buf (vec_str v); Buffer.add_string buf "/";
      Buffer.add_string buf (bstr (dis_zero v)); Buffer.add_string buf "/";
      for r = 0 to s.nr - 1 do
        Buffer.add_string buf (bstr (match Z.compare (dget v (zi r)) Z0 with Eq -> true | _ -> false))
      done
  done;
  if s.rows then
    for r = 0 to s.nr - 1 do
      Buffer.add_string buf (Printf.sprintf " R%d=" r);
      if (not s.remrows) && r >= s.rows_sized then () else
      Buffer.add_string buf (row_str (if s.compr then dk_row s.d (zi r) else d_row s.d (zi r)))
    done;
  Buffer.contents buf

(* dump from the algorithm model, through its own observation functions *)
let dump_alg () =
  let buf = Buffer.create 256 in
  (match s.a with A m -> s.a <- A (a_order s.fl s.mapc s.p m) | K _ -> ());
  let ncols = match s.a with A m -> iz (a_ncols s.mapc m) | K m -> iz m.k_next in
  let in_range j = if s.mapc && not s.compr then true else j < ncols in
  Buffer.add_string buf (Printf.sprintf "N=%d" ncols);
  for j = 0 to s.b - 1 do
    Buffer.add_string buf (Printf.sprintf " C%d=" j);
    if not (in_range j) then Buffer.add_string buf "A" else
    let co = match s.a with A m -> a_col m (zi j) | K m -> Some (k_col s.kind m (zi j)) in
    match co with
    | None -> Buffer.add_string buf "A"
    | Some c ->
      Buffer.add_string buf (vec_str (a_content s.p (ni s.nr) c)); Buffer.add_string buf "/";
      Buffer.add_string buf (bstr (c_is_empty s.p c)); Buffer.add_string buf "/";
      for r = 0 to s.nr - 1 do
        begin
          let b = match s.a with
            | A m -> (match a_is_zero_entry s.p m (zi j) (zi r) with Some b -> b | None -> true)
            | K _ -> not (c_nonzero s.p c (zi r)) in
          Buffer.add_string buf (bstr b) end
      done
  done;
  if s.rows then
    for r = 0 to s.nr - 1 do
      Buffer.add_string buf (Printf.sprintf " R%d=" r);
      if (not s.remrows) && r >= s.rows_sized then () else
      Buffer.add_string buf (row_str (match s.a with
        | A m -> a_row m (zi r)
        | K m ->
          (* the column index carried by a row entry is canonicalised to the smallest index with identical content *)
          let ncols = iz m.k_next in
          let content j = a_content s.p (ni s.nr) (k_col s.kind m (zi j)) in
          let canon j = let v = content j in let rec go i = if i >= ncols then j else if content i = v then i else go (i + 1) in go 0 in
          List.map (fun (j, v) -> (zi (canon (iz j)), v)) (k_row m (zi r))))
    done;
  Buffer.contents buf

let answer status =
  let sp = dump_spec () in
  let al = (try dump_alg () with e -> "ALGEXC " ^ Printexc.to_string e) in
  if sp = al then emit (status ^ " " ^ sp)
  else emit ("MODELDIFF " ^ status ^ " " ^ al ^ " ## " ^ status ^ " " ^ sp)

(* apply an operation to both models; `None` on either side = the call throws (absent column in a map container) *)
let both (fd : dmat -> dmat option) (fa : amat -> amat option) (fk : kmat -> kmat option) =
  let rd = fd s.d in
  let ra = match s.a with
    | A m -> (match fa m with Some m' -> Some (A m') | None -> None)
    | K m -> (match fk m with Some m' -> Some (K m') | None -> None) in
  match rd, ra with
  | Some d', Some a' -> s.d <- d'; s.a <- a'; "OK"
  | None, None -> "EXC"
  | Some d', None -> s.d <- d'; (match s.a with K _ -> "NULLREP" | A _ -> "ALGEXC")
  | None, Some a' -> s.a <- a'; "SPECEXC"

let () =
  iter_lines (fun line ->
    let ws = words line in
    let quiet, ws = (match ws with "Q" :: t -> true, t | _ -> false, ws) in
    let answer st = if quiet then emit st else answer st in
    match ws with
    | [] -> ()
    | "NEW" :: colt :: z2 :: rows :: intr :: remrows :: mapc :: swaps :: compr :: p :: nr :: b :: mode :: _ ->
      let bo x = x = "1" in
      s.kind <- zi (if colt = "HEAP" then 1 else if colt = "VECTOR" then 2 else 0);
      s.z2 <- bo z2; s.rows <- bo rows; s.remrows <- bo remrows; s.mapc <- bo mapc; s.swaps <- bo swaps; s.compr <- bo compr;
      s.p <- z_of_string p; s.nr <- int_of_string nr; s.b <- int_of_string b;
      s.fl <- all_fixed s.rows;
      s.d <- d_empty;
      s.a <- (if s.compr then K k_empty else A (a_empty (ni s.nr)));
      let mode = int_of_string mode in
      s.known <- Array.make mode true; s.rows_sized <- mode; s.live <- true;
      answer "OK"
    | op :: args when s.live ->
      let i k = z_of_string (List.nth args k) in
      let ii k = int_of_string (List.nth args k) in
      let mapc = s.mapc && not s.compr in
      let nrn = ni s.nr in
      let status =
        match op with
        | "IC" ->
          let es = parse_entries args in
          if s.compr then begin
            s.d <- dk_insert s.p nrn s.d es;
            (match s.a with K m -> s.a <- K (k_insert s.kind s.p nrn m es) | _ -> ())
          end else begin
            s.d <- d_insert mapc s.p nrn s.d es;
            (match s.a with A m -> s.a <- A (a_insert s.fl mapc s.kind s.p m es) | _ -> ())
          end;
          learn_rows es; "OK"
        | "IA" ->
          let idx = ii 0 in
          let es = parse_entries (List.tl args) in
          if s.rows || s.compr then "SKIP" else begin
            let free_slot = if mapc then (d_col s.d (zi idx) = None) else idx >= ncols_spec () in
            if not free_slot then "SKIP" else begin
              s.d <- d_insert_at mapc s.p nrn s.d (zi idx) es;
              (match s.a with A m -> s.a <- A (a_insert_at s.fl mapc s.kind s.p m (zi idx) es) | _ -> ());
              learn_rows es; "OK" end end
        | "RC" ->
          if mapc then begin
            s.d <- d_remove_col s.d (i 0); (match s.a with A m -> s.a <- A (a_remove_col m (i 0)) | _ -> ()); "OK"
          end else "SKIP"
        | "RL" ->
          if s.compr then "SKIP" else begin
            s.d <- d_remove_last s.d; (match s.a with A m -> s.a <- A (a_remove_last m) | _ -> ()); "OK" end
        | "ADD" | "ADDR" | "MTA" | "MTAR" | "MSA" | "MSAR" ->
          let (src, c, tgt) = match op with
            | "ADD" | "ADDR" -> (i 0, zi 1, i 1)
            | "MTA" | "MTAR" -> (i 0, i 1, i 2)
            | _ -> (i 1, i 0, i 2) in
          let is_range = (op = "ADDR" || op = "MTAR" || op = "MSAR") in
          (* an entry range that is the very column object of the target is outside the preconditions *)
          let aliased () =
            match s.a with
            | A m -> (match a_col m src, a_col m tgt with Some _, Some _ -> Z.compare src tgt = Eq | _ -> false)
            | K m -> let rs = k_find m src and rt = k_find m tgt in
              Z.compare rs rt = Eq || (lget m.k_rep rs = None && lget m.k_rep rt = None) in
          if not (col_in_range (iz src)) || not (col_in_range (iz tgt)) then "SKIP"
          else if is_range && aliased () then "SKIP" else begin
            (* the entry-range forms read the source through get_column, which orders the rows first *)
            (match op, s.a with
             | ("ADDR" | "MTAR" | "MSAR"), A m ->
               (match d_col s.d src with Some _ -> s.a <- A (a_order s.fl s.mapc s.p m) | None -> s.a <- A (a_order s.fl s.mapc s.p m))
             | _ -> ());
            let cm = Z.modulo c s.p in
            match op with
            | "ADD" | "ADDR" ->
              both (fun d -> if s.compr then dk_axpy s.p d (zi 1) tgt (zi 1) src else d_add s.p d src tgt)
                (fun m -> a_add s.p m src tgt) (fun m -> k_upd true s.kind s.p nrn m src tgt (zi 2) (c_add s.p))
            | "MTA" | "MTAR" ->
              both (fun d -> if s.compr then dk_axpy s.p d cm tgt (zi 1) src else d_mta s.p d src c tgt)
                (fun m -> a_mta s.p m src c tgt) (fun m -> k_upd true s.kind s.p nrn m src tgt (Z.add cm (zi 1)) (c_mta s.p cm))
            | _ ->
              both (fun d -> if s.compr then dk_axpy s.p d (zi 1) tgt cm src else d_msa s.p d c src tgt)
                (fun m -> a_msa s.fl s.p m c src tgt) (fun m -> k_upd true s.kind s.p nrn m src tgt (Z.add cm (zi 1)) (c_msa s.fl s.p cm))
          end
        | "ZE" ->
          if s.compr then "SKIP"
          else if not (col_in_range (ii 0)) then "SKIP"
          else both (fun d -> d_zero_entry d (i 0) (i 1)) (fun m -> a_zero_entry s.fl s.p m (i 0) (i 1)) (fun _ -> None)
        | "ZC" ->
          if s.compr then "SKIP"
          else if not (col_in_range (ii 0)) then "SKIP"
          else both (fun d -> d_zero_col nrn d (i 0)) (fun m -> a_zero_col m (i 0)) (fun _ -> None)
        | "SR" ->
          if (not s.swaps) || s.compr then "SKIP"
          else both (fun d -> Some (d_swap_rows d (i 0) (i 1))) (fun m -> Some (a_swap_rows m (i 0) (i 1))) (fun _ -> None)
        | "SC" ->
          if (not s.swaps) || s.compr then "SKIP"
          else if not (col_in_range (ii 0)) || not (col_in_range (ii 1)) then "SKIP"
          else both (fun d -> d_swap_cols d (i 0) (i 1)) (fun m -> a_swap_cols s.rows m (i 0) (i 1)) (fun _ -> None)
        | "NOP" -> "OK"
        | _ -> "BADCMD" in
      answer status
    | _ -> emit "NOMATRIX");
  flush_out ()
