(* C10 oracle: same input as harness/c10_drv.cpp, prints the value the specification (exact arithmetic mod P)
   requires; where an algorithm model exists it is evaluated too and must agree with the specification
   (otherwise the line is MODELDIFF(...), which can only happen outside the theorems' hypotheses). *)
let zs = string_of_z
let is_zp cls = List.mem cls ["zpops"; "zpsh"; "zpel"; "cohzp"]
let is_z2 cls = cls = "z2ops" || cls = "z2el"
let is_small cls = List.mem cls ["mfsops"; "mfssh"; "mfsel"]
let is_gmp cls = List.mem cls ["mfops"; "mfsh"; "mfel"; "cohmf"]
let zeq a b = (match Z.compare a b with Eq -> true | _ -> false)
let zlt a b = (match Z.compare a b with Lt -> true | _ -> false)
let two = z_of_int 2
let one = z_of_int 1

let cls = ref "" and primes = ref [] and bigp = ref Z0

let agree spec alg = if zeq spec alg then zs spec else Printf.sprintf "MODELDIFF(spec=%s,model=%s)" (zs spec) (zs alg)

let group w =
  match w with
  | c :: cfg ->
    cls := c;
    let cfg = List.map z_of_string cfg in
    if is_z2 c then (primes := [two]; bigp := two; "ok")
    else if is_zp c then begin
      let p = List.hd cfg in
      primes := [p]; bigp := p;
      let spec_ok = is_prime p && (c <> "cohzp" || not (zlt (z_of_int 46337) p)) in
      (* algorithm model of the table construction, only evaluated for small p (quadratic) *)
      let small = zlt p (z_of_int 3000) in
      let alg_ok = if not small then spec_ok else if c = "cohzp" then fz_init p else zp_set_characteristic p in
      if spec_ok <> alg_ok then "MODELDIFF(init)" else if spec_ok then "ok" else "refused"
    end else begin
      match cfg with
      | [lo; hi] ->
        let ps = if zlt hi lo then [] else primes_between lo hi in
        primes := ps; bigp := product ps;
        if ps = [] then "refused" else "ok"
      | _ -> "nosuchclass"
    end
  | [] -> "nosuchclass"

let pinv_expected x q =
  (* unique answer by the Chinese remainder theorem; computed by the GMP-style model and checked against the
     specification predicate *)
  let (v, t) = mf_pinv !primes x q in
  let t = spec_T !primes x q in
  if spec_pinv_ok !primes x q v t then (v, t) else (z_of_int (-1), t)

let op_line w =
  let c = !cls and p = !bigp in
  match w with
  | [] -> ""
  | op :: args ->
    let a = Array.of_list (List.map z_of_string args) in
    let base, suffix =
      let n = String.length op in
      if n > 2 && op.[n-2] = '_' && op <> "val_i" && op <> "val_l" && op <> "val_u" && op <> "val_ul"
      then String.sub op 0 (n-2), String.sub op (n-2) 2 else op, "" in
    let _ = suffix in
    if c = "cohzp" || c = "cohmf" then begin
      match op with
      | "pte" -> let s = spec_add p a.(0) (Z.mul a.(2) a.(1)) in
        if c = "cohzp" then agree s (fz_plus_times_equal a.(0) a.(1) a.(2) p) else agree s (mf_plus_times_equal a.(0) a.(1) a.(2) p)
      | "times" -> zs (spec_mul p a.(0) a.(1))
      | "plus" -> zs (spec_add p a.(0) a.(1))
      | "tm" -> let s = spec_val p (Z.opp (Z.mul a.(0) a.(1))) in
        if c = "cohzp" then agree s (fz_times_minus a.(0) a.(1) p) else agree s (mf_times_minus a.(0) a.(1) p)
      | "inv" -> if c = "cohzp" then
          (match zp_inverse_entry a.(0) p with Some v when spec_is_inverse p a.(0) v -> zs v ^ " " ^ zs a.(1) | _ -> "NOINVERSE")
        else let (v, t) = pinv_expected a.(0) a.(1) in zs v ^ " " ^ zs t
      | "pmid" -> let v = mf_pmid !primes a.(0) in if spec_pmid_ok !primes a.(0) v then zs v else "MODELDIFF(pmid)"
      | "ids" -> "0 1 " ^ zs p
      | _ -> "UNSUPPORTED"
    end else
    match base with
    | "val" | "val_u" | "val_ul" ->
      let s = spec_val p a.(0) in
      if (is_zp c || is_small c) && zlt a.(0) w32 then agree s (zp_get_value_u a.(0) p) else zs s
    | "val_i" -> let s = spec_val p a.(0) in
      if is_zp c || is_small c then agree s (zp_get_value_s w32 a.(0) p) else zs s
    | "val_l" -> let s = spec_val p a.(0) in
      if is_zp c || is_small c then agree s (zp_get_value_s w64 a.(0) p) else zs s
    | "add" -> let s = spec_add p a.(0) a.(1) in
      if is_zp c || is_small c then agree s (zp_add (spec_val p a.(0)) (spec_val p a.(1)) p) else zs s
    | "sub" -> let s = spec_sub p a.(0) a.(1) in
      if is_zp c || is_small c then agree s (zp_sub (spec_val p a.(0)) (spec_val p a.(1)) p) else zs s
    | "mul" -> let s = spec_mul p a.(0) a.(1) in
      if is_zp c then agree s (zp_mul (spec_val p a.(0)) (spec_val p a.(1)) p)
      else if is_small c then agree s (mfs_mul (spec_val p a.(0)) (spec_val p a.(1)) p) else zs s
    | "mad" -> let s = spec_mad p a.(0) a.(1) a.(2) in
      if c = "zpops" then agree s (zp_mad a.(0) a.(1) a.(2) p)
      else if c = "mfsops" then agree s (mfs_mad a.(0) a.(1) a.(2) p) else zs s
    | "aam" -> let s = spec_aam p a.(0) a.(1) a.(2) in
      if c = "zpops" then agree s (zp_aam a.(0) a.(1) a.(2) p)
      else if c = "mfsops" then agree s (mfs_aam a.(0) a.(1) a.(2) p) else zs s
    | "eq" -> bstr (zeq (spec_val p a.(0)) (spec_val p a.(1)))
    | "inv" ->
      if is_z2 c then zs (spec_val p a.(0))
      else if is_zp c then begin
        let x = spec_val p a.(0) in
        let alg = if c = "zpel" then Some (egcd_inverse x p) else if zlt p (z_of_int 70000) then zp_inverse_entry x p else Some (mod_inverse x p) in
        match alg with Some v when spec_is_inverse p x v -> zs v | Some v -> "MODELDIFF(inv " ^ zs v ^ ")" | None -> "NOINVERSE"
      end else let (v, _) = pinv_expected a.(0) p in zs v
    | "pinv" ->
      if is_z2 c then zs (spec_val p a.(0)) ^ " " ^ zs a.(1)
      else if is_zp c then begin
        let x = spec_val p a.(0) in
        let v = mod_inverse x p in
        if spec_is_inverse p x v then zs v ^ " " ^ zs a.(1) else "NOINVERSE"
      end else begin
        let (v, t) = pinv_expected a.(0) a.(1) in
        let r = zs v ^ " " ^ zs t in
        if is_small c then begin
          let (v', t') = mfs_pinv !primes (spec_val p a.(0)) a.(1) in
          if zeq v v' && zeq t t' then r else Printf.sprintf "MODELDIFF(spec=%s,model=%s %s)" r (zs v') (zs t')
        end else r
      end
    | "pmid" ->
      if is_z2 c || is_zp c then "1"
      else begin
        let v = mf_pmid !primes a.(0) in
        if not (spec_pmid_ok !primes a.(0) v) then "MODELDIFF(pmid)"
        else if is_small c then agree v (mfs_pmid !primes a.(0)) else zs v
      end
    | "ids" -> "0 1 " ^ zs p
    | "move" -> let v = zs (spec_val p a.(0)) in v ^ " " ^ v
    | "addi" | "iadd" -> zs (spec_add p a.(0) a.(1))
    | "subi" -> zs (spec_sub p a.(0) a.(1))
    | "isub" -> zs (spec_sub p a.(1) a.(0))
    | "muli" | "imul" -> zs (spec_mul p a.(0) a.(1))
    | "eqi" -> bstr (zeq (spec_val p a.(0)) (spec_val p a.(1)))
    | "assigni" -> zs (spec_val p a.(1))
    | _ -> "UNSUPPORTED"

let () =
  iter_lines (fun line ->
    match words line with
    | [] -> ()
    | "G" :: rest -> emit (group rest)
    | w -> emit (try op_line w with Invalid_argument _ -> "BADARGS"));
  flush_out ()
