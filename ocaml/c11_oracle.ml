(* C11 oracle: the extracted specification (Rips filtration + certified persistence pairing) and the extracted leaf
   algorithm models, on the line protocol of harness/c11_drv.cpp.
     O <n> <dim_max> <thr|inf|enc> <modulus> <lower keys, -1 = no edge>
         -> OK nsimp=<N> thr=<threshold used> bars=<dim:birth:death;...>   |  FAIL (certificate)
        thr = enc: the enclosing radius of the (dense) matrix is used as threshold
     CM / CMC / ENC lines as the harness; D <n> <dim_max> <modulus> -> the dispatcher's choice *)
let zs = string_of_z
let zi = z_of_int
let nat = nat_of_int

let matrix_of_lower n (keys : int list) : z list list =
  let a = Array.make_matrix n n 0 in
  let k = ref keys in
  for i = 1 to n - 1 do
    for j = 0 to i - 1 do
      (match !k with x :: r -> a.(i).(j) <- x; a.(j).(i) <- x; k := r | [] -> failwith "short")
    done
  done;
  Array.to_list (Array.map (fun row -> List.map zi (Array.to_list row)) a)

let bars_str l =
  let f ((d, b), e) = Printf.sprintf "%d:%s:%s" (int_of_nat d) (zs b) (match e with Some z -> zs z | None -> "inf") in
  if l = [] then "-" else String.concat ";" (List.map f l)

let choice_str = function B64 -> "64" | B128 -> "128" | C128 -> "129"

let () =
  iter_lines (fun line ->
    (match words line with
     | "O" :: n :: dm :: thr :: p :: keys ->
       let n = int_of_string n and dm = int_of_string dm in
       let m = matrix_of_lower n (List.map int_of_string keys) in
       let dmc = max 0 (min dm (n - 2)) in
       let t = (match thr with
           | "inf" -> None
           | "enc" -> enclosing_radius m (nat n)
           | s -> Some (z_of_string s)) in
       let ns = int_of_nat (num_simplices m t (nat n) (nat dmc)) in
       (match barcode (z_of_string p) m t (nat n) (nat dmc) with
        | None -> emit (Printf.sprintf "FAIL nsimp=%d" ns)
        | Some l -> emit (Printf.sprintf "OK nsimp=%d thr=%s bars=%s" ns (match t with None -> "inf" | Some z -> zs z) (bars_str l)))
     | ["CM"; lay; n] ->
       let n = int_of_string n in
       let cell i j = match cm_index (lay = "lower") (nat n) (nat i) (nat j) with None -> "0" | Some k -> zs (Z.add k (zi 1)) in
       emit (Printf.sprintf "OK n=%d t=%s" n (String.concat "," (List.concat (List.init n (fun i -> List.init n (fun j -> cell i j))))))
     | ["CMC"; from; _; n] ->
       let n = int_of_string n in
       let cell i j = match cm_index (from = "lower") (nat n) (nat i) (nat j) with None -> "0" | Some k -> zs (Z.add k (zi 1)) in
       emit (Printf.sprintf "OK n=%d t=%s" n (String.concat "," (List.concat (List.init n (fun i -> List.init n (fun j -> cell i j))))))
     | ["D"; n; dm; p] ->
       emit ("OK enc=" ^ choice_str (dispatch (z_of_string n) (z_of_string dm) (z_of_string p)))
     | "ENC" :: which :: n :: dm :: p :: coef :: _ :: vs ->
       let n = z_of_string n and dm = z_of_string dm and p = z_of_string p and coef = z_of_string coef in
       let vs = List.map z_of_string vs in
       let ch = (match which with "b64" -> B64 | "b128" -> B128 | _ -> C128) in
       let dmc = clamp_dim n dm in
       let k = Z.add dmc (zi 2) in
       let e = encoding_of ch n in
       let extra = extra_bits ch n k in
       let cb = log2up (Z.sub p (zi 1)) in
       let lt a b = (match Z.compare a b with Lt -> true | _ -> false) in
       let ctor_ok = (match ch with C128 -> cns_ctor_ok (nat (int_of_z k)) (nat (int_of_z n)) | _ -> true) in
       if (not ctor_ok) || lt extra (zi 0) || lt extra cb then emit "EXC overflow_error"
       else begin
         let idx = simplex_index e vs in
         let content = pack cb idx coef in
         let idx2 = unpack_index cb content in
         let c2 = unpack_coeff cb content in
         let out = decode e idx2 (nat (List.length vs)) n in
         emit (Printf.sprintf "OK k=%s extra=%s cbits=%s idx=%s content=%s idx2=%s coef=%s verts=%s" (zs k) (zs extra) (zs cb)
                 (zs idx) (zs content) (zs idx2) (zs c2) (if out = [] then "-" else String.concat "," (List.map zs out)))
       end
     | _ -> emit "badop");
    flush_out ());
  flush_out ()
