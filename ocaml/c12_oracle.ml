(* C12 oracle driver.  One input line per case:
     c <D>|<u v w ...>|<i0 i1 ...>|<u v w ...>|<alt order>/<alt order>/...
   fields: D = highest homology dimension compared (simplices up to dimension D+1 are built);
           input edges in input order; processing order observed on the implementation (indices);
           edges returned by the implementation; further admissible processing orders for the model only.
   One answer line, fields separated by ';':
     ORDER ok|bad          the observed order is a permutation of the input with non-increasing values
     MS <edges>            process_edges false (default neighbour table) of the model on the observed order
     MD <edges>|=          same with the dense table ('=' when identical to MS)
     SPEC ok|bad           out_ok input implementation-output (input edges, values >=, values of input edges, no duplicates)
     DIN <diagram>         barcode of the flag filtration of the input, primes 2 and 3, dimensions 0..D
     DOUT <diagram>|=      barcode of the flag filtration of the implementation's output ('=' when equal to DIN)
     DMS <diagram>|=       same for the model's output (computed only when MS differs from the implementation's output)
     ALT ok|<k>:<diagram>  the model's output on every alternative order has the diagram DIN *)
let split_on c s = String.split_on_char c s
let ints s = List.map int_of_string (words s)
let rec triples = function
  | u :: v :: w :: r -> (u, v, w) :: triples r
  | [] -> []
  | _ -> failwith "edge list not a multiple of 3"
let zedge (u, v, w) = ((z_of_int u, z_of_int v), z_of_int w)
let fv_str = function MInf -> "-inf" | PInf -> "inf" | Fin z -> string_of_z z
let oedges_str l = String.concat " " (List.map (fun ((u, v), t) -> string_of_z u ^ " " ^ string_of_z v ^ " " ^ fv_str t) l)
let opt_str = function None -> "FUEL" | Some l -> oedges_str l

let primes = [2; 3]
let dgm_cache : (string, string) Hashtbl.t = Hashtbl.create 64

(* diagram of a weighted graph given with OCaml ints, on n vertices, vertex value v0 *)
let diagram cap n v0 (g : (int * int * int) list) =
  let keystr = Printf.sprintf "%d|%d|%d|%s" cap n v0 (String.concat " " (List.map (fun (u, v, w) -> Printf.sprintf "%d %d %d" u v w) g)) in
  match Hashtbl.find_opt dgm_cache keystr with
  | Some s -> s
  | None ->
    let zg = List.map zedge g in
    let one p =
      match flag_barcode (z_of_int p) zg (nat_of_int n) (z_of_int v0) (nat_of_int (cap + 1)) with
      | None -> Printf.sprintf "p%d:CERTFAIL" p
      | Some bars ->
        let l = List.filter_map (fun ((d, b), e) ->
            let d = int_of_nat d in
            if d > cap then None
            else Some (d, int_of_z b, (match e with None -> max_int | Some x -> int_of_z x))) bars in
        let l = List.sort compare l in
        Printf.sprintf "p%d:[%s]" p (String.concat "," (List.map (fun (d, b, e) ->
            Printf.sprintf "%d %d %s" d b (if e = max_int then "inf" else string_of_int e)) l))
    in
    let s = String.concat " " (List.map one primes) in
    if Hashtbl.length dgm_cache > 5000 then Hashtbl.reset dgm_cache;
    Hashtbl.replace dgm_cache keystr s; s

let graph_of_out (l : ((z * z) * fv) list) =
  List.map (fun ((u, v), t) -> (int_of_z u, int_of_z v, (match t with Fin z -> int_of_z z | MInf -> min_int / 4 | PInf -> max_int / 4))) l

let handle line =
  match split_on '|' line with
  | [hd; es; ord; res; alts] ->
    let cap = (match words hd with ["c"; d] -> int_of_string d | _ -> failwith "bad header") in
    let edges = Array.of_list (triples (ints es)) in
    let ne = Array.length edges in
    let ord = ints ord in
    let res = triples (ints res) in
    let n = Array.fold_left (fun m (u, v, _) -> max m (max u v)) 0 edges + 1 in
    let v0 = (Array.fold_left (fun m (_, _, w) -> min m w) 0 edges) - 1 in
    let perm_ok o =
      List.length o = ne && List.sort compare o = List.init ne (fun i -> i) &&
      (let rec mono = function a :: (b :: _ as r) -> (let (_, _, wa) = edges.(a) and (_, _, wb) = edges.(b) in wa >= wb) && mono r | _ -> true in mono o) in
    let input = Array.to_list edges in
    let zinput = List.map zedge input in
    let sorted o = List.map (fun i -> zedge edges.(i)) o in
    let order_ok = perm_ok ord in
    let ms = if order_ok then process_edges false (sorted ord) else None in
    let md = if order_ok then process_edges true (sorted ord) else None in
    let zres = List.map (fun (u, v, w) -> ((z_of_int u, z_of_int v), Fin (z_of_int w))) res in
    let spec = out_ok zinput zres in
    (* D < 0: the complexes are too large for the dense pairing oracle; diagrams are skipped (the plug-in then compares
       the connected components at every threshold instead) *)
    let dg g = if ne = 0 then "empty" else if cap < 0 then "skipped" else diagram cap n v0 g in
    let din = dg input in
    let dout = dg res in
    let dms = (match ms with
        | Some l when l <> zres -> let d = dg (graph_of_out l) in if d = din then "=" else d
        | _ -> "=") in
    let alt_orders = List.filter (fun s -> String.trim s <> "") (split_on '/' alts) in
    let alt =
      let bad = ref [] in
      List.iteri (fun k s ->
          let o = ints s in
          if not (perm_ok o) then bad := (Printf.sprintf "%d:badorder" k) :: !bad
          else match process_edges false (sorted o), process_edges true (sorted o) with
            | Some l, Some l' ->
              if l <> l' then bad := (Printf.sprintf "%d:tables-differ" k) :: !bad
              else if not (out_ok zinput l) then bad := (Printf.sprintf "%d:spec" k) :: !bad
              else let d = dg (graph_of_out l) in if d <> din then bad := (Printf.sprintf "%d:%s" k d) :: !bad
            | _ -> bad := (Printf.sprintf "%d:FUEL" k) :: !bad) alt_orders;
      if !bad = [] then "ok" else String.concat "," (List.rev !bad) in
    String.concat ";" [
      "ORDER " ^ (if order_ok then "ok" else "bad");
      "MS " ^ (if order_ok then opt_str ms else "-");
      "MD " ^ (if md = ms then "=" else opt_str md);
      "SPEC " ^ (if spec then "ok" else "bad");
      "DIN " ^ din;
      "DOUT " ^ (if dout = din then "=" else dout);
      "DMS " ^ dms;
      "ALT " ^ alt ]
  | _ -> "BADLINE"

let () =
  iter_lines (fun line ->
      let a = (try handle line with e -> "ORACLE-EXC " ^ Printexc.to_string e) in
      emit a);
  flush_out ()
