(* Oracle of C13.  Reads the same lines as harness/c13_drv.cpp and answers, per line,
     "<answer of the algorithm model> ## <answer of the specification model>"
   ("-" on the right where the specification is evaluated by the plugin on the implementation's output).
   env C13_CERT_LIMIT = largest number of cells for which the certified dense reduction of ReduceExec.v is used for "pers";
   above it an (uncertified) sparse reduction written here is used, and below it both are run and must agree. *)
let cert_limit = try int_of_string (Sys.getenv "C13_CERT_LIMIT") with _ -> 90

let ext_of_string s = match s with "inf" -> PInf | "-inf" -> MInf | _ -> Fin (z_of_string s)
let string_of_ext = function PInf -> "inf" | MInf -> "-inf" | Fin z -> string_of_z z
let ext_lt a b = ext_ltb a b
let zs l = if l = [] then "-" else String.concat "," (List.map string_of_z l)
let is l = if l = [] then "-" else String.concat "," (List.map string_of_int l)

type cplx = { cls : bool; top : bool; sh : shape; hs : shape; data : ext list; n : int; vals : ext list;
              darr : ext array; mutable order : int array option; bdarr : int list array Lazy.t; dimarr : int array Lazy.t }
let cur : cplx option ref = ref None

let cells k = List.init k.n (fun i -> i)
let per_cell k f = String.concat " " (List.map f (cells k))
let counter k i = s_counter k.hs (z_of_int i)
let idx k c = int_of_z (s_index k.hs c)

(* uncertified sparse reduction over Z_p (columns = association lists row -> coefficient, kept sorted descending) *)
let sparse_lows p (cols : (int * int) list array) : int option array =
  let n = Array.length cols in
  let modp x = ((x mod p) + p) mod p in
  let rec inv a = (* a^(p-2) *) let rec pw b e = if e = 0 then 1 else let h = pw b (e / 2) in let h2 = h * h mod p in if e land 1 = 1 then h2 * b mod p else h2 in pw a (p - 2) in
  let norm c = let h = Hashtbl.create 8 in
    List.iter (fun (r, v) -> Hashtbl.replace h r (modp ((try Hashtbl.find h r with Not_found -> 0) + v))) c;
    List.sort (fun (a, _) (b, _) -> compare b a) (Hashtbl.fold (fun r v acc -> if v = 0 then acc else (r, v) :: acc) h []) in
  let rec axpy c a b = (* a + c*b, both sorted descending *)
    match a, b with
    | [], _ -> List.filter (fun (_, v) -> v <> 0) (List.map (fun (r, v) -> (r, modp (c * v))) b)
    | _, [] -> a
    | (ra, va) :: a', (rb, vb) :: b' ->
      if ra > rb then (ra, va) :: axpy c a' b
      else if rb > ra then (let v = modp (c * vb) in if v = 0 then axpy c a b' else (rb, v) :: axpy c a b')
      else (let v = modp (va + c * vb) in if v = 0 then axpy c a' b' else (ra, v) :: axpy c a' b') in
  let owner = Array.make n (-1) in
  let red = Array.make n [] in
  let lows = Array.make n None in
  for j = 0 to n - 1 do
    let c = ref (norm cols.(j)) in
    let continue = ref true in
    while !continue do
      match !c with
      | [] -> continue := false
      | (r, v) :: _ ->
        if owner.(r) < 0 then (owner.(r) <- j; lows.(j) <- Some r; continue := false)
        else (let o = red.(owner.(r)) in let vo = snd (List.hd o) in c := axpy (modp (- v * inv vo)) !c o)
    done;
    red.(j) <- !c
  done;
  lows

let intervals k (order : int array) (lows : int option array) : string =
  let n = Array.length order in
  let dims = Lazy.force k.dimarr in
  let paired = Array.make n false in
  let out = ref [] in
  Array.iteri (fun j l -> match l with
    | Some b -> paired.(b) <- true; paired.(j) <- true;
      let vb = k.darr.(order.(b)) and vd = k.darr.(order.(j)) in
      if ext_lt vb vd then out := (dims.(order.(b)), vb, Some vd) :: !out
    | None -> ()) lows;
  Array.iteri (fun j l -> if l = None && not paired.(j) then out := (dims.(order.(j)), k.darr.(order.(j)), None) :: !out) lows;
  let keyv = function MInf -> (0, 0) | Fin z -> (1, int_of_z z) | PInf -> (2, 0) in
  let l = List.sort (fun (d1, b1, e1) (d2, b2, e2) ->
    compare (d1, keyv b1, (match e1 with None -> (1, (0, 0)) | Some e -> (0, keyv e)))
            (d2, keyv b2, (match e2 with None -> (1, (0, 0)) | Some e -> (0, keyv e)))) !out in
  (* the harness sorts (dim, birth, death value (null -> +inf), essential flag): same order up to equal printed lines; sort the strings *)
  let strs = List.map (fun (d, b, e) -> Printf.sprintf "%d:%s:%s" d (string_of_ext b) (match e with None -> "ess" | Some e -> string_of_ext e)) l in
  if strs = [] then "-" else String.concat " " strs

let filtration k =
  match k.order with
  | Some o -> o
  | None -> let o = Array.of_list (List.map int_of_z (a_filtration k.cls k.sh k.data)) in k.order <- Some o; o

let answer (w : string list) : string =
  match w with
  | "G" :: cls :: conv :: d :: rest ->
    let d = int_of_string d in
    let rec take n l = if n = 0 then ([], l) else match l with x :: r -> let (a, b) = take (n - 1) r in (x :: a, b) | [] -> ([], []) in
    let (sizes, rest) = take d rest in
    let (mask, vals) = take d rest in
    let clsb = (cls = "per") in
    let top = (conv = "top") in
    let dims = List.map2 (fun s m -> (z_of_string s, (m = "1") && clsb)) sizes mask in
    let vals = List.map ext_of_string vals in
    (match a_build clsb dims top vals with
     | None -> cur := None; "MODEL-FUEL"
     | Some (sh, data) ->
       let n = int_of_z (a_size clsb sh) in
       let rec kk = { cls = clsb; top; sh; hs = hshape clsb sh; data; n; vals; darr = Array.of_list data; order = None;
                  bdarr = lazy (Array.init n (fun i -> List.map int_of_z (a_bd clsb sh (z_of_int i))));
                  dimarr = lazy (Array.init n (fun i -> int_of_z (a_dim clsb sh (z_of_int i)))) } in
       cur := Some kk; "ok")
  | op :: args ->
    (match !cur with
     | None -> "NOCOMPLEX"
     | Some k ->
       let z i = z_of_int i in
       (match op, args with
        | "size", _ -> let n = string_of_int k.n in Printf.sprintf "%s %s %s %d %s" n n n (List.length k.sh) n
        | "dims", _ ->
          per_cell k (fun i -> string_of_z (a_dim k.cls k.sh (z i))) ^ " ## " ^
          per_cell k (fun i -> let c = counter k i in if s_validb k.hs c then string_of_z (s_dim c) else "invalid")
        | "vals", _ ->
          String.concat " " (List.map string_of_ext k.data) ^ " ## " ^
          per_cell k (fun i -> string_of_ext ((if k.top then s_value_top else s_value_vert) k.hs k.vals (counter k i)))
        | "bd", _ ->
          per_cell k (fun i -> zs (a_bd k.cls k.sh (z i))) ^ " ## " ^
          per_cell k (fun i ->
            let l = List.map (fun (s, f) -> (idx k f, int_of_z s)) (s_sbd k.cls k.hs (counter k i)) in
            let l = List.sort compare l in
            if l = [] then "-" else String.concat "," (List.map (fun (f, s) -> Printf.sprintf "%d:%d" f s) l))
        | "cobd", _ ->
          per_cell k (fun i -> zs (a_cobd k.cls k.sh (z i))) ^ " ## " ^
          per_cell k (fun i -> is (List.sort compare (List.map (idx k) (s_cobd k.hs (counter k i)))))
        | "inc", _ ->
          let one f i = let b = a_bd k.cls k.sh (z i) in
            if b = [] then "-" else String.concat "," (List.map (f i) b) in
          per_cell k (one (fun i fc -> match a_inc k.cls k.sh (z i) fc with
              | Some (Some v) -> string_of_z v | Some None -> "throw" | None -> "undefined")) ^ " ## " ^
          per_cell k (one (fun i fc -> match s_inc k.hs (counter k i) (s_counter k.hs fc) with
              | Some v -> string_of_z v | None -> "notaface"))
        | "incx", [a; b] ->
          let a = z_of_string a and b = z_of_string b in
          (match a_inc k.cls k.sh a b with Some (Some v) -> string_of_z v | Some None -> "throw" | None -> "undefined") ^ " ## " ^
          (match s_inc k.hs (s_counter k.hs a) (s_counter k.hs b) with Some v -> string_of_z v | None -> "notaface")
        | "filt", _ -> String.concat " " (List.map string_of_int (Array.to_list (filtration k))) ^ " ## -"
        | "topc", _ -> (match a_top_cells k.cls k.sh with Some l -> String.concat " " (List.map string_of_z l) | None -> "MODEL-FUEL") ^ " ## -"
        | "verts", _ ->
          let shn = List.map (norm_dir k.cls) k.sh in
          (match a_vertices_per shn with Some l -> String.concat " " (List.map string_of_z l) | None -> "MODEL-FUEL") ^ " ## " ^
          (* the vertices by the specification: cells of dimension 0 *)
          String.concat " " (List.filter_map (fun i -> if int_of_z (s_dim (counter k i)) = 0 then Some (string_of_int i) else None) (cells k))
        | "skel", [dd] ->
          let dd = int_of_string dd in
          let l = List.filter (fun i -> (Lazy.force k.dimarr).(i) = dd) (cells k) in
          (if l = [] then "-" else String.concat " " (List.map string_of_int l)) ^ " ## -"
        | "pers", [p] ->
          let p = int_of_string p in
          let order = filtration k in
          let n = k.n in
          let pos = Array.make n 0 in
          Array.iteri (fun j c -> pos.(c) <- j) order;
          let bd = Lazy.force k.bdarr in
          let cols = Array.map (fun c -> List.mapi (fun kk f -> (pos.(f), if kk land 1 = 0 then 1 else -1)) bd.(c)) order in
          let sl = sparse_lows p cols in
          let sparse_ans = intervals k order sl in
          if n <= cert_limit then begin
            match a_pairs (z_of_int p) (List.map z_of_int (Array.to_list order)) (fun c -> a_bd k.cls k.sh c) with
            | None -> "CERTIFICATE-FAILED ## -"
            | Some prs ->
              let lows = Array.make n None in
              List.iter (fun (b, d) -> match d with Some d -> lows.(int_of_nat d) <- Some (int_of_nat b) | None -> ()) prs;
              let cert_ans = intervals k order lows in
              if cert_ans <> sparse_ans then "MODELDIFF certified=" ^ cert_ans ^ " sparse=" ^ sparse_ans ^ " ## -"
              else cert_ans ^ " ## certified"
          end else sparse_ans ^ " ## uncertified"
        | ("tcof" | "vtx"), _ -> "- ## -"     (* "an arbitrary one": only the specification is evaluated, by the plugin *)
        | "key", _ -> "ok"
        | _ -> "UNSUPPORTED"))
  | [] -> ""

let () =
  iter_lines (fun line ->
    let a = try answer (words line) with e -> "ORACLE-EXC " ^ Printexc.to_string e in
    emit a);
  flush_out ()
