(* Oracle driver for C14.  Reads the same lines as harness/c14_drv.cpp and prints, per line,
     L ...   : "<algorithm model answer in the harness format> # S b,d ... | ess m ..."   (specification after '#')
     R ...   : the specification's answer in the harness format
     ENUM .. : one "E vals R ..." line per weak order (same enumeration order as the harness), then "END <count>"
   argv: [certify_every]  -- in ENUM sweeps the lows come from a fast Z_2 column reduction written here; every
   certify_every-th case (1 = every case) is recomputed with the certified reduction of ReduceExec.v and compared.
   R lines always use the certified reduction, and in value mode are computed under both tie rules. *)

let certify_every = if Array.length Sys.argv > 1 then int_of_string Sys.argv.(1) else 1
let cross_fail = ref 0
let spec_max_len = 48   (* the dense certified reduction is cubic+: longer sequences are compared with the algorithm model only *)

let zlt a b = (match Z.compare a b with Lt -> true | _ -> false)
let cmp_of_string (c : string) : z -> z -> bool =
  if c = "lt" || c = "lt2" then zlt
  else if c = "gt" then (fun a b -> zlt b a)
  else if String.length c > 1 && c.[0] = 'k' then
    let k = z_of_int (int_of_string (String.sub c 1 (String.length c - 1))) in
    (fun a b -> zlt (Z.div a k) (Z.div b k))
  else failwith "cmp"

let pair_str (b, d) = string_of_z b ^ "," ^ string_of_z d

let line_answer cmp vals =
  let lt = cmp_of_string cmp in
  let alg =
    match line lt vals with
    | None -> "L ERR"
    | Some (ps, None) -> "L" ^ String.concat "" (List.map (fun p -> " " ^ pair_str p) ps) ^ " | none"
    | Some (ps, Some m) -> "L" ^ String.concat "" (List.map (fun p -> " " ^ pair_str p) ps) ^ " | inf " ^ string_of_z m in
  let spec =
    if List.length vals > spec_max_len then "S SKIPPED" else
    match line_oracle lt vals with
    | None -> "S CERTIFICATE-FAILED"
    | Some (fin, ess) ->
      "S" ^ String.concat "" (List.map (fun p -> " " ^ pair_str p) fin) ^ " | ess" ^
      String.concat "" (List.map (fun m -> " " ^ string_of_z m) ess) in
  let canon =
    match line_canon lt vals with
    | None -> "C ERR"
    | Some (fin, ess) ->
      "C" ^ String.concat "" (List.map (fun p -> " " ^ pair_str p) fin) ^ " | ess" ^
      String.concat "" (List.map (fun m -> " " ^ string_of_z m) ess) in
  alg ^ " # " ^ spec ^ " # " ^ canon

(* ---------------------------------------------------------------- rectangle *)
let fmt_rect (fin : (int * int * int) list) (ess : (int * int) list) =
  let d k = List.sort compare (List.filter_map (fun (kk, b, d) -> if kk = k then Some (b, d) else None) fin) in
  let ps l = String.concat "" (List.map (fun (b, d) -> Printf.sprintf " %d,%d" b d) l) in
  let others = List.filter (fun (kk, _, _) -> kk > 1) fin in
  let e = match ess with
    | [(0, m)] -> Printf.sprintf "min %d" m
    | _ -> "ESSENTIAL" ^ String.concat "" (List.map (fun (k, m) -> Printf.sprintf " %d:%d" k m) ess) in
  "R 0:" ^ ps (d 0) ^ " | 1:" ^ ps (d 1) ^ " | " ^ e ^ (if others <> [] then " DIM2-PAIRS" else "")

(* fast Z_2 reduction of sparse columns (rows as ints), returns the lows *)
let fast_lows (cols : int list array) : int array =
  let n = Array.length cols in
  let owner = Array.make n (-1) in         (* owner.(row) = column whose low is row *)
  let red : int list array = Array.make n [] in   (* reduced columns, rows in decreasing order *)
  let lows = Array.make n (-1) in
  let rec xor a b = match a, b with
    | [], l | l, [] -> l
    | x :: ar, y :: br -> if x = y then xor ar br else if x > y then x :: xor ar b else y :: xor a br in
  for j = 0 to n - 1 do
    let c = ref (List.sort (fun a b -> compare b a) cols.(j)) in
    (* duplicates cancel mod 2 *)
    let rec dedup = function x :: y :: r when x = y -> dedup r | x :: r -> x :: dedup r | [] -> [] in
    c := dedup !c;
    let continue = ref true in
    while !continue do
      match !c with
      | [] -> continue := false
      | low :: _ -> if owner.(low) >= 0 then c := xor !c red.(owner.(low)) else (owner.(low) <- j; lows.(j) <- low; continue := false)
    done;
    red.(j) <- !c
  done;
  lows

let ncase = ref 0
let zvals vals = List.map z_of_int vals
(* the same composition as [barcode] of C14_Model.v (cells, filtration order, boundary columns, pairs), with the
   cells and the order computed once *)
let complex rows cols zv rev =
  let cells = rect_cells rows cols zv rev in
  let order = filtration_order (sq_lt zv rev) cells in
  (cells, order, boundary_columns cells order)
let conv_pairs cells order (lows : nat option list) =
  List.map (fun ((k, b), d) -> (int_of_nat k, int_of_nat b, (match d with None -> -1 | Some x -> int_of_nat x)))
    (pairs_of cells order lows)

let certified_of (cells, order, colsz) =
  let n = nat_of_int (List.length colsz) in
  match certified_lows (z_of_int 2) (dense_of_sparse n colsz) with
  | None -> None
  | Some l -> Some (conv_pairs cells order l)
let certified_pairs rows cols zv rev = certified_of (complex rows cols zv rev)

let fast_of (cells, order, colsz) =
  let arr = Array.of_list (List.map (fun c -> List.map (fun (r, _) -> int_of_nat r) c) colsz) in
  let lows = fast_lows arr in
  let l = Array.to_list (Array.map (fun x -> if x < 0 then None else Some (nat_of_int x)) lows) in
  conv_pairs cells order l
let fast_pairs rows cols zv rev = fast_of (complex rows cols zv rev)

let answer_of_pairs mode (vals : int array) prs =
  if mode = "i" then
    fmt_rect (List.filter_map (fun (k, b, d) -> if d >= 0 && b <> d then Some (k, b, d) else None) prs)
             (List.filter_map (fun (k, b, d) -> if d < 0 then Some (k, b) else None) prs)
  else
    fmt_rect (List.filter_map (fun (k, b, d) -> if d >= 0 && vals.(b) <> vals.(d) then Some (k, vals.(b), vals.(d)) else None) prs)
             (List.filter_map (fun (k, b, d) -> if d < 0 then Some (k, vals.(b)) else None) prs)

let rect_answer ~fast mode rows cols (vals : int list) =
  if rows < 2 || cols < 2 then "EXC domain_error" else begin
    incr ncase;
    let r = nat_of_int rows and c = nat_of_int cols and zv = zvals vals in
    let va = Array.of_list vals in
    let certify = (not fast) || (!ncase mod certify_every = 0 && (2 * rows + 1) * (2 * cols + 1) <= 130) in
    let cx = complex r c zv false in
    let main = if fast then Some (fast_of cx) else certified_of cx in
    match main with
    | None -> "CERTIFICATE-FAILED"
    | Some prs ->
      let extra = ref "" in
      if fast && certify then begin
        match certified_of cx with
        | Some prs' when List.sort compare prs' = List.sort compare prs -> ()
        | _ -> incr cross_fail; extra := " FAST-REDUCTION-DISAGREES-WITH-CERTIFIED"
      end;
      let one m =
        let ans = answer_of_pairs m va prs in
        if m = "v" && certify then begin
          (* the value-mode answer must not depend on how ties are ordered *)
          match (if fast then Some (fast_pairs r c zv true) else certified_pairs r c zv true) with
          | Some prs' when answer_of_pairs m va prs' = ans -> ans ^ !extra
          | _ -> ans ^ !extra ^ " TIE-RULE-DEPENDENT"
        end else ans ^ !extra in
      if mode = "b" then one "v" ^ " ## " ^ one "i" else one mode
  end

let rec enumerate mode rows cols (r : int array) pos count =
  let n = rows * cols in
  if pos = n then begin
    let mx = Array.fold_left max (-1) r in
    let seen = Array.fold_left (fun s x -> s lor (1 lsl x)) 0 r in
    if seen = (1 lsl (mx + 1)) - 1 then begin
      let vals = Array.to_list r in
      emit ("E " ^ String.concat "," (List.map string_of_int vals) ^ " " ^ rect_answer ~fast:true mode rows cols vals);
      incr count
    end
  end else
    for x = 0 to n - 1 do r.(pos) <- x; enumerate mode rows cols r (pos + 1) count done

let () =
  iter_lines (fun l ->
    match words l with
    | "L" :: _ty :: cmp :: n :: vals ->
      (try
         let vals = List.map z_of_string vals in
         if List.length vals <> int_of_string n then emit "BAD size" else emit (line_answer cmp vals)
       with Failure _ -> emit "BAD")
    | "R" :: _ty :: mode :: rows :: cols :: vals ->
      let rows = int_of_string rows and cols = int_of_string cols and vals = List.map int_of_string vals in
      if List.length vals <> rows * cols then emit "BAD size"
      else emit (rect_answer ~fast:false mode rows cols vals)
    | "ENUM" :: _ty :: mode :: rows :: cols :: k :: pre ->
      let rows = int_of_string rows and cols = int_of_string cols in
      let r = Array.make (rows * cols) 0 in
      List.iteri (fun i x -> r.(i) <- int_of_string x) pre;
      let count = ref 0 in
      enumerate mode rows cols r (int_of_string k) count;
      emit ("END " ^ string_of_int !count)
    | "RF" :: _ty :: mode :: rows :: cols :: vals ->
      let rows = int_of_string rows and cols = int_of_string cols and vals = List.map int_of_string vals in
      if List.length vals <> rows * cols then emit "BAD size"
      else emit (rect_answer ~fast:true mode rows cols vals)
    | [] -> emit ""
    | _ -> emit "BAD op");
  flush_out ()
