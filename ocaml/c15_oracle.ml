(* C15 oracle: reads the same lines as harness/c15_drv.cpp and prints, per line, what the extracted Coq model
   (coq/C15_Model.v on the states of coq/C01_Model.v) predicts, in exactly the harness's format: the return string and
   the dump of all four slots.  Header: "H fx n l1..ln K"  fx = 1: repaired special members / bounds-checked reader,
   0: the model of the unrepaired code; K = d | f | n : Filtration_value double / float / not stored (the IEEE byte
   layout of the values is supplied here: [encf]/[decf]; the Coq theorems hold for every fixed-width encoding). *)
let zi = int_of_z
let fx = ref true
let kind = ref 'd'
let univ = ref [||]
let slots : state option array = Array.make 4 None

let mask_of (s : simplex) : int =
  List.fold_left (fun m x ->
      let xi = zi x in
      let r = ref (-1) in
      Array.iteri (fun i l -> if l = xi then r := i) !univ;
      if !r < 0 then failwith "label outside universe" else m lor (1 lsl !r)) 0 s
let simplex_of_mask m : simplex =
  let l = ref [] in
  for i = Array.length !univ - 1 downto 0 do if m land (1 lsl i) <> 0 then l := z_of_int !univ.(i) :: !l done;
  !l
let popcount m = let c = ref 0 in let m = ref m in while !m <> 0 do (c := !c + (!m land 1); m := !m lsr 1) done; !c
let sorted_masks l = List.sort compare (List.map mask_of l)
let sv z = string_of_z z

(* IEEE layouts of integer values *)
let fw () = match !kind with 'd' -> 8 | 'f' -> 4 | _ -> 0
let encf (v : z) : z list =
  match !kind with
  | 'd' -> let b = Int64.bits_of_float (float_of_int (zi v)) in
    List.init 8 (fun i -> z_of_int (Int64.to_int (Int64.logand (Int64.shift_right_logical b (8 * i)) 0xFFL)))
  | 'f' -> let b = Int32.bits_of_float (float_of_int (zi v)) in
    List.init 4 (fun i -> z_of_int (Int32.to_int (Int32.logand (Int32.shift_right_logical b (8 * i)) 0xFFl)))
  | _ -> []
let decf (l : z list) : z =
  match !kind with
  | 'd' -> let b = ref 0L in List.iteri (fun i x -> b := Int64.logor !b (Int64.shift_left (Int64.of_int (zi x)) (8 * i))) l;
    z_of_int (int_of_float (Int64.float_of_bits !b))
  | 'f' -> let b = ref 0l in List.iteri (fun i x -> b := Int32.logor !b (Int32.shift_left (Int32.of_int (zi x)) (8 * i))) l;
    z_of_int (int_of_float (Int32.float_of_bits !b))
  | _ -> Z0
let hex (l : z list) = String.concat "" (List.map (fun x -> Printf.sprintf "%02x" (zi x)) l)

let dump (st0 : state) =
  let b = Buffer.create 4096 in
  let p fmt = Printf.bprintf b fmt in
  let n = Array.length !univ in
  let nm = 1 lsl n in
  let t = tree st0 in
  let k = abs t in
  p "ub=%d|nv=%d|n=%d|e=%d" (zi (dim_ub st0)) (List.length t) (zi (size_t (Node t))) (if is_empty st0 then 1 else 0);
  p "|F=";
  let present = ref [] in
  for m = 1 to nm - 1 do
    let s = simplex_of_mask m in
    match find_val s t with
    | Some v -> present := m :: !present; p "%d:%s:%d " m (sv v) (popcount m - 1)
    | None -> ()
  done;
  let present = List.rev !present in
  p "|V=";
  List.iter (fun ((x, _), _) -> p "%d " (zi x)) t;
  p "|C=";
  List.iter (fun (s, v) -> p "%d:%s " (mask_of s) (sv v)) (enum_t (Node t));
  p "|K=";
  List.iter (fun m ->
      let s = simplex_of_mask m in
      p "%d/0:" m; List.iter (fun x -> p "%d," x) (sorted_masks (star k s)); p " ";
      p "%d/1:" m; List.iter (fun x -> p "%d," x) (sorted_masks (cofaces k s (z_of_int 1))); p " ") present;
  let eqr = not (not (zi (dim_ub st0) = zi (exact_dim st0)) && not (dirty st0)) in
  let eqe = not (not (zi (dim_ub st0) = -1) && not (dirty st0)) && is_empty st0 in
  p "|eq=%s%s%s" (bstr eqr) (bstr eqr) (bstr eqe);
  Buffer.contents b

let rec take n l = if n = 0 then [] else match l with x :: r -> x :: take (n - 1) r | [] -> failwith "short line"
let rec firstn n l = if n <= 0 then [] else match l with x :: r -> x :: firstn (n - 1) r | [] -> []
let ios = int_of_string
let outcome_str = function
  | Loaded _ -> "ok" | Refused -> "IA" | NotEmpty -> "LE" | OverRead -> "OVERREAD" | OutOfFuel -> "FUEL"

let handle line =
  match words line with
  | "H" :: f :: ns :: rest ->
    let n = ios ns in
    fx := (f <> "0");
    univ := Array.of_list (List.map ios (take n rest));
    kind := (match List.nth_opt rest n with Some k -> k.[0] | None -> 'd');
    Array.fill slots 0 4 None;
    emit "ok"
  | tok :: args ->
    let ret =
      match tok, args with
      | "NEW", [d] -> slots.(ios d) <- Some empty_state; "-"
      | "DEL", [d] -> slots.(ios d) <- None; "-"
      | ("CC" | "CA" | "MC" | "MA" | "SW"), [d; s] ->
        let d = ios d and s = ios s in
        (match slots.(s) with
         | None -> "PRE"
         | Some src ->
           let tgt = (match slots.(d) with Some t -> t | None -> empty_state) in
           (match tok with
            | "CC" -> slots.(d) <- Some (copy_construct !fx src)
            | "CA" -> if d <> s then slots.(d) <- Some (copy_assign !fx tgt src)
            | "MC" -> let (nw, src') = move_construct !fx src in
              slots.(s) <- Some src'; slots.(d) <- Some nw
            | "MA" -> if d <> s then begin
                let (nw, src') = move_assign !fx tgt src in
                slots.(s) <- Some src'; slots.(d) <- Some nw end
            | _ -> if d <> s then begin
                let (a, b) = swap_std !fx tgt src in
                slots.(d) <- Some a; slots.(s) <- Some b end);
           "snap1")
      | "OP", d :: op :: a ->
        let d = ios d in
        (match slots.(d) with
         | None -> "PRE"
         | Some s0 ->
           let parse_vk a = match a with
             | v :: k :: r -> (z_of_string v, List.map z_of_string (take (ios k) r))
             | _ -> failwith "bad args" in
           let v0 v = if !kind = 'n' then Z0 else v in
           let ins mk_op a =
             let (v, s) = parse_vk a in
             let v = v0 v in
             let sn = norm s in
             let (isnew, h) = (match find sn (tree s0) with
                 | None -> (true, true)
                 | Some (w, _) -> (false, (match Z.compare v w with Lt -> true | _ -> false))) in
             slots.(d) <- Some (step true s0 (mk_op s v));
             bstr isnew ^ (if h then "h" else "n") in
           (match op with
            | "IS" -> ins (fun s v -> OInsert (s, v)) a
            | "IF" -> ins (fun s v -> OInsertSub (s, v)) a
            | "RM" ->
              let s = List.map z_of_string (take (ios (List.hd a)) (List.tl a)) in
              (match find (norm s) (tree s0) with
               | Some (_, Node []) -> slots.(d) <- Some (step true s0 (ORemove s)); "-"
               | _ -> "PRE")
            | "PF" -> let s1 = step true s0 (OPruneF (z_of_string (List.hd a))) in
              slots.(d) <- Some s1; bstr (zi (size_t (Node (tree s0))) <> zi (size_t (Node (tree s1))))
            | "PD" -> let s1 = step true s0 (OPruneD (z_of_string (List.hd a))) in
              slots.(d) <- Some s1; bstr (zi (size_t (Node (tree s0))) <> zi (size_t (Node (tree s1))))
            | "CL" -> slots.(d) <- Some (step true s0 OClear); "-"
            | "DM" -> let (s1, dm) = dimension s0 in slots.(d) <- Some s1; "dim" ^ string_of_int (zi dm)
            | "FI" | "KY" | "SD" -> "-"
            | _ -> "BADOP"))
      | "FO", [d] ->
        (match slots.(ios d) with
         | None -> "PRE"
         | Some s0 -> "fo" ^ String.concat "" (List.map (fun (s, _) -> string_of_int (mask_of s) ^ ",") (filtration_order (abs (tree s0)))))
      | "SER", [s] ->
        (match slots.(ios s) with
         | None -> "PRE"
         | Some s0 ->
           let b = serialize encf s0 in
           if List.length b <> zi (ser_size (nat_of_int (fw ())) s0) then "MODEL-LENGTH-DIFFERS" else
           "ok:" ^ string_of_int (zi (ser_size (nat_of_int (fw ())) s0)) ^ ":" ^ hex b)
      | "SERX", [s; delta] -> (match slots.(ios s) with None -> "PRE" | Some _ -> if ios delta = 0 then "serx:ok" else "serx:IA")
      | "DES", d :: s :: mode :: a ->
        let d = ios d in
        (match slots.(ios s) with
         | None -> "PRE"
         | Some src ->
           let b = serialize encf src in
           let b = (match mode, a with
               | "T", [k] -> firstn (ios k) b
               | "E", [k; v] -> b @ List.init (ios k) (fun _ -> z_of_int (ios v))
               | _ -> b) in
           let tgt = (match slots.(d) with Some t -> t | None -> empty_state) in
           let o = deserialize (nat_of_int (fw ())) decf !fx tgt b in
           (match o with
            | Loaded st' -> slots.(d) <- Some st'
            | Refused -> slots.(d) <- Some empty_state          (* the harness clears a refused object *)
            | _ -> slots.(d) <- Some tgt);
           "des:" ^ outcome_str o ^ ":" ^ string_of_int (List.length b))
      | "SWEEP", [s] ->
        (match slots.(ios s) with
         | None -> "PRE"
         | Some src ->
           let full = serialize encf src in
           let n = List.length full in
           let bad = Buffer.create 16 and cnt = ref 0 in
           let w = nat_of_int (fw ()) in
           for k = 0 to n - 1 do
             incr cnt;
             (match deserialize w decf !fx empty_state (firstn k full) with
              | Refused -> ()
              | o -> Buffer.add_string bad (Printf.sprintf "T%d=%s," k (outcome_str o)))
           done;
           for k = 1 to 9 do List.iter (fun v ->
               incr cnt;
               (match deserialize w decf !fx empty_state (full @ List.init k (fun _ -> z_of_int v)) with
                | Refused -> ()
                | o -> Buffer.add_string bad (Printf.sprintf "E%d/%d=%s," k v (outcome_str o)))) [0; 1; 255] done;
           incr cnt;
           (match deserialize w decf !fx empty_state full with
            | Loaded st' when tree st' = tree src && zi (dim_ub st') = zi (exact_dim src) -> ()
            | o -> Buffer.add_string bad ("F=" ^ outcome_str o ^ ","));
           "sweep:" ^ string_of_int !cnt ^ ":" ^ (if Buffer.length bad = 0 then "clean" else Buffer.contents bad))
      | "FUZZ", s :: _ -> (match slots.(ios s) with None -> "PRE" | Some _ -> "fuzz:clean")
      | "TXT", [d; s] ->
        let d = ios d in
        (match slots.(ios s) with
         | None -> "PRE"
         | Some src ->
           let recs = text_out src in
           let tgt = (match slots.(d) with Some t -> t | None -> empty_state) in
           slots.(d) <- Some (text_in tgt recs);
           "txt:" ^ String.concat "" (List.map (fun ((dm, vs), v) ->
               string_of_int (zi dm) ^ "_" ^ String.concat "" (List.map (fun x -> string_of_int (zi x) ^ "_") vs) ^ sv v ^ ";") recs))
      | _ -> failwith ("bad line " ^ line) in
    let b = Buffer.create 4096 in
    Buffer.add_string b ("r=" ^ ret ^ "|");
    for k = 0 to 3 do
      if k > 0 then Buffer.add_char b '#';
      (match slots.(k) with None -> Buffer.add_char b '-' | Some st -> Buffer.add_string b (dump st))
    done;
    emit (Buffer.contents b)
  | [] -> emit "EMPTY"

let () =
  iter_lines (fun l -> try handle l with Failure m -> emit ("ORACLE-ERROR " ^ m));
  flush_out ()
