(* C16 oracle: runs the extracted algorithm models (eager, lazy) and the specification (abstract complex) on the
   operation lines of harness/c16_drv.cpp and prints the same observations.
   Contraction lines carry the survivors observed on the C++:  C x y <eager survivor|-> <lazy survivor|->
   (the specification identifies the two vertices and names the result as the implementation did).
   env C16_MODEL=found selects the model of remove_simplex as found in the unrepaired code. *)
let fixed = (try Sys.getenv "C16_MODEL" <> "found" with Not_found -> true)
let u : z list ref = ref []
let te : z list list ref = ref []          (* eager algorithm model *)
let tl : z list list ref = ref []          (* lazy algorithm model (stored simplices, no cleaning) *)
let se : cplx ref = ref spec_empty          (* specification following the eager survivors *)
let sl : cplx ref = ref spec_empty          (* specification following the lazy survivors *)
let zcmp a b = match Z.compare a b with Lt -> -1 | Eq -> 0 | Gt -> 1
let norm l = List.sort_uniq zcmp l
let index_of v = let rec go i = function [] -> -1 | x :: r -> if zcmp x v = 0 then i else go (i + 1) r in go 0 !u
let mask_of s = List.fold_left (fun m v -> let i = index_of v in if i < 0 then m lor (1 lsl 20) else m lor (1 lsl i)) 0 s
let set_of m = List.filteri (fun i _ -> (m lsr i) land 1 = 1) !u
let masks l =
  let ms = List.sort_uniq compare (List.map mask_of l) in
  if ms = [] then "-" else String.concat "," (List.map string_of_int ms)
let nsub () = 1 lsl (List.length !u)
let bits f lo = String.concat "" (List.init (nsub () - lo) (fun i -> bstr (f (set_of (i + lo)))))
let subset_mask a b = a land b = a

let eager_line ret =
  let t = !te in
  let cof = String.concat ";" (List.init (nsub ()) (fun m -> masks (maximal_cofaces t (set_of m)))) in
  Printf.sprintf "E %s nv=%s nm=%s max=%s mem=%s mx=%s cof=%s" ret (string_of_z (num_vertices t)) (string_of_z (num_maximal t))
    (masks (maximal_cofaces t [])) (bits (membership t) 0) (bits (maximality t) 0) cof

let spec_line tag k full =
  let n = nsub () in
  let mx = List.filter (fun m -> m > 0 && spec_is_max k !u (set_of m)) (List.init n (fun m -> m)) in
  let lst l = if l = [] then "-" else String.concat "," (List.map string_of_int l) in
  let nv = List.length (List.filter (fun v -> k [v]) !u) in
  let mem = String.concat "" (List.init n (fun m -> if m = 0 then "0" else bstr (k (set_of m)))) in
  if full then
    let mxb = String.concat "" (List.init n (fun m -> bstr (List.mem m mx))) in
    let cof = String.concat ";" (List.init n (fun m -> lst (List.filter (fun t -> subset_mask m t) mx))) in
    Printf.sprintf "%s nv=%d nm=%d max=%s mem=%s mx=%s cof=%s" tag nv (List.length mx) (lst mx) mem mxb cof
  else Printf.sprintf "%s nv=%d nm=%d mem=%s" tag nv (List.length mx) mem

let () =
  iter_lines (fun line ->
    match words line with
    | [] -> emit "empty"
    | "G" :: ls -> u := List.map z_of_string ls; te := []; tl := []; se := spec_empty; sl := spec_empty; emit "ok"
    | opn :: args ->
      let obs_e, obs_l, args =
        if opn = "C" then (match args with [x; y; a; b] -> (a, b, [x; y]) | [x; y] -> ("-", "-", [x; y]) | _ -> ("-", "-", args))
        else ("-", "-", args) in
      let a = List.map z_of_string args in
      let o = match opn, a with
        | "I", _ -> Some (Ins (norm a))
        | "R", _ -> Some (Rem (norm a))
        | "V", [x] -> Some (RemV x)
        | "C", [x; y] -> Some (Con (x, y))
        | _ -> None in
      (match o with
       | None -> emit "badop"
       | Some o ->
         (* eager *)
         let exc = (match o with RemV x -> (match remove_vertex !te x with None -> true | Some _ -> false) | _ -> false) in
         let (t', ret) = step_gen fixed !te o in
         te := t';
         let rets = if exc then "EXC" else (match ret with Some k -> string_of_z k | None -> "-") in
         (* the specification follows the survivor the implementation returned (the model's if none was observed) *)
         let surv obs dflt = if obs = "-" || obs = "EXC" then dflt else Some (z_of_string obs) in
         se := spec_step !se o (match o with Con _ -> surv obs_e ret | _ -> None);
         (* lazy *)
         let lok = ref true in
         (match o with
          | Con (x, y) ->
            let k = (match surv obs_l ret with Some k -> k | None -> y) in
            lok := l_survivor_ok !tl x y k;
            tl := l_step fixed !tl (LOp (o, k));
            sl := spec_step !sl o (Some k)
          | _ -> tl := l_step fixed !tl (LOp (o, Z0)); sl := spec_step !sl o None);
         let lline = Printf.sprintf "L nv=%s mem=x%s ok=%s" (string_of_z (num_vertices !tl)) (bits (l_membership !tl) 1) (bstr !lok) in
         emit (String.concat " || " [eager_line rets; lline; spec_line "SE" !se true; spec_line "SL" !sl false])));
  flush_out ()
