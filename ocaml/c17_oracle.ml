(* C17 oracle: reads the operation lines of harness/c17_drv.cpp, runs the extracted algorithm model (coq/C17_Model.v,
   part 2) and the extracted specification model (part 3) side by side and prints, per operation line,
     <state of the algorithm model in the harness format> ## <state of the abstract complex in the same format> ## <extras>
   extras for "ce a b": lc=<link condition on the abstract complex before> chi=<before>/<after>
                        b2=<Betti numbers over Z_2 before>/<after> b3=<same over Z_3>   (certified reduction)
   argv.(1) = threshold of update_blockers_after_remove_star (3 = repaired source, 2 = unrepaired) *)
let thr = z_of_int (if Array.length Sys.argv > 1 then int_of_string Sys.argv.(1) else 3)
let betti_on = not (Array.length Sys.argv > 2 && Sys.argv.(2) = "nobetti")

let ints l = List.map int_of_z l
let zs l = List.map z_of_int l
let vs v = String.concat "." (List.map string_of_int v)
let cmp_simplex a b = if List.length a <> List.length b then compare (List.length a) (List.length b) else compare a b
let join_sorted (l : int list list) =
  let l = List.sort cmp_simplex l in
  if l = [] then "-" else String.concat "," (List.map vs l)

let subsets_mask nslots (f : int list -> bool) =
  let b = Buffer.create 64 in
  let acc = ref 0 and nb = ref 0 in
  for m = 1 to (1 lsl nslots) - 1 do
    let v = List.filter (fun i -> m land (1 lsl i) <> 0) (List.init nslots (fun i -> i)) in
    if f v then acc := !acc lor (1 lsl !nb);
    incr nb;
    if !nb = 4 then (Buffer.add_char b "0123456789abcdef".[!acc]; acc := 0; nb := 0)
  done;
  if !nb > 0 then Buffer.add_char b "0123456789abcdef".[!acc];
  if Buffer.length b = 0 then "-" else Buffer.contents b

let all_subsets nslots =
  List.filter (fun v -> v <> [])
    (List.init (1 lsl nslots) (fun m -> List.filter (fun i -> m land (1 lsl i) <> 0) (List.init nslots (fun i -> i))))

let dump_model (c : cplx) =
  let nslots = int_of_z (slots c) in
  let v = List.map (fun x -> [x]) (ints (act c)) in
  let e = List.map (fun (a, b) -> [int_of_z a; int_of_z b]) (edg c) in
  let b = List.map ints (blk c) in
  let simp = List.filter (fun s -> contains c (zs s)) (all_subsets nslots) in
  let lc = List.filter (fun s -> match s with [a; b] -> link_condition c (z_of_int a) (z_of_int b) | _ -> false) e in
  Printf.sprintf "nv=%d ne=%d nb=%d V=%s E=%s B=%s S=%s ns=%d R=%s cc=%d LC=%s"
    (List.length v) (List.length e) (List.length b) (join_sorted v) (join_sorted e) (join_sorted b)
    (subsets_mask nslots (fun s -> contains c (zs s))) (List.length simp) (join_sorted simp)
    (int_of_z (num_connected_components c)) (join_sorted lc)

let dump_spec ((n, k) : acplx) =
  let nslots = int_of_z n in
  let ki = List.map ints k in
  let v = List.filter (fun s -> List.length s = 1) ki in
  let e = List.filter (fun s -> List.length s = 2) ki in
  let bl = spec_blockers k in
  let b = List.map ints bl in
  let g = { slots = n; act = spec_vertices k; edg = List.map (fun s -> match s with [a; b] -> (z_of_int a, z_of_int b) | _ -> assert false) e;
            blk = [] } in
  let lc = List.filter (fun s -> match s with [x; y] -> not (List.exists (fun bb -> List.mem x bb && List.mem y bb) b) | _ -> false) e in
  Printf.sprintf "nv=%d ne=%d nb=%d V=%s E=%s B=%s S=%s ns=%d R=%s cc=%d LC=%s%s"
    (List.length v) (List.length e) (List.length b) (join_sorted v) (join_sorted e) (join_sorted b)
    (subsets_mask nslots (fun s -> kmem (zs s) k)) (List.length ki) (join_sorted ki)
    (int_of_z (num_connected_components g)) (join_sorted lc)
    (if spec_closed k then "" else " NOT-CLOSED")

(* link(alpha): transcription (build_link) and abstract link {t : t disjoint from alpha, t u alpha in K} *)
let subsets_of (l : int list) =
  let n = List.length l in
  List.filter (fun v -> v <> [])
    (List.init (1 lsl n) (fun m -> List.filteri (fun i _ -> m land (1 lsl i) <> 0) l))
let dump_link_model (c : cplx) (alpha : z list) =
  let l = build_link c alpha in
  let lv = ints (act l) in
  let v = List.map (fun x -> [x]) lv in
  let e = List.map (fun (a, b) -> [int_of_z a; int_of_z b]) (edg l) in
  let b = List.map ints (blk l) in
  let r = List.filter (fun s -> link_contains l (zs s)) (subsets_of (List.sort compare lv)) in
  Printf.sprintf "LK nv=%d ne=%d nb=%d V=%s E=%s B=%s R=%s" (List.length v) (List.length e) (List.length b)
    (join_sorted v) (join_sorted e) (join_sorted b) (join_sorted r)
let dump_link_spec ((_, k) : acplx) (alpha : z list) =
  let lk = spec_link k alpha in
  let ki = List.map ints lk in
  let v = List.filter (fun s -> List.length s = 1) ki in
  let e = List.filter (fun s -> List.length s = 2) ki in
  let b = List.map ints (spec_blockers lk) in
  Printf.sprintf "LK nv=%d ne=%d nb=%d V=%s E=%s B=%s R=%s" (List.length v) (List.length e) (List.length b)
    (join_sorted v) (join_sorted e) (join_sorted b) (join_sorted ki)

let betti_str p k =
  match betti (z_of_int p) k (nat_of_int 7) with
  | None -> "CERT-FAILED"
  | Some l ->
    let l = List.map int_of_z l in
    (* drop trailing zeros *)
    let rec trim = function [] -> [] | l -> (match List.rev l with 0 :: r -> trim (List.rev r) | _ -> l) in
    vs (trim l)

let () =
  let c = ref empty_cplx and k = ref spec_empty in
  iter_lines (fun line ->
    match words line with
    | [] -> emit "ok"
    | "H" :: _ -> c := empty_cplx; k := spec_empty; emit "ok"
    | op :: args ->
      let a = (try List.map int_of_string args with _ -> []) in
      let za = zs a in
      let z i = z_of_int (List.nth a i) in
      let extra = ref "" in
      if op = "lk" then emit (dump_link_model !c (sort_set za) ^ " ## " ^ dump_link_spec !k (sort_set za) ^ " ## ") else
      (try
        (match op with
         | "av" -> c := add_vertex !c; k := spec_add_vertex !k
         | "ae" -> c := add_edge !c (z 0) (z 1); k := spec_add_edge !k (z 0) (z 1)
         | "aw" -> c := add_edge_without_blockers !c (z 0) (z 1); k := spec_add_edge_fill !k (z 0) (z 1)
         | "as" -> c := add_simplex !c (sort_set za); k := spec_add_simplex !k (sort_set za)
         | "ab" -> c := add_blocker !c (sort_set za); k := spec_remove_star !k (sort_set za)
         | "rv" -> c := remove_star_vertex thr !c (z 0); k := spec_remove_star !k [z 0]
         | "re" -> c := remove_star_edge thr !c (z 0) (z 1); k := spec_remove_star !k (sort_set za)
         | "rs" -> c := remove_star_simplex thr !c (sort_set za); k := spec_remove_star !k (sort_set za)
         | "ci" -> c := contract_edge !c (z 0) (z 1); k := spec_contract !k (z 0) (z 1)
         | "ce" ->
           let before = snd !k in
           let lc = spec_link_condition before (z 0) (z 1) in
           c := contract_edge !c (z 0) (z 1); k := spec_contract !k (z 0) (z 1);
           let after = snd !k in
           extra := Printf.sprintf "lc=%s chi=%d/%d" (bstr lc) (int_of_z (euler before)) (int_of_z (euler after));
           if betti_on && lc then
             extra := !extra ^ Printf.sprintf " b2=%s/%s b3=%s/%s" (betti_str 2 before) (betti_str 2 after)
                                  (betti_str 3 before) (betti_str 3 after)
         | "cp" -> ()
         | "mk" ->
           (* mk n ; f1 ; f2 ... : the complex generated by the top faces and the vertices 0..n-1 *)
           (match args with
            | n :: rest ->
              let n = int_of_string n in
              let tops = ref [] and cur = ref [] in
              List.iter (fun t -> if t = ";" then (if !cur <> [] then tops := List.rev !cur :: !tops; cur := [])
                                  else cur := int_of_string t :: !cur) rest;
              if !cur <> [] then tops := List.rev !cur :: !tops;
              let kk = ref spec_empty in
              for _ = 1 to n do kk := spec_add_vertex !kk done;
              List.iter (fun t -> if List.length t >= 2 then kk := spec_add_simplex !kk (sort_set (zs t))) (List.rev !tops);
              k := !kk;
              (* algorithm side: the constructor is not transcribed; the representation is rebuilt from the abstract
                 complex (vertices, edges, minimal non-faces) *)
              let kl = snd !kk in
              c := { slots = z_of_int n; act = spec_vertices kl;
                     edg = List.filter_map (fun s -> match s with [a; b] -> Some (a, b) | _ -> None) kl;
                     blk = spec_blockers kl }
            | _ -> ())
         | _ -> failwith "BADOP");
        emit (dump_model !c ^ " ## " ^ dump_spec !k ^ " ## " ^ !extra)
      with Failure m -> emit ("ORACLE-ERROR " ^ m)));
  flush_out ()
