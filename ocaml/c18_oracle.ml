(* C18 oracle: reads the same lines as harness/c18_drv.cpp.  Structures (breakpoint lists, grid vectors) come from the
   algorithm models; every value that the property speaks about (lambda_k(t), pointwise operations, integrals,
   distances, inner products) is printed from the SPECIFICATION and the algorithm model is evaluated next to it:
   when the two differ the line ends with "# MODELDIFF ..." (the transcribed algorithm itself violates the definition
   on this input). *)
let qmk n d = { qnum = z_of_int n; qden = pos_of_int d }
let qz = qmk 0 1
let qs (x : q) =
  let r = qred x in
  match r.qden with XH -> string_of_z r.qnum | _ -> string_of_z r.qnum ^ "/" ^ string_of_z (Zpos r.qden)
let qeq a b = qeq_bool a b
let split c s = String.split_on_char c s
let scalar w =
  match split '/' w with
  | [p; d] -> { qnum = z_of_string p; qden = (match z_of_string d with Zpos p -> p | _ -> failwith "bad scalar") }
  | [p] -> { qnum = z_of_string p; qden = XH }
  | _ -> failwith "bad scalar"
let num den w = qred { qnum = z_of_string w; qden = pos_of_int den }
let diagram den s =
  List.filter_map (fun w -> if w = "-" then None else
    match split ':' w with [b; d] -> Some (num den b, num den d) | _ -> failwith "bad interval") (words s)
let points den s = List.map (num den) (words s)
let nat = nat_of_int
let rec range a b = if a >= b then [] else a :: range (a + 1) b
let join sep f l = String.concat sep (List.map f l)
let structure lnd = join ";" (fun lev -> join " " (fun (x, y) -> qs x ^ "," ^ qs y) lev) lnd
let diffs = ref []
let note s = diffs := s :: !diffs
let finish s = let r = if !diffs = [] then s else s ^ " # MODELDIFF " ^ String.concat " " (List.rev !diffs) in diffs := []; r
(* spec value next to the algorithm model's value *)
let agree what spec alg =
  (match alg with
   | Some a when qeq a spec -> ()
   | Some a -> note (Printf.sprintf "%s:spec=%s,model=%s" what (qs spec) (qs a))
   | None -> note (what ^ ":model-error"));
  qs spec
let values (spec : int -> q -> q) (alg : int -> q -> q option) kmax pts =
  join ";" (fun k -> join " " (fun t -> agree (Printf.sprintf "val[%d](%s)" k (qs t)) (spec k t) (alg k t)) pts) (range 0 (kmax + 1))
let qadd a b = qred (qplus a b) and qsub a b = qred (qminus a b) and qmul a b = qred (qmult a b)
let sumq l = List.fold_left qadd qz l

let do_X den f =
  let d = diagram den (List.nth f 1) in
  let nlev = int_of_string (String.trim (List.nth f 2)) in
  let pts = points den (List.nth f 3) in
  let kk = List.length d in
  let cut k = nlev > 0 && k >= nlev in
  match construct d (nat nlev) with
  | None -> "MODELERR construct"
  | Some lnd ->
    let spec k t = if cut k then qz else lambda d (nat k) t in
    let alg k t = value_at lnd (nat k) t in
    let s0 = string_of_int (List.length lnd) in
    let s1 = structure lnd in
    let s2 = values spec alg kk pts in
    let lev_int k = if cut k || k >= kk then qz else spec_integral_level d (nat k) in
    let ints = List.map lev_int (range 0 (kk + 1)) in
    let alg_ints = List.map (fun k -> if k < List.length lnd then integral_level (List.nth lnd k) else qz) (range 0 (kk + 1)) in
    let s3 = agree "integral" (sumq ints) (Some (land_integral lnd)) ^ " " ^
             String.concat " " (List.mapi (fun k v -> agree (Printf.sprintf "integral[%d]" k) v (Some (List.nth alg_ints k))) ints) in
    let cs = cands d in
    let s4 = join " " (fun k ->
        let spec_max = List.fold_left (fun m t -> qmax m (lambda d (nat k) t)) qz cs in
        let alg_max = List.fold_left (fun m (_, y) -> qmax m y) (qmk (-2147483647) 1) (List.nth lnd k) in
        agree (Printf.sprintf "max[%d]" k) spec_max (Some alg_max)) (range 0 (List.length lnd)) in
    let s5 = join ";" (fun lev -> join " " (fun (_, y) -> qs y) lev) lnd in
    finish (String.concat " # " [s0; s1; s2; s3; s4; s5; "0 0"; "0 0"])

(* expression programs: algorithm model (option) and pointwise specification *)
type 'a stk = 'a list
let run_prog (lands : pt list list option list) (specs : (int -> q -> q) list) prog =
  let st = ref ([] : (pt list list option * (int -> q -> q)) list) in
  let pop () = match !st with x :: tl -> st := tl; x | [] -> failwith "stack" in
  let push x = st := x :: !st in
  let bind2 f a b = match a, b with Some a, Some b -> f a b | _ -> None in
  let starts p w = String.length w >= String.length p && String.sub w 0 (String.length p) = p in
  let arg w = let i = String.index w ':' in String.sub w (i + 1) (String.length w - i - 1) in
  List.iter (fun w ->
    if w.[0] = 'L' then begin
      let i = int_of_string (String.sub w 1 (String.length w - 1)) in push (List.nth lands i, List.nth specs i) end
    else if w = "add" || w = "addeq" then begin
      let (b, sb) = pop () in let (a, sa) = pop () in
      push (bind2 land_add a b, fun k t -> qadd (sa k t) (sb k t)) end
    else if w = "sub" || w = "subeq" then begin
      let (b, sb) = pop () in let (a, sa) = pop () in
      push (bind2 land_sub a b, fun k t -> qsub (sa k t) (sb k t)) end
    else if starts "mul:" w || starts "lmul:" w || starts "muleq:" w then begin
      let c = scalar (arg w) in let (a, sa) = pop () in
      push ((match a with Some a -> Some (land_scale c a) | None -> None), fun k t -> qmul c (sa k t)) end
    else if starts "diveq:" w then begin
      let c = qred (qdiv (qmk 1 1) (scalar (arg w))) in let (a, sa) = pop () in
      push ((match a with Some a -> Some (land_scale c a) | None -> None), fun k t -> qmul c (sa k t)) end
    else if w = "abs" then begin
      let (a, sa) = pop () in
      push ((match a with Some a -> Some (land_abs a) | None -> None), fun k t -> qabs (sa k t)) end
    else if starts "avg:" w then begin
      let n = int_of_string (arg w) in
      let args = List.rev (List.map (fun _ -> pop ()) (range 0 n)) in
      let al = if List.for_all (fun (a, _) -> a <> None) args
        then land_average (List.map (fun (a, _) -> match a with Some a -> a | None -> []) args) else None in
      let inv = qred (qdiv (qmk 1 1) (qmk n 1)) in
      push (al, fun k t -> qmul inv (sumq (List.map (fun (_, s) -> s k t) args))) end
    else failwith ("bad program word " ^ w)) prog;
  pop ()

let do_E den f =
  let ds = List.map (diagram den) (split ';' (List.nth f 1)) in
  let kk = List.fold_left (fun m d -> max m (List.length d)) 0 ds in
  let lands = List.map (fun d -> construct d O) ds in
  let specs = List.map (fun d -> fun k t -> lambda d (nat k) t) ds in
  let (alg, spec) = run_prog lands specs (words (List.nth f 2)) in
  let pts = points den (List.nth f 3) in
  match alg with
  | None -> "MODELERR expression"
  | Some lnd ->
    let s2 = values spec (fun k t -> value_at lnd (nat k) t) kk pts in
    finish (String.concat " # " [string_of_int (List.length lnd); structure lnd; s2])

let do_T den f =
  match List.map (diagram den) (split ';' (List.nth f 1)) with
  | [a; b; c] ->
    let la = construct a O and lb = construct b O and lc = construct c O in
    (match la, lb, lc with
     | Some la, Some lb, Some lc ->
       let out = ref [] in
       let put name spec alg = out := (name ^ "=" ^ agree name spec alg) :: !out in
       let two = qmk 2 1 and half = qmk 1 2 in
       let bind f a b = match a, b with Some a, Some b -> f a b | _ -> None in
       let dist1 n x y lx ly = put ("d1" ^ n) (spec_dist1 x y) (alg_dist_pow (nat 1) lx ly) in
       let dists n x y lx ly = put ("ds" ^ n) (spec_distsup x y) (Some (alg_distsup lx ly)) in
       let dist2 n x y lx ly = put ("d2" ^ n) (spec_dist2sq x y) (alg_dist_pow (nat 2) lx ly) in
       let ip n x y lx ly = put ("ip" ^ n) (spec_inner x y) (alg_inner lx ly) in
       dist1 "AB" a b la lb; dist1 "BA" b a lb la; dist1 "AA" a a la la; dist1 "AC" a c la lc; dist1 "BC" b c lb lc;
       dists "AB" a b la lb; dists "BA" b a lb la; dists "AA" a a la la; dists "AC" a c la lc; dists "BC" b c lb lc;
       dist2 "AB" a b la lb; dist2 "BA" b a lb la; dist2 "AA" a a la la; dist2 "AC" a c la lc; dist2 "BC" b c lb lc;
       ip "AB" a b la lb; ip "BA" b a lb la; ip "AA" a a la la; ip "AC" a c la lc; ip "BC" b c lb lc;
       let s = qadd (spec_inner a c) (spec_inner b c) in
       put "ipSC" s (bind alg_inner (land_add la lb) (Some lc));
       put "ipCS" s (bind alg_inner (Some lc) (land_add la lb));
       put "ip2AB" (qmul two (spec_inner a b)) (alg_inner (land_scale two la) lb);
       put "ipA2B" (qmul half (spec_inner a b)) (alg_inner la (land_scale half lb));
       put "ipDC" (qsub (spec_inner a c) (spec_inner b c)) (bind alg_inner (land_sub la lb) (Some lc));
       put "intA" (spec_integral a) (Some (land_integral la));
       put "n1A" (spec_integral a) (alg_dist_pow (nat 1) la []);
       put "nsA" (spec_distsup a []) (Some (alg_distsup la []));
       put "n2A" (spec_dist2sq a []) (alg_dist_pow (nat 2) la []);
       finish (String.concat " " (List.rev !out))
     | _ -> "MODELERR construct")
  | _ -> "BADLINE"

let grid_args den s =
  match words s with
  | gmin :: gmax :: npts :: rest -> (num den gmin, num den gmax, int_of_string npts, (match rest with n :: _ -> int_of_string n | [] -> 0))
  | _ -> failwith "bad grid"
let grid_structure vals = join ";" (fun l -> join " " qs l) vals
let do_G den f =
  let d = diagram den (List.nth f 1) in
  let (gmin, gmax, npts, nlev) = grid_args den (List.nth f 2) in
  let pts = points den (List.nth f 3) in
  let kk = List.length d in
  let vals = grid_setup d gmin gmax (nat npts) (nat nlev) in
  let al = aligned d gmin gmax (nat npts) in
  let alg k t = grid_value true vals gmin gmax (nat k) t in
  let inside t = qle_bool gmin t && qle_bool t gmax in
  let spec k t =
    if al then (if (nlev > 0 && k >= nlev) || not (inside t) then qz else lambda d (nat k) t)
    else (match alg k t with Some v -> v | None -> qmk (-1) 1) in
  let s1 = values spec alg kk pts in
  let s2 = join ";" (fun k -> if k > npts then "" else
               join " " (fun l -> qs (match List.nth_opt l k with Some v -> v | None -> qz)) vals) (range 0 (kk + 1)) in
  finish (String.concat " # " [grid_structure vals; s1; s2])

(* grid expressions: pointwise on the vectors of the grid points (levels padded with 0) *)
let do_H den f =
  let ds = List.map (diagram den) (split ';' (List.nth f 1)) in
  let (gmin, gmax, npts, _) = grid_args den (List.nth f 2) in
  let kk = List.fold_left (fun m d -> max m (List.length d)) 0 ds in
  let inside t = qle_bool gmin t && qle_bool t gmax in
  let specs = List.map (fun d -> fun k t -> if inside t then lambda d (nat k) t else qz) ds in
  let lands = List.map (fun _ -> Some []) ds in
  let (_, spec) = run_prog lands specs (words (List.nth f 3)) in
  let pts = points den (List.nth f 4) in
  ignore npts;
  join ";" (fun k -> join " " (fun t -> qs (spec k t)) pts) (range 0 (kk + 1))

let () =
  iter_lines (fun line ->
    let ans =
      try
        let f = split '|' line in
        match words (List.hd f) with
        | ["C"; _] -> "ok"
        | [kind; den] ->
          let den = int_of_string den in
          (match kind with
           | "X" -> do_X den f | "E" -> do_E den f | "T" -> do_T den f | "G" -> do_G den f | "H" -> do_H den f
           | _ -> "BADLINE")
        | _ -> "BADLINE"
      with Failure m -> "ORACLEFAIL " ^ m | Not_found -> "ORACLEFAIL notfound" | Invalid_argument m -> "ORACLEFAIL " ^ m in
    emit ans);
  flush_out ()
