(* C19 oracle driver.  One input line per case:
     <flags> <N> <eps_num> <eps_den> <mini> <maxi> <dim_max> | <N*N integer distances> | <order p0 p1 ..> | <simplices of the C++ complex  v,v,..:num/den ...>
   flags: 'I' = also measure the interleaving bound, 'A' = eps is not exactly representable (the given rational is the exact value
   of the double): report whether some branch decision is sensitive to a 2^-40 relative perturbation of eps.
   Output:  greedy=<0|1> ok=<0|1> lvl=<0|1: the level-wise model equals the traversal model M> sens=<0|1> sub=<0|1> valid=<0|1> inter=<1|1x|0|-|fail> (1x: within the bound and the two diagrams differ) | M <model complex> | B <bars ...>
   Everything decisive (model, checks, bars, matching certificate check) is extracted Coq; this file parses, prints and
   SEARCHES the matching (Kuhn's augmenting paths) that the extracted check_matching then validates. *)
let qmake n d = { qnum = n; qden = (match d with Zpos p -> p | _ -> XH) }
let q_of_string s =
  match String.index_opt s '/' with
  | Some i -> qmake (z_of_string (String.sub s 0 i)) (z_of_string (String.sub s (i + 1) (String.length s - i - 1)))
  | None -> qmake (z_of_string s) (z_of_int 1)
let bound_of_string s = if s = "inf" || s = "-inf" then None else Some (q_of_string s)
let string_of_q q = let r = qred q in string_of_z r.qnum ^ "/" ^ string_of_z (Zpos r.qden)
let qi n = qmake (z_of_int n) (z_of_int 1)

let split_bar s = List.map String.trim (String.split_on_char '|' s)
let simplex_of_string s = List.map (fun x -> nat_of_int (int_of_string x)) (String.split_on_char ',' s)
let string_of_simplex s = String.concat "," (List.map (fun v -> string_of_int (int_of_nat v)) s)
let cplx_of_string s =
  List.map (fun w -> match String.index_opt w ':' with
      | Some i -> (simplex_of_string (String.sub w 0 i), q_of_string (String.sub w (i + 1) (String.length w - i - 1)))
      | None -> failwith "bad simplex") (words s)
let canon_cplx k =
  let l = List.map (fun (s, f) -> (List.map int_of_nat s, string_of_q f)) k in
  let l = List.sort (fun (a, _) (b, _) -> compare (List.length a, a) (List.length b, b)) l in
  String.concat " " (List.map (fun (s, f) -> String.concat "," (List.map string_of_int s) ^ ":" ^ f) l)
let structure k = List.sort compare (List.map (fun (s, _) -> List.map int_of_nat s) k)

let string_of_bars bs =
  let l = List.map (fun ((dm, b), de) -> (int_of_nat dm, string_of_q b, (match de with None -> "inf" | Some x -> string_of_q x))) bs in
  String.concat " " (List.map (fun (a, b, c) -> Printf.sprintf "%d:%s:%s" a b c) (List.sort compare l))

(* maximum bipartite matching that covers every bar that is not small; returns the list of matched real pairs or None *)
let find_matching c (a : bar list) (b : bar list) =
  let a = Array.of_list a and b = Array.of_list b in
  let na = Array.length a and nb = Array.length b in
  (* left: A bars 0..na-1, then diagonal copies of B (na..na+nb-1) ; right: B bars 0..nb-1, then diagonal copies of A *)
  let nl = na + nb in
  let adj u =
    if u < na then
      (List.filter (fun j -> bar_match c a.(u) b.(j)) (List.init nb (fun j -> j)))
      @ (if bar_small c a.(u) then [nb + u] else [])
    else
      let j = u - na in
      (if bar_small c b.(j) then [j] else []) @ List.init na (fun i -> nb + i)
  in
  let mr = Array.make nl (-1) in
  let rec try_ u seen =
    List.exists (fun v ->
        if seen.(v) then false else begin
          seen.(v) <- true;
          if mr.(v) < 0 || try_ mr.(v) seen then (mr.(v) <- u; true) else false
        end) (adj u)
  in
  let ok = ref true in
  for u = 0 to nl - 1 do
    if !ok && not (try_ u (Array.make nl false)) then ok := false
  done;
  if not !ok then None
  else begin
    let m = ref [] in
    for v = 0 to nb - 1 do
      if mr.(v) >= 0 && mr.(v) < na then m := (nat_of_int mr.(v), nat_of_int v) :: !m
    done;
    Some !m
  end

let () =
  iter_lines (fun line ->
      try
        let parts = Array.of_list (split_bar line) in
        let hd = Array.of_list (words parts.(0)) in
        let flags = hd.(0) in
        let n = int_of_string hd.(1) in
        let eps = qmake (z_of_string hd.(2)) (z_of_string hd.(3)) in
        let mini = bound_of_string hd.(4) and maxi = bound_of_string hd.(5) in
        let dim = int_of_string hd.(6) in
        let mat = Array.of_list (List.map (fun w -> qmake (z_of_string w) (z_of_int 1)) (words parts.(1))) in
        let d i j = let i = int_of_nat i and j = int_of_nat j in if i < n && j < n then mat.(i * n + j) else qi 0 in
        let nn = nat_of_int n in
        let ord_known = not (String.contains parts.(2) '?') in
        let pi = if ord_known then List.map (fun w -> nat_of_int (int_of_string w)) (words parts.(2)) else [] in
        let kc = cplx_of_string parts.(3) in
        let greedy = ord_known && greedyb d nn [] pi in
        let ok = ord_known && order_ok d nn pi mini in
        let model e = sparse_complex d e nn pi mini maxi (z_of_int dim) in
        let km = sparse_complex_trie d eps nn pi mini maxi (z_of_int dim) in
        let lvl = (canon_cplx (model eps) = canon_cplx km) in
        let sens =
          if String.contains flags 'A' then begin
            let t = qmake (z_of_int 1) (Z.pow (z_of_int 2) (z_of_int 40)) in
            let lo = qmult eps (qminus (qi 1) t) and hi = qmult eps (qplus (qi 1) t) in
            let s0 = structure km in
            not (structure (model lo) = s0 && structure (model hi) = s0)
          end else false in
        let sub = sub_neverb d kc in
        let valid = validb kc in
        let inter, binfo =
          if String.contains flags 'I' && dim >= 1 then begin
            let c = qdiv (qi 1) (qminus (qi 1) eps) in
            let kr = rips_complex d nn (nat_of_int dim) in
            let res = ref "1" and info = Buffer.create 256 and same = ref true and tight = ref 0 in
            List.iter (fun p ->
                match bars (z_of_int p) kc, bars (z_of_int p) kr with
                | Some bs, Some br ->
                  let a = bars_below (nat_of_int dim) bs and b = bars_below (nat_of_int dim) br in
                  Buffer.add_string info (Printf.sprintf " | B p=%d sparse: %s ; rips: %s" p (string_of_bars a) (string_of_bars b));
                  (match find_matching (qi 1) a b with
                   | Some m when check_matching (qi 1) a b m -> ()
                   | _ -> same := false);
                  (* smallest k in 0..8 such that the factor 1 + (c-1)k/8 already suffices (how much of the allowed excess is used) *)
                  let rec first k = if k >= 8 then 8 else
                      let ck = qplus (qi 1) (qmult (qminus c (qi 1)) (qmake (z_of_int k) (z_of_int 8))) in
                      (match find_matching ck a b with Some m when check_matching ck a b m -> k | _ -> first (k + 1)) in
                  tight := max !tight (first 0);
                  (match find_matching c a b with
                   | Some m when check_matching c a b m -> ()
                   | _ -> res := "0")
                | _ -> res := "fail") [2; 3];
            ((if !res = "1" && not !same then "1x" else !res), Printf.sprintf " | T %d" !tight ^ Buffer.contents info)
          end else ("-", "") in
        emit (Printf.sprintf "greedy=%s ok=%s lvl=%s sens=%s sub=%s valid=%s inter=%s | M %s%s" (bstr greedy) (bstr ok) (bstr lvl) (bstr sens) (bstr sub) (bstr valid) inter
                (canon_cplx km) binfo)
      with e -> emit ("ERR " ^ Printexc.to_string e));
  flush_out ()
