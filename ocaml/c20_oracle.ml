(* C20 oracle: reads the lines of harness/c20_drv.cpp, each followed by " => <answer of the harness>", and prints
   "<answer of the algorithm model> # <verdict of the specification>".  The specification is evaluated on the model's
   answer (which the plugin requires to be equal to the implementation's) and, for locate_point and barycenter, on
   the implementation's own answer. *)
let n2i = int_of_nat and i2n = nat_of_int
let split c s = String.split_on_char c s
let nonempty_split c s = if s = "" then [] else split c s
let parse_vertex s = List.map z_of_string (nonempty_split ',' s)
let parse_simplex s =
  match split ';' s with
  | [v; p] -> (parse_vertex v, List.map (fun q -> List.map (fun t -> i2n (int_of_string t)) (nonempty_split ',' q)) (split '|' p))
  | [v] -> (parse_vertex v, [])
  | _ -> failwith "simplex"
let vstr v = String.concat "," (List.map string_of_z v)
let pstr p = String.concat "," (List.map (fun n -> string_of_int (n2i n)) p)
let sstr (v, ps) = vstr v ^ ";" ^ String.concat "|" (List.map pstr ps)
let parse_q s =
  match split '/' s with
  | [n; d] -> { qnum = z_of_string n; qden = (match z_of_string d with Zpos p -> p | _ -> failwith "den") }
  | [n] -> { qnum = z_of_string n; qden = XH }
  | _ -> failwith "rational"
let qstr q = let r = qred q in string_of_z r.qnum ^ "/" ^ string_of_z (Zpos r.qden)
let qlist l = String.concat " " (List.map qstr l)
let nlist l = String.concat "," (List.map (fun n -> string_of_int (n2i n)) l)
let canon (v, ps) = (v, List.map sort_nat ps)

let d = ref 0 and kind = ref "" and mat = ref [] and off = ref []
let q0 = { qnum = Z0; qden = XH } and q1 = { qnum = Zpos XH; qden = XH }
let identity n = List.init n (fun i -> List.init n (fun j -> if i = j then q1 else q0))
let ok b = if b then "ok" else "bad"
let tol = { qnum = Zpos XH; qden = (match z_of_int 1000000000 with Zpos p -> p | _ -> XH) }
(* strict verdict (relative interior, exact) and tolerant verdict (within 1e-9 of the closed simplex) on the implementation's answer *)
let locate_verdicts x s obs =
  let o = (try Some (canon (parse_simplex obs)) with _ -> None) in
  let strict = (match o with Some o -> in_rel_interior_q x o | None -> false) && in_rel_interior_q x s in
  let tolv = (match o with Some o -> near_simplex tol x o | None -> false) in
  sstr (canon s) ^ " # " ^ ok strict ^ " # " ^ (if tolv then "tolok" else "tolbad")
let rec take n l = if n = 0 then [] else match l with [] -> [] | x :: r -> x :: take (n - 1) r
let rec drop n l = if n = 0 then l else match l with [] -> [] | _ :: r -> drop (n - 1) r
let rec until_bar = function [] -> ([], []) | "|" :: r -> ([], r) | x :: r -> let (a, b) = until_bar r in (x :: a, b)

(* answer: the cofaces in the order of enumeration (state-machine model cofaces_iter); verdict: the specification
   cofaces_ok of the set-level model cofaces, and both models enumerate the same simplices *)
let cofaces_answer l s =
  let it = List.map sstr (cofaces_iter l s) and st = List.map sstr (cofaces l s) in
  String.concat " " it ^ " # " ^ ok (cofaces_ok l s && List.sort compare it = List.sort compare st)

let answer w obs =
  match w with
  | "G" :: ds :: k :: rest ->
    d := int_of_string ds; kind := k;
    let n = !d in
    if k = "affine" || k = "chg" || k = "matrix" || k = "offs" then begin
      let qs = List.map parse_q rest in
      mat := List.init n (fun i -> take n (drop (i * n) qs));
      off := take n (drop (n * n) qs)
    end else begin mat := identity n; off := List.init n (fun _ -> q0) end;
    "ok"
  | ["V"; s] ->
    let s = parse_simplex s in
    let vs = vertex_range s in
    String.concat " " (List.map vstr vs) ^ " # " ^ ok (nodup_v vs && List.length vs = n2i (dimension s) + 1 && valid_simplex s)
  | ["D"; s] -> string_of_int (n2i (dimension (parse_simplex s)))
  | ["F"; k; s] ->
    let s = parse_simplex s and k = i2n (int_of_string k) in
    String.concat " " (List.map sstr (faces k s)) ^ " # " ^ ok (faces_ok k s && (!d > 5 || faces_cofaces_ok k s))
  | ["FT"; s] ->
    let s = parse_simplex s in
    let k = i2n (n2i (dimension s) - 1) in
    String.concat " " (List.map sstr (facets s)) ^ " # " ^ ok (faces_ok k s && (!d > 5 || faces_cofaces_ok k s))
  | ["C"; l; s] ->
    let s = parse_simplex s and l = i2n (int_of_string l) in
    cofaces_answer l s
  | ["CT"; s] ->
    let s = parse_simplex s in
    cofaces_answer (S (dimension s)) s
  | ["I"; s; t] ->
    let s = parse_simplex s and t = parse_simplex t in
    let a = is_face_of s t in
    bstr a ^ " # " ^ ok (a = spec_is_face s t)
  | ["EQ"; s; t] ->
    let e = simplex_eqb (parse_simplex s) (parse_simplex t) in bstr e ^ bstr (not e)
  | ["CMB"; n; k] -> String.concat " " (List.map nlist (combinations (i2n (int_of_string n)) (i2n (int_of_string k))))
  | "ICB" :: n :: k :: b ->
    let b = match b with [] -> [] | x :: _ -> List.map (fun t -> i2n (int_of_string t)) (nonempty_split ',' x) in
    String.concat " " (List.map nlist (int_combinations (i2n (int_of_string n)) (i2n (int_of_string k)) b))
  | ["OSP"; n; k] ->
    String.concat " " (List.map (fun o -> String.concat "|" (List.map nlist o)) (osp (i2n (int_of_string n)) (i2n (int_of_string k))))
  | ["OSPI"; n; k] ->
    String.concat " " (List.map (fun o -> String.concat "|" (List.map nlist o)) (osp_iter (i2n (int_of_string n)) (i2n (int_of_string k))))
  | "L" :: scale :: rest ->
    let scale = parse_q scale in
    let (p, hint) = until_bar rest in
    let p = List.map parse_q p and hint = List.map parse_q hint in
    let x, pre =
      if !kind = "freud" then List.map (fun c -> qmult scale c) p, true
      else hint, affine_preimage_ok !mat !off scale p hint in
    if not pre then "BADHINT" else
    locate_verdicts x (locate_q x) obs
  | "LC" :: scale :: rest ->
    let x = List.map parse_q rest in
    locate_verdicts x (locate_q x) obs
  | ["LB"; scale; s] ->
    let s = parse_simplex s in
    let vs = vertex_range s in
    let k1 = { qnum = Zpos XH; qden = (match z_of_int (List.length vs) with Zpos p -> p | _ -> XH) } in
    let n = List.length (fst s) in
    let x = List.init n (fun i -> qmult k1 (List.fold_left (fun acc v -> qplus acc { qnum = List.nth v i; qden = XH }) q0 vs)) in
    locate_verdicts x (locate_q x) obs
  | ["K"; scale; v] -> qlist (cart !mat !off (parse_q scale) (parse_vertex v))
  | ["B"; scale; s] ->
    let s = parse_simplex s in
    let ex = barycenter !mat !off (parse_q scale) s in
    let k1 = z_of_int (n2i (dimension s) + 1) in
    let o = (try List.map parse_q (words obs) with _ -> []) in
    qlist ex ^ " # " ^ ok (List.length o = List.length ex && List.for_all2 (fun e b -> bary_close k1 e b) ex o)
  | ["DIM"] -> string_of_int !d
  | _ -> "NOSUCHOP"

let () =
  iter_lines (fun line ->
    if line <> "" then begin
      let (cmd, obs) =
        match Str.bounded_split_delim (Str.regexp_string " => ") line 2 with
        | [a; b] -> (a, b) | [a] -> (a, "") | _ -> (line, "") in
      let r = (try answer (words cmd) obs with e -> "MODELEXC " ^ Printexc.to_string e) in
      emit r
    end);
  flush_out ()
