(* Oracle for the persistence-matrix harness (C05, C06, C08).
   Input: the harness output (every command echoed as "> cmd", followed by its answers).
   For every DUMP the exposed matrices are validated with the verified checkers of ReduceExec.v against the boundary
   matrix of the current filtration order, and the barcode against the certified canonical pairing.
   Output: one verdict line per checked command:  "OK <what>" or "FAIL <what>: reason". *)

type cell = { uid : int; id : int; dim : int; bd : (int * int) list }   (* boundary as (uid of the face, coefficient) *)
let next_uid = ref 0

let kind = ref "ru"        (* "ru" | "boundary" | "chain", from argv *)
let idmode = ref ""        (* "ident" when the matrix uses identifier indexing, from argv *)
let p = ref 2
let cells : cell list ref = ref []      (* by position *)
let rowids : int list ref = ref []      (* boundary-type matrices: row identifier of each position *)
let case_name = ref ""
let cmdno = ref 0
let last_bars : (int * int * int) list option ref = ref None   (* bars validated at the last DUMP, as positions *)
let swapped = ref false      (* a vine swap / maximal-cell removal happened in this case: R is no longer the standard reduction *)
let pending_swap : (int * bool option * (int * int * int) list option) option ref = ref None

let zp () = z_of_int !p
let modp x = ((x mod !p) + !p) mod !p
let rec nat i = nat_of_int i

let dense_of_int_cols n (cols : (int * int) list list) : z list list =
  List.map (fun c ->
    let a = Array.make n 0 in
    List.iter (fun (r, v) -> if r >= 0 && r < n then a.(r) <- modp (a.(r) + v)) c;
    Array.to_list (Array.map z_of_int a)) cols

let position_of_cell id =
  let rec go i = function [] -> -1 | c :: r -> if c.id = id then i else go (i + 1) r in go 0 !cells
let position_of_uid u =
  let rec go i = function [] -> -1 | c :: r -> if c.uid = u then i else go (i + 1) r in go 0 !cells
let position_of_row rid =
  let rec go i = function [] -> -1 | r :: rest -> if r = rid then i else go (i + 1) rest in go 0 !rowids

let boundary_matrix () =
  let n = List.length !cells in
  dense_of_int_cols n (List.map (fun c -> List.map (fun (u, v) -> (position_of_uid u, v)) c.bd) !cells)

let canonical_bars () =
  let d = boundary_matrix () in
  match certified_lows (zp ()) d with
  | None -> None
  | Some l ->
    let prs = pairs_of_lows l in
    let dims = Array.of_list (List.map (fun c -> c.dim) !cells) in
    Some (List.sort compare (List.map (fun (b, dth) ->
      let b = int_of_nat b in (dims.(b), b, (match dth with None -> -1 | Some x -> int_of_nat x))) prs), l)

let parse_entries toks =      (* "r:c" tokens *)
  List.map (fun t -> match String.split_on_char ':' t with
    | [r; c] -> (int_of_string r, int_of_string c) | _ -> failwith ("bad entry " ^ t)) toks

let rec split_at_tok tok = function
  | [] -> ([], [])
  | x :: r when x = tok -> ([], r)
  | x :: r -> let (a, b) = split_at_tok tok r in (x :: a, b)

let zmat_eq a b = a = b   (* entries are reduced, structural equality on inductive Z is fine *)
let is_zero_col c = List.for_all (fun x -> x = Z0) c
let scale_eq (a : z list) (b : z list) =
  (* a = lambda * b for some lambda <> 0 (mod p) *)
  let pz = zp () in
  let rec find xs ys = match xs, ys with
    | x :: xr, y :: yr -> if y <> Z0 then Some (x, y) else if x <> Z0 then None else find xr yr
    | _, _ -> None in
  match find a b with
  | None -> false
  | Some (x, y) ->
    if x = Z0 then false else
    let lam = Z.modulo (Z.mul x (inv_mod pz y)) pz in
    List.for_all2 (fun u v -> Z.modulo (Z.mul lam v) pz = u) a b


(* ---- chain flavour, finite bars: "the representative becomes a boundary exactly at the death".  Plain Gaussian
   elimination over Z_p on int arrays (untrusted helper; it can only make the check stricter for the chain flavour) *)
let inv_int x = int_of_z (inv_mod (zp ()) (z_of_int x))
(* column-reduce the family w.r.t. the lowest non-zero entry among the rows selected by [sel]; returns the vectors whose
   selected part vanished (a basis of {v in span : v = 0 on the selected rows}) *)
let vanishing_on (n : int) (vecs : int array list) (sel : int -> bool) : int array list =
  let low v = let r = ref (-1) in for i = 0 to n - 1 do if sel i && v.(i) <> 0 then r := i done; !r in
  let pivots : (int * int array) list ref = ref [] and out = ref [] in
  List.iter (fun v0 ->
    let v = Array.copy v0 in
    let continue = ref true in
    while !continue do
      let l = low v in
      if l < 0 then (continue := false; if Array.exists (fun x -> x <> 0) v then out := v :: !out)
      else match List.assoc_opt l !pivots with
        | None -> pivots := (l, v) :: !pivots; continue := false
        | Some w -> let c = modp (- v.(l) * inv_int w.(l)) in
          for i = 0 to n - 1 do v.(i) <- modp (v.(i) + c * w.(i)) done
    done) vecs;
  !out
let in_span (n : int) (vecs : int array list) (z : int array) : bool =
  (* echelon form of vecs on all rows, then reduce z *)
  let low v = let r = ref (-1) in for i = 0 to n - 1 do if v.(i) <> 0 then r := i done; !r in
  let pivots : (int * int array) list ref = ref [] in
  List.iter (fun v0 ->
    let v = Array.copy v0 in
    let continue = ref true in
    while !continue do
      let l = low v in
      if l < 0 then continue := false
      else match List.assoc_opt l !pivots with
        | None -> pivots := (l, v) :: !pivots; continue := false
        | Some w -> let c = modp (- v.(l) * inv_int w.(l)) in
          for i = 0 to n - 1 do v.(i) <- modp (v.(i) + c * w.(i)) done
    done) vecs;
  let v = Array.copy z in
  let ok = ref true and continue = ref true in
  while !continue do
    let l = low v in
    if l < 0 then continue := false
    else match List.assoc_opt l !pivots with
      | None -> ok := false; continue := false
      | Some w -> let c = modp (- v.(l) * inv_int w.(l)) in
        for i = 0 to n - 1 do v.(i) <- modp (v.(i) + c * w.(i)) done
  done;
  !ok
(* None = fine; Some reason otherwise.  pos = the cells of the representative, death = position of the killing cell *)
let chain_boundary_at_death (n : int) (d : z list list) (pos : int list) (death : int) : string option =
  let cols = List.filteri (fun j _ -> j <= death) (List.map (fun c -> Array.of_list (List.map (fun x -> modp (int_of_z x)) c)) d) in
  let insupp i = List.mem i pos in
  let w = vanishing_on n cols (fun i -> not (insupp i)) in      (* boundaries of K_{death+1} carried by the cells of the cycle *)
  if !p = 2 then begin
    let z = Array.init n (fun i -> if insupp i then 1 else 0) in
    if in_span n w z then None else Some "is not a boundary of the complex at the death of its bar"
  end else begin
    match List.find_opt (fun s -> not (List.exists (fun v -> v.(s) <> 0) w)) pos with
    | None -> None
    | Some s -> Some (Printf.sprintf "no boundary of the complex at the death of its bar involves cell %d of the returned support" s)
  end

let check_dump (lines : string list) : string list =
  let out = ref [] in
  let ok s = out := ("OK " ^ s) :: !out and fail s = out := ("FAIL " ^ s) :: !out in
  let n = List.length !cells in
  let bars = ref [] and cols = Array.make n None and ncol = ref None and cwp_bad = ref [] and excs = ref [] in
  List.iter (fun l ->
    match words l with
    | ["NCOL"; a; b] -> ncol := Some (int_of_string a, int_of_string b)
    | ["BAR"; d; b; dth] -> bars := (int_of_string d, int_of_string b, int_of_string dth) :: !bars
    | "COL" :: k :: rest ->
      let k = int_of_string k in
      if List.mem "EXC" rest || List.mem "EXC-ACC" rest then excs := l :: !excs
      else if k < n then cols.(k) <- Some rest
    | "CWP" :: k :: rest ->
      (match rest with
       | ["piv"; _; "col"; y; "self"; z] -> if y <> z then cwp_bad := l :: !cwp_bad
       | ["none"] | ["unavailable"] -> ()
       | _ -> cwp_bad := l :: !cwp_bad)
    | "MAXDIM" :: [d] ->
      let md = List.fold_left (fun a c -> max a c.dim) (-1) !cells in
      if int_of_string d <> md then fail (Printf.sprintf "max dimension: reported %s, cells have %d" d md)
    | _ -> if String.length l >= 3 && String.sub l 0 3 = "EXC" then excs := l :: !excs) lines;
  if !excs <> [] then fail ("exception while reading the matrix: " ^ List.hd !excs);
  (match !ncol with Some (a, b) when a <> b || b <> n -> fail (Printf.sprintf "number of columns %d, cells %d" a n) | _ -> ());
  if !cwp_bad <> [] then fail ("pivot does not map back to its column: " ^ List.hd !cwp_bad);
  (match canonical_bars () with
   | None -> fail "oracle: certificate of the reference reduction failed"; last_bars := None
   | Some (exp_bars, canon_lows) ->
     let have_bars = List.exists (fun l -> match words l with "BAR" :: _ -> true | _ -> false) lines || n = 0 in
     if have_bars then begin
       let got = List.sort compare !bars in
       if got = exp_bars then ok (Printf.sprintf "barcode (%d bars)" (List.length got))
       else fail (Printf.sprintf "barcode differs from the reference reduction: got [%s] expected [%s]"
                    (String.concat ";" (List.map (fun (d, b, x) -> Printf.sprintf "%d:%d-%d" d b x) got))
                    (String.concat ";" (List.map (fun (d, b, x) -> Printf.sprintf "%d:%d-%d" d b x) exp_bars)));
       last_bars := Some got
     end else last_bars := Some exp_bars;
     (* matrices *)
     if Array.for_all (fun c -> c <> None) cols && n > 0 then begin
       let row_pos = if !kind = "chain" then position_of_cell else position_of_row in
       let rcols = ref [] and ucols = ref [] and has_u = ref false and meta_bad = ref [] in
       Array.iteri (fun k c -> match c with
         | None -> ()
         | Some toks ->
           (* id <i> dim <d> piv <p> zero <z> R: ... [U: ...] *)
           let (hdr, rest) = split_at_tok "R:" toks in
           let (rtoks, utoks) = if List.mem "U:" rest then (has_u := true; split_at_tok "U:" rest) else (rest, []) in
           let ents = List.map (fun (r, v) -> (row_pos r, v)) (parse_entries rtoks) in
           if List.exists (fun (r, _) -> r < 0) ents then meta_bad := (Printf.sprintf "column %d refers to an unknown row" k) :: !meta_bad;
           rcols := ents :: !rcols;
           (* the factor U lives in column-index space: its rows are positions, not cell identifiers *)
           let uents = parse_entries utoks in
           if List.exists (fun (r, _) -> r < 0 || r >= n) uents then meta_bad := (Printf.sprintf "column %d of U has an entry outside the matrix" k) :: !meta_bad;
           ucols := uents :: !ucols;
           let cell = List.nth !cells k in
           (match hdr with
            | ["id"; i; "dim"; d; "piv"; pv; "zero"; z] ->
              if int_of_string i <> cell.id then meta_bad := (Printf.sprintf "column %d: id %s expected %d" k i cell.id) :: !meta_bad;
              if int_of_string d <> cell.dim then meta_bad := (Printf.sprintf "column %d: dimension %s expected %d" k d cell.dim) :: !meta_bad;
              let nz = List.exists (fun (_, v) -> modp v <> 0) ents in
              if (z = "1") = nz then meta_bad := (Printf.sprintf "column %d: is_zero_column=%s but content non-zero=%b" k z nz) :: !meta_bad;
              let low = List.fold_left (fun a (r, v) -> if modp v <> 0 then max a r else a) (-1) ents in
              let pv = int_of_string pv in
              let pvpos = if pv < 0 then -1 else row_pos pv in
              if pvpos <> low then meta_bad := (Printf.sprintf "column %d: get_pivot=%d (position %d) but lowest entry at %d" k pv pvpos low) :: !meta_bad
            | _ -> meta_bad := ("unparsable column header: " ^ String.concat " " hdr) :: !meta_bad)) cols;
       if !meta_bad <> [] then fail (List.hd (List.rev !meta_bad));
       let d = boundary_matrix () in
       let r = dense_of_int_cols n (List.rev !rcols) in
       let nn = nat n in
       if !kind = "chain" then begin
         (* chain columns = V; R := D.V must be reduced with lows the partners; D.C_d = lambda C_b, cycles otherwise *)
         let v = r in
         let dv = mat_mul (zp ()) nn d v in
         if not (check_RU (zp ()) nn d dv v) then fail "chain basis: D.C is not a reduced matrix obtained by an invertible upper-triangular change of basis (distinct leading cells / identities violated)"
         else begin
           let l = lows (zp ()) nn dv in
           if l <> canon_lows then fail "chain basis: pairing read from the basis differs from the canonical pairing (contradicts the checker theorem)"
           else begin
             (* property clause: paired columns are sent onto their partner, the others are cycles *)
             let dva = Array.of_list dv and va = Array.of_list v in
             let bad = ref None in
             List.iteri (fun j lo -> match lo with
               | None -> if not (is_zero_col dva.(j)) then bad := Some (Printf.sprintf "column %d should be a cycle" j)
               | Some b -> let b = int_of_nat b in
                 if not (scale_eq dva.(j) va.(b)) then bad := Some (Printf.sprintf "boundary of chain %d is not a multiple of chain %d" j b)) l;
             match !bad with None -> ok "chain identities" | Some s -> fail ("chain basis: " ^ s)
           end
         end
       end else if !has_u then begin
         let f = dense_of_int_cols n (List.rev !ucols) in
         let ft = transpose nn f in
         let good g = check_any (zp ()) nn d r g in
         (* algorithm model: without swaps the implementation runs the standard left-to-right reduction, whose R is
            determined column by column; compare it exactly with the model's (ReduceExec.reduce) *)
         if not !swapped then begin
           let (r0, _) = reduce (zp ()) nn d in
           if r0 = r then ok "R equals the standard reduction (algorithm model)"
           else fail "MODEL R differs from the standard left-to-right reduction of the algorithm model"
         end;
         if good f && check_upper (zp ()) nn f then ok "R,U identities"
         else if good ft && check_upper (zp ()) nn ft then ok "R,U identities (factor stored transposed)"
         else if not (check_reduced (zp ()) nn r) then fail "R is not reduced (two non-zero columns share their lowest entry)"
         else fail "R and the exposed factor U do not factor the boundary matrix (neither R = D.U nor D = R.U, U or its transpose upper triangular with invertible diagonal)"
       end else begin
         if not (check_reduced (zp ()) nn r) then fail "R is not reduced (two non-zero columns share their lowest entry)"
         else if lows (zp ()) nn r <> canon_lows then fail "lows of R differ from the canonical pairing"
         else ok "R reduced with canonical lows";
         if not !swapped then begin
           let (r0, _) = reduce (zp ()) nn d in
           if r0 = r then ok "R equals the standard reduction (algorithm model)"
           else fail "MODEL R differs from the standard left-to-right reduction of the algorithm model"
         end
       end
     end);
  List.rev !out

let swap_bars k bars =
  let sw x = if x = k then k + 1 else if x = k + 1 then k else x in
  List.sort compare (List.map (fun (d, b, x) -> (d, sw b, sw x)) bars)

let () =
  if Array.length Sys.argv > 1 then kind := Sys.argv.(1);
  if Array.length Sys.argv > 2 then idmode := Sys.argv.(2);
  let lines = Array.of_list (read_lines ()) in
  let nl = Array.length lines in
  let i = ref 0 in
  let answers j =      (* lines after command j up to the next command *)
    let k = ref (j + 1) and acc = ref [] in
    while !k < nl && not (String.length lines.(!k) >= 2 && String.sub lines.(!k) 0 2 = "> ") do acc := lines.(!k) :: !acc; incr k done;
    (List.rev !acc, !k) in
  while !i < nl do
    let l = lines.(!i) in
    if String.length l >= 2 && String.sub l 0 2 = "> " then begin
      let cmd = words (String.sub l 2 (String.length l - 2)) in
      incr cmdno;
      let emit s = if String.length s >= 4 && String.sub s 0 4 = "CASE" then emit s else emit (Printf.sprintf "@%d %s" !cmdno s) in
      let (ans, next) = answers !i in
      let failed_cmd = List.exists (fun a -> a = "UNSUPPORTED" || (String.length a >= 3 && String.sub a 0 3 = "EXC") || (String.length a >= 5 && String.sub a 0 5 = "CRASH")) ans in
      (try (match cmd with
       | "CASE" :: rest -> cmdno := 0; swapped := false; case_name := String.concat " " rest; cells := []; rowids := []; last_bars := None; emit ("CASE " ^ !case_name)
       | ["NEW"; pp] -> swapped := false; p := int_of_string pp; cells := []; rowids := []; last_bars := None
       | "I" :: id :: dim :: b ->
         if failed_cmd then emit ("FAIL insert_boundary: " ^ String.concat " | " ans)
         else begin
           let id = int_of_string id in
           (* boundary-type matrices: the entries name rows, i.e. the identifier attached to the *position* of the face *)
           let bd = List.map (fun (r, v) ->
               let pos = if !kind = "chain" then position_of_cell r else position_of_row r in
               if pos < 0 then (-1, v) else ((List.nth !cells pos).uid, v)) (parse_entries b) in
           incr next_uid;
           cells := !cells @ [{ uid = !next_uid; id; dim = int_of_string dim; bd }];
           rowids := !rowids @ [id]; last_bars := None
         end
       | ["RL"] ->
         if List.mem "UNSUPPORTED" ans then emit "SKIP RL"
         else if failed_cmd then emit ("FAIL remove_last: " ^ String.concat " | " ans)
         else begin
           let n = List.length !cells in
           cells := List.filteri (fun j _ -> j < n - 1) !cells; rowids := List.filteri (fun j _ -> j < n - 1) !rowids; last_bars := None
         end
       | ["RM"; k] ->
         swapped := true;
         if List.mem "UNSUPPORTED" ans then emit "SKIP RM"
         else if failed_cmd then emit ("FAIL remove_maximal_cell: " ^ String.concat " | " ans)
         else begin
           let k = int_of_string k and n = List.length !cells in
           cells := List.filteri (fun j _ -> j <> k) !cells; rowids := List.filteri (fun j _ -> j < n - 1) !rowids; last_bars := None
         end
       | [("VS" | "VZ"); k] ->
         swapped := true;
         if List.mem "UNSUPPORTED" ans then emit "SKIP VS"
         else if failed_cmd then emit ("FAIL vine_swap: " ^ String.concat " | " ans)
         else begin
           let k = int_of_string k in
           let before = (match canonical_bars () with Some (b, _) -> Some b | None -> None) in
           let arr = Array.of_list !cells in
           let t = arr.(k) in arr.(k) <- arr.(k + 1); arr.(k + 1) <- t; cells := Array.to_list arr;
           let after = (match canonical_bars () with Some (b, _) -> Some b | None -> None) in
           (match before, after with
            | Some b, Some a ->
              let kept = (a = swap_bars k b) and exchanged = (a = b) in
              let interpret r =
                     if kept && not exchanged then (if r then emit "OK swap value (cells kept their bars)" else emit "FAIL vine_swap returned false but the two cells kept their bars (barcode = old one with the positions exchanged)")
                     else if exchanged && not kept then (if not r then emit "OK swap value (cells exchanged their bars)" else emit "FAIL vine_swap returned true but the barcode in positions is unchanged")
                     else if kept && exchanged then emit "OK swap value (both readings coincide)"
                     else emit "FAIL oracle: the new barcode is neither the old one nor the old one with the positions exchanged" in
              (match ans with
               | [s] -> (match List.filter (fun x -> x <> "(VS)") (words s) with
                   | ["SWAP"; "idx"; r; "of"; a1; _] when !kind <> "chain" || !idmode <> "ident" -> interpret (r = a1)
                   | ["SWAP"; "bool"; r] ->
                     let r = (r = "1") in
                     if kept && not exchanged then (if r then emit "OK swap value (cells kept their bars)" else emit "FAIL vine_swap returned false but the two cells kept their bars (barcode = old one with the positions exchanged)")
                     else if exchanged && not kept then (if not r then emit "OK swap value (cells exchanged their bars)" else emit "FAIL vine_swap returned true but the barcode in positions is unchanged")
                     else if kept && exchanged then emit "OK swap value (both readings coincide)"
                     else emit "FAIL oracle: the new barcode is neither the old one nor the old one with the positions exchanged"
                   | "SWAP" :: "idx" :: _ -> emit "OK swap (index-returning form, value not interpreted)"
                   | _ -> emit ("FAIL vine_swap: unexpected answer " ^ s))
               | _ -> emit ("FAIL vine_swap: unexpected answer " ^ String.concat " | " ans))
            | _ -> emit "FAIL oracle: certificate failed around a swap");
           last_bars := None
         end
       | ["DUMP"] -> List.iter emit (check_dump ans)
       | ["REP"] ->
         if List.mem "UNSUPPORTED" ans then emit "SKIP REP"
         else if failed_cmd then emit ("FAIL representative cycles: " ^ String.concat " | " ans)
         else begin
           let n = List.length !cells in
           let row_pos = if !kind = "chain" then position_of_cell else position_of_row in
           let d = boundary_matrix () in
           let nn = nat n in
           if not (check_chain_complex (zp ()) nn d) then emit "FAIL oracle: the generated boundary matrix does not satisfy D.D = 0" else
           (match canonical_bars () with
            | None -> emit "FAIL oracle: certificate failed"
            | Some (exp_bars, _) ->
              let dims = Array.of_list (List.map (fun c -> c.dim) !cells) in
              let births_seen = ref [] and bad = ref None in
              let check_cycle what (ids : int list) (bar : (int * int * int) option) =
                (* boundary-type matrices name the cells of a cycle by their position (the rows of U live in column-index
                   space); this coincides with the row identifiers when default identifiers are used *)
                let pos = if !kind = "chain" then List.map row_pos ids
                  else List.map (fun x -> if x >= 0 && x < n then x else -1) ids in
                if List.exists (fun x -> x < 0) pos then bad := Some (what ^ ": refers to an unknown cell")
                else if pos = [] then bad := Some (what ^ ": empty chain")
                else begin
                  let sorted = List.sort_uniq compare pos in
                  if List.length sorted <> List.length pos then bad := Some (what ^ ": a cell is repeated") else
                  let young = List.fold_left max (-1) pos in
                  let dm = dims.(young) in
                  if List.exists (fun x -> dims.(x) <> dm) pos then bad := Some (what ^ ": cells of different dimensions")
                  else begin
                    (* the verified checkers of RepCycle.v decide: for Z_2 the returned cells ARE the chain (0/1 vector);
                       for Z_p the API returns the support only, so a candidate chain carried by these cells with youngest
                       cell [young] is computed (rep_witness, untrusted) and then validated like any other *)
                    let zn = nat young in
                    let dimsn = List.map nat (Array.to_list dims) in
                    let verdict =
                      if !p = 2 then begin
                        let z = List.init n (fun i -> if List.mem i pos then z_of_int 1 else Z0) in
                        if check_rep (zp ()) nn d z zn && check_dims (zp ()) nn dimsn z zn then None
                        else Some "not a cycle (boundary non-zero)"
                      end else begin
                        match rep_witness (zp ()) nn d (List.map nat pos) zn with
                        | None -> Some "not a cycle (no chain carried by these cells has zero boundary and this youngest cell)"
                        | Some z ->
                          if check_rep (zp ()) nn d z zn && check_support (zp ()) nn (List.map nat pos) z
                             && check_dims (zp ()) nn dimsn z zn then None
                          else Some "not a cycle (oracle: candidate chain rejected by the verified checker)"
                      end in
                    if verdict <> None then bad := Some (Printf.sprintf "%s: %s, youngest cell at position %d" what
                                                          (match verdict with Some s -> s | None -> "") young)
                    else begin
                      births_seen := young :: !births_seen;
                      match bar with
                      | Some (bd, bb, bdeath) ->
                        if bb <> young then bad := Some (Printf.sprintf "%s: youngest cell at position %d but the bar is born at %d" what young bb)
                        else if bd <> dm then bad := Some (Printf.sprintf "%s: chain of dimension %d for a bar of dimension %d" what dm bd)
                        else if !kind = "chain" && bdeath >= 0 && bdeath < n then
                          (match chain_boundary_at_death n d pos bdeath with
                           | None -> ()
                           | Some why -> bad := Some (Printf.sprintf "%s: chain flavour: the representative %s (death at position %d)" what why bdeath))
                      | None ->
                        if not (List.exists (fun (bd, bb, _) -> bb = young && bd = dm) exp_bars) then
                          bad := Some (Printf.sprintf "%s: youngest cell at position %d is not the birth of a bar of dimension %d" what young dm)
                    end
                  end
                end in
              let ncyc = ref 0 in
              List.iter (fun a -> match words a with
                | "CYCLE" :: ids -> incr ncyc; if !bad = None then check_cycle "representative cycle" (List.map int_of_string ids) None
                | "BARCYCLE" :: dm :: b :: dth :: ":" :: ids ->
                  if !bad = None then check_cycle (Printf.sprintf "cycle of bar (%s,%s,%s)" dm b dth) (List.map int_of_string ids)
                      (Some (int_of_string dm, int_of_string b, int_of_string dth))
                | _ -> ()) ans;
              (match !bad with
               | Some s -> emit ("FAIL " ^ s)
               | None ->
                 let bs = List.sort compare (List.filteri (fun j _ -> j < !ncyc) (List.rev !births_seen)) in
                 let eb = List.sort compare (List.map (fun (_, b, _) -> b) exp_bars) in
                 if bs <> eb then emit (Printf.sprintf "FAIL representative cycles: births represented [%s], bars born at [%s]"
                                          (String.concat "," (List.map string_of_int bs)) (String.concat "," (List.map string_of_int eb)))
                 else emit (Printf.sprintf "OK representative cycles (%d)" !ncyc)))
         end
       | _ -> ())
       with e -> emit ("FAIL malformed answer: what the matrix returned cannot be interpreted (" ^ Printexc.to_string e ^ "): " ^ String.concat " | " (List.filteri (fun j _ -> j < 3) ans)));
      i := next
    end else incr i
  done;
  flush_out ()
