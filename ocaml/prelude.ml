(* shared prelude of the oracle drivers; M = the extracted model module (opened).
   Every Extract_*.v extracts Z.add Z.mul Z.sub Z.div Z.modulo Z.compare Z.opp Z.of_nat Z.to_nat so that these exist. *)
let rec pos_of_int n = if n <= 1 then XH else if n land 1 = 0 then XO (pos_of_int (n lsr 1)) else XI (pos_of_int (n lsr 1))
let z_of_int n = if n = 0 then Z0 else if n > 0 then Zpos (pos_of_int n) else Zneg (pos_of_int (-n))
let rec int_of_pos = function XH -> 1 | XO p -> 2 * int_of_pos p | XI p -> 2 * int_of_pos p + 1
let int_of_z = function Z0 -> 0 | Zpos p -> int_of_pos p | Zneg p -> - (int_of_pos p)
let z10 = z_of_int 10
let z_of_string s =
  let s = String.trim s in
  if s = "inf" then z_of_int max_int else if s = "-inf" then z_of_int min_int else
  let neg = String.length s > 0 && s.[0] = '-' in
  let acc = ref Z0 in
  String.iteri (fun i c -> if c >= '0' && c <= '9' then acc := Z.add (Z.mul !acc z10) (z_of_int (Char.code c - 48))
                           else if not (i = 0 && (c = '-' || c = '+')) then failwith ("bad integer: " ^ s)) s;
  if neg then Z.opp !acc else !acc
let zbig = z_of_int 1000000000
let rec string_of_z z =
  match z with
  | Z0 -> "0"
  | Zneg p -> "-" ^ string_of_z (Zpos p)
  | Zpos _ ->
    if (match Z.compare z zbig with Lt -> true | _ -> false) then string_of_int (int_of_z z)
    else let q = Z.div z zbig and r = Z.modulo z zbig in string_of_z q ^ Printf.sprintf "%09d" (int_of_z r)
let rec nat_of_int n = if n <= 0 then O else S (nat_of_int (n - 1))
let rec int_of_nat = function O -> 0 | S n -> 1 + int_of_nat n
let words s = List.filter (fun x -> x <> "") (String.split_on_char ' ' (String.trim s))
let read_lines () =
  let l = ref [] in
  (try while true do l := input_line stdin :: !l done with End_of_file -> ());
  List.rev !l
let iter_lines f =
  (try while true do f (input_line stdin) done with End_of_file -> ())
let bstr b = if b then "1" else "0"
let out = Buffer.create (1 lsl 20)
let emit s = Buffer.add_string out s; Buffer.add_char out '\n';
  if Buffer.length out > (1 lsl 20) then (print_string (Buffer.contents out); Buffer.clear out)
let flush_out () = print_string (Buffer.contents out); Buffer.clear out
