"""C01 - the simplex tree equals the abstract complex defined by its operation history."""
import itertools, json, os, time
from vlib import core

LEVEL = "proof"
MANIFEST = dict(
    cat="proof",
    tech="Coq proof that an algorithm model of Simplex_tree on tries refines the abstract filtered complex of the operation history "
         "+ differential correspondence of the C++ (8 option sets) with the extracted model on the whole observable state after every operation",
    text="41 Coq theorems (unbounded: all tries, simplices, values, histories; no axioms) about a function-by-function transcription of "
         "Simplex_tree.h on prefix trees: for every history of insert_simplex, insert_simplex_and_subfaces (the double recursion with early exit), "
         "insert_batch_vertices, insert_graph, remove_maximal_simplex, prune_above_filtration, prune_above_dimension, clear, dimension(), "
         "num_simplices_by_dimension() that meets the documented preconditions, the tree is well formed and holds exactly the finite map the "
         "documented rules define; find = lookup; vertex/complex/skeleton ranges = the stored simplices each once; boundary = the facets with "
         "opposite vertices; the rec_coface walk and the label-list search both = the set of cofaces of the requested codimension; per-dimension "
         "counts exact; dimension() and the cached dimension exact; operator== against a rebuilt tree true; closure preserved by the operations "
         "that promise it. The faithful model of the unrepaired code is refuted on the three findings. The transcription is tied to the C++ by "
         "running harness/c01_drv.cpp (8 SimplexTreeOptions) and the extracted model on identical random, boundary-directed and exhaustive "
         "small histories and comparing, after EVERY operation, membership/value/dimension of every subset of the label universe, all ranges "
         "(with order), boundaries, stars and cofaces of every simplex x codimension, counts, dimensions, operator==; the specification "
         "model is evaluated as oracle on each dump.",
    note="Trusted: Coq kernel, extraction+OCaml driver, the hand transcription (validated by the differential run, not by translation), g++/Boost, "
         "the generator. Not proved: histories containing expansion (not an operation of the property; modelled at specification level, compared "
         "per input); iteration orders are compared, not proved. NaN values, memory safety and the filtration cache are out of scope.",
    ref="design/C01.md")
CORRESPONDENCE = "coq/C01_Model.v + coq/Trie.v + coq/Simplex.v (extracted: ocaml/c01_oracle.ml) vs harness/c01_drv.cpp (8 option sets) on identical operation histories"
TRUSTED = [
    "Coq 8.16.1 kernel (coqc, full .vo build); vm_compute only inside Example sanity checks and the _refuted witnesses",
    "extraction (ExtrOcamlBasic only; Z/positive stay inductive) + OCaml 4.13.1 + ocaml/prelude.ml, ocaml/c01_oracle.ml (line protocol, dump formatting, comparison of the specification with the model's dump)",
    "hand-written algorithm model coq/C01_Model.v, coq/Trie.v of Simplex_tree.h / Simplex_tree_iterators.h / Simplex_tree_star_simplex_iterators.h; tied to the C++ by differential runs, not by translation",
    "harness/c01_drv.cpp, g++ 12.2, Boost (flat_map, map, intrusive list, graph)",
    "props/c01.py generator (its own small Python model is used only to propose mostly-valid operations, never for a verdict)",
]
ASSUMPTIONS = [
    "filtration values are integers or +-infinity (exact in double and float); NaN is not exercised",
    "vertex labels differ from null_vertex() = -1; insert_simplex receives distinct vertices (documented preconditions)",
    "insert_graph is called on an empty tree with a boost adjacency_list<vecS,vecS,undirectedS> (vertices 0..n-1); expansion only on complexes of dimension <= 1",
    "option sets with contiguous_vertices are only driven through histories that keep the vertex set equal to {0..n-1}; Simplex_tree_options_minimal only through histories whose values are all 0",
    "memory management, iterator invalidation and the intrusive hooks are observed only through their effect on the dumps (no sanitizer in this property; C15 runs ASan)",
]

OPTSETS = {0: "default", 1: "full_featured", 2: "minimal", 3: "fast_persistence", 4: "flat_linked", 5: "stable_unlinked",
           6: "stable_linked_nokey", 7: "contig_linked"}
LINKED = {1, 4, 6, 7}
BASE = [0, 1, 4, 5, 6]
INF = float("inf")
POOL = [-1000000, -7, -3, -2, 0, 1, 2, 3, 4, 5, 8, 13, 1000, 1 << 30]
VALUES = [-INF, -3, 0, 1, 1, 2, 2, 3, 3, 5, 7, INF]


def vstr(v):
    return "inf" if v == INF else "-inf" if v == -INF else str(int(v))


def faces(s):
    return [c for k in range(1, len(s) + 1) for c in itertools.combinations(s, k)]


class PM:
    """small Python model of the trie's key set, used ONLY to propose operations that are mostly valid"""

    def __init__(self):
        self.K = {}

    def copy(self):
        p = PM()
        p.K = dict(self.K)
        return p

    def dim(self):
        return max([len(s) for s in self.K], default=0) - 1

    def vertices(self):
        return sorted(s[0] for s in self.K if len(s) == 1)

    def contiguous(self):
        return self.vertices() == list(range(len(self.vertices())))

    def maximal(self):
        ks = list(self.K)
        return [s for s in ks if not any(len(t) > len(s) and set(s) <= set(t) for t in ks)]

    def trie_leaves(self):
        ks = list(self.K)
        return [s for s in ks if not any(len(t) > len(s) and t[:len(s)] == s for t in ks)]

    def closed_monotone(self):
        for s, w in self.K.items():
            for f in faces(s):
                if f not in self.K or self.K[f] > w:
                    return False
        return True

    def apply(self, op):
        k = op[0]
        K = self.K
        if k == "IF":
            s = tuple(sorted(set(op[2])))
            for f in faces(s):
                K[f] = min(K.get(f, op[1]), op[1])
        elif k == "IS":
            s = tuple(sorted(op[2]))
            for i in range(1, len(s)):
                K.setdefault(s[:i], op[1])
            K[s] = min(K.get(s, op[1]), op[1])
        elif k == "IB":
            for x in op[2]:
                K.setdefault((x,), op[1])
        elif k == "IG":
            if not K:
                for i, w in enumerate(op[1]):
                    K.setdefault((i,), w)
                for (u, v, w) in op[2]:
                    K.setdefault((min(u, v), max(u, v)), w)
        elif k == "RM":
            s = tuple(sorted(op[1]))
            if s in K and s in self.trie_leaves():
                del K[s]
        elif k == "PF":
            gone = [s for s, w in K.items() if op[1] < w]
            self.K = {s: w for s, w in K.items() if not any(s[:len(g)] == g for g in gone)}
        elif k == "PD":
            self.K = {s: w for s, w in K.items() if len(s) - 1 <= max(op[1], -1)}
        elif k == "CL":
            self.K = {}
        elif k == "EX":
            d = op[1]
            if d > 1 and self.dim() <= 1:
                vs = self.vertices()
                for k2 in range(3, d + 2):
                    for c in itertools.combinations(vs, k2):
                        es = list(itertools.combinations(c, 2))
                        if all(e in K for e in es):
                            K[c] = max(K[e] for e in es)


def op_line(op, flags=""):
    k = op[0]
    t = k + (":" + flags if flags else "")
    if k in ("IF", "IS", "IB"):
        return "%s %s %d %s" % (t, vstr(op[1]), len(op[2]), " ".join(map(str, op[2])))
    if k == "IG":
        return "%s %d %s %d %s" % (t, len(op[1]), " ".join(vstr(w) for w in op[1]), len(op[2]),
                                   " ".join("%d %d %s" % (u, v, vstr(w)) for (u, v, w) in op[2]))
    if k == "RM":
        return "%s %d %s" % (t, len(op[1]), " ".join(map(str, op[1])))
    if k == "PF":
        return "%s %s" % (t, vstr(op[1]))
    if k in ("PD", "EX"):
        return "%s %d" % (t, op[1])
    return t


class HistGen:
    def __init__(self, rng):
        self.rng = rng

    def value(self, zero, pool=None):
        return 0 if zero else self.rng.choice(pool or VALUES)

    def propose(self, pm, U, contig, zero, stream, pool):
        rng = self.rng
        n = len(U)
        r = rng.random()
        K = pm.K
        if stream == "nonclosed" and r < 0.3:
            s = rng.sample(U, rng.randint(1, min(n, 4)))
            return ("IS", self.value(zero, pool), s)
        if stream == "nonclosed" and r < 0.45:
            lv = pm.trie_leaves()
            if lv:
                return ("RM", list(rng.choice(lv)))
        r = rng.random()
        if r < 0.30 or not K:
            k = rng.choice([1, 1, 2, 2, 2, 3, 3, 3, 4, 5, n]) if rng.random() < 0.9 else n
            s = rng.sample(U, min(k, n))
            if rng.random() < 0.1:
                s = s + [rng.choice(s)]          # duplicate label: removed by std::unique
            if not K and rng.random() < 0.25:
                if contig and rng.random() < 0.5:
                    nv = rng.randint(0, n)
                    vw = [self.value(zero, pool) for _ in range(nv)]
                    es = []
                    for _ in range(rng.randint(0, 2 * nv)):
                        if nv >= 2:
                            u, v = rng.sample(range(nv), 2)
                            w = self.value(zero, pool)
                            es.append((u, v, max(w, vw[u], vw[v])))
                    return ("IG", vw, es)
                return ("IB", self.value(zero, pool), [rng.choice(U) for _ in range(rng.randint(0, n + 1))])
            return ("IF", self.value(zero, pool), s)
        if r < 0.38:
            # insert_simplex alone, in a way that keeps the complex closed and monotone
            cands = []
            for k in range(1, min(n, 4) + 1):
                for c in itertools.combinations(U, k):
                    if all(f in K for f in faces(c) if f != c):
                        cands.append(c)
            if cands:
                c = rng.choice(cands)
                lo = max([K[f] for f in faces(c) if f != c], default=-INF)
                vs = [v for v in (pool or VALUES) if v >= lo] or [lo]
                s = list(c)
                rng.shuffle(s)
                return ("IS", 0 if zero else rng.choice(vs), s)
        if r < 0.45:
            return ("IB", self.value(zero, pool), [rng.choice(U) for _ in range(rng.randint(0, n + 1))])
        if r < 0.68:
            mx = pm.maximal()
            if mx:
                s = list(rng.choice(mx))
                rng.shuffle(s)
                return ("RM", s)
        if r < 0.78:
            vals = sorted(set(K.values()))
            c = [INF, -INF] + vals + [v + 1 for v in vals if abs(v) != INF] + [v - 1 for v in vals if abs(v) != INF]
            return ("PF", rng.choice(c))
        if r < 0.86:
            return ("PD", rng.choice([-5, -1, 0, 0, 1, 1, 2, 3, pm.dim(), pm.dim() - 1, n]))
        if r < 0.89:
            return ("CL",)
        if r < 0.94 and pm.dim() <= 1:
            return ("EX", rng.choice([0, 1, 2, 2, 3, 3, 4, 6]))
        s = rng.sample(U, rng.choice([1, 2, 2, 3, min(n, 4)]) if n >= 4 else rng.randint(1, n))
        return ("IF", self.value(zero, pool), s)

    def history(self, contig, zero, stream):
        rng = self.rng
        n = rng.choice([1, 2, 3, 3, 4, 4, 4, 5, 5, 6, 7])
        U = list(range(n)) if contig else sorted(rng.sample(POOL, n))
        nops = rng.choice([1, 2, 3, 4, 6, 8, 10, 12, 16, 20, 25, 30, 40])
        pool = None
        pre = []
        if stream == "equal":
            pool = [2]
        elif stream == "infinity":
            pool = [INF, -INF, 0, INF]
        elif stream == "empty":
            pre = [rng.choice([("PF", 0), ("PD", 0), ("PD", -1), ("EX", 3), ("CL",), ("IB", 1, []), ("PF", INF), ("IG", [], [])])
                   for _ in range(rng.randint(1, 3))]
            if not contig:
                pre = [p for p in pre if p[0] != "IG"]
        elif stream == "single":
            x = rng.choice(U)
            pre = [rng.choice([("IB", self.value(zero), [x]), ("IF", self.value(zero), [x]), ("IS", self.value(zero), [x])])]
            if not contig or x == 0:
                pre.append(("RM", [x]))
        elif stream == "topdim":
            pre = [("IF", self.value(zero), list(U))]
        pm = PM()
        ops = []
        tries = 0
        emptying = stream == "lastvertex"
        while len(ops) < nops and tries < 400:
            tries += 1
            if pre:
                op = pre.pop(0)
            elif emptying and len(ops) >= nops // 2 and pm.K:
                mx = pm.maximal()
                op = ("RM", list(rng.choice(mx)))
            else:
                op = self.propose(pm, U, contig, zero, stream, pool)
            q = pm.copy()
            q.apply(op)
            if contig and not q.contiguous():
                continue
            if stream != "nonclosed" and not q.closed_monotone():
                continue
            if len(q.K) > 140:
                continue
            pm = q
            flags = ("D" if rng.random() < 0.35 else "") + ("N" if rng.random() < 0.25 else "")
            ops.append(op_line(op, flags))
        return U, ops


STREAMS = [("structured", 70), ("empty", 4), ("single", 4), ("lastvertex", 6), ("topdim", 5), ("equal", 4), ("infinity", 4), ("nonclosed", 8)]


def generate(rng, nhist):
    g = HistGen(rng)
    names = [s for s, w in STREAMS for _ in range(w)]
    out = []
    for _ in range(nhist):
        stream = rng.choice(names)
        contig = stream != "nonclosed" and rng.random() < 0.35
        zero = rng.random() < 0.2
        U, ops = g.history(contig, zero, stream)
        if not ops:
            continue
        opts = list(BASE) + ([3, 7] if contig else []) + ([2] if zero else [])
        out.append(dict(U=U, ops=ops, opts=opts, stream=stream, contig=contig, zero=zero))
    return out


def exhaustive(maxlen):
    """every history of length <= maxlen over a fixed alphabet of operations on the labels 0,1,2"""
    U = [0, 1, 2]
    subsets = [list(c) for k in (1, 2, 3) for c in itertools.combinations(U, k)]
    alpha = []
    for sub in subsets:
        for v in (1, 2):
            alpha.append(("IF", v, sub))
        alpha.append(("RM", sub))
    alpha += [("IS", 2, [0, 1]), ("IS", 1, [2]), ("IB", 2, [0, 1, 2]), ("IB", 1, [1]), ("PF", 1), ("PF", 0), ("PD", 0), ("PD", 1), ("PD", -1),
              ("CL",), ("EX", 2)]
    out = []

    def rec(prefix, pm, contig):
        if prefix:
            ops = [op_line(o) for o in prefix[:-1]] + [op_line(prefix[-1], "DN")]
            out.append(dict(U=U, ops=ops, opts=list(BASE) + ([3, 7] if contig else []), stream="exhaustive", contig=contig, zero=False))
        if len(prefix) == maxlen:
            return
        for o in alpha:
            q = pm.copy()
            q.apply(o)
            # the Python model is exact only on closed, monotone states: only those prefixes go to the contiguous option sets
            rec(prefix + [o], q, contig and q.contiguous() and q.closed_monotone())
    rec([], PM(), True)
    return out


def header(U):
    return "H %d %s 0" % (len(U), " ".join(map(str, U)))


def strip(line):
    i = line.find("|spec=")
    return line if i < 0 else line[:i]


def spec_of(line):
    i = line.find("|spec=")
    return "" if i < 0 else line[i + 6:]


def first_diff_section(a, b):
    sa, sb = a.split("|"), b.split("|")
    for x, y in zip(sa, sb):
        if x != y:
            name = x.split("=")[0] if "=" in x else x[:12]
            if name == "K":
                # star or cofaces?
                ea, eb = set(x[2:].split()), set(y[2:].split())
                d = ea ^ eb
                return "star" if any("/0:" in t for t in d) else "cofaces"
            return name
    return "length" if len(sa) != len(sb) else "?"


RETRIES = [0]


def run_groups(binary, groups, timeout=10, max_hangs=2):
    """like core.run_grouped_parallel (one process per history), but a history that hangs or dies costs at most `timeout`
    seconds, and after `max_hangs` timeouts in a chunk the rest of the chunk is skipped (answers DIED)"""
    n = core.NPROC
    chunks = [list(range(i, len(groups), n)) for i in range(n)]
    out = [None] * len(groups)

    def work(idx):
        hangs = 0
        for i in idx:
            hdr, ops = groups[i]
            if hangs >= max_hangs:
                out[i] = ("DIED skipped", ["DIED skipped after %d timeouts" % hangs] * len(ops))
                continue
            rc, so, se = core.sh_out([binary], input=hdr + "\n" + "\n".join(ops) + "\n", timeout=max(600, 30 * timeout), cpu=timeout)   # CPU seconds, wall time only as a backstop
            lines = so.split("\n")
            if lines and lines[-1] == "":
                lines.pop()
            if rc == 124:
                hangs += 1
            ha = lines[0] if lines else "DIED rc=%d" % rc
            ans = lines[1:1 + len(ops)]
            if len(ans) < len(ops):
                ans += ["DIED rc=%d %s" % (rc, "TIMEOUT" if rc == 124 else se[-200:].replace("\n", " "))] * (len(ops) - len(ans))
            out[i] = (ha, ans)
    core.parallel_map(work, [c for c in chunks if c])
    return out


def run_case(drvs, orc, U, ops, opts):
    """returns (oracle answers, {opt: answers})"""
    grp = [(header(U), ops)]
    exp = run_groups(orc, grp, timeout=120)[0]
    obs = {}
    for k in opts:
        obs[k] = run_groups(drvs[k], grp)[0]
    return exp, obs


def case_fails(drvs, orc, U, ops, opt, section):
    exp, obs = run_case(drvs, orc, U, ops, [opt])
    for e, o in zip(exp[1], obs[opt][1]):
        if strip(e) != o:
            return first_diff_section(strip(e), o) == section
    return False


def shrink(drvs, orc, U, ops, opt, section, budget=60):
    """greedy removal of single operations while the same section still differs under the same option set"""
    ops = list(ops)
    i = len(ops) - 2
    while i >= 0 and budget > 0:
        cand = ops[:i] + ops[i + 1:]
        budget -= 1
        if case_fails(drvs, orc, U, cand, opt, section):
            ops = cand
        i -= 1
    # drop observation flags
    cand = [o.split(" ")[0].split(":")[0] + o[len(o.split(" ")[0]):] for o in ops]
    if budget > 0 and case_fails(drvs, orc, U, cand, opt, section):
        ops = cand
    return ops


def compare(ctx, hists, res, drvs, orc, do_shrink=True, seen_kinds=None):
    groups = [(header(h["U"]), h["ops"]) for h in hists]
    exp = run_groups(orc, groups, timeout=120)
    obs = {}
    for k in sorted(OPTSETS):
        idx = [i for i, h in enumerate(hists) if k in h["opts"]]
        if not idx:
            continue
        r = run_groups(drvs[k], [groups[i] for i in idx])
        for i, x in zip(idx, r):
            obs[(i, k)] = x
    seen_kinds = seen_kinds if seen_kinds is not None else {}
    for i, h in enumerate(hists):
        he, ae = exp[i]
        res.count("stream:" + h["stream"])
        res.count("universe-size:%d" % len(h["U"]))
        res.count("history-length:%s" % ("1-3" if len(h["ops"]) <= 3 else "4-10" if len(h["ops"]) <= 10 else "11-40"))
        for j, (line, e) in enumerate(zip(h["ops"], ae)):
            res.count("op:" + line.split()[0].split(":")[0])
            sp = spec_of(e)
            res.count("spec-verdict:" + sp.split(":")[0])
            if e.startswith("ORACLE-ERROR") or sp.startswith("DIFF"):
                kind = "model:" + (sp if sp.startswith("DIFF") else "oracle-error")
                if kind not in seen_kinds or len(res.violations) < 20:
                    res.violation(kind, "algorithm model and specification disagree on a history inside the documented preconditions: "
                                  "%s | %s -> %s" % (header(h["U"]), "; ".join(h["ops"][:j + 1]), sp or e[:200]),
                                  {"U": h["U"], "ops": h["ops"][:j + 1], "opts": []}, expected=sp, observed=None)
                    seen_kinds[kind] = 1
                break
            if "|e=1|" in e:
                res.count("state:empty")
            if "|n=1|" in e:
                res.count("state:single-simplex")
            if e.startswith("r=0n"):
                res.count("case:insert-existing-not-lowered")
            if e.startswith("r=0h"):
                res.count("case:insert-existing-lowered")
            if e.startswith("r=PRE"):
                res.count("case:precondition-refused")
        for k in h["opts"]:
            ho, ao = obs[(i, k)]
            res.count("optset:" + OPTSETS[k], len(h["ops"]))
            res.evaluations += len(h["ops"])
            res.traces_validated += len(h["ops"])
            if any(o.startswith("DIED skipped") for o in ao):
                res.count("skipped-after-hangs")     # the hang itself is reported from the history that hung
                continue
            if any(o.startswith(("CRASH", "DIED")) for o in ao) and RETRIES[0] < 6:
                # a crash may be the machine (memory pressure from parallel jobs): repeat this history alone once
                RETRIES[0] += 1
                res.count("crash-repeated")
                ho, ao = run_groups(drvs[k], [groups[i]])[0]
            for j, (e, o) in enumerate(zip(ae, ao)):
                es = strip(e)
                if es != o:
                    sec = first_diff_section(es, o) if not o.startswith(("CRASH", "DIED")) else o.split()[0]
                    kind = "%s:%s" % (OPTSETS[k], sec)
                    ops = h["ops"][:j + 1]
                    if kind not in seen_kinds and k in (3, 7):
                        seen_kinds[kind] = 1
                    # histories for the contiguous option sets are not shrunk: dropping an operation may leave a hole in the vertex set
                    if kind not in seen_kinds and sec in ("CRASH", "DIED"):
                        seen_kinds[kind] = 1      # crashes and hangs are not shrunk (each attempt may cost a timeout)
                    if kind not in seen_kinds and do_shrink and k not in (3, 7) and not os.environ.get("C01_NOSHRINK"):
                        seen_kinds[kind] = 1
                        try:
                            ops = shrink(drvs, orc, h["U"], ops, k, sec)
                            ee, oo = run_case(drvs, orc, h["U"], ops, [k])
                            es, o = strip(ee[1][-1]), oo[k][1][-1]
                            for a, b in zip(ee[1], oo[k][1]):
                                if strip(a) != b:
                                    es, o = strip(a), b
                                    break
                        except Exception as ex:  # shrinking is best effort
                            ctx.log("shrink failed: %r" % ex)
                    da = [(x, y) for x, y in zip(es.split("|"), o.split("|")) if x != y][:3]
                    res.violation(kind, "option set %s, section %s differs from the model after: %s | %s ; model/spec: %s ; implementation: %s"
                                  % (OPTSETS[k], sec, header(h["U"]), "; ".join(ops), " ".join(x for x, _ in da)[:400], " ".join(y for _, y in da)[:400]),
                                  {"U": h["U"], "ops": ops, "opts": [k]}, expected=es[:3000], observed=o[:3000])
                    break


def check(ctx, replay=None):
    res = core.Result()
    if not getattr(ctx, "skip_proof", False):
        ctx.prove(["Extract_C01.vo"])
    drvs = ctx.build_many([("c01_drv.cpp", "o%d" % k, ["-DOPTSET=%d" % k] + core.release_flags("c01o%d" % k)) for k in sorted(OPTSETS)])
    drvs = {k: drvs["o%d" % k] for k in sorted(OPTSETS)}
    orc = ctx.build_oracle("c01")
    if replay:
        c = replay["case"]
        hists = [dict(U=c["U"], ops=c["ops"], opts=c["opts"] or BASE, stream="replay", contig=False, zero=False)]
        compare(ctx, hists, res, drvs, orc, do_shrink=False)
    else:
        hists = []
        cdir = os.path.join(core.ROOT, "corpus", "C01")
        if os.path.isdir(cdir):
            for f in sorted(os.listdir(cdir)):
                if f.endswith(".json"):
                    c = json.load(open(os.path.join(cdir, f)))
                    hists.append(dict(U=c["U"], ops=c["ops"], opts=c.get("opts") or BASE, stream="corpus", contig=False, zero=False))
        nh = 2000 if ctx.tier == "quick" else 20000
        hists += exhaustive(2 if ctx.tier == "quick" else 3)
        res.notes.append("exhaustive sub-domain this run: every history of length <= %d over a 32-operation alphabet on the labels 0,1,2 "
                         "(insert with subfaces of each of the 7 simplices at 2 values, removal of each, 2 lone insertions, 2 batches, prunings, clear, "
                         "expansion), dimension() and num_simplices_by_dimension() called after the last operation" % (2 if ctx.tier == "quick" else 3))
        seen = {}
        samples = []
        done = 0
        while done < nh or hists:
            # batches keep the memory of the Python side bounded (each dump line is several kB)
            if hists:
                batch, hists = hists[:2000], hists[2000:]
            else:
                batch = generate(ctx.rng, min(1000, nh - done))
                done += 1000
            compare(ctx, batch, res, drvs, orc, seen_kinds=seen)
            for h in batch:
                res.distinct.add((tuple(h["U"]), tuple(h["ops"])))
            samples += batch[:40:5]
        hists = samples
    if replay:
        res.distinct = set((tuple(h["U"]), tuple(h["ops"])) for h in hists)
    res.rule = ("one case = (label universe, operation history with observation flags); after every operation of every case the whole "
                "dump (membership+value+dimension of all subsets of the universe, vertex/complex/skeleton ranges, boundaries with opposite "
                "vertices, star and cofaces of every simplex x codimension, counts, upper bound, operator== against a rebuilt and an empty "
                "tree, optionally dimension() and num_simplices_by_dimension()) is compared for every applicable option set; "
                "evaluations = operations x option sets; distinct = distinct (universe, history) pairs, each with at least one operation")
    res.exhaustive = False
    res.samples = [dict(U=h["U"], ops=h["ops"][:6], opts=h["opts"]) for h in hists[:8]]
    return core.finish(ctx, None, res, TRUSTED, ASSUMPTIONS, LEVEL,
                       "cd /verif/coq && make -f Makefile.coq Properties_C01.vo  (coqc 8.16.1; Print Assumptions after every theorem)",
                       correspondence_name=CORRESPONDENCE)
