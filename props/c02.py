"""C02 - persistent cohomology returns the true persistence pairs for every field."""
import itertools, json, os, zlib
from vlib import core

LEVEL = "proof"
MANIFEST = dict(
    cat="proof",
    tech="Coq: proved-canonical boundary-matrix oracle + proved invariants of a Gallina model of the annotation-matrix algorithm; "
         "the cohomology/homology duality clause is MEASURED per generated input (model and C++ against the oracle), not proved",
    text="Proved in Coq for every finite filtered complex and every prime p: (i) the reference diagram is well defined - any two reduced "
         "matrices obtained from the boundary matrix by left-to-right column operations have the same pivots (lows_unique) and the executable "
         "reduction is certified by a verified checker on every input it is used on; (ii) the algorithm model of Persistent_cohomology.h "
         "(uncompressed annotation matrix, elder rule with ties for H0, signed boundary annotation, highest-key pivot, column update, "
         "Field_Zp arithmetic as verified under C10, both orders of endpoints()) pairs every simplex at most once (exactly once below "
         "dim_max when the minimal length discards nothing), birth before death, "
         "dim(death)=dim(birth)+1, satisfies Euler's formula, keeps every coordinate of the annotation matrix a cocycle of the current complex, the "
         "live cocycles linearly independent (triangular against their creators) and every annotation "
         "supported on live classes of its own dimension with the killed pivot gone from every column (for Multi_field, and any coefficient "
         "structure, the order and dimension clause is proved as well); (iii) betti_numbers / "
         "persistent_betti_numbers / intervals_in_dimension are the stated functions of the multiset of pairs. "
         "NOT proved: that the pairs of the algorithm equal the oracle's (duality of de Silva-Morozov-Vejdemo-Johansson) and its multi-field "
         "version (C02_pcoh_full, C02_multifield_full are Definitions): this clause is checked on every generated input, for the extracted "
         "model and for the C++, against the proved oracle fed with the implementation's own filtration order: random complexes on <= 9 "
         "vertices with heavy ties, torsion complexes (RP2, its suspension, Klein bottle, discs glued along a^k) where the fields disagree, "
         "primes 2..46337, multi-field ranges [2,3] [2,5] [3,7] [2,13] [5,5], all min_interval_length / persistence_dim_max combinations, "
         "Simplex_tree under three option sets, Hasse_complex, Bitmap_cubical_complex with and without periodic boundary conditions, and "
         "the exhaustive family of filtered complexes on <= 4 vertices with <= 3 values (all orbits in the thorough tier, a sample in the "
         "quick tier).  The C++ pair list is also compared pair by pair (birth key, death key, characteristic) with the model, and every "
         "read-out and the printed diagram with its definition on the pair list.",
    note="Trusted: Coq kernel, extraction + OCaml driver, hand-written models (tied to the C++ only by the differential run), g++, "
         "the classical theorem that the pivot pairing is the interval decomposition, and - for the decisive clause - the sampled inputs. "
         "Union-find bookkeeping (boost::disjoint_sets + zero_cocycles_) is abstracted to 'vertex -> creator of its component'; column "
         "compression (sharing of equal columns) is not modelled; the invariants are proved for Field_Zp, the Multi_field loop is modelled "
         "and compared only.  One crash of the engine under Multi_field was found and repaired (null coefficients stored by plus_equal_column).",
    ref="design/C02.md")
CORRESPONDENCE = ("coq/C02_Model.v (extracted: ocaml/c02_oracle.ml) vs harness/c02_drv.cpp: pair list compared pair by pair with the algorithm "
                  "model, diagram compared with the proved boundary-matrix oracle, every read-out compared with its definition on the pair list")
TRUSTED = [
    "Coq 8.16.1 kernel (coqc, full .vo build)",
    "extraction (ExtrOcamlBasic only) + OCaml 4.13.1 + ocaml/prelude.ml, ocaml/c02_oracle.ml (parsing, sorting of multisets, printing)",
    "hand-written algorithm model coq/C02_Model.v of Persistent_cohomology.h (dense uncompressed annotation vectors; union-find + "
    "zero_cocycles_ abstracted to the map vertex -> creator of its component); tied to the C++ by the differential run, not by translation",
    "coefficient arithmetic models of C10 (coq/C10_Model.v: fz_*, mf_*, zp_inverse_entry), verified under property C10",
    "mathematics not formalised: pivot pairing of the reduced boundary matrix = interval decomposition (ELZ / Zomorodian-Carlsson); "
    "persistent cohomology pairs = persistent homology pairs (de Silva, Morozov, Vejdemo-Johansson) - the latter is measured per input",
    "for cubical complexes the boundary matrix is built from the implementation's own boundary_simplex_range with alternating signs "
    "(the engine's convention); the oracle checks that it squares to zero over Z, not that it is the geometric boundary (property C13)",
    "harness/c02_drv.cpp, g++ 12.2, Boost (intrusive containers, disjoint_sets), GMP",
]
ASSUMPTIONS = [
    "the filtration is valid (faces not later than cofaces) - the engine documents undefined behaviour otherwise",
    "filtration values are small integers, exactly representable as double and float and printed exactly",
    "characteristics are primes <= 46337 (rejection of other values is property C10); multi-field ranges contain at least one prime",
    "Simplex_tree::dimension() is exact (trees are built by insertions only)",
    "the reference order is the implementation's own filtration_simplex_range() (its validity is properties C03 / C13)",
    "periodic cubical complexes have at least 3 top-dimensional cells in every periodic direction",
]

PRIMES_FIXED = [2, 3, 5, 7, 11]
BIGP = 46337
MF_RANGES = [(2, 3), (2, 5), (3, 7), (2, 13), (5, 5)]


def is_prime(n):
    if n < 2:
        return False
    i = 2
    while i * i <= n:
        if n % i == 0:
            return False
        i += 1
    return True


SMALL_PRIMES = [p for p in range(2, 2000) if is_prime(p)]
MID_PRIMES = [10007, 20011, 30011]


# ------------------------------------------------------------------------------------------------ complexes
def closure(tops):
    s = set()
    for t in tops:
        t = tuple(sorted(set(t)))
        for k in range(1, len(t) + 1):
            for f in itertools.combinations(t, k):
                s.add(f)
    return s


def assign_values(rng, simplices, style):
    """monotone integer values with many ties; returns list of (simplex, value) faces first"""
    order = sorted(simplices, key=lambda s: (len(s), s))
    val = {}
    if style == "zero":
        for s in order:
            val[s] = 0
    elif style == "dim":
        for s in order:
            val[s] = len(s) - 1
    elif style == "rank":           # few distinct levels, assigned downward-closed
        levels = rng.choice([2, 3, 3, 4, 6])
        for s in order:
            lo = max([val[f] for f in itertools.combinations(s, len(s) - 1)] or [0]) if len(s) > 1 else 0
            val[s] = rng.randint(lo, max(lo, levels - 1))
    elif style == "rips":           # value of a simplex = max of its edges, vertices at 0
        w = {}
        for s in order:
            if len(s) == 1:
                val[s] = 0
            elif len(s) == 2:
                val[s] = rng.randint(0, 4)
            else:
                val[s] = max(val[f] for f in itertools.combinations(s, len(s) - 1))
    else:                           # "incr": max of faces plus a small increment, heavy ties
        for s in order:
            lo = max([val[f] for f in itertools.combinations(s, len(s) - 1)] or [rng.randint(0, 2)]) if len(s) > 1 else rng.randint(0, 3)
            val[s] = lo + rng.choice([0, 0, 0, 1, 1, 2])
    return [(list(s), val[s]) for s in order]


def gen_random_complex(rng, contiguous):
    nv = rng.choice([2, 3, 4, 5, 5, 6, 6, 7, 7, 8, 9])
    labels = list(range(nv)) if contiguous else sorted(rng.sample(range(0, 30), nv))
    tops = []
    maxd = rng.choice([1, 2, 2, 3, 3, 4])
    ntop = rng.randint(1, {2: 2, 3: 4, 4: 6, 5: 8, 6: 10, 7: 11, 8: 12, 9: 12}[nv])
    for _ in range(ntop):
        k = rng.randint(1, min(nv, maxd + 1))
        tops.append(rng.sample(labels, k))
    if rng.random() < 0.5:          # make sure all vertices exist, often a connected skeleton
        for a, b in zip(labels, labels[1:]):
            if rng.random() < 0.7:
                tops.append([a, b])
    S = closure(tops)
    while len(S) > 90:
        tops.pop()
        S = closure(tops)
    style = rng.choice(["incr", "incr", "rank", "rank", "rips", "dim", "zero"])
    return assign_values(rng, S, style)


RP2 = [(1, 2, 4), (1, 2, 6), (1, 3, 4), (1, 3, 5), (1, 5, 6), (2, 3, 5), (2, 3, 6), (2, 4, 5), (3, 4, 6), (4, 5, 6)]


def disc_along_power(k):
    """2-complex with H1 = Z/k: a circle v0 v1 v2 and a disc glued along the word a^k (boundary 3k-gon, inner ring, centre)"""
    n = 3 * k
    ring = [3 + i for i in range(n)]
    c = 3 + n
    tris = []
    for i in range(n):
        a, b = i % 3, (i + 1) % 3
        tris.append((a, b, ring[i]))
        tris.append((b, ring[i], ring[(i + 1) % n]))
        tris.append((ring[i], ring[(i + 1) % n], c))
    return tris


def klein(a=4, b=3):
    def vid(i, j):
        if j == b:
            return ((-i) % a) * b + 0
        return (i % a) * b + j
    tris = []
    for i in range(a):
        for j in range(b):
            p, q, r, s = vid(i, j), vid(i + 1, j), vid(i, j + 1), vid(i + 1, j + 1)
            if j + 1 == b:
                r, s = vid(i, b), vid(i + 1, b)
            tris.append((p, q, r))
            tris.append((q, s, r))
    return tris


def suspension(tris, x, y):
    tops = []
    for t in tris:
        tops.append(tuple(t) + (x,))
        tops.append(tuple(t) + (y,))
    return tops


def gen_torsion_complex(rng, contiguous, which=None):
    which = which or rng.choice(["rp2", "rp2", "klein", "disc2", "disc3", "disc3", "disc4", "disc5", "susp-rp2", "rp2+disc3"])
    if which == "rp2":
        tops = list(RP2)
    elif which == "klein":
        tops = klein()
    elif which.startswith("disc"):
        tops = disc_along_power(int(which[4:]))
    elif which == "susp-rp2":
        tops = suspension(RP2, 7, 8)
    else:
        tops = list(RP2) + [tuple(v + 10 for v in t) for t in disc_along_power(3)] + [(1, 10)]
    if rng.random() < 0.4:          # some extra random simplices around
        vs = sorted({v for t in tops for v in t})
        for _ in range(rng.randint(1, 3)):
            tops.append(tuple(rng.sample(vs, rng.randint(2, 3))))
    S = closure(tops)
    vs = sorted({v for s in S for v in s})
    ren = {v: i for i, v in enumerate(vs)} if contiguous else {v: 2 * i + 1 for i, v in enumerate(vs)}
    S = {tuple(sorted(ren[v] for v in s)) for s in S}
    style = rng.choice(["incr", "rank", "rank", "dim", "zero", "order"])
    if style == "order":
        order = sorted(S, key=lambda s: (len(s), s))
        # every simplex its own value within a dimension block: a generic filtration
        tri = [s for s in order if len(s) >= 3]
        rng.shuffle(tri)
        val = {}
        for s in order:
            if len(s) == 1:
                val[s] = 0
            elif len(s) == 2:
                val[s] = rng.randint(0, 3)
        out = [(list(s), val[s]) for s in order if len(s) <= 2]
        for s in sorted(tri, key=len):
            val[s] = max(max(val[f] for f in itertools.combinations(s, len(s) - 1)), rng.randint(3, 12))
            out.append((list(s), val[s]))
        return out, which
    return assign_values(rng, S, style), which


def gen_cubical(rng, periodic):
    d = rng.choice([1, 2, 2, 2, 3, 3])
    if periodic:
        per = [rng.random() < 0.7 for _ in range(d)]
        if not any(per):
            per[rng.randrange(d)] = True
        shape = [rng.choice([3, 3, 4]) if b else rng.choice([1, 2, 3]) for b in per]
        while True:                 # keep the number of cells around 100 at most
            n = 1
            for x, b in zip(shape, per):
                n *= 2 * x if b else 2 * x + 1
            if n <= 110 or len(shape) <= 1:
                break
            shrinkable = [i for i in range(len(shape)) if (not per[i] and shape[i] > 1) or (per[i] and shape[i] > 3)]
            if shrinkable:
                shape[max(shrinkable, key=lambda i: shape[i])] -= 1
            else:
                k = [i for i in range(len(shape)) if not per[i]] or [len(shape) - 1]
                shape.pop(k[0])
                per.pop(k[0])
    else:
        shape = {1: lambda: [rng.randint(1, 7)], 2: lambda: [rng.randint(1, 4), rng.randint(1, 4)],
                 3: lambda: rng.choice([[1, 1, 1], [2, 1, 1], [2, 2, 1], [1, 2, 2], [3, 2, 1], [2, 2, 2], [3, 1, 1]])}[d]()
        per = [False] * d
    n = 1
    for x in shape:
        n *= x
    style = rng.choice(["few", "few", "many", "const"])
    hi = {"few": 2, "many": 9, "const": 0}[style]
    values = [rng.randint(0, hi) for _ in range(n)]
    return dict(opt="Q" if periodic else "C", shape=shape, periodic=per, values=values)


def exhaustive_filtered(nv, nvals):
    """all monotone maps from the non-empty subsets of {0..nv-1} to {0..nvals-1, absent}"""
    subs = [s for k in range(1, nv + 1) for s in itertools.combinations(range(nv), k)]
    faces = {s: [f for f in itertools.combinations(s, len(s) - 1)] if len(s) > 1 else [] for s in subs}
    INF = nvals
    out = []
    cur = {}

    def rec(i):
        if i == len(subs):
            c = [(list(s), cur[s]) for s in subs if cur[s] < INF]
            if c:
                out.append(c)
            return
        s = subs[i]
        lo = max([cur[f] for f in faces[s]] or [0])
        for v in range(lo, INF + 1):
            cur[s] = v
            rec(i + 1)
    rec(0)
    return out


def orbit_representatives(nv, nvals, filtered):
    """one representative per orbit of the vertex permutations among the filtered complexes of exhaustive_filtered"""
    subs = [s for k in range(1, nv + 1) for s in itertools.combinations(range(nv), k)]
    idx = {s: i for i, s in enumerate(subs)}
    perms = []
    for pm in itertools.permutations(range(nv)):
        perms.append([idx[tuple(sorted(pm[v] for v in s))] for s in subs])
    seen = set()
    reps = []
    for c in filtered:
        vec = [nvals] * len(subs)
        for sx, v in c:
            vec[idx[tuple(sx)]] = v
        key = min(tuple(vec[j] for j in pm) for pm in perms)
        if key not in seen:
            seen.add(key)
            reps.append(c)
    return reps


def gen_configs(rng, vals, tier, origin):
    diffs = sorted({b - a for a in vals for b in vals if b > a})
    def pick_m():
        r = rng.random()
        if r < 0.45 or not diffs:
            return 0
        if r < 0.85:
            return rng.choice(diffs)
        return 1000
    cfgs = []
    nz = 2 if origin == "exhaustive" else 3
    for _ in range(nz):
        r = rng.random()
        if r < 0.6:
            p = rng.choice(PRIMES_FIXED)
        elif r < 0.97:
            p = rng.choice(SMALL_PRIMES)
        else:
            p = rng.choice(MID_PRIMES)
        if origin == "exhaustive":
            p = rng.choice([2, 3, 5, 7, 11, 13])
        cfgs.append("Z %d %d %d" % (p, rng.randint(0, 1), pick_m()))
    nm = 1 if origin == "exhaustive" else 2
    for _ in range(nm):
        lo, hi = rng.choice(MF_RANGES)
        cfgs.append("M %d %d %d %d" % (lo, hi, rng.randint(0, 1), pick_m()))
    return cfgs


def load_corpus():
    cases = []
    cdir = os.path.join(core.ROOT, "corpus", "C02")
    if os.path.isdir(cdir):
        for f in sorted(os.listdir(cdir)):
            if f.endswith(".json"):
                c = json.load(open(os.path.join(cdir, f)))
                d = {k: c[k] for k in ("opt", "simplices", "shape", "periodic", "values", "configs") if k in c}
                d["origin"] = "corpus"
                cases.append(d)
    return cases


_EXH = {}


def generate(rng, tier):
    thorough = tier == "thorough"
    cases = load_corpus()
    # exhaustive small stream
    for nv in (1, 2, 3):
        for c in exhaustive_filtered(nv, 3):
            cases.append(dict(opt="D", simplices=c, origin="exhaustive"))
    ex4 = _EXH.get(4) or exhaustive_filtered(4, 3)
    _EXH[4] = ex4
    if thorough:
        reps = _EXH.get("reps4") or orbit_representatives(4, 3, ex4)
        _EXH["reps4"] = reps
        pick = reps + rng.sample(ex4, 8000)
    else:
        pick = rng.sample(ex4, 400)
    for i, c in enumerate(pick):
        cases.append(dict(opt="DFPH"[i % 4], simplices=c, origin="exhaustive"))
    # torsion stream
    ntor = 400 if thorough else 120
    first = ["rp2", "klein", "disc2", "disc3", "disc4", "disc5", "susp-rp2", "rp2+disc3"] + (["disc6", "disc7"] if thorough else [])
    for i in range(ntor):
        opt = "DHFP"[i % 4]
        c, which = gen_torsion_complex(rng, opt == "P", first[i] if i < len(first) else None)
        cases.append(dict(opt=opt, simplices=c, origin="torsion:" + which))
    # random complexes
    nrand = 4000 if thorough else 500
    for i in range(nrand):
        opt = "DFPH"[i % 4]
        cases.append(dict(opt=opt, simplices=gen_random_complex(rng, opt == "P"), origin="random"))
    # cubical complexes (plain and with periodic boundary conditions)
    ncub = 1500 if thorough else 150
    for i in range(ncub):
        c = gen_cubical(rng, i % 3 == 2)
        c["origin"] = "cubical" if c["opt"] == "C" else "cubical-periodic"
        cases.append(c)
    for c in cases:
        if not is_cubical(c):
            normalize(c)
        if "configs" not in c:
            c["configs"] = gen_configs(rng, case_values(c), tier, c["origin"].split(":")[0])
    # the largest characteristic the engine accepts (its O(p^2) table costs seconds): a few runs only
    big = [c for c in cases if c["origin"].startswith("torsion")][: (6 if thorough else 2)] + \
          [c for c in cases if c["origin"] == "random" and len(c["simplices"]) > 12][: (6 if thorough else 1)] + \
          [c for c in cases if c["origin"].startswith("cubical")][: (2 if thorough else 1)]
    for c in big:
        c["configs"] = c["configs"] + ["Z %d %d 0" % (BIGP, rng.randint(0, 1))]
    return cases


# ------------------------------------------------------------------------------------------------ running and comparing
def normalize(c):
    """the fast_persistence option set requires the vertices to be 0..n-1"""
    if c["opt"] == "P":
        vs = sorted({v for s, _ in c["simplices"] for v in s})
        if vs != list(range(len(vs))):
            ren = {v: i for i, v in enumerate(vs)}
            c["simplices"] = [(sorted(ren[v] for v in s), f) for s, f in c["simplices"]]
    return c


def is_cubical(c):
    return c["opt"] in ("C", "Q")


def kline(c):
    if is_cubical(c):
        w = ["K", c["opt"], str(len(c["shape"]))] + [str(x) for x in c["shape"]]
        if c["opt"] == "Q":
            w += [str(int(b)) for b in c["periodic"]]
        return " ".join(w + [str(v) for v in c["values"]])
    return "K %s %s" % (c["opt"], " ".join("%s:%d" % (",".join(map(str, s)), v) for s, v in c["simplices"]))


def case_size(c):
    if is_cubical(c):
        n = 1
        for k, x in enumerate(c["shape"]):
            n *= (2 * x) if (c["opt"] == "Q" and c["periodic"][k]) else (2 * x + 1)
        return n
    return len(c["simplices"])


def case_values(c):
    return sorted(set(c["values"])) if is_cubical(c) else sorted({v for _, v in c["simplices"]})


def case_data(c):
    """what a replay file stores"""
    d = {k: c[k] for k in ("opt", "simplices", "shape", "periodic", "values", "configs") if k in c}
    return d


def fields(line):
    d = {}
    for w in line.split():
        if "=" in w:
            k, v = w.split("=", 1)
            d[k] = v
    return d


def run_both(drv, orc, cases, nchunks=4):
    groups = [(kline(c), list(c["configs"])) for c in cases]
    obs = core.run_grouped_parallel(drv, groups, nchunks=nchunks, timeout=3600, max_restarts=8)   # hangs end through the CPU-time watchdog of harness/common.h
    ogroups = []
    for c, (h, ops), (ha, answers) in zip(cases, groups, obs):
        H = fields(ha or "")
        ol = []
        for op, a in zip(ops, answers):
            ol.append("%s # %s" % (op, fields(a).get("pairs", "-")))
        if is_cubical(c):
            ogroups.append(("KC " + H.get("cells", "-"), ol))
        else:
            ogroups.append((("KH " if c["opt"] == "H" else "K ") + H.get("order", "-"), ol))
    exp = core.run_grouped_parallel(orc, ogroups, nchunks=nchunks, timeout=3600)
    return [(o, e) for o, e in zip(obs, exp)]


def canon_pairs(s):
    """finite pairs in emission order, then the infinite ones sorted (the engine lists them in unordered_map order)"""
    if s in ("-", "", None):
        return []
    ps = [tuple(int(x) for x in it.split(":")) for it in s.split(",")]
    return [p for p in ps if p[1] >= 0] + sorted(p for p in ps if p[1] < 0)


def diag_lines(s):
    if s in ("-", "", None):
        return []
    return sorted(x for x in s.split("|") if x)


READOUTS = [("iv", "intervals_in_dimension"), ("betti", "betti_numbers"), ("bn", "betti_number"), ("pbn", "persistent_betti_numbers")]


def compare_run(cfg, a, b):
    """a = C++ answer line, b = oracle answer line; returns None or (kind, what, expected, observed)"""
    fam = "multi-field" if cfg.startswith("M") else "Zp"
    if a.startswith("CRASH") or a.startswith("DIED"):
        return ("crash:" + fam, "the engine crashed (%s) on %s" % (a.split()[0], cfg), "no crash", a[:80])
    if a.startswith("EXC"):
        return ("exception:" + fam, "the engine threw on %s: %s" % (cfg, a[:80]), "no exception", a[:80])
    A, B = fields(a), fields(b)
    if "mp" not in B or "pairs" not in A:
        return ("protocol", "unparsable answers for %s: %r / %r" % (cfg, a[:100], b[:100]), b[:100], a[:100])
    if B.get("cert") != "1":
        return ("oracle-certificate", "the reference reduction failed its certificate for " + cfg, "1", B.get("cert"))
    # the property: diagram over every prime of the run = boundary-matrix reduction
    if A_view(B, "cv") != A_view(B, "sv"):
        return ("spec:diagram:" + fam, "the (dim,birth,death) multiset of the engine differs from the boundary-matrix reduction for " + cfg,
                B.get("sv"), B.get("cv"))
    if B.get("cg") != B.get("sg"):
        return ("spec:products:" + fam, "the products of characteristics attached to the intervals differ from the per-prime diagrams for " + cfg,
                B.get("sg"), B.get("cg"))
    for f, name in READOUTS:
        if A.get(f) != B.get(f):
            return ("spec:readout:" + name, "%s is not the stated function of the pair list for %s" % (name, cfg), B.get(f), A.get(f))
    if A.get("pbn1") != "1":
        return ("spec:readout:persistent_betti_number", "persistent_betti_number(d,from,to) differs from persistent_betti_numbers(from,to)[d] for " + cfg, "1", A.get("pbn1"))
    if diag_lines(A.get("diag")) != diag_lines(B.get("diag")):
        return ("spec:readout:output_diagram", "the printed diagram is not the pair list for " + cfg, B.get("diag"), A.get("diag"))
    # the model against the oracle (the duality clause, measured)
    if B.get("mv") != B.get("sv") or B.get("mg") != B.get("sg"):
        return ("duality:model-vs-oracle", "the algorithm model's diagram differs from the boundary-matrix reduction for " + cfg, B.get("sg"), B.get("mg"))
    # the C++ against the algorithm model, pair by pair
    if canon_pairs(A.get("pairs")) != canon_pairs(B.get("mp")):
        return ("model:pair-list:" + fam, "get_persistent_pairs no longer matches the algorithm model pair by pair for %s (the diagram is still right)" % cfg,
                B.get("mp"), A.get("pairs"))
    return None


def A_view(B, k):
    return B.get(k)


def check_case(c, obs, exp):
    """returns list of (cfg index, kind, what, expected, observed)"""
    (ha, answers), (hb, oanswers) = obs, exp
    out = []
    if ha is None or ha.startswith("CRASH") or ha.startswith("DIED") or ha.startswith("EXC"):
        return [(-1, "crash:build", "building the complex failed: %s" % (ha or "")[:80], "ok", (ha or "")[:80])]
    H = fields(ha)
    if not (hb or "").startswith("ok"):
        return [(-1, "order:not-a-complex", "filtration_simplex_range / boundary_simplex_range do not describe a chain complex with facets before "
                 "cofaces (%s)" % hb, "ok", hb)]
    Hb = fields(hb)
    if H.get("n") != Hb.get("n") or H.get("n") != str(case_size(c)) or H.get("dim") != Hb.get("dim"):
        return [(-1, "order:size", "num_simplices()/dimension() differ from the inserted complex", "n=%s dim=%s" % (Hb.get("n"), Hb.get("dim")),
                 "n=%s dim=%s" % (H.get("n"), H.get("dim")))]
    for i, (cfg, a, b) in enumerate(zip(c["configs"], answers, oanswers)):
        v = compare_run(cfg, a, b)
        if v:
            out.append((i,) + v)
    return out


def maximal_simplices(simplices):
    sets = [frozenset(s) for s, _ in simplices]
    return [i for i, s in enumerate(sets) if not any(s < t for t in sets)]


def shrink(drv, orc, c, kind, cfg, budget=50):
    if is_cubical(c):
        return dict(c, configs=[cfg])
    cur = dict(opt=c["opt"], simplices=list(c["simplices"]), configs=[cfg], origin=c["origin"])
    changed = True
    while changed and budget > 0:
        changed = False
        for i in reversed(maximal_simplices(cur["simplices"])):
            if len(cur["simplices"]) <= 1:
                break
            cand = normalize(dict(cur, simplices=cur["simplices"][:i] + cur["simplices"][i + 1:]))
            budget -= 1
            (o, e), = run_both(drv, orc, [cand], nchunks=1)
            vs = check_case(cand, o, e)
            if any(v[1] == kind for v in vs):
                cur = cand
                changed = True
                break
            if budget <= 0:
                break
    return cur


def check(ctx, replay=None):
    res = core.Result()
    if not getattr(ctx, "skip_proof", False):
        ctx.prove(["Extract_C02.vo"])
    drv = ctx.build_harness("c02_drv.cpp", flags=[])
    orc = ctx.build_oracle("c02")
    if replay:
        rc = replay["case"]
        cases = [dict({k: rc[k] for k in ("opt", "simplices", "shape", "periodic", "values", "configs") if k in rc}, origin="replay")]
    else:
        cases = generate(ctx.rng, ctx.tier)
    ctx.log("%d complexes, %d runs" % (len(cases), sum(len(c["configs"]) for c in cases)))
    out = run_both(drv, orc, cases)
    seen = {}
    for c, (o, e) in zip(cases, out):
        n = case_size(c)
        res.count("origin:" + c["origin"])
        res.count("complex:" + {"D": "Simplex_tree default", "F": "Simplex_tree full_featured", "P": "Simplex_tree fast_persistence",
                                "H": "Hasse_complex", "C": "Bitmap_cubical_complex", "Q": "Bitmap_cubical_complex periodic"}.get(c["opt"], c["opt"]))
        res.count("cells:" + ("<=7" if n <= 7 else "8-15" if n <= 15 else "16-40" if n <= 40 else "41-90" if n <= 90 else ">90"))
        res.count("dimension:%d" % (len(c["shape"]) if is_cubical(c) else max([len(s) for s, _ in c["simplices"]] or [0]) - 1))
        nvals = len(case_values(c))
        res.count("ties:" + ("all values equal" if nvals == 1 and n > 1 else "some" if nvals < n else "none"))
        vs = check_case(c, o, e)
        bad = {v[0] for v in vs}
        for i, cfg in enumerate(c["configs"]):
            w = cfg.split()
            res.count("field:" + ("multi-field [%s,%s]" % (w[1], w[2]) if w[0] == "M" else "Z_p p=%s" % (w[1] if int(w[1]) <= 13 or int(w[1]) == BIGP else "other prime")))
            res.count("persistence_dim_max:" + w[-2])
            res.count("min_interval_length:" + ("0" if w[-1] == "0" else "large" if w[-1] == "1000" else "a difference of two values"))
            if i not in bad and -1 not in bad:
                res.evaluations += 1
                res.traces_validated += 1
                res.distinct.add(zlib.crc32((kline(c) + "|" + cfg).encode()))
                if w[0] == "M" and i < len(e[1]):
                    sg = fields(e[1][i]).get("sg", "-")
                    prods = {x.split("/")[-1] for x in sg.split(",")} if sg != "-" else set()
                    if len(prods) > 1:
                        res.count("multi-field run where the fields disagree (torsion visible)")
        for v in vs:
            seen.setdefault(v[1], []).append((c, v))
    for kind, lst in seen.items():
        lst.sort(key=lambda t: case_size(t[0]))
        c, v = lst[0]
        i, _, what, expd, obsd = v
        cfg = c["configs"][i] if i >= 0 else c["configs"][0]
        small = case_data(dict(c, configs=[cfg]))
        if not replay and i >= 0:
            s = shrink(drv, orc, c, kind, cfg)
            (o, e), = run_both(drv, orc, [s], nchunks=1)
            vv = [x for x in check_case(s, o, e) if x[1] == kind]
            if vv:
                small = case_data(s)
                what, expd, obsd = vv[0][2], vv[0][3], vv[0][4]
        for _ in lst:
            if kind.startswith("model:"):
                # the specification still holds on every input explored: the code no longer matches its algorithm model
                res.violation(kind, what, small, expected=expd, observed=obsd, no_input=True)
            else:
                res.violation(kind, what, small, expected=expd, observed=obsd)
    res.rule = ("one evaluation = one run of compute_persistent_cohomology (complex, option set, field or prime range, persistence_dim_max, "
                "min_interval_length) whose pair list, diagram, products and every read-out agreed with the algorithm model, the proved oracle and "
                "the read-out definitions; distinct = distinct (complex as inserted, complex type / option set, configuration); the empty complex and the "
                "single vertex occur once each (corpus)")
    res.exhaustive = False
    rs = [c for c in cases if c["origin"] == "random"] or cases
    res.samples = [{"opt": c["opt"], "simplices": c["simplices"][:14], "configs": c["configs"]} for c in rs[:4] if "simplices" in c] + \
                  [case_data(c) for c in cases if is_cubical(c)][:2]
    res.notes.append("exhaustive sub-domain: every filtered complex on <= 3 vertices with <= 3 distinct values; on 4 vertices %s of the %d"
                     % (("one representative of each of the %d orbits under vertex relabelling plus a random sample of 8000" % len(_EXH.get("reps4", [])))
                        if ctx.tier == "thorough" else "a random sample of 400", len(_EXH.get(4, []))))
    res.notes.append("the equality 'pairs of the cohomology algorithm = pairs of the boundary-matrix reduction' (C02_pcoh_full, C02_multifield_full) is "
                     "measured on every run above for the extracted model and for the C++; it is not a Coq theorem")
    return core.finish(ctx, None, res, TRUSTED, ASSUMPTIONS, LEVEL,
                       "cd /verif/coq && make -f Makefile.coq Properties_C02.vo  (coqc 8.16.1; Print Assumptions after every theorem)",
                       correspondence_name=CORRESPONDENCE)
