"""C03 - Filtration order and filtration-value maintenance are valid and deterministic (Gudhi::Simplex_tree)."""
import hashlib, itertools, json, os
from fractions import Fraction
from vlib import core

LEVEL = "proof"
MANIFEST = dict(
    cat="proof",
    tech="Coq proof about a Gallina model of the comparator, the sort, make_filtration_non_decreasing, "
         "prune_above_filtration, extend/decode_extended_filtration + differential correspondence (extracted model vs C++, "
         "6 option sets, builds with and without GUDHI_USE_TBB, 1/2/4/16 TBB threads) + independent specification oracle",
    text="Coq theorems, unbounded in the complex: the coded comparator (value, then reverse-lexicographic tie-break) is a strict "
         "total order on distinct simplices; two sorted permutations are equal, hence the filtration range is a function of the "
         "simplex->value map alone (any sort, schedule, history, option set); it lists each simplex once, values non-decreasing, "
         "faces first when the filtration is monotone; make_filtration_non_decreasing (transcribed traversal order and relaxation "
         "over facets) yields the least monotone function above the input and returns true iff a value changed; pruning keeps the "
         "sublevel set; the extended filtration is lower-star/upper-star over Q and decode inverts encode.  The model is tied to the "
         "C++ by running both on generated operation sequences and comparing the whole complex after every operation.",
    note="Trusted: Coq kernel, extraction + OCaml driver, the hand-written abstraction of the prefix tree to a finite map "
         "(visiting order and sub-tree = prefix relation), harness, g++/TBB.  TBB's scheduler is outside the model: the theorem says "
         "the result cannot depend on it if parallel_sort sorts; thread counts are sampled.  Floating-point rounding is outside the "
         "model (dyadic inputs).  NaN excluded as in the property.",
    ref="design/C03.md")
CORRESPONDENCE = ("coq/C03_Model.v (extracted: ocaml/c03_oracle.ml) vs harness/c03_drv.cpp (built with and without -DGUDHI_USE_TBB) "
                  "on identical operation lines; specification re-evaluated in Python on the implementation's output")
TRUSTED = [
    "Coq 8.16.1 kernel (coqc, full .vo build)",
    "extraction (ExtrOcamlBasic only; Z/positive/Q stay inductive) + OCaml 4.13.1 + ocaml/prelude.ml, ocaml/c03_oracle.ml",
    "hand-written model coq/C03_Model.v: the simplex tree is abstracted to a finite map from increasing vertex lists to values; "
    "the visiting order of rec_for_each_simplex and the 'sub-tree of a node' relation are expressed on vertex lists "
    "(the tree itself is property C01's subject); tied to the C++ by differential runs, not by translation",
    "harness/c03_drv.cpp, g++ 12.2, oneTBB (tbb::global_control, tbb::parallel_sort), the Python reference of the specification in props/c03.py",
    "IEEE double/float arithmetic is exact on the dyadic inputs generated (no rounding is modelled)",
]
ASSUMPTIONS = [
    "no NaN filtration value (excluded by the property); +-infinity are modelled as two sentinels beyond every finite value",
    "operator== of Filtration_value is 'neither is less than the other' (true of double/float without NaN)",
    "complexes given to make_filtration_non_decreasing / extend_filtration are simplicial complexes (closed under faces)",
    "extend_filtration is given finite vertex values; max-min is a power of two in the runs so that the C++ rescaling is exact",
    "TBB schedules are sampled through tbb::global_control thread counts 1,2,4,16; the scheduler is not modelled",
]
OPTSETS = ["def", "full", "fast", "stable", "link", "nokey"]
INF = float("inf")


# ------------------------------------------------------------------ values
def vstr(x):
    if x == INF:
        return "inf"
    if x == -INF:
        return "-inf"
    x = Fraction(x)
    return str(x.numerator) if x.denominator == 1 else "%d/%d" % (x.numerator, x.denominator)


def vparse(s):
    if s == "inf":
        return INF
    if s == "-inf":
        return -INF
    if s == "nan":
        return None
    return Fraction(s)


def sstr(s):
    return ",".join(map(str, s))


def parse_list(txt):
    """'1,2:3/2;...' -> list of (tuple, value)"""
    out = []
    for item in txt.split(";"):
        item = item.strip()
        if not item:
            continue
        parts = item.split(":")
        out.append((tuple(int(x) for x in parts[0].split(",")), tuple(parts[1:])))
    return out


def faces(s):
    for k in range(1, len(s) + 1):
        for c in itertools.combinations(s, k):
            yield c


# ------------------------------------------------------------------ Python reference of the SPECIFICATION
class Ref:
    """the filtered complex as a dict; every operation by its specification (not by the algorithm)"""

    def __init__(self, vmin):
        self.K = {}
        self.cache = None     # None = not computed, else list of simplices
        self.vmin = vmin
        self.efd = None
        self.orig = None

    def dump(self):
        return "".join("%s:%s;" % (sstr(s), vstr(self.K[s])) for s in sorted(self.K))

    def monotone(self):
        K = self.K
        return self.closed() and all(K[s[:i] + s[i + 1:]] <= K[s] for s in K if len(s) > 1 for i in range(len(s)))

    def closed(self):
        return all((s[:i] + s[i + 1:]) in self.K for s in self.K if len(s) > 1 for i in range(len(s)))

    def sorted_range(self, ign):
        items = [(s, v) for s, v in self.K.items() if not (ign and v == INF)]
        items.sort(key=lambda p: (p[1], tuple(reversed(p[0]))))
        return [s for s, _ in items]

    def range_str(self):
        if self.cache is None:      # the specification: computed once, even when every simplex is ignored
            self.cache = self.sorted_range(False)
        return "".join("%s:%s;" % (sstr(s), vstr(self.K[s])) for s in self.cache)

    def op(self, w):
        o = w[0]
        if o == "ins":
            s = tuple(int(x) for x in w[1].split(","))
            v = vparse(w[2])
            r = "old" if s in self.K else "new"
            for f in faces(s):
                if f not in self.K or v < self.K[f]:
                    self.K[f] = v
            self.cache = None
        elif o == "set":
            s = tuple(int(x) for x in w[1].split(","))
            if s in self.K:
                self.K[s] = vparse(w[2])
                self.cache = None
                r = "ok"
            else:
                r = "absent"
        elif o == "range":
            r = self.range_str()
        elif o == "init":
            self.cache = self.sorted_range(w[1] == "1")
            r = self.range_str()
        elif o == "mfnd":
            new = {s: max(self.K[f] for f in faces(s) if f in self.K) for s in self.K}
            ch = new != self.K
            self.K = new
            if ch:
                self.cache = None
            r = "1" if ch else "0"
        elif o == "prune":
            f = vparse(w[1])
            if f == INF:
                new = self.K
            else:
                # a node goes when the threshold is below its value, and the nodes below it in the tree (= the simplices
                # having it as a prefix) go with it; for a monotone filtration this is the sublevel set
                new = {s: v for s, v in self.K.items() if all(not (f < self.K[s[:i]]) for i in range(1, len(s) + 1) if s[:i] in self.K)}
                if self.monotone():
                    assert new == {s: v for s, v in self.K.items() if v <= f}
            ch = len(new) != len(self.K)
            self.K = new
            if ch:
                self.cache = None
            r = "1" if ch else "0"
        elif o == "extend":
            verts = {s[0]: v for s, v in self.K.items() if len(s) == 1}
            mn = min(verts.values()) if verts else INF
            mx = max(verts.values()) if verts else -INF
            c = (max(verts) if verts else self.vmin) + 1
            if c == -1:          # null_vertex() is reserved: the cone point skips it
                c = 0
            sc = (lambda v: Fraction(0)) if (not verts or mx == mn) else (lambda v: (v - mn) / (mx - mn))
            new = {(c,): Fraction(-3)}
            for s in self.K:
                new[s] = -2 + sc(max(verts[x] for x in s))          # ascending lower-star
                new[s + (c,)] = 2 - sc(min(verts[x] for x in s))     # descending upper-star
            self.orig = (dict(verts), c)
            self.K = new
            self.cache = None
            self.efd = (mn, mx)
            r = "%s %s" % (vstr(mn), vstr(mx))
        elif o == "decodeall":
            if self.efd is None:
                r = "noefd"
            elif self.orig is None:
                return None
            else:
                verts, c = self.orig
                out = []
                for s in sorted(self.K):
                    if s == (c,):
                        out.append("%s:nan:EXTRA;" % sstr(s))
                    elif s[-1] == c:
                        out.append("%s:%s:DOWN;" % (sstr(s), vstr(min(verts[x] for x in s[:-1]))))
                    else:
                        out.append("%s:%s:UP;" % (sstr(s), vstr(max(verts[x] for x in s))))
                r = "".join(out)
        elif o == "decode":
            f, mn, mx = vparse(w[1]), vparse(w[2]), vparse(w[3])
            if -2 <= f <= -1:
                return "%s:UP" % vstr(mn + (mx - mn) * (f + 2))
            if 1 <= f <= 2:
                return "%s:DOWN" % vstr(mn - (mx - mn) * (f - 2))
            return "nan:EXTRA"
        else:
            return "BADLINE"
        if o in ("ins", "set"):
            self.orig = None
        return r + " # " + self.dump()


# ------------------------------------------------------------------ generators
class Case:
    def __init__(self, optset, threads, ops, scen, binname="tbb"):
        self.optset, self.threads, self.ops, self.scen, self.bin = optset, threads, ops, scen, binname

    def header(self):
        return "G %s %d" % (self.optset, self.threads)

    def key(self):
        return (self.optset, tuple(self.ops))

    def to_json(self):
        return {"optset": self.optset, "threads": self.threads, "bin": self.bin, "scenario": self.scen, "ops": self.ops}


def dyadic_pool(rng, floatish):
    """small value pools with many ties; all exactly representable in float"""
    kind = rng.randrange(5)
    if kind == 0:
        return [Fraction(x) for x in range(0, 3)]
    if kind == 1:
        return [Fraction(x) for x in range(-3, 6)]
    if kind == 2:
        return [Fraction(x, 4) for x in range(-6, 9)]
    if kind == 3:
        return [Fraction(0)]
    return [Fraction(x, 8) for x in range(-40, 41, rng.choice([1, 3, 5]))]


def rand_simplex(rng, verts, maxdim):
    k = min(len(verts), 1 + rng.randrange(maxdim + 1))
    if rng.random() < 0.35:
        k = min(len(verts), maxdim + 1)
    return tuple(sorted(rng.sample(verts, k)))


def vertex_labels(rng, n, contig, short):
    if contig:
        return list(range(n))
    kind = rng.randrange(4)
    if kind == 0:
        return list(range(n))
    if kind == 1:
        return sorted(rng.sample([x for x in range(-20, 40) if x != -1], n))   # -1 is null_vertex()
    if kind == 2:
        lim = 30000 if short else 2 ** 31 - 5
        return sorted(set([-lim, lim - 1] + rng.sample([x for x in range(-50, 50) if x != -1], max(0, n - 2))))
    return sorted(rng.sample(range(0, 3 * n + 2), n))


def build_ops(rng, verts, maxdim, nsimp, pool, contig):
    ops = []
    if contig:
        for v in verts:
            ops.append("ins %d %s" % (v, vstr(rng.choice(pool))))
    for _ in range(nsimp):
        s = rand_simplex(rng, verts, maxdim)
        ops.append("ins %s %s" % (sstr(s), vstr(rng.choice(pool))))
    return ops


def extend_prep(rng, ref, ops, small_mantissa=True):
    """give the vertices finite dyadic values whose spread is a power of two (or zero) so that the C++ rescaling is exact"""
    verts = sorted(s[0] for s in ref.K if len(s) == 1)
    if not verts:
        return
    a = Fraction(rng.randrange(-8, 9), rng.choice([1, 2, 4]))
    mode = rng.randrange(6)
    if mode == 0 or len(verts) == 1:
        vals = {v: a for v in verts}                      # all equal: scale 0
    else:
        k = rng.randrange(-2, 5)
        m = rng.choice([1, 2, 4, 8, 64])
        if rng.random() < 0.12:      # the same function in a very large unit: a spread far below machine epsilon, still exact
            k, a, m = -56, Fraction(0), rng.choice([1, 2, 4, 8])
        spread = Fraction(2) ** k
        vals = {v: a + spread * Fraction(rng.randrange(0, m + 1), m) for v in verts}
        lo, hi = rng.sample(verts, 2)
        vals[lo] = a
        vals[hi] = a + spread
    for v in verts:
        line = "set %d %s" % (v, vstr(vals[v]))
        ops.append(line)
        ref.op(line.split())


def scenario_small(rng, optset, tier):
    contig = optset == "fast"
    short = optset == "link"
    n = rng.choice([1, 2, 3, 4, 5, 6, 7, 8])
    verts = vertex_labels(rng, n, contig, short)
    pool = dyadic_pool(rng, True)
    if optset not in ("link", "fast") and rng.random() < 0.12:
        # the same pool 2^26 higher: exact in double, not in the 24 significant bits of a float (a narrowing inside the tree
        # merges distinct values); not for the two option sets whose Filtration_value is float (link, fast)
        pool = [x + (1 << 26) for x in pool]
    maxdim = rng.choice([0, 1, 2, 3, 4])
    ops = build_ops(rng, verts, maxdim, rng.randrange(1, 7), pool, contig)
    ref = Ref(-32768 if short else -2 ** 31)
    for l in ops:
        ref.op(l.split())

    def emit(l):
        ops.append(l)
        ref.op(l.split())

    emit("range")
    phases0 = rng.sample(["sets", "mfnd", "prune", "init1", "extend", "sets2", "prune2"], rng.randrange(2, 7))
    phases = []
    for ph in phases0:
        phases.append(ph)
        if ph in ("sets", "sets2") and rng.random() < 0.7:
            phases.append("mfnd")       # non-monotone assignment, then repair
    for ph in phases:
        if ph in ("sets", "sets2") and ref.K:
            keys = sorted(ref.K)
            for _ in range(rng.randrange(1, 2 + len(keys) // 2)):
                s = rng.choice(keys)
                r = rng.random()
                v = INF if r < 0.12 else (-INF if r < 0.2 else rng.choice(pool) + (rng.choice([0, 1, -1, 2]) if r < 0.5 else 0))
                emit("set %s %s" % (sstr(s), vstr(v)))
            emit("range")
        elif ph == "mfnd":
            if not ref.closed():
                continue       # boundary_simplex_range of a simplex with a missing facet is undefined behaviour
            emit("mfnd")
            emit("range")
            if rng.random() < 0.5:
                emit("mfnd")       # idempotent: must answer 0
        elif ph in ("prune", "prune2"):
            vals = sorted(set(v for v in ref.K.values())) or [Fraction(0)]
            t = rng.choice(vals)
            r = rng.random()
            if r < 0.15:
                t = INF
            elif r < 0.25:
                t = -INF
            elif r < 0.5 and t not in (INF, -INF):
                t = t - Fraction(1, 8)
            elif r < 0.6 and t not in (INF, -INF):
                t = t + Fraction(1, 8)
            if contig:
                # contiguous_vertices option: vertices must stay 0..n-1, so the threshold keeps every vertex
                vv = [v for s, v in ref.K.items() if len(s) == 1]
                if vv and t < max(vv):
                    t = max(vv)
            emit("prune %s" % vstr(t))
            emit("range")
        elif ph == "init1":
            emit("init 1")
            emit("range")
            if rng.random() < 0.5:
                emit("init 0")
        elif ph == "extend":
            if ref.efd is not None and rng.random() < 0.5:
                continue
            if not ref.closed():
                continue
            extend_prep(rng, ref, ops)
            if any(v in (INF, -INF) for s, v in ref.K.items() if len(s) == 1):
                continue
            emit("range")
            emit("extend")
            emit("range")
            emit("decodeall")
            if rng.random() < 0.3:
                emit("mfnd")
                emit("decodeall")
    emit("range")
    return Case(optset, rng.choice([1, 2, 4, 16]), ops, "small")


def scenario_int(rng):
    """option set with an integral Filtration_value (the library has separate code paths for value types without NaN):
    integer values only, no infinity, no extended filtration"""
    n = rng.choice([2, 3, 4, 5, 6])
    verts = vertex_labels(rng, n, False, False)
    pool = [Fraction(x) for x in rng.sample(range(-6, 12), 5)]
    ops = build_ops(rng, verts, rng.choice([1, 2, 3]), rng.randrange(1, 6), pool, False)
    ref = Ref(-2 ** 31)
    for l in ops:
        ref.op(l.split())

    def emit(l):
        ops.append(l)
        ref.op(l.split())
    emit("range")
    for ph in rng.sample(["sets", "mfnd", "prune", "sets2", "mfnd2", "prune2"], rng.randrange(2, 6)):
        if ph.startswith("sets") and ref.K:
            keys = sorted(ref.K)
            for _ in range(rng.randrange(1, 2 + len(keys) // 2)):
                emit("set %s %s" % (sstr(rng.choice(keys)), vstr(rng.choice(pool) + rng.choice([0, 1, -1, 2]))))
            emit("range")
            if ref.closed() and rng.random() < 0.8:
                emit("mfnd")
                emit("range")
        elif ph.startswith("mfnd"):
            if ref.closed():
                emit("mfnd")
                emit("range")
        else:
            emit("prune %s" % vstr(rng.choice(pool)))
            emit("range")
    return Case("intv", rng.choice([1, 2, 4]), ops, "small-integral-values")


def scenario_history(rng, optset, nhist):
    """the same filtered complex through several shuffled insertion histories"""
    contig = optset == "fast"
    n = rng.randrange(3, 9)
    verts = vertex_labels(rng, n, contig, optset == "link")
    pool = dyadic_pool(rng, True)
    base = build_ops(rng, verts, rng.choice([1, 2, 3, 4]), rng.randrange(2, 9), pool, contig)
    # redundant re-insertions of faces (no effect on the final map when the value is not smaller)
    cases = []
    for h in range(nhist):
        ops = list(base)
        rng.shuffle(ops)
        if h % 2 == 1:
            ops = ops + rng.sample(base, max(1, len(base) // 2))   # repeated insertions
        ops += ["range", "init 1", "init 0"]
        cases.append(Case(optset, rng.choice([1, 2, 4, 16]), ops, "history"))
    return cases


def scenario_large(rng, optset, threads_list, with_mfnd, nbig=14, k=9):
    contig = optset == "fast"
    nv = 40
    verts = list(range(nv)) if contig else sorted(rng.sample([x for x in range(-100, 200) if x != -1], nv))
    pool = [Fraction(x) for x in range(0, rng.choice([1, 2, 4]))] if rng.random() < 0.7 else [Fraction(x, 4) for x in range(0, 30)]
    ops = []
    if contig:
        for v in verts:
            ops.append("ins %d %s" % (v, vstr(rng.choice(pool))))
    for _ in range(nbig):
        s = tuple(sorted(rng.sample(verts, k)))
        ops.append("ins %s %s" % (sstr(s), vstr(rng.choice(pool))))
    ops.append("range")
    if with_mfnd:
        ref = Ref(-2 ** 31)
        for l in ops[:-1]:
            ref.op(l.split())
        keys = sorted(ref.K)
        for _ in range(60):
            s = rng.choice(keys)
            r = rng.random()
            v = INF if r < 0.1 else (-INF if r < 0.15 else rng.choice(pool) + rng.choice([0, 1, 2, -1]))
            ops.append("set %s %s" % (sstr(s), vstr(v)))
        ops += ["range", "mfnd", "range", "init 1"]
        if not contig:
            ops += ["prune %s" % vstr(rng.choice(pool) + 1), "range"]
    else:
        ops += ["init 1", "range"]
    return [Case(optset, t, ops, "large") for t in threads_list]


def boundary_cases():
    """hand-made cases aimed at the case splits: empty complex, single vertex, ties everywhere, prefix vs first difference in the
    tie-break, infinite values, threshold equal to a value, scale 0, decode boundaries"""
    out = []
    for o in OPTSETS:
        out.append(Case(o, 2, ["range", "init 1", "mfnd", "prune 0", "range"], "boundary-empty"))
        out.append(Case(o, 1, ["ins 0 0", "range", "mfnd", "extend", "range", "decodeall", "prune -3", "range", "prune -4", "range"], "boundary-single"))
        # all values equal: pure tie-break order; {0,1,2} full triangle + pending edge
        out.append(Case(o, 4, ["ins 0,1,2 0", "ins 2,3 0", "range", "init 1", "mfnd", "prune 0", "range", "prune -1/2", "range"], "boundary-ties"))
        # tie-break: prefix case and first-difference case (1,3 vs 2,3 ; 3 vs 1,3 ; 0,3 vs 1,2)
        out.append(Case(o, 2, ["ins 0,1,2,3 1", "range", "set 0,1,2,3 0", "set 0 5", "range", "mfnd", "range", "mfnd", "range"], "boundary-revlex"))
        out.append(Case(o, 2, ["ins 0,1 1", "ins 1,2 inf", "ins 3 inf", "range", "init 1", "range", "init 0", "set 0 -inf", "range", "mfnd", "range",
                               "prune inf", "range", "prune 1", "range", "prune -inf", "range"], "boundary-infinite"))
        out.append(Case(o, 2, ["ins 0,1 inf", "init 1", "range", "init 0", "range"], "boundary-all-ignored"))
        out.append(Case(o, 2, ["ins 0,1,2 0", "set 0 0", "set 1 1", "set 2 1/2", "extend", "range", "decodeall", "mfnd", "range"], "boundary-extend"))
        out.append(Case(o, 2, ["ins 0,1,2 7", "ins 3 7", "extend", "range", "decodeall"], "boundary-extend-scale0"))
        out.append(Case(o, 2, ["extend", "range", "decodeall"], "boundary-extend-empty"))
        dec = []
        for f in ["-2", "-1", "1", "2", "-3/2", "3/2", "0", "-3", "-17/8", "-7/8", "7/8", "17/8", "-5/4", "7/4", "inf", "-inf"]:
            for (mn, mx) in [("0", "8"), ("-3", "1"), ("5/2", "5/2"), ("-1/2", "-1/4")]:
                dec.append("decode %s %s %s" % (f, mn, mx))
        out.append(Case(o, 1, dec, "boundary-decode"))
    return out


def generate(ctx):
    rng, tier = ctx.rng, ctx.tier
    thorough = tier == "thorough"
    cases = []
    cases += boundary_cases()
    nsmall = 1000 if thorough else 90
    for o in OPTSETS:
        for _ in range(nsmall):
            cases.append(scenario_small(rng, o, tier))
    for _ in range(400 if thorough else 60):
        cases.append(scenario_int(rng))
    nh = 25 if thorough else 4
    hist_groups = []
    for o in OPTSETS:
        for _ in range(nh):
            g = scenario_history(rng, o, 6)
            hist_groups.append(g)
            cases += g
    # large complexes: the thread sweep
    large_groups = []
    sweep = ["def", "full"] if not thorough else OPTSETS
    for o in OPTSETS:
        tl = [1, 2, 4, 16] if o in sweep else [4]
        for with_mfnd in ([False, True] if (thorough or o in ("def", "fast")) else [False]):
            g = scenario_large(rng, o, tl, with_mfnd)
            large_groups.append(g)
            cases += g
    if thorough:
        for o in ("def", "full", "fast"):
            g = scenario_large(rng, o, [1, 2, 4, 16], False, nbig=9, k=11)     # about 16000 simplices
            large_groups.append(g)
            cases += g
    return cases, hist_groups, large_groups


# ------------------------------------------------------------------ running
def run_cases(binary, cases, nchunks=None):
    groups = [(c.header(), c.ops) for c in cases]
    return core.run_grouped_parallel(binary, groups, nchunks=nchunks)


def ref_answers(c):
    ref = Ref(-32768 if c.optset == "link" else -2 ** 31)
    out = []
    dead = False
    for l in c.ops:
        if dead:
            out.append(None)
            continue
        try:
            out.append(ref.op(l.split()))
        except Exception as e:        # outside the specification's domain (e.g. extend on a non-complex)
            out.append(None)
            dead = True
    return out


def classify(line):
    return line.split()[0]


def check_case(res, c, obs, exp, refa, binname):
    """obs/exp: (header answer, [answers]) of the implementation / of the extracted model; refa: Python specification"""
    ho, ao = obs
    he, ae = exp
    case = c.to_json()
    case["bin"] = binname
    ok = True
    if ho != he:
        res.violation("group-header", "%s -> implementation %r, model %r" % (c.header(), ho, he), case, he, ho)
        return False
    for i, line in enumerate(c.ops):
        o = ao[i] if i < len(ao) else "MISSING"
        e = ae[i] if i < len(ae) else "MISSING"
        r = refa[i]
        kind = classify(line)
        res.evaluations += 1
        if e.startswith("MODELDIFF"):
            res.violation("model:%s" % kind, "inside the model two sorting routines disagree: %s" % e, dict(case, ops=c.ops[:i + 1]), e, o)
            return False
        if r is not None and r != e and kind in ("range", "init") and all_ignored_quirk(r, e):
            # the one situation where the faithful model departs from the specification (C03_all_ignored_range_refuted)
            if o != e:
                what = describe(kind, line, o, e)
                res.violation("%s:%s" % (kind, what[0]), "%s (%s build) after %d ops, '%s': %s" % (c.header(), binname, i, line, what[1]),
                              dict(case, ops=c.ops[:i + 1]), short(e), short(o))
                return False
            if o == e:
                res.violation("range:all-ignored-simplices-listed", "%s (%s build) line %d '%s': after initialize_filtration(true) on a complex "
                              "whose simplices all have value +infinity the cache is empty, filtration_simplex_range() takes 'empty' for "
                              "'not computed' and lists the ignored simplices" % (c.header(), binname, i, line),
                              dict(case, ops=c.ops[:i + 1]), short(r), short(o))
                return False
        if r is not None and r != e:
            # algorithm model and specification disagree: the theorems' hypotheses are not met or the model is wrong
            res.violation("model-vs-spec:%s" % kind, "%s (%s) line %d '%s': extracted algorithm model and specification differ"
                          % (c.header(), binname, i, line), dict(case, ops=c.ops[:i + 1]), short(r), short(e))
            return False
        if o != e:
            what = describe(kind, line, o, e)
            res.violation("%s:%s" % (kind, what[0]), "%s (%s build) after %d ops, '%s': %s" % (c.header(), binname, i, line, what[1]),
                          dict(case, ops=c.ops[:i + 1]), short(e), short(o))
            return False
    return ok


def all_ignored_quirk(r, e):
    """specification: empty range; model: a range made only of simplices with value inf; same complex"""
    rr, _, dr = r.partition(" # ")
    re_, _, de = e.partition(" # ")
    if dr != de or rr != "" or re_ == "":
        return False
    return all(v == ("inf",) for _, v in parse_list(re_)) and all(v == ("inf",) for _, v in parse_list(de))


def short(s, n=1500):
    s = str(s)
    return s if len(s) <= n else s[:n] + "...[%d chars]" % len(s)


def describe(kind, line, o, e):
    """which clause of the property the difference falls under"""
    if o.startswith("CRASH") or o.startswith("DIED") or o.startswith("EXC") or o == "MISSING":
        return ("crash", "implementation %s" % o[:80])
    ro, _, do = o.partition(" # ")
    re_, _, de = e.partition(" # ")
    if kind in ("range", "init"):
        if do != de:
            return ("state", "the complex itself differs from the model after a read-only operation")
        so, se = parse_list(ro), parse_list(re_)
        if sorted(so) != sorted(se):
            ks = [s for s, _ in so]
            if len(set(ks)) != len(ks):
                return ("duplicate", "the filtration range lists a simplex twice")
            if set(ks) != set(s for s, _ in se):
                return ("membership", "the filtration range does not list exactly the (non-ignored) simplices: got %d, expected %d" % (len(so), len(se)))
            return ("values", "the values read through the range differ")
        vals = [vparse(v[0]) for _, v in so]
        if any(a is None or b is None or a > b for a, b in zip(vals, vals[1:])):
            return ("not-sorted", "filtration values decrease along the range")
        return ("tie-order", "same simplices, non-decreasing values, but ties are not in the order fixed by the comparator "
                "(first difference at position %d)" % next(i for i, (a, b) in enumerate(zip(so, se)) if a != b))
    if kind == "mfnd":
        if do != de:
            return ("values", "values after make_filtration_non_decreasing are not the maxima over faces")
        return ("return", "returned %s, expected %s" % (ro, re_))
    if kind == "prune":
        if do != de:
            return ("sublevel", "the complex after pruning is not the expected one")
        return ("return", "returned %s, expected %s" % (ro, re_))
    if kind == "extend":
        if do != de:
            return ("values", "extended filtration values differ from the lower-star/upper-star cone filtration")
        return ("minmax", "returned %s, expected %s" % (ro, re_))
    if kind in ("decodeall", "decode"):
        return ("value", "decoded %s, expected %s" % (short(ro, 200), short(re_, 200)))
    if do != de:
        return ("state", "complex differs from the model")
    return ("result", "returned %s, expected %s" % (short(ro, 100), short(re_, 100)))


def shrink(ctx, binary, orc, c, upto):
    """greedy removal of earlier operations while implementation and model still disagree on the last line"""
    ops = list(c.ops[:upto + 1])
    if len(ops) > 90:
        return ops
    budget = 70

    def differs(o2):
        a = core.run_grouped(binary, [(c.header(), o2)])[0]
        b = core.run_grouped(orc, [(c.header(), o2)])[0]
        return a[1] != b[1] and a[1][-1:] != b[1][-1:]
    i = len(ops) - 2
    while i >= 0 and budget > 0:
        cand = ops[:i] + ops[i + 1:]
        budget -= 1
        if differs(cand):
            ops = cand
        i -= 1
    return ops


def load_corpus():
    d = os.path.join(core.ROOT, "corpus", "C03")
    out = []
    if os.path.isdir(d):
        for f in sorted(os.listdir(d)):
            if f.endswith(".json"):
                j = json.load(open(os.path.join(d, f)))
                for cj in (j if isinstance(j, list) else [j]):
                    out.append(Case(cj["optset"], cj.get("threads", 2), cj["ops"], "corpus:" + f, cj.get("bin", "tbb")))
    return out



# ------------------------------------------------------------------------------------------------ cubical filtration order
def cub_faces(sizes, per, k):
    """codimension-1 faces of cell k of a cubical complex (index arithmetic of the bitmap: coordinate c_i in [0, 2 s_i], periodic
    directions [0, 2 s_i))"""
    dims = [(2 * s if p else 2 * s + 1) for s, p in zip(sizes, per)]
    c, r = [], k
    for d in dims:
        c.append(r % d)
        r //= d
    out = []
    mult = 1
    for i, d in enumerate(dims):
        if c[i] % 2 == 1:
            out.append(k - mult)
            out.append(k + mult if c[i] + 1 < d else k - (d - 1) * mult)
        mult *= d
    return out


def cubical_stage(ctx, res, only=None):
    """the cubical part of the property: Bitmap_cubical_complex's filtration order on bitmaps large enough for tbb::parallel_sort to
    split, many ties, builds with and without GUDHI_USE_TBB, 1/2/4/16 threads"""
    btbb = ctx.build_harness("c03_cub_drv.cpp", tag="cubtbb", flags=["-DGUDHI_USE_TBB"])
    bseq = ctx.build_harness("c03_cub_drv.cpp", tag="cubseq", flags=[])
    rng = ctx.rng
    cases = []
    if only:
        cases = [only]
    else:
        shapes = [([2, 3], [0, 0]), ([3, 3, 2], [0, 0, 0]), ([40, 40], [0, 0]), ([12, 12, 10], [0, 0, 0]), ([30, 30], [1, 0]), ([9, 9, 9], [1, 1, 0])]
        if ctx.tier == "thorough":
            shapes += [([64, 64], [0, 0]), ([16, 16, 16], [0, 1, 0]), ([5, 5, 5, 5], [0, 0, 0, 0])]
        for sizes, per in shapes:
            n = 1
            for x in sizes:
                n *= x
            for style in ("ties3", "ties-inf", "distinct"):
                if style == "ties3":
                    vals = [str(rng.randrange(3)) for _ in range(n)]
                elif style == "ties-inf":
                    vals = [("inf" if rng.random() < 0.1 else str(rng.randrange(2))) for _ in range(n)]
                else:
                    perm = list(range(n))
                    rng.shuffle(perm)
                    vals = [str(x) for x in perm]
                cases.append({"sizes": sizes, "per": per, "vals": vals, "style": style})
    seen = set()
    for c in cases:
        sizes, per, vals = c["sizes"], c["per"], c["vals"]
        head = ("P %%d %d %s | %s |" % (len(sizes), " ".join(map(str, sizes)), " ".join(map(str, per)))) if any(per) else \
               ("B %%d %d %s |" % (len(sizes), " ".join(map(str, sizes))))
        answers = {}
        for (name, b, threads) in [("seq", bseq, 1), ("tbb", btbb, 1), ("tbb", btbb, 2), ("tbb", btbb, 4), ("tbb", btbb, 16)]:
            rc, out, err = ctx.run_bin(b, (head % threads) + " " + " ".join(vals) + "\n", timeout=1200, cpu=120)
            answers[(name, threads)] = out.strip().split("\n")[-1] if out.strip() else "DIED rc=%d" % rc
        res.count("cubical-shape:%s%s:%s" % ("x".join(map(str, sizes)), ":periodic" if any(per) else "", c.get("style", "replay")))
        ref = answers[("seq", 1)]
        small = {"sizes": sizes, "per": per, "vals": vals if len(vals) <= 400 else vals[:400] + ["...(%d values, regenerate with the seed)" % len(vals)], "style": c.get("style")}
        case = {"cubical": small, "seed": ctx.seed}

        def viol(kind, what, exp=None, obs=None, **kw):
            if kind not in seen:
                seen.add(kind)
                res.violation(kind, what, case, exp, obs, **kw)
        if ref.startswith(("EXC", "DIED", "CRASH")):
            viol("cubical:crash", "Bitmap_cubical_complex: %s on shape %s" % (ref[:80], sizes))
            continue
        try:
            n, seq, meta = [x.strip() for x in ref.split(" # ")]
            n = int(n)
            order = [int(x) for x in seq.split()]
            fd = [(float("inf") if x.split(":")[0] == "inf" else int(x.split(":")[0]), int(x.split(":")[1])) for x in meta.split()]
        except Exception:
            viol("cubical:format", "unparsable answer %r" % ref[:100])
            continue
        res.evaluations += 5
        res.traces_validated += 1
        if sorted(order) != list(range(n)):
            viol("cubical:range-not-a-permutation", "filtration_simplex_range of the cubical complex %s does not list every cell exactly once" % sizes)
            continue
        pos = {k: i for i, k in enumerate(order)}
        if any(fd[a][0] > fd[b][0] for a, b in zip(order, order[1:])):
            viol("cubical:not-sorted", "filtration values decrease along the cubical filtration range (shape %s)" % sizes)
        bad = next(((k, f) for k in range(n) for f in cub_faces(sizes, per, k) if pos[f] > pos[k]), None)
        if bad:
            viol("cubical:face-after-coface", "cell %d comes before its face %d in the cubical filtration range (shape %s, periodic %s)" % (bad[0], bad[1], sizes, per))
        for key, a in answers.items():
            if a != ref:
                viol("cubical:determinism", "the cubical filtration range depends on the build / thread count: %s differs from the sequential build "
                     "(shape %s, %d cells)" % (key, sizes, n), short(ref.split(" # ")[1], 300), short(a.split(" # ")[1] if " # " in a else a, 300))
                break
        if order != sorted(range(n), key=lambda k: (fd[k][0], fd[k][1], k)):
            viol("cubical:order-differs-from-model", "the cubical filtration order is valid but not the (value, dimension, position) order of the "
                 "algorithm model (shape %s)" % sizes, no_input=True)
    res.extra["cubical_cases"] = len(cases)


def check(ctx, replay=None):
    res = core.Result()
    if not getattr(ctx, "skip_proof", False):
        ctx.prove(["Extract_C03.vo"])
    # three builds: TBB (debug checks on), no TBB (std::stable_sort), TBB release (-O2 -DNDEBUG: GUDHI_CHECK off)
    bins = ctx.build_many([("c03_drv.cpp", "tbb", ["-DGUDHI_USE_TBB"]), ("c03_drv.cpp", "seq", []),
                           ("c03_drv.cpp", "rel", ["-DGUDHI_USE_TBB", "-DNDEBUG"], "-O2")])
    orc = ctx.build_oracle("c03")
    hist_groups, large_groups = [], []
    if replay and "cubical" in replay["case"]:
        cc = replay["case"]["cubical"]
        if any(str(v).startswith("...") for v in cc["vals"]):
            ctx.seed = replay["case"].get("seed", ctx.seed)
            ctx.rng = ctx.rng.__class__(ctx.seed * 1000003 + sum(map(ord, ctx.prop)))
            cubical_stage(ctx, res)
        else:
            cubical_stage(ctx, res, only=cc)
        res.rule = "replay of the cubical filtration-order stage"
        res.distinct = {"cubical-replay"}
        return core.finish(ctx, None, res, TRUSTED, ASSUMPTIONS, LEVEL, "cd /verif/coq && make -f Makefile.coq Properties_C03.vo",
                           correspondence_name=CORRESPONDENCE)
    if not replay:
        cubical_stage(ctx, res)     # first, so that it draws from the generator before everything else (reproducible from the seed)
    if replay:
        cj = replay["case"]
        cases = [Case(cj["optset"], cj.get("threads", 2), cj["ops"], cj.get("scenario", "replay"), cj.get("bin", "tbb"))]
        plan = [(cj.get("bin", "tbb"), cases)]
    else:
        corpus = load_corpus()
        gen, hist_groups, large_groups = generate(ctx)
        cases = corpus + gen
        # every case on the TBB build; on the sequential build every case except the duplicates of a thread sweep
        seq_cases = [c for c in cases if not (c.scen == "large" and c.threads not in (1, 4))]
        plan = [("tbb", cases), ("seq", seq_cases), ("rel", cases)]
    # the model and the specification do not depend on threads/build: evaluate once per distinct (vmin class, ops)
    uniq = {}
    for _, cs in plan:
        for c in cs:
            uniq.setdefault((c.optset == "link", tuple(c.ops)), c)
    ulist = list(uniq.values())
    ctx.log("%d cases (%d distinct scripts), %d operations" % (sum(len(cs) for _, cs in plan), len(ulist), sum(len(c.ops) for c in ulist)))
    exp_u = run_cases(orc, ulist)
    ref_u = core.parallel_map(ref_answers, ulist)
    exp = {k: e for k, e in zip(uniq.keys(), exp_u)}
    refs = {k: r for k, r in zip(uniq.keys(), ref_u)}
    ctx.log("model and specification evaluated")
    outputs = {}
    to_shrink = []
    for binname, cs in plan:
        obs = run_cases(bins[binname], cs)
        ctx.log("implementation (%s build) ran %d cases" % (binname, len(cs)))
        for c, o in zip(cs, obs):
            k = (c.optset == "link", tuple(c.ops))
            res.count("build:" + binname)
            res.count("optset:" + c.optset)
            res.count("scenario:" + c.scen.split(":")[0])
            if binname != "seq":
                res.count("tbb-threads:%d" % c.threads)
            good = check_case(res, c, o, exp[k], refs[k], binname)
            res.traces_validated += len(c.ops)
            outputs[(binname, id(c))] = o
            if not good and not replay and res.violations:
                to_shrink.append((res.violations[-1], binname, c))
    # shrink one case per violation kind (the shortest), by greedy removal of earlier operations
    best = {}
    for v, binname, c in to_shrink:
        if v["kind"] not in best or len(v["case"]["ops"]) < len(best[v["kind"]][0]["case"]["ops"]):
            best[v["kind"]] = (v, binname, c)
    for v, binname, c in list(best.values())[:6]:
        try:
            v["case"]["ops"] = shrink(ctx, bins[binname], orc, c, len(v["case"]["ops"]) - 1)
        except Exception:
            pass
    # determinism across histories / schedules / builds / option sets, stated directly on the implementation's outputs
    def ranges_of(binname, c):
        o = outputs.get((binname, id(c)))
        if not o:
            return None
        return tuple(a.partition(" # ")[0] for l, a in zip(c.ops, o[1]) if l.split()[0] in ("range", "init"))
    for g in hist_groups:
        rs = {}
        for binname in ("tbb", "seq", "rel"):
            for c in g:
                r = ranges_of(binname, c)
                if r is not None:
                    rs.setdefault(r, []).append((binname, c))
        res.evaluations += 1
        res.count("history-groups")
        if len(rs) > 1:
            (ra, la), (rb, lb) = list(rs.items())[:2]
            res.violation("determinism:history", "the same filtered complex built through two insertion histories gives two filtration ranges",
                          lb[0][1].to_json(), short(ra), short(rb), other_history=la[0][1].to_json())
    for g in large_groups:
        rs = {}
        for binname in ("tbb", "seq", "rel"):
            for c in g:
                r = ranges_of(binname, c)
                if r is not None:
                    rs.setdefault(hashlib.sha256(repr(r).encode()).hexdigest(), []).append((binname, c))
        res.evaluations += 1
        res.count("thread-sweep-groups")
        nsimp = max((a.count(";") for c in g for a in (outputs.get(("tbb", id(c))) or (None, [""]))[1][-1:]), default=0)
        res.count("large-simplices>=5000" if nsimp >= 5000 else "large-simplices<5000")
        if len(rs) > 1:
            (ra, la), (rb, lb) = list(rs.items())[:2]
            res.violation("determinism:schedule", "the same script gives different filtration ranges under different thread counts / builds: "
                          "%s vs %s" % ([(b, c.threads) for b, c in la], [(b, c.threads) for b, c in lb]), lb[0][1].to_json(), ra, rb)
    # distribution of the inputs
    for c in ulist:
        for l in c.ops:
            res.count("op:" + l.split()[0])
        n = len(c.ops)
        res.count("ops/case:%s" % ("<=10" if n <= 10 else "<=30" if n <= 30 else ">30"))
    for k, e in exp.items():
        for l, a in zip(k[1], e[1]):
            o = l.split()[0]
            if o in ("mfnd", "prune"):
                res.count("%s-returned-%s" % (o, a.partition(" # ")[0]))
            if o == "range":
                items = a.partition(" # ")[0].split(";")
                vals = [x.rpartition(":")[2] for x in items if x]
                ties = len(vals) - len(set(vals))
                res.count("range-size:%s" % ("0" if not vals else "<=15" if len(vals) <= 15 else "<=200" if len(vals) <= 200 else ">=5000" if len(vals) >= 5000 else "<5000"))
                res.count("range-with-ties" if ties else "range-without-ties")
            if o == "extend":
                mn, mx = a.partition(" # ")[0].split()
                res.count("extend-scale0" if mn == mx else "extend-scaled")
    res.distinct = set(hashlib.sha256(repr(k).encode()).hexdigest() for k, c in uniq.items() if any(l.startswith("ins") for l in c.ops))
    res.rule = ("one case = (option set, operation script); distinct = distinct (vertex-handle class, script) pairs that insert at least one "
                "simplex; every script is run on the TBB build (thread count in the header) and on the build without GUDHI_USE_TBB; "
                "after every operation the whole complex (all simplices with exact values) is compared with the extracted model and "
                "with the Python specification")
    pick = sorted(ctx.rng.sample(range(len(ulist)), min(8, len(ulist))))
    res.samples = [dict(ulist[i].to_json(), ops=ulist[i].ops[:25]) for i in pick]
    res.notes.append("option sets: def=Simplex_tree_options_default, full=full_featured, fast=fast_persistence (float, contiguous vertices), "
                     "stable=default+stable_simplex_handles, link=short vertices+float values+link_nodes_by_label, nokey=no key storage")
    return core.finish(ctx, None, res, TRUSTED, ASSUMPTIONS, LEVEL,
                       "cd /verif/coq && make -f Makefile.coq Properties_C03.vo  (coqc 8.16.1; Print Assumptions after every theorem)",
                       correspondence_name=CORRESPONDENCE)
