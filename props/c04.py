"""C04 - flag (clique) expansions build exactly the clique complex, by every route."""
import json, os, zlib, random
from vlib import core

LEVEL = "proof"
MANIFEST = dict(
    cat="proof",
    tech="Coq proofs about the transcribed algorithms on tries: expansion() (induction on the remaining depth, intersection lemma) and "
         "expansion_with_blockers() (Hoare-style invariants of the reverse sibling loops with face look-ups in the tree under construction) "
         "build exactly the flag complex / the largest blocker-free subcomplex, with the maximal edge values; Rips = this on the threshold graph "
         "+ differential correspondence of all three routes (expansion, expansion_with_blockers, insert_edge_as_flag) and of Rips_complex with the "
         "extracted models and with the independent specifications after every operation, under every option set that compiles",
    text="Coq theorems for every finite weighted graph (arbitrary labels, ties, isolated vertices, parallel edges) and every max_dim >= 1: the trie "
         "produced by the transcribed insert_graph + siblings_expansion/create_expansion/intersection is well formed and holds exactly the cliques "
         "with at most max_dim+1 vertices, each with the largest value among its edges (= among its vertices and edges when no edge is below its end "
         "points; proved to be the least upper bound); dimension() afterwards is the exact dimension; the transcribed expansion_with_blockers yields, "
         "for every deterministic blocker predicate, the largest subcomplex of that clique complex without blocked simplex (never-blocking: the "
         "expansion itself); Rips_complex (points or distance matrix) is this construction on the graph of pairs within the threshold (= sets of "
         "diameter <= threshold, value = diameter).  The edge-by-edge route (insert_edge_as_flag in filtration order, or any admissible order + "
         "make_filtration_non_decreasing) is transcribed and compared with the C++ and with the flag complex of the edges inserted so far on every "
         "generated history; added_simplices is compared with the difference of consecutive dumps.",
    note="Trusted: Coq kernel, extraction + OCaml driver, the hand transcription of Simplex_tree.h / Rips_complex.h (validated by the differential "
         "run), g++, harness, coq/Simplex.v + Trie.v + basic lemmas of C01_Proofs.v.  Not proved (compared per run, kept as *_full statements): "
         "edge-by-edge = flag complex; the dimension_ counter of the blocker route.  make_filtration_non_decreasing is modelled at specification "
         "level (C03).  Repaired: expansion_with_blockers(max_dim <= 0) expanded without bound.  Recorded finding: max_dim <= 0 leaves the edges "
         "of the graph in place (one-shot routes).",
    ref="design/C04.md")
CORRESPONDENCE = ("coq/C04_Model.v (extracted: ocaml/c04_oracle.ml) vs harness/c04_drv.cpp on identical inputs: full dump (every simplex with value, "
                  "dimension(), upper_bound_dimension(), num_vertices(), num_simplices()), added_simplices, blocker call log, after every operation")
TRUSTED = [
    "Coq 8.16.1 kernel (coqc, full .vo build)",
    "extraction (ExtrOcamlBasic only) + OCaml 4.13.1 + ocaml/prelude.ml, ocaml/c04_oracle.ml (parsing, printing, set difference of dumps)",
    "hand-written algorithm models coq/C04_Model.v of Simplex_tree.h (insert_graph, expansion, siblings_expansion, create_expansion, intersection, "
    "expansion_with_blockers, siblings_expansion_with_blockers, insert_edge_as_flag, compute_punctual_expansion, create_local_expansion) and "
    "Rips_complex.h / graph_simplicial_complex.h (compute_proximity_graph, create_complex); tied to the C++ by the differential run, not by translation",
    "coq/Simplex.v, coq/Trie.v (shared trie core of property C01: get/put/find/abs)",
    "harness/c04_drv.cpp (own VertexAndEdgeListGraph with arbitrary int labels, canonical dump), g++ 12.2, Boost",
    "make_filtration_non_decreasing is modelled by its specification (every simplex takes the largest value of its faces); its algorithm is property C03",
]
ASSUMPTIONS = [
    "graphs given to insert_graph have distinct vertex labels, no label -1 (null_vertex), end points of edges among the vertices (otherwise undefined behaviour in the C++); "
    "self-loops are compared (std::invalid_argument) but end the case",
    "filtration values are integers (exact in double and float), so no rounding occurs anywhere",
    "blocker oracles are deterministic functions of (vertex set, filtration value) and do not modify the complex",
    "insert_edge_as_flag: both end points inserted before the edge, no edge inserted twice (documented preconditions)",
    "option sets with contiguous_vertices get labels 0..n-1 (inserted in increasing order); Simplex_tree_options_minimal gets value 0 everywhere "
    "(it rejects every other value)",
]

OPTSETS = {0: "default", 1: "full_featured", 2: "minimal", 3: "fast_persistence", 4: "flat_linked", 5: "stable_unlinked",
           6: "stable_linked_nokey", 7: "contig_linked"}
LINKED = (1, 4, 6, 7)
CONTIG = (3, 7)
KIND_DIM0 = "one-shot-expansion:max_dim<=0:edges-kept"


# ------------------------------------------------------------------------------------------------ generators
def gen_labels(rng, n, contig):
    if contig or rng.random() < 0.3:
        return list(range(n))
    mode = rng.random()
    if mode < 0.6:
        pool = [x for x in range(-7, 16) if x != -1]
    elif mode < 0.85:
        pool = [-2**31 + 1, -1000, -5, -2, 0, 1, 2, 3, 7, 8, 100, 65536, 2**30, 2**31 - 2, 2**31 - 1]
    else:
        pool = [x for x in range(-40, 60, 3) if x != -1]
    return sorted(rng.sample(pool, n))


def gen_graph(rng, contig=False, zero=False, nmax=9, mono=None):
    """returns (verts [(x,w)], edges [(u,v,w)]) ; vertices in random order, edges in random order and orientation"""
    n = rng.choice([0, 1, 2, 3, 4, 4, 5, 5, 6, 6, 7, 7, 8, 9][:nmax + 5])
    n = min(n, nmax)
    labs = gen_labels(rng, n, contig)
    p = rng.choice([0.0, 0.2, 0.4, 0.6, 0.8, 0.9, 1.0])
    wmode = rng.choice(["ties", "ties", "wide", "neg", "const"])
    if mono is None:
        mono = rng.random() < 0.7

    def w():
        if zero:
            return 0
        if wmode == "ties":
            return rng.randint(0, 3)
        if wmode == "wide":
            return rng.randint(0, 1000)
        if wmode == "neg":
            return rng.randint(-6, 6)
        return 2
    verts = [(x, w()) for x in labs]
    vv = dict(verts)
    edges = []
    for i in range(n):
        for j in range(i + 1, n):
            if rng.random() < p:
                a, b = labs[i], labs[j]
                x = w()
                if mono:
                    x = max(x, vv[a], vv[b])
                if rng.random() < 0.5:
                    a, b = b, a
                edges.append((a, b, x))
    rng.shuffle(verts)
    rng.shuffle(edges)
    if edges and rng.random() < 0.08:          # a parallel edge (the first one counts)
        a, b, x = rng.choice(edges)
        edges.append((b, a, x if zero else x + rng.randint(-1, 2)))
    return verts, edges


def graph_line(verts, edges):
    return ("graph " + " ".join("%d:%d" % v for v in verts) + " | " + " ".join("%d,%d:%d" % e for e in edges)).strip()


def gen_blocker(rng, zero=False):
    r = rng.random()
    if r < 0.2:
        return "none"
    if r < 0.45:
        return "dimge %d" % rng.choice([2, 2, 3, 3, 4, 5])
    if r < 0.7:
        return "val %d" % (rng.choice([-1, 0]) if zero else rng.choice([-3, 0, 1, 1, 2, 2, 3, 10, 500]))
    m = rng.choice([2, 2, 3, 3, 4, 5, 7])
    return "hash %d %d" % (m, rng.randrange(m))


def edge_orders(rng, verts, edges, contig, norders):
    """lists of ('v', x, w) / ('e', u, v, w): first the filtration order (when the graph is monotone), then random admissible orders"""
    seen = set()
    es = []
    for (a, b, w) in edges:                     # no edge twice
        k = (min(a, b), max(a, b))
        if k not in seen:
            seen.add(k)
            es.append((a, b, w))
    vv = dict(verts)
    out = []
    mono = all(vv[a] <= w and vv[b] <= w for (a, b, w) in es)
    vs = sorted(verts) if contig else list(verts)
    if mono and not contig:
        items = [("v", x, w) for (x, w) in vs] + [("e", a, b, w) for (a, b, w) in es]
        rng.shuffle(items)
        items.sort(key=lambda t: (t[-1], t[0] == "e"))
        out.append(("inorder", items))
    elif mono and contig and all(w == verts[0][1] for (_, w) in verts) and all(w >= verts[0][1] for (_, _, w) in es):
        items = [("v", x, w) for (x, w) in vs] + sorted([("e", a, b, w) for (a, b, w) in es], key=lambda t: t[-1])
        out.append(("inorder", items))
    for _ in range(norders):
        if contig:
            e2 = list(es)
            rng.shuffle(e2)
            items = [("v", x, w) for (x, w) in vs] + [("e", a, b, w) for (a, b, w) in e2]
        else:
            # random order in which every edge comes after its end points
            pend = [("v", x, w) for (x, w) in vs] + [("e", a, b, w) for (a, b, w) in es]
            rng.shuffle(pend)
            done = set()
            items = []
            while pend:
                for i, t in enumerate(pend):
                    if t[0] == "v" or (t[1] in done and t[2] in done):
                        items.append(t)
                        if t[0] == "v":
                            done.add(t[1])
                        pend.pop(i)
                        break
            if vs and rng.random() < 0.2:       # a vertex inserted a second time (no effect, nothing reported)
                x, w = rng.choice(vs)
                items.insert(rng.randrange(len(items) // 2, len(items) + 1), ("v", x, w + 1))
        out.append(("random", items))
    return out


def edge_ops(items, d):
    ops = []
    for t in items:
        if t[0] == "v":
            ops.append("vtx %d %d %d" % (t[1], t[2], d))
        else:
            ops.append("edge %d %d %d %d" % (t[1], t[2], t[3], d))
    return ops


def gen_rips(rng, zero=False):
    d = rng.choice([0, 1, 1, 2, 2, 3, 3, 4, 5, 6])
    n = rng.choice([0, 1, 2, 3, 4, 5, 6, 7, 8])
    if zero:
        rows = [" ".join("0" for _ in range(i)) for i in range(n)]
        return "ripsm %d %d | %s" % (d, rng.choice([0, 0, 3]), " ; ".join(rows))
    if rng.random() < 0.5:
        dim = rng.choice([1, 2, 2, 3])
        c = rng.choice([2, 4, 6])
        pts = [[rng.randint(0, c) for _ in range(dim)] for _ in range(n)]
        d2 = sorted({sum((a - b) ** 2 for a, b in zip(p, q)) for p in pts for q in pts}) or [0]
        thr = rng.choice(d2 + [d2[-1] + 1, 0])
        return "ripsp %d %d | %s" % (d, thr, " ".join(",".join(map(str, p)) for p in pts))
    hi = rng.choice([2, 4, 9])
    rows = [" ".join(str(rng.randint(0, hi)) for _ in range(i)) for i in range(n)]
    return "ripsm %d %d | %s" % (d, rng.randint(0, hi), " ; ".join(rows))


def gen_cases(rng, tier, k):
    """cases for option set k: list of (ops, origin)"""
    thorough = tier == "thorough"
    contig = k in CONTIG
    zero = k == 2
    cases = []
    ng = 3000 if thorough else 220
    for _ in range(ng):                          # one-shot expansion
        v, e = gen_graph(rng, contig, zero)
        d = rng.choice([0, 1, 2, 2, 3, 3, 4, 5, 6, 6])
        cases.append(([graph_line(v, e), ("reexp %d" if rng.random() < 0.25 else "exp %d") % d], "expansion"))
    for _ in range(ng):                          # blockers
        v, e = gen_graph(rng, contig, zero)
        d = rng.choice([0, 1, 2, 2, 3, 3, 4, 5, 6, 6])
        cases.append(([graph_line(v, e), "blk %d %s" % (d, gen_blocker(rng, zero))], "blockers"))
    for _ in range(ng // 2):                     # Rips
        cases.append(([gen_rips(rng, zero)], "rips"))
    if k in LINKED:
        for _ in range(500 if thorough else 40):
            v, e = gen_graph(rng, contig, zero, nmax=8)
            d = rng.choice([-1, 0, 1, 2, 2, 3, 3, 4, 6])
            for name, items in edge_orders(rng, v, e, contig, 6):
                ops = edge_ops(items, d)
                if name == "inorder":
                    cases.append((ops + ["chk %d" % d], "edges:filtration-order"))
                else:
                    cases.append((ops + ["mfnd", "chk %d" % d], "edges:random-order+mfnd"))
        # mixed route: part of the graph in one shot (insert_graph + expansion), the remaining edges one by one afterwards
        # (the node lists by label must know the simplices the one-shot expansion created)
        for _ in range(500 if thorough else 60):
            v, e = gen_graph(rng, contig, zero, nmax=8, mono=True)
            seen, es = set(), []
            for (a, b, w) in e:
                kk = (min(a, b), max(a, b))
                if kk not in seen:
                    seen.add(kk)
                    es.append((a, b, w))
            if len(es) < 2:
                continue
            d = rng.choice([2, 2, 3, 3, 4, 6])
            # within the domain of insert_edge_as_flag: the earlier part is already the flag complex of dimension d and the
            # remaining edges come in non-decreasing order of their values
            es.sort(key=lambda t: t[2])
            cut = rng.randint(1, len(es) - 1)
            first, rest = es[:cut], es[cut:]
            d1 = d
            ops = [graph_line(v, first), "exp %d" % d1] + ["edge %d %d %d %d" % (a, b, w, d) for (a, b, w) in rest]
            cases.append((ops + ["mfnd", "chk %d" % d], "mixed:one-shot-then-edges"))
    return cases


def boundary_cases(k):
    """fixed cases aimed at the case splits (run under every option set that supports them)"""
    contig = k in CONTIG
    zero = k == 2
    z = (lambda w: 0) if zero else (lambda w: w)
    out = []
    K5 = [(i, j, z(i + j)) for i in range(5) for j in range(i + 1, 5)]
    V5 = [(i, 0) for i in range(5)]
    for d in (0, 1, 2, 3, 4, 5, 7):
        out.append(([graph_line(V5, K5), "exp %d" % d], "boundary"))
        out.append(([graph_line(V5, K5), "blk %d none" % d], "boundary"))
        out.append(([graph_line(V5, K5), "blk %d dimge 3" % d], "boundary"))
        out.append(([graph_line(V5, []), "exp %d" % d], "boundary"))
        out.append((["exp %d" % d], "boundary"))                       # empty tree
        out.append((["blk %d none" % d], "boundary"))
        out.append((["graph  | ", "exp %d" % d], "boundary"))
    out.append(([graph_line(V5, K5), "blk 4 hash 1 0"], "boundary"))      # everything blocked
    out.append(([graph_line(V5, K5 + [(3, 3, 0)]), "exp 2"], "boundary"))  # self-loop: invalid_argument
    # vertex value above its edges (not a filtration): the expansion takes edge values only
    if not zero:
        out.append(([graph_line([(0, 9), (1, 0), (2, 0)], [(0, 1, 1), (1, 2, 2), (0, 2, 3)]), "exp 2"], "boundary"))
        out.append(([graph_line([(0, 9), (1, 0), (2, 0)], [(0, 1, 1), (1, 2, 2), (0, 2, 3)]), "blk 2 none"], "boundary"))
    if not contig and not zero:
        out.append(([graph_line([(7, 1), (-3, 0), (2, 0), (100, 0)], [(7, -3, 2), (2, 7, 2), (-3, 2, 5), (100, 2, 1), (100, 7, 1), (-3, 100, 4)]), "exp 3"], "boundary"))
    if k in LINKED:
        for d in (-1, 0, 1, 2, 3, 4):
            ops = ["vtx %d 0 %d" % (i, d) for i in range(5)] + ["edge %d %d %d %d" % (i, j, z(w), d) for (i, j, w) in sorted(K5, key=lambda t: t[2])]
            out.append((ops + ["chk %d" % d], "boundary"))
            ops = ["vtx %d 0 %d" % (i, d) for i in range(5)] + ["edge %d %d %d %d" % (j, i, z(w), d) for (i, j, w) in reversed(K5)]
            out.append((ops + ["mfnd", "chk %d" % d], "boundary"))
    return out


# ------------------------------------------------------------------------------------------------ running and comparing
def fields(line):
    """'ret k=v k=v' -> dict"""
    w = line.split()
    d = {"ret": w[0] if w else ""}
    for x in w[1:]:
        if "=" in x:
            a, b = x.split("=", 1)
            d[a] = b
    return d


def simplices(s):
    """'1,2:3;4:0' -> {(1,2): '3', (4,): '0'}"""
    if s in (None, "-", ""):
        return {}
    out = {}
    for it in s.split(";"):
        a, _, b = it.partition(":")
        out[tuple(int(x) for x in a.split(","))] = b
    return out


def run_both(drv, orc, cases):
    groups = [("G 1", list(ops)) for ops in cases]
    obs = core.run_grouped_parallel(drv, groups, nchunks=4)
    # "reexp d" (expand, remove the simplices of dimension >= 2 again, expand) must give what "exp d" gives: the model is asked "exp d"
    ogroups = [(h, [("exp" + l[5:]) if l.startswith("reexp ") else l for l in ops]) for (h, ops) in groups]
    exp = core.run_grouped_parallel(orc, ogroups, nchunks=4)
    return [(o[1], e[1]) for o, e in zip(obs, exp)]


def opname(line):
    w = line.split()
    return {"graph": "insert_graph", "exp": "expansion", "reexp": "expansion (after removals)", "blk": "expansion_with_blockers", "vtx": "insert_edge_as_flag(vertex)",
            "edge": "insert_edge_as_flag(edge)", "mfnd": "make_filtration_non_decreasing", "chk": "final-state",
            "ripsp": "Rips_complex(points)", "ripsm": "Rips_complex(matrix)"}.get(w[0] if w else "", "?")


def first_violation(ops, cpp, orc, res=None):
    """(index, kind, what, expected, observed) of the first disagreement of one case, or None"""
    prev = {}
    has_edges = False
    for i, (line, a, b) in enumerate(zip(ops, cpp, orc)):
        opn = opname(line)
        w = line.split()
        if a.startswith("CRASH") or a.startswith("DIED"):
            return (i, "crash:" + opn, "the implementation crashed (%s) in %s" % (a.split()[0], line), "no crash", a[:80])
        segs = b.split(" || ")
        if len(segs) != 3 or segs[0].startswith("ORACLE-ERROR") or segs[0].startswith("?"):
            return (i, "protocol", "oracle could not answer %r: %r" % (line, b[:100]), "-", b[:100])
        model, spec, notes = segs
        ca = fields(a)
        if a.startswith("EXC") or model.startswith("EXC"):
            if a.split()[:2] != model.split()[:2]:
                return (i, "exception:" + opn, "exception behaviour differs in %s" % line, model[:60], a[:60])
            if res is not None:
                res.count("exception:invalid_argument (self-loop)")
                res.evaluations += 1
            return None                                   # the state after the exception is unspecified: case ends
        if a == "unsupported":
            return (i, "protocol", "operation not supported by this option set: " + line, "-", a)
        cs = simplices(ca.get("S"))
        if w[0] == "graph":
            has_edges = any(len(s) == 2 for s in cs)
        if w[0] in ("ripsp", "ripsm"):
            has_edges = any(len(s) == 2 for s in cs)
        # ---- the property: against the specification
        if spec != "-":
            sp = fields("x " + spec)
            ss = simplices(sp.get("S"))
            if cs != ss or ca.get("dim") != sp.get("dim"):
                d = int(w[1]) if w[0] in ("exp", "reexp", "blk", "ripsp", "ripsm") else None
                if d is not None and d <= 0 and has_edges and a == model:
                    kind = KIND_DIM0
                    what = ("%s with max_dim = %d leaves the edges of the graph in the complex (the clique complex of dimension <= 0 has vertices only)" % (opn, d))
                else:
                    missing = sorted(set(ss) - set(cs))[:3]
                    extra = sorted(set(cs) - set(ss))[:3]
                    wrongv = sorted(s for s in cs if s in ss and cs[s] != ss[s])[:3]
                    f = "simplices" if (missing or extra) else ("values" if wrongv else "dimension")
                    kind = "spec:%s:%s" % (opn, f)
                    what = "%s: result differs from the specification (%s; missing %s extra %s wrong values %s; dimension() %s vs %s) after %s" % (
                        opn, f, missing, extra, [(s, cs[s], ss[s]) for s in wrongv], ca.get("dim"), sp.get("dim"), line[:200])
                return (i, kind, what, spec[:300], ("dim=%s S=%s" % (ca.get("dim"), ca.get("S")))[:300])
            if res is not None:
                res.count("spec-evaluated:" + opn)
        # ---- added_simplices = difference of consecutive dumps (of the implementation itself)
        if w[0] in ("vtx", "edge"):
            added = [] if ca.get("A") in (None, "-") else [tuple(int(x) for x in t.split(",")) for t in ca["A"].split(";")]
            diff = sorted(set(cs) - set(prev))
            if sorted(added) != diff:
                return (i, "added_simplices:" + opn, "added_simplices is not the set of new simplices after %s" % line, str(diff)[:300], str(sorted(added))[:300])
            if res is not None:
                res.count("added_simplices:%s" % ("none" if not diff else "one" if len(diff) == 1 else "several"))
        # ---- against the algorithm model (whole line: dimension, counters, every simplex with value, A, B)
        if a != model:
            ma = fields(model)
            f = next((x for x in ("ret", "dim", "ub", "nv", "n", "S", "A", "B") if ca.get(x) != ma.get(x)), "?")
            return (i, "model:%s:%s" % (opn, f), "%s no longer matches its algorithm model (field %s after %s); the specification %s" % (
                opn, f, line[:200], "still holds" if spec != "-" else "is not evaluated at this step"), model[:300], a[:300])
        if ca.get("dim") != ca.get("ub"):
            return (i, "dimension:upper-bound-differs", "dimension() and upper_bound_dimension() differ after " + line[:100], ca.get("dim"), ca.get("ub"))
        prev = cs
        if res is not None:
            res.evaluations += 1
            res.traces_validated += 1
            res.count("op:" + opn)
            if w[0] in ("exp", "reexp", "blk", "ripsp", "ripsm", "chk"):
                res.count("result-dimension:%s" % ca.get("dim"))
                res.count("max_dim:%s" % w[1])
            if w[0] == "blk":
                res.count("blocker:" + w[2])
                if ca.get("B") not in (None, "-"):
                    res.count("blocker:called")
            if "inorder=" in notes and w[0] == "edge":
                res.count("edge-step:" + ("in filtration order so far" if "inorder=1" in notes else "out of order"))
    return None


def shrink(drv, orc, ops, kind, budget=80):
    """greedy: drop operations, then edges / vertices of a graph line, keeping a violation of the same kind"""
    def fails(cand):
        (c, o), = run_both(drv, orc, [cand])
        v = first_violation(cand, c, o)
        return v if (v and v[1] == kind) else None
    cur = list(ops)
    changed = True
    while changed and budget > 0:
        changed = False
        for j in range(len(cur) - 1, -1, -1):              # drop whole operations (oracle marks inadmissible histories: okhist=0 -> no spec)
            if len(cur) <= 1:
                break
            cand = cur[:j] + cur[j + 1:]
            budget -= 1
            v = fails(cand)
            if v:
                cur = cand[:v[0] + 1]
                changed = True
                break
            if budget <= 0:
                break
        if changed:
            continue
        for j, line in enumerate(cur):                      # drop edges / isolated vertices of graph lines
            if not line.startswith("graph "):
                continue
            vs, _, es = line[6:].partition("|")
            vs, es = vs.split(), es.split()
            for t in range(len(es) + len(vs) - 1, -1, -1):
                if t >= len(es):
                    x = vs[t - len(es)].split(":")[0]
                    if any(x in e.split(":")[0].split(",") for e in es):
                        continue
                    nv, ne = vs[:t - len(es)] + vs[t - len(es) + 1:], es
                else:
                    nv, ne = vs, es[:t] + es[t + 1:]
                cand = cur[:j] + [("graph " + " ".join(nv) + " | " + " ".join(ne)).strip()] + cur[j + 1:]
                budget -= 1
                if fails(cand):
                    cur = cand
                    changed = True
                    break
                if budget <= 0:
                    break
            if changed or budget <= 0:
                break
    return cur


def check(ctx, replay=None):
    res = core.Result()
    if not getattr(ctx, "skip_proof", False):
        ctx.prove(["Extract_C04.vo"])
    ks = sorted(OPTSETS)
    drvs = {}
    for batch in (ks[:4], ks[4:]):
        d = ctx.build_many([("c04_drv.cpp", "o%d" % k, ["-DOPTSET=%d" % k] + core.release_flags("c04o%d" % k)) for k in batch])
        drvs.update({k: d["o%d" % k] for k in batch})
    orc = ctx.build_oracle("c04")
    allcases = []     # (k, ops, origin)
    if replay:
        allcases.append((replay["case"]["optset"], replay["case"]["ops"], "replay"))
    else:
        cdir = os.path.join(core.ROOT, "corpus", "C04")
        if os.path.isdir(cdir):
            for f in sorted(os.listdir(cdir)):
                if f.endswith(".json"):
                    c = json.load(open(os.path.join(cdir, f)))
                    for k in c.get("optsets", ks):
                        allcases.append((k, c["ops"], "corpus"))
        for k in ks:
            rng = random.Random(ctx.seed * 1000003 + zlib.crc32(("C04/" + OPTSETS[k]).encode()))
            for ops, origin in boundary_cases(k) + gen_cases(rng, ctx.tier, k):
                allcases.append((k, ops, origin))
    seen_kinds = {}
    for k in ks:
        mine = [(ops, origin) for (kk, ops, origin) in allcases if kk == k]
        if not mine:
            continue
        out = run_both(drvs[k], orc, [ops for ops, _ in mine])
        for (ops, origin), (c, o) in zip(mine, out):
            res.count("optset:" + OPTSETS[k])
            res.count("origin:" + origin)
            g = next((l for l in ops if l.startswith("graph ")), None)
            if g is not None:
                vs, _, es = g[6:].partition("|")
                res.count("graph-vertices:%d" % len(vs.split()))
                res.count("graph-edge-density:%s" % ("none" if not es.split() else "complete" if len(es.split()) >= len(vs.split()) * (len(vs.split()) - 1) // 2 else "partial"))
            if len(ops) > 1 or ops[0].startswith("rips"):
                res.distinct.add((k, tuple(ops)))
            v = first_violation(ops, c, o, res)
            if v:
                i, kind, what, exp, obsd = v
                seen_kinds.setdefault((kind if kind == KIND_DIM0 else OPTSETS[k] + ":" + kind), []).append((k, ops[:i + 1], kind, what, exp, obsd))
    for key, lst in seen_kinds.items():
        lst.sort(key=lambda t: (len(t[1]), len(" ".join(t[1]))))
        k, ops, kind, what, exp, obsd = lst[0]
        if not replay and kind != KIND_DIM0:
            small = shrink(drvs[k], orc, ops, kind)
            (c, o), = run_both(drvs[k], orc, [small])
            v = first_violation(small, c, o)
            if v and v[1] == kind:
                ops, what, exp, obsd = small[:v[0] + 1], v[2], v[3], v[4]
        for _ in lst:
            res.violation(key, "[%s] %s" % (OPTSETS[k], what), {"optset": k, "optset_name": OPTSETS[k], "ops": ops}, expected=exp, observed=obsd)
    res.rule = ("one case = (option set, operation list: a weighted graph + one expansion / blocker expansion, a Rips construction, or a whole "
                "edge-by-edge history); distinct = distinct (option set, operation list); after each operation the full dump (every simplex with "
                "value, dimension(), upper_bound_dimension(), counters), added_simplices and the blocker log are compared with the algorithm "
                "model and, where the property speaks, with the specification; evaluations = operations compared")
    res.exhaustive = False
    rs = [c for c in allcases if c[2] not in ("boundary", "corpus")] or allcases
    step = max(1, len(rs) // 6)
    res.samples = [{"optset": OPTSETS[k], "ops": [o[:160] for o in ops[:8]]} for (k, ops, _) in rs[::step][:6]]
    return core.finish(ctx, None, res, TRUSTED, ASSUMPTIONS, LEVEL,
                       "cd /verif/coq && make -f Makefile.coq Properties_C04.vo  (coqc 8.16.1; Print Assumptions after every theorem)",
                       correspondence_name=CORRESPONDENCE)
