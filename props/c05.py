"""C05 - every persistence-matrix flavour computes the same, correct barcode."""
import zlib
from vlib import core
from props import pm_common as pm

LEVEL = "proof"
MANIFEST = dict(
    cat="proof", tech="Coq: pairing uniqueness + reduction-loop invariant + verified checkers, applied to the implementation's exposed state after every operation (R compared exactly with the algorithm model)",
    text="Coq theorems, for every prime p and every size: the pivot pairing of a boundary matrix is unique over all reduced matrices reachable "
         "by upper-triangular column operations (C05_pairing_unique), and the executable checker check_any only accepts such decompositions "
         "(C05_check_RU_sound), so every accepted state exposes the certified canonical barcode (C05_certified_lows_canonical), which on a chain "
         "complex is a partition of the cells - no cell is in two bars (C05_barcode_is_a_partition, C05_certified_pairs_disjoint); the insertion "
         "loop itself is modelled (C05_ru_insert_inv: each step keeps the decomposition and lowers the low, the loop is total and leaves the "
         "first j+1 columns reduced) and, as long as no swap happened, the implementation's R is compared exactly with the model's. The C++ is tied "
         "by running, for a grid of Matrix<Options> instantiations (9 column types x boundary/RU/chain x 3 indexings x row access x removable x "
         "Z2/Zp), random filtered cell complexes (simplicial, cubical, CW with torsion) through insert_boundary/remove_last histories and "
         "validating R, U / the chain basis, pivots, dimensions and the barcode with the extracted checkers after every step.",
    note="Trusted: Coq kernel, extraction + OCaml driver, harness/pm_drv.cpp, g++. The matrix algorithms themselves are not modelled: the theorems "
         "quantify over all matrices, the runs show the implementation's states satisfy their hypotheses on the generated histories. "
         "Un-formalised mathematics: pivot pairing = interval decomposition.",
    ref="DESIGN.md section 4 C05")
CORRESPONDENCE = "verified checkers of coq/ReduceExec.v (extracted, ocaml/pm_oracle.ml) applied to what harness/pm_drv.cpp reads from Matrix<Options>"
TRUSTED = [
    "Coq 8.16.1 kernel (coqc, full .vo build); vm_compute only in Examples",
    "extraction (ExtrOcamlBasic only) + OCaml 4.13.1 + ocaml/prelude.ml + ocaml/pm_oracle.ml (parsing, id->position translation, calling the checkers)",
    "harness/pm_drv.cpp (reads the matrix through its public API, keeps the filtration order as plain bookkeeping), g++ 12.2",
    "mathematics not formalised: the pivot pairing of a reduced boundary matrix is the interval decomposition of persistent homology",
]
ASSUMPTIONS = [
    "the matrix implementation itself is not modelled: every exposed state is validated by the verified checker (check_RU / check_any) "
    "and the barcode by the certified reference reduction; the theorems quantify over all matrices, the runs show that the implementation's "
    "states satisfy their hypotheses on the generated histories",
]
PRIMES = [2, 3, 5, 7, 11, 13, 65521]


def scripts_for_factory(ctx, ncases):
    def scripts_for(cfg):
        rng = ctx.rng.__class__(ctx.seed * 7919 + zlib.crc32(cfg.tag.encode()) % 100000)
        out = []
        for i in range(ncases):
            cx = pm.random_complex(rng, dense=0.08)
            # 65521 rarely: its inverse table costs O(p^2) (about 3 s of CPU per matrix)
            p = 2 if cfg.z2 else (65521 if rng.random() < 0.03 else rng.choice([3, 5, 7, 11, 13, 251, 3, 5]))
            name = "%s#%d(%s,p=%d)" % (cfg.tag, i, cx.desc, p)
            out.append((name, pm.script_c05(rng, cx, cfg, p, name)))
        return out
    return scripts_for


def check(ctx, replay=None):
    res = core.Result()
    if not getattr(ctx, "skip_proof", False):
        ctx.prove(["Extract_PM.vo"])
    if replay:
        pm.replay_case(ctx, res, replay)
    else:
        cfgs = pm.grid_c05(ctx.rng, ctx.tier)
        ncases = 60 if ctx.tier == "quick" else 300
        pm.run_cases(ctx, res, cfgs, scripts_for_factory(ctx, ncases))
        res.extra["instantiations"] = [c.tag for c in cfgs]
    res.rule = ("one case = (Matrix option set, filtered cell complex [random simplicial / cubical / CW with torsion], identifiers, prime, "
                "script of insert_boundary / remove_last / re-insertion with a full dump after most steps); distinct = distinct (options, script); "
                "non-trivial = every script inserts at least one cell and is validated by the checkers at every DUMP")
    res.samples = [{"options": t, "script": list(s)[:12]} for (t, s) in list(res.distinct)[:3]]
    return core.finish(ctx, None, res, TRUSTED, ASSUMPTIONS, LEVEL,
                       "cd /verif/coq && make -f Makefile.coq Properties_C05.vo", correspondence_name=CORRESPONDENCE)
