"""C06 - vineyard swaps and cell removals leave the matrix as if rebuilt from scratch."""
import zlib
from vlib import core
from props import pm_common as pm
from props import c05

LEVEL = "proof"
MANIFEST = dict(
    cat="proof", tech="Coq-verified checkers applied after every vine swap / removal: state must be a valid decomposition of the CURRENT order",
    text="'As if rebuilt from scratch' is decided through the checker theorems (C06_check_RU_sound, C06_certified_lows_canonical, "
         "C06_pairing_unique; all primes, all sizes; plus the transposition theorems C06_vine_swap_*): after every vine_swap / vine_swap_with_z_eq_1_case / remove_maximal_cell / remove_last / "
         "re-insertion of random walks over admissible orders, the exposed (R,U) or chain basis must be accepted by the verified checker for "
         "the boundary matrix of the current order, the barcode must be the certified canonical pairing of that order, and the returned "
         "boolean must equal whether the barcode changed; later operations are checked the same way on the continued history.",
    note="Trusted: as C05. The vineyard case analysis is proved at the level of R (coq/VineSwap.v: C06_vine_swap_complete - preparation, exchange, "
         "recombination of columns i and i+1, interacting columns; every swap ends in a reduced decomposition of the new order); U/V as matrices, "
         "the stored barcode, lazily swapped rows and the identifier/position maps are not modelled: every reachable state of the runs is "
         "certified by the verified checker instead. Four recorded known findings (identifier conventions of RU vine updates, chain insertion after "
         "swaps) are excluded by situation predicates.",
    ref="DESIGN.md section 4 C06")
CORRESPONDENCE = c05.CORRESPONDENCE
TRUSTED = c05.TRUSTED
ASSUMPTIONS = c05.ASSUMPTIONS + [
    "'as if rebuilt from scratch' is decided through the checker theorem: after every step the exposed (R, U) resp. chain basis must be a "
    "valid decomposition of the boundary matrix of the *current* order and the barcode must be the canonical pairing of that order, which is "
    "what a fresh build satisfies; later operations are then checked the same way on the continued history",
]


def scripts_for_factory(ctx, ncases, steps):
    def scripts_for(cfg):
        rng = ctx.rng.__class__(ctx.seed * 104729 + zlib.crc32(cfg.tag.encode()) % 100000)
        out = []
        for i in range(ncases):
            cx = pm.random_complex(rng, maxcells=14)
            name = "%s#%d(%s)" % (cfg.tag, i, cx.desc)
            out.append((name, pm.script_walk(rng, cx, cfg, name, rng.randint(5, steps))))
        return out
    return scripts_for


def check(ctx, replay=None):
    res = core.Result()
    if not getattr(ctx, "skip_proof", False):
        ctx.prove(["Extract_PM.vo"])
    if replay:
        pm.replay_case(ctx, res, replay)
    else:
        cfgs = pm.grid_vine(ctx.rng, ctx.tier)
        pm.run_cases(ctx, res, cfgs, scripts_for_factory(ctx, 90 if ctx.tier == "quick" else 400, 45 if ctx.tier == "quick" else 70), per_case=True)
        res.extra["instantiations"] = [c.tag for c in cfgs]
    res.rule = ("one case = (Matrix option set with vine updates, filtered cell complex of <= 14 cells, random walk of vine_swap / "
                "vine_swap_with_z_eq_1_case / remove_maximal_cell / remove_last / re-insertion, full dump and validation after every step); "
                "distinct = distinct (options, script)")
    res.samples = [{"options": t, "script": list(s)[:30]} for (t, s) in list(res.distinct)[:3]]
    return core.finish(ctx, None, res, TRUSTED, ASSUMPTIONS, LEVEL,
                       "cd /verif/coq && make -f Makefile.coq Properties_C06.vo", correspondence_name=CORRESPONDENCE)
