"""C07 - zigzag persistence outputs the interval decomposition of the zigzag module (index level and filtered front-ends)."""
import itertools, json, os
from vlib import core

LEVEL = "other"
EXPLANATION = (
    "partial proof + differential exploration.  Proved in Coq (unbounded): soundness of the Z_2 Gaussian elimination the "
    "specification runs on, that its relation sweep computes exactly the composed relation (with cycle representatives), 'bars alive at i = r(i,i) = Betti number of K_i', "
    "transparency of identity arrows, the insertion-only clause end to end (on insertion-only sequences the specification's "
    "barcode is the certified ordinary persistence pairing: pairing theorem + bridge to coq/ReduceExec.v), the "
    "index->value translation / zero-length / ignored-dimension clauses of the filtered front-ends as functions of the index "
    "barcode (incl.: skipping the cells above ignore_cycles_above_dim leaves the bars of the reported dimensions unchanged).  NOT proved: (1) that the "
    "numbers r_k(b,e) = dim dom - dim ker of the composed inclusion relation H_k(K_b) ~> H_k(K_e) determine the interval "
    "decomposition (Gabriel / Carlsson-de Silva; equals the generalised rank of Kim-Memoli, Dey-Kim-Memoli) - literature; "
    "(2) anything about the reflection-diamond / transposition algorithm of zigzag_persistence.h, which is not modelled: the "
    "C++ is compared with the executable specification per input on generated zigzag sequences, for all 8 column types, "
    "after every arrow.  The specification itself was cross-validated against two independent Python implementations "
    "(right-filtration algorithm and lim->colim ranks from the definition; tools/c07_xval.py).")
MANIFEST = dict(
    cat="other",
    tech="executable Gallina specification of the zigzag barcode (ranks of composed inclusion relations by verified Z_2 Gaussian "
         "elimination) + Coq theorems about the specification and the front-ends + differential exploration of the C++ against it",
    text="The diamond/transposition algorithm is not modelled.  An executable specification computes, for every dimension k and "
         "0<=b<=e<n, r_k(b,e) = dim dom - dim ker of the relation H_k(K_b) ~> H_k(K_e) composed from the inclusions, and the "
         "multiplicities by inclusion-exclusion; Coq proves the elimination sound (echelon basis spans the same space, is "
         "independent, rank invariant under change of spanning set), that the number of bars alive at arrow i in dimension k is the "
         "Betti number of K_i (valid sequences), that identity arrows carry no birth or death, that on insertion-only sequences the "
         "specification equals the certified ordinary persistence pairing, and that the filtered front-ends' "
         "translation / zero-length removal / ignore_cycles_above_dim are the stated functions of the index barcode (skipping the high "
         "cells does not change the reported dimensions).  "
         "Zigzag_persistence, Filtered_zigzag_persistence and Filtered_zigzag_persistence_with_storage are run on random valid "
         "zigzag sequences (simplicial <= 6 vertices, cubical, general cells with explicit boundaries, arbitrary keys, key re-use, "
         "identity arrows, monotone values with plateaus) for all 8 column types and compared after EVERY arrow with the "
         "specification; metamorphic: insertion-only = persistence-matrix barcode (C05), reversal mirrors the intervals.",
    note="Trusted: Coq kernel, extraction + OCaml driver, harness, g++; literature theorem 'relation ranks (generalised ranks) "
         "determine the interval decomposition of a zigzag module'; non-negativity of the multiplicities in general is checked "
         "per case, not proved.  The algorithm of zigzag_persistence.h is compared, never proved.",
    ref="design/C07.md")
CORRESPONDENCE = ("coq/C07_Model.v specification (extracted: ocaml/c07_oracle.ml) vs harness/c07_drv.cpp: streamed intervals, open intervals, "
                  "index / value diagrams and index->value table after every arrow, 8 column types x 3 classes")
TRUSTED = [
    "Coq 8.16.1 kernel (coqc, full .vo build)",
    "extraction (ExtrOcamlBasic only) + OCaml 4.13.1 + ocaml/prelude.ml, ocaml/c07_oracle.ml (parsing, printing, memo table)",
    "un-formalised mathematics: a zigzag module is a direct sum of interval modules and the number of summands covering [b,e] "
    "equals dim dom - dim ker of the composed relation V_b ~> V_e (Gabriel; Carlsson & de Silva, Zigzag persistence, FoCM 2010), "
    "equivalently the generalised rank rank(lim -> colim) (Kim & Memoli 2021; Dey, Kim & Memoli 2022); multiplicities by inclusion-exclusion",
    "that 'related through a family of cycle representatives' (coq/C07_Rel.v, proved to be what the sweep computes) is 'related by the "
    "maps induced on homology by the inclusions and their converses' - the definition of the induced map, not formalised; the whole "
    "specification is additionally cross-validated by tools/c07_xval.py (two independent Python implementations) inside every run",
    "hand-written models of the filtered front-ends (coq/C07_Model.v), tied to the C++ by the differential run",
    "harness/c07_drv.cpp, g++ 12.2, Boost; the generators and the shrinker of props/c07.py",
]
ASSUMPTIONS = [
    "coefficients Z_2 (the only field Zigzag_persistence offers)",
    "every sequence is valid: boundary cells present and of dimension dim-1, boundary of boundary zero, removed cells present and maximal",
    "filtration values are integers (exact in double), monotone along the arrows",
    "Internal_key = Cell_key = Dimension = int (Default options); keys within int range",
]

COLS = ["LIST", "SET", "VECTOR", "NAIVE_VECTOR", "SMALL_VECTOR", "UNORDERED_SET", "INTRUSIVE_LIST", "INTRUSIVE_SET"]


# ------------------------------------------------------------------------------------------------ generators
class Keys:
    def __init__(self, rng):
        self.rng = rng
        self.policy = rng.choice(["seq", "seq", "rand", "rand", "reuse", "neg", "big"])
        self.used = set()
        self.next = rng.choice([0, 0, 1, 100])
        self.last_key = {}

    def fresh(self, cell):
        rng = self.rng
        if self.policy == "reuse" and cell in self.last_key and rng.random() < 0.7:
            return self.last_key[cell]          # same key again after removal: handleToKey_ was erased
        while True:
            if self.policy in ("seq", "reuse"):
                k = self.next
                self.next += 1
            elif self.policy == "neg":
                k = -self.next - 1
                self.next += rng.choice([1, 1, 3])
            elif self.policy == "big":
                k = rng.choice([2**31 - 1, -2**31, 2**30, 65536, -65537, 2**31 - 2]) if rng.random() < 0.3 else rng.randrange(-2**31, 2**31)
            else:
                k = rng.randrange(-1000, 1000)
            if k not in self.used:
                self.used.add(k)
                self.last_key[cell] = k
                return k


class Fv:
    def __init__(self, rng):
        self.rng = rng
        self.mode = rng.choice(["inc", "inc", "dec", "const", "step"])
        self.v = rng.choice([0, 0, -5, 3, 1000])

    def next(self):
        rng = self.rng
        if self.mode == "inc":
            self.v += rng.choice([0, 0, 1, 1, 2, 7])
        elif self.mode == "dec":
            self.v -= rng.choice([0, 0, 1, 1, 2, 7])
        elif self.mode == "step":
            self.v += rng.choice([0, 0, 0, 0, 5])
        return self.v


def simplicial_universe(nv, maxdim):
    cells = []
    for k in range(1, maxdim + 2):
        cells += [frozenset(c) for c in itertools.combinations(range(nv), k)]
    faces = {c: [c - {v} for v in c] if len(c) > 1 else [] for c in cells}
    dim = {c: len(c) - 1 for c in cells}
    return cells, faces, dim


def cubical_universe(shape):
    """elementary cubes of a grid with shape[i] intervals along axis i; a cell = tuple of (pos, extent)"""
    axes = []
    for n in shape:
        a = [(p, 0) for p in range(n + 1)] + [(p, 1) for p in range(n)]
        axes.append(a)
    cells = list(itertools.product(*axes))
    faces, dim = {}, {}
    for c in cells:
        dim[c] = sum(e for (_, e) in c)
        f = []
        for i, (p, e) in enumerate(c):
            if e == 1:
                f.append(c[:i] + ((p, 0),) + c[i + 1:])
                f.append(c[:i] + ((p + 1, 0),) + c[i + 1:])
        faces[c] = f
    return cells, faces, dim


def walk(rng, universe, narrows, style, idprob):
    """random valid zigzag over a fixed cell universe (cells, faces, dim); a re-inserted cell is a new cell"""
    cells, faces, dim = universe
    cof = {c: [] for c in cells}
    for c in cells:
        for f in faces[c]:
            cof[f].append(c)
    keys, fv = Keys(rng), Fv(rng)
    present = {}
    ops = []
    pins = {"grow": 0.85, "mixed": 0.6, "churn": 0.5, "sparse": 0.5, "insonly": 1.0, "updown": 1.0}[style]
    turn = rng.randint(narrows // 3, max(narrows // 3, 2 * narrows // 3)) if style == "updown" else None
    while len(ops) < narrows:
        if style != "insonly" and rng.random() < idprob:
            ops.append(("N",))
            continue
        if style == "updown" and len(ops) >= turn:
            pins = 0.0
        if style == "churn" and len(present) < 6:
            p = 0.9
        else:
            p = pins
        ins = [c for c in cells if c not in present and all(f in present for f in faces[c])]
        rem = [c for c in present if not any(d in present for d in cof[c])]
        if ins and (rng.random() < p or not rem):
            # prefer higher-dimensional candidates now and then, otherwise vertices dominate
            hi = [c for c in ins if dim[c] > 0]
            c = rng.choice(hi) if hi and rng.random() < (0.5 if style == "sparse" else 0.75) else rng.choice(ins)
            k = keys.fresh(c)
            bd = [present[f] for f in faces[c]]
            rng.shuffle(bd)
            present[c] = k
            ops.append(("I", k, dim[c], fv.next(), bd))
        elif rem:
            lo = [c for c in rem if dim[c] == 0]
            c = rng.choice(lo) if lo and style == "sparse" and rng.random() < 0.5 else rng.choice(rem)
            ops.append(("R", present.pop(c), fv.next()))
        else:
            break
    return ops


def walk_motifs(rng, nv, nsteps):
    """forests whose history is made of two motifs plus noise: an edge that comes and goes followed by the departure of one of its
    ends (the chains of the two ends exchange their pivots: column order and pivot order then disagree), and a path laid edge by
    edge and taken away from its older end (an edge shared by two paired chains goes first: transposition of paired columns)"""
    keys, fv = Keys(rng), Fv(rng)
    V, E, ops = {}, {}, []

    def ins_v():
        cand = [v for v in range(nv) if v not in V]
        if not cand:
            return False
        v = rng.choice(cand)
        V[v] = keys.fresh(("v", v, len(ops)))
        ops.append(("I", V[v], 0, fv.next(), []))
        return True

    def ins_e(a, b):
        e = (min(a, b), max(a, b))
        if e in E or a == b:
            return False
        E[e] = keys.fresh(("e", e, len(ops)))
        bd = [V[a], V[b]]
        rng.shuffle(bd)
        ops.append(("I", E[e], 1, fv.next(), bd))
        return True

    def rem_e(e):
        e = (min(e), max(e))
        if e not in E:
            return False
        ops.append(("R", E.pop(e), fv.next()))
        return True

    def iso(v):
        return not any(v in e for e in E)

    def rem_v(v):
        if v not in V or not iso(v):
            return False
        ops.append(("R", V.pop(v), fv.next()))
        return True
    for _ in range(rng.randint(3, nv)):
        ins_v()
    guard = 0
    while len(ops) < nsteps and guard < 20 * nsteps:
        guard += 1
        r = rng.random()
        vs = list(V)
        if r < 0.3 and len(vs) >= 2:
            x = rng.choice([v for v in vs if iso(v)] or vs)
            y = rng.choice([v for v in vs if v != x])
            if ins_e(x, y):
                if rng.random() < 0.8:
                    rem_e((x, y))
                if rng.random() < 0.8:
                    rem_v(x) or rem_v(y)
        elif r < 0.6 and len(vs) >= 3:
            k = rng.randint(3, min(4, len(vs)))
            p = rng.sample(vs, k)
            laid = [(p[i], p[i + 1]) for i in range(k - 1) if ins_e(p[i], p[i + 1])]
            if rng.random() < 0.3:
                laid.reverse()
            for e in laid:
                if rng.random() < 0.85:
                    rem_e(e)
        elif r < 0.75:
            ins_v()
        elif r < 0.85 and E:
            rem_e(rng.choice(list(E)))
        elif r < 0.95 and vs:
            rem_v(rng.choice(vs))
        elif len(vs) >= 2:
            ins_e(*rng.sample(vs, 2))
    return ops


def walk_cycles(rng, universe, narrows):
    """many simultaneously open cycles: all vertices and most edges first (no triangle), then a churn of triangle and edge
    insertions and removals - the diamonds of the algorithm then re-sum several chains at once"""
    cells, faces, dim = universe
    cof = {c: [] for c in cells}
    for c in cells:
        for f in faces[c]:
            cof[f].append(c)
    keys, fv = Keys(rng), Fv(rng)
    present = {}
    ops = []
    nedges_all = sum(1 for c in cells if dim[c] == 1)
    target = rng.randint(max(1, nedges_all - 3), nedges_all)

    def insert(c):
        k = keys.fresh(c)
        bd = [present[f] for f in faces[c]]
        rng.shuffle(bd)
        present[c] = k
        ops.append(("I", k, dim[c], fv.next(), bd))
    while len(ops) < narrows:
        ne = sum(1 for c in present if dim[c] == 1)
        low = [c for c in cells if dim[c] <= 1 and c not in present and all(f in present for f in faces[c])]
        if ne < target and low:
            e = [c for c in low if dim[c] == 1]
            insert(rng.choice(e) if e and rng.random() < 0.7 else rng.choice(low))
            continue
        break
    while len(ops) < narrows:
        ins = [c for c in cells if c not in present and all(f in present for f in faces[c])]
        rem = [c for c in present if not any(d in present for d in cof[c]) and dim[c] >= 1]
        hi = [c for c in ins if dim[c] >= 2]
        r = rng.random()
        if hi and r < 0.45:
            insert(rng.choice(hi))
        elif rem and r < 0.85:
            c = rng.choice(rem)
            ops.append(("R", present.pop(c), fv.next()))
        elif ins:
            insert(rng.choice(ins))
        elif rem:
            c = rng.choice(rem)
            ops.append(("R", present.pop(c), fv.next()))
        else:
            break
    return ops


def kernel_basis(vecs):
    """vecs: list of int bitmasks; returns combinations (bitmasks over the input indices) spanning the kernel"""
    piv = {}
    ker = []
    for i, v in enumerate(vecs):
        comb = 1 << i
        while v:
            h = v.bit_length() - 1
            if h in piv:
                pv, pc = piv[h]
                v ^= pv
                comb ^= pc
            else:
                piv[h] = (v, comb)
                break
        if v == 0:
            ker.append(comb)
    return ker


def gen_general(rng, narrows, style, idprob):
    """cells with explicit boundaries: vertices, edges, loop edges, k-cells whose boundary is a random (k-1)-cycle of the current complex"""
    keys, fv = Keys(rng), Fv(rng)
    present = {}          # key -> (dim, frozenset(boundary keys))
    ops = []
    pins = {"grow": 0.85, "mixed": 0.62, "churn": 0.5, "insonly": 1.0, "updown": 1.0}[style]
    turn = rng.randint(narrows // 3, max(narrows // 3, 2 * narrows // 3)) if style == "updown" else None
    ncell = 0
    while len(ops) < narrows:
        if style != "insonly" and rng.random() < idprob:
            ops.append(("N",))
            continue
        if style == "updown" and len(ops) >= turn:
            pins = 0.0
        rem = [k for k in present if not any(k in b for (_, b) in present.values())]
        nverts = sum(1 for (d, _) in present.values() if d == 0)
        if rng.random() < pins or not rem:
            if style == "updown" and pins == 0.0:
                break
            d = rng.choice([0, 1, 1, 1, 2, 2, 3]) if nverts >= 2 else 0
            if nverts >= 6 and d == 0:
                d = 1
            bd = None
            if d == 0:
                bd = []
            elif d == 1:
                vs = [k for k, (dd, _) in present.items() if dd == 0]
                bd = [] if rng.random() < 0.12 else rng.sample(vs, 2)
            else:
                lower = [k for k, (dd, _) in present.items() if dd == d - 1]
                if not lower:
                    continue
                low2 = sorted({x for k in lower for x in present[k][1]})
                idx = {x: i for i, x in enumerate(low2)}
                vecs = [sum(1 << idx[x] for x in present[k][1]) for k in lower]
                ker = kernel_basis(vecs)
                if not ker and rng.random() < 0.8:
                    continue
                comb = 0
                for c in ker:
                    if rng.random() < 0.5:
                        comb ^= c
                if comb == 0 and ker and rng.random() < 0.8:
                    comb = rng.choice(ker)
                bd = [lower[i] for i in range(len(lower)) if comb >> i & 1]
            ncell += 1
            k = keys.fresh(("g", ncell))
            rng.shuffle(bd)
            present[k] = (d, frozenset(bd))
            ops.append(("I", k, d, fv.next(), bd))
        elif rem:
            k = rng.choice(rem)
            del present[k]
            ops.append(("R", k, fv.next()))
    return ops


def closure_and_reverse(rng, ops):
    """A = ops followed by the removal of everything (maximal cells first); B = A read backwards (insert <-> remove)"""
    present = {}
    info = {}
    for o in ops:
        if o[0] == "I":
            present[o[1]] = (o[2], list(o[4]))
        elif o[0] == "R":
            info_key = o[1]
            present.pop(info_key, None)
    A = [o for o in ops if o[0] != "N"]
    cur = dict(present)
    while cur:
        rem = [k for k in cur if not any(k in b for (_, b) in cur.values())]
        k = rng.choice(rem)
        del cur[k]
        A.append(("R", k, 0))
    # re-key: every insertion gets a unique id so that the reversed sequence can name cells unambiguously
    uid_of, A2, n = {}, [], 0
    cellinfo = {}
    for o in A:
        if o[0] == "I":
            n += 1
            uid_of[o[1]] = n
            cellinfo[n] = (o[2], [uid_of[b] for b in o[4]])
            A2.append(("I", n, o[2], 0, [uid_of[b] for b in o[4]]))
        else:
            A2.append(("R", uid_of[o[1]], 0))
    B = []
    for o in reversed(A2):
        if o[0] == "I":
            B.append(("R", o[1], 0))
        else:
            d, bd = cellinfo[o[1]]
            B.append(("I", o[1], d, 0, bd))
    return A2, B


def enum_sequences(universe, L):
    """EVERY valid zigzag of exactly L arrows (or stuck earlier) over the universe, keys 0,1,2,..., values arrow//2;
    every prefix is covered too because the comparison is made after every arrow"""
    cells, faces, dim = universe
    cof = {c: [d for d in cells if c in faces[d]] for c in cells}
    out = []

    def rec(present, ops, nxt):
        if len(ops) == L:
            out.append(list(ops))
            return
        moved = False
        for c in cells:
            if c not in present and all(f in present for f in faces[c]):
                present[c] = nxt
                ops.append(("I", nxt, dim[c], len(ops) // 2, [present[f] for f in faces[c]]))
                rec(present, ops, nxt + 1)
                ops.pop()
                del present[c]
                moved = True
        for c in list(present):
            if not any(d in present for d in cof[c]):
                k = present.pop(c)
                ops.append(("R", k, len(ops) // 2))
                rec(present, ops, nxt)
                ops.pop()
                present[c] = k
                moved = True
        if not moved:
            out.append(list(ops))
    rec({}, [], 0)
    return out


def reverse_lines(A):
    """the reversal of a full zigzag given as op lines with unique keys"""
    info, B = {}, []
    for l in A:
        w = l.split()
        if w[0] == "I":
            info[w[1]] = (w[2], w[4:])
    for l in reversed(A):
        w = l.split()
        if w[0] == "I":
            B.append("R %s 0" % w[1])
        elif w[0] == "R":
            d, bd = info[w[1]]
            B.append("I %s %s 0" % (w[1], d) + "".join(" " + b for b in bd))
    return B


def fmt_ops(ops):
    out = []
    for o in ops:
        if o[0] == "I":
            out.append("I %d %d %d" % (o[1], o[2], o[3]) + "".join(" %d" % b for b in o[4]))
        elif o[0] == "R":
            out.append("R %d %d" % (o[1], o[2]))
        else:
            out.append("N")
    return out


def case_line(mode, dimmax, shortest, oplines):
    return "%s %d %d ;" % (mode, dimmax, shortest) + ";".join(oplines)


def corpus_sequences():
    seqs = []
    cdir = os.path.join(core.ROOT, "corpus", "C07")
    if os.path.isdir(cdir):
        for f in sorted(os.listdir(cdir)):
            if f.endswith(".json"):
                c = json.load(open(os.path.join(cdir, f)))
                seqs.append(dict(ops=c["ops"], style=c.get("style", "corpus"), origin="corpus", dimmax=c.get("dimmax", -1), shortest=c.get("shortest", 0)))
    return seqs


BOUNDARY_SEQS = [
    # the example of the documentation
    ("doc", ["I 2 0 1", "I 4 0 1", "I 5 1 3 2 4", "I 3 0 4", "I 6 1 4 2 3", "I 9 1 12 4 3", "R 6 15", "R 5 20"]),
    # remove a cell whose chain is in H (paired) / in F (unpaired)
    ("simplicial", ["I 0 0 0", "I 1 0 0", "I 2 1 1 0 1", "R 2 2", "I 3 1 3 1 0", "R 3 3", "R 1 4", "R 0 5"]),
    # triangle filled and emptied, re-filled under the same key
    ("simplicial", ["I 0 0 0", "I 1 0 0", "I 2 0 0", "I 3 1 1 0 1", "I 4 1 1 1 2", "I 5 1 2 0 2", "I 6 2 3 3 4 5", "R 6 4", "I 6 2 5 5 4 3", "R 6 6",
                    "R 3 7", "R 4 7", "R 5 8"]),
    # identity arrows first, in the middle and last
    ("simplicial", ["N", "N", "I 7 0 2", "N", "I 8 0 2", "I 9 1 2 7 8", "N", "R 9 3", "N"]),
    # general cells: loop edge, sphere cell, 2-cell on a loop
    ("general", ["I 0 0 0", "I 1 1 0", "I 2 2 1 1", "R 2 2", "I 3 2 2", "I 4 3 3 3", "R 4 4", "R 3 5", "R 1 5", "R 0 6"]),
    # two cycles killed in the order opposite to their birth
    ("simplicial", ["I 0 0 0", "I 1 0 0", "I 2 0 0", "I 3 1 0 0 1", "I 4 1 0 1 2", "I 5 1 0 0 2", "I 13 0 0", "I 14 1 0 0 13", "I 15 1 0 1 13",
                    "R 3 1", "R 14 1", "R 15 2", "R 13 2", "R 4 3", "R 5 3"]),
]


def generate(rng, tier):
    thorough = tier == "thorough"
    seqs = corpus_sequences()
    for style, ops in BOUNDARY_SEQS:
        seqs.append(dict(ops=ops, style=style, origin="boundary", dimmax=rng.choice([0, 1, 2]), shortest=rng.choice([0, 1, 3])))
    for ops in enum_sequences(simplicial_universe(3, 2), 8 if thorough else 6):
        seqs.append(dict(ops=fmt_ops(ops), style="simplicial", walk="exhaustive", origin="exhaustive", dimmax=len(ops) % 3, shortest=len(seqs) % 2))
    nrand = 12000 if thorough else 1500
    unis = {}
    for i in range(nrand):
        r = rng.random()
        style = rng.choice(["grow", "mixed", "mixed", "churn", "churn", "updown", "insonly"])
        narrows = rng.choice([4, 8, 12, 16, 20, 25, 30, 30])
        idprob = rng.choice([0, 0, 0, 0.08, 0.2])
        if r < 0.12:
            nv = rng.choice([5, 5, 6])
            u = unis.setdefault(("s", nv, 2), simplicial_universe(nv, 2))
            ops, cls, style = walk_cycles(rng, u, rng.choice([30, 40, 50, 60])), "simplicial", "cycles"
        elif r < 0.24:
            # graphs only (vertices and edges), long churn: vertices are removed and re-inserted, so that chains swap
            # their pivots and paired columns get transposed later
            nv = rng.choice([3, 4, 4, 5])
            u = unis.setdefault(("s", nv, 1), simplicial_universe(nv, 1))
            if rng.random() < 0.5:
                ops, cls, style = walk(rng, u, rng.choice([20, 30, 40, 60]), "churn", 0), "simplicial", "graph-churn"
            else:
                # few cells at any time: isolated vertices and short paths, vertices removed as soon as they are free
                ops, cls, style = walk(rng, u, rng.choice([12, 16, 24, 40]), "sparse", 0), "simplicial", "sparse-graph-churn"
        elif r < 0.55:
            nv = rng.choice([2, 3, 4, 4, 5, 5, 6, 6])
            md = rng.choice([1, 2, 2, 3, 3])
            u = unis.setdefault(("s", nv, md), simplicial_universe(nv, md))
            ops, cls = walk(rng, u, narrows, style, idprob), "simplicial"
        elif r < 0.72:
            shape = rng.choice([(1, 1, 1), (2, 1), (2, 2), (1, 1), (3,), (2, 1, 1)])
            u = unis.setdefault(("c",) + shape, cubical_universe(shape))
            ops, cls = walk(rng, u, narrows, style, idprob), "cubical"
        else:
            ops, cls = gen_general(rng, narrows, style, idprob), "general"
        if i % 6 == 5:
            ops, cls, style = walk_motifs(rng, rng.choice([4, 5, 6, 6, 7]), rng.choice([30, 50, 50, 70])), "simplicial", "forest-motifs"
        if not ops:
            continue
        maxd = max([o[2] for o in ops if o[0] == "I"] + [0])
        seqs.append(dict(ops=fmt_ops(ops), raw=ops, style=cls, walk=style, origin="random",
                         dimmax=rng.choice([0, 1, 1, 2, 2, 3][:max(2, 2 * maxd + 1)]), shortest=rng.choice([0, 0, 1, 2, 5])))
    return seqs


# ------------------------------------------------------------------------------------------------ running and comparing
CRASH_BUDGET = {"n": 0}


def run_lines(binary, lines, chunk=120, workers=4, force=False):
    """feed case lines in groups; once more than 12 crashed / hanging cases were seen in this check, the remaining groups are
    not run any more (their answers are SKIPPED): the violation is established and a hanging implementation must not cost hours"""
    groups = [("G", lines[i:i + chunk]) for i in range(0, len(lines), chunk)]
    res = []
    wave = workers * 2
    for w in range(0, len(groups), wave):
        gs = groups[w:w + wave]
        if CRASH_BUDGET["n"] > 12 and not force:
            for g in gs:
                res += ["SKIPPED"] * len(g[1])
            continue
        out = core.run_grouped_parallel(binary, gs, nchunks=workers, timeout=900, max_restarts=3)
        for (_, ans) in out:
            CRASH_BUDGET["n"] += sum(1 for a in ans if a.startswith(("CRASH", "DIED")))
            # a bare "DIED" is the fill-in of run_grouped after too many restarts of one group, not an observation
            res += ["SKIPPED" if a == "DIED" else a for a in ans]
    return res


def split_oracle(line):
    if " ## " not in line:
        return None, {"raw": line}
    segs, tail = line.split(" ## ", 1)
    d = {}
    for w in tail.split():
        if "=" in w:
            k, v = w.split("=", 1)
            d[k] = v
    return segs.split(" | ") if segs else [], d


FIELD_NAMES = {"s": "streamed-interval", "o": "open-intervals", "x": "index-diagram", "p": "value-diagram",
               "q": "value-diagram-shortest-noinf", "v": "index-to-value"}


def seg_fields(seg):
    w = seg.split()
    d = {"ret": w[0] if w else ""}
    for x in w[1:]:
        if "=" in x:
            k, v = x.split("=", 1)
            d[k] = v
    return d


def compare(mode, cpp, osegs):
    """first disagreement between the C++ answer line and the oracle's segments: (arrow, field, expected, observed) or None"""
    if cpp == "SKIPPED":
        return None
    if cpp.startswith("CRASH") or cpp.startswith("DIED"):
        return (0, "crash-or-hang", "no crash", cpp[:80])
    csegs = cpp.split(" | ") if cpp else []
    for i, o in enumerate(osegs):
        if i >= len(csegs):
            return (i, "missing-arrow", o, "-")
        c = csegs[i]
        if c == o:
            continue
        if c.startswith("EXC"):
            return (i, "exception", o, c[:80])
        if c.startswith("CRASH") or c.startswith("DIED"):
            return (i, "crash", o, c[:80])
        fc, fo = seg_fields(c), seg_fields(o)
        for k in ("ret", "s", "o", "x", "p", "q", "v"):
            if fc.get(k) != fo.get(k):
                return (i, FIELD_NAMES.get(k, k), fo.get(k), fc.get(k))
        return (i, "segment", o, c)
    if len(csegs) > len(osegs):
        last = csegs[len(osegs)]
        if last.startswith("CRASH") or last.startswith("DIED"):
            return (len(osegs), "crash", "-", last[:80])
    return None


def final_bars_Z(cpp):
    """multiset of (dim,b,d) from a Z-mode answer line"""
    bars = []
    segs = cpp.split(" | ")
    for s in segs:
        f = seg_fields(s)
        if f.get("s", "-") != "-":
            for t in f["s"].split(";"):
                bars.append(tuple(t.split(",")))
    if segs:
        f = seg_fields(segs[-1])
        if f.get("o", "-") != "-":
            for t in f["o"].split(";"):
                bars.append(tuple(t.split(",")) + ("inf",))
    return sorted(bars)


def check(ctx, replay=None):
    res = core.Result()
    if not getattr(ctx, "skip_proof", False):
        ctx.prove(["Extract_C07.vo"])
    cols = COLS
    bins = {}
    for i in range(0, len(cols), 4):        # at most 4 compilers at a time (shared machine)
        bins.update(ctx.build_many([("c07_drv.cpp", c, ["-DC07_COL=" + c] + core.release_flags("c07" + c)) for c in cols[i:i + 4]]))
    orc = ctx.build_oracle("c07")
    rng = ctx.rng
    if replay:
        c = replay["case"]
        seqs = [dict(ops=c["ops"], style=c.get("style", "replay"), origin="replay", dimmax=c.get("dimmax", -1), shortest=c.get("shortest", 0))]
        if c.get("kind_class") == "reversal":
            seqs[0]["reversal_pair"] = c.get("reversed")
    else:
        seqs = generate(rng, ctx.tier)

    # lines: per sequence Z, F, S(-1), S(dimmax) (+ P for insertion-only ones)
    lines, meta = [], []
    for si, s in enumerate(seqs):
        ol = s["ops"]
        insonly = all(o.startswith("I") for o in ol)
        for mode, dm, sh in (("Z", -1, 0), ("F", -1, 0), ("S", -1, s["shortest"]), ("S", s["dimmax"], s["shortest"])):
            lines.append(case_line(mode, dm, sh, ol))
            meta.append((si, mode, dm, sh))
        if insonly:
            lines.append(case_line("P", -1, 0, ol))
            meta.append((si, "P", -1, 0))
    ctx.log("%d sequences, %d case lines x %d column types" % (len(seqs), len(lines), len(cols)))
    oans = run_lines(orc, [l for l, m in zip(lines, meta) if m[1] != "P"], chunk=40)
    for j, (l, a) in enumerate(zip([l for l, m in zip(lines, meta) if m[1] != "P"], oans)):
        if " ## " not in a:          # an oracle process that died transiently: once more, alone
            oans[j] = run_lines(orc, [l], workers=1, force=True)[0]
    oit = iter(oans)
    oracle = [None if m[1] == "P" else next(oit) for m in meta]
    cpp = {c: run_lines(bins[c], lines) for c in cols}

    found = {}      # kind -> list of (len, case dict, what, exp, obs)

    def report(kind, s, mode, dm, sh, upto, what, exp, obs, col):
        case = {"mode": mode, "col": col, "dimmax": dm, "shortest": sh, "ops": s["ops"][:upto], "style": s["style"]}
        found.setdefault(kind, []).append((upto, case, what, exp, obs))

    zfinal = {}
    for li, (line, (si, mode, dm, sh)) in enumerate(zip(lines, meta)):
        s = seqs[si]
        if mode == "P":
            for c in cols:
                a = cpp[c][li]
                zb = zfinal.get((si, c))
                pb = sorted(tuple(t.split(",")) for t in a[5:].split(";")) if a.startswith("bars=") and a != "bars=-" else ([] if a == "bars=-" else None)
                res.evaluations += 1
                if a == "SKIPPED":
                    continue
                if pb is None or (zb is not None and zb != pb):
                    # confirm on fresh processes (a transient harness failure must not become a violation)
                    a = run_lines(bins[c], [line], workers=1, force=True)[0]
                    pb = sorted(tuple(t.split(",")) for t in a[5:].split(";")) if a.startswith("bars=") and a != "bars=-" else ([] if a == "bars=-" else None)
                    zl = run_lines(bins[c], [case_line("Z", -1, 0, s["ops"])], workers=1, force=True)[0]
                    zb = None if (zl.startswith(("CRASH", "DIED")) or "EXC" in zl) else final_bars_Z(zl)
                if pb is None:
                    report("P:persistence-matrix-failed:" + s["style"], s, "P", dm, sh, len(s["ops"]), "the persistence matrix (C05 substrate) did not "
                           "deliver a barcode for an insertion-only sequence: " + a[:60], "-", a[:80], c)
                elif zb is not None and zb != pb:
                    report("Z:insertion-only-differs-from-persistence-matrix:" + s["style"], s, "Z", dm, sh, len(s["ops"]),
                           "insertion-only sequence: Zigzag_persistence (column %s) and the persistence-matrix barcode differ" % c, str(pb), str(zb), c)
            res.count("metamorphic: insertion-only vs persistence matrix (C05)")
            continue
        osegs, flags = split_oracle(oracle[li])
        if osegs is None:
            raise core.CheckError("oracle failed on %r: %r" % (line[:200], oracle[li][:200]))
        if flags.get("valid") != "1":
            raise core.CheckError("the generator produced an invalid zigzag sequence (machinery bug): %r" % line[:300])
        for f, nm in (("betti", "alive-count-differs-from-betti"), ("po", "insertion-only-differs-from-certified-pairing"),
                      ("fullres", "skipped-sequence-differs-from-restriction"), ("mnn", "negative-multiplicity"),
                      ("kok", "generated-sequence-not-keyed-ok")):
            if flags.get(f) == "0":
                report("spec-selfcheck:" + nm, s, mode, dm, sh, len(s["ops"]), "the SPECIFICATION is inconsistent with itself (%s): machinery error" % nm, "1", "0", "-")
        if mode == "Z":
            res.distinct.add((tuple(s["ops"])))
            res.count("cells:" + s["style"])
            res.count("walk:" + s.get("walk", s["origin"]))
            res.count("arrows:%d-%d" % (len(s["ops"]) // 10 * 10, len(s["ops"]) // 10 * 10 + 9))
            if any(o == "N" for o in s["ops"]):
                res.count("with identity arrows")
            bars = [t.split(",") for t in flags.get("bars", "-").split(";")] if flags.get("bars", "-") != "-" else []
            births = {int(b[1]) for b in bars}
            for i, o in enumerate(s["ops"]):
                if o[0] == "I":
                    res.count("forward arrow: " + ("birth (boundary already a boundary)" if i in births else "death (surjective diamond)"))
                elif o[0] == "R":
                    res.count("backward arrow: " + ("birth (cell was in H)" if i in births else "death (cell was in F)"))
            res.count("bars:dim>=1", sum(1 for b in bars if int(b[0]) >= 1))
        if mode == "S" and dm != -1:
            res.count("with_storage: ignore_cycles_above_dim=%d" % dm)
        if mode == "F" or mode == "S":
            pass
        for c in cols:
            a = cpp[c][li]
            if mode == "Z":
                zfinal[(si, c)] = None if (a == "SKIPPED" or a.startswith(("CRASH", "DIED")) or "EXC" in a) else final_bars_Z(a)
            v = compare(mode, a, osegs)
            res.traces_validated += 1
            res.evaluations += len(osegs)
            if v:
                # a genuine disagreement is deterministic: confirm it on a fresh process with this single case (a transient
                # failure of the harness process on a loaded machine must not become a violation)
                a2 = run_lines(bins[c], [line], workers=1, force=True)[0]
                v2 = compare(mode, a2, osegs)
                if not v2:
                    res.count("transient harness failure, not reproduced on re-run (ignored)")
                    if mode == "Z":
                        zfinal[(si, c)] = final_bars_Z(a2)
                v = v2
            if v:
                i, field, exp, obs = v
                cls = {"Z": "Zigzag_persistence", "F": "Filtered_zigzag_persistence", "S": "Filtered_zigzag_persistence_with_storage"}[mode]
                kind = "%s:%s:%s" % (mode, field, s["style"])
                if mode == "S" and dm != -1:
                    kind += ":dimmax"
                report(kind, s, mode, dm, sh, i + 1, "%s (column %s): %s differs from the specification at arrow %d (%s)" % (cls, c, field, i, s["ops"][i] if i < len(s["ops"]) else "-"),
                       exp, obs, c)
    res.count("option sets (column types)", 0)
    for c in cols:
        res.count("column:" + c, len(lines))

    # metamorphic: reversal (C++ against itself, no oracle)
    if not replay or "reversal" in replay.get("kind", ""):
        rl, rmeta = [], []
        if replay:
            A = [l for l in replay["case"]["ops"] if l != "N"]
            rmeta.append((seqs[0], A, reverse_lines(A)))
        else:
            raws = [s for s in seqs if s.get("raw")]
            for s in raws[: (2000 if ctx.tier == "thorough" else 300)]:
                A, B = closure_and_reverse(rng, s["raw"])
                if A:
                    rmeta.append((s, fmt_ops(A), fmt_ops(B)))
        for (_, A, B) in rmeta:
            rl.append(case_line("Z", -1, 0, A))
            rl.append(case_line("Z", -1, 0, B))
        for c in cols[:: (1 if ctx.tier == "thorough" else 2)]:
            ans = run_lines(bins[c], rl)
            for j, (s, A, B) in enumerate(rmeta):
                a, b = ans[2 * j], ans[2 * j + 1]
                n = len(A)
                res.evaluations += 1
                res.count("metamorphic: reversal of a full zigzag")
                if "SKIPPED" in (a, b):
                    continue
                if a.startswith(("CRASH", "DIED")) or b.startswith(("CRASH", "DIED")) or "EXC" in a or "EXC" in b:
                    a, b = run_lines(bins[c], [rl[2 * j], rl[2 * j + 1]], workers=1, force=True)      # confirm on a fresh process
                if a.startswith(("CRASH", "DIED")) or b.startswith(("CRASH", "DIED")) or "EXC" in a or "EXC" in b:
                    report("Z:reversal:crash-or-exception:" + s["style"], dict(ops=A, style=s["style"]), "Z", -1, 0, n, "crash or exception on a full zigzag or its reversal", "-", (a + " // " + b)[:100], c)
                    continue
                ba, bb = final_bars_Z(a), final_bars_Z(b)
                if any(t[2] == "inf" for t in ba + bb):
                    mirrored = None
                else:
                    mirrored = sorted((t[0], str(n - 1 - int(t[2])), str(n - 1 - int(t[1]))) for t in ba)
                if mirrored != bb:
                    report("Z:reversal-not-mirrored:" + s["style"], dict(ops=A, style=s["style"]), "Z", -1, 0, n,
                           "the barcode of the reversed zigzag is not the mirror image (column %s)" % c, str(mirrored), str(bb), c)

    # shrink one representative per kind and report
    def fails(kind, case):
        ol = case["ops"]
        line = case_line(case["mode"], case["dimmax"], case["shortest"], ol)
        o = run_lines(orc, [line], workers=1, force=True)[0]
        osegs, flags = split_oracle(o)
        if osegs is None or flags.get("valid") != "1":
            return None
        a = run_lines(bins[case["col"]], [line], workers=1, force=True)[0]
        v = compare(case["mode"], a, osegs)
        if not v:
            return None
        k = "%s:%s:%s" % (case["mode"], v[1], case["style"]) + (":dimmax" if case["mode"] == "S" and case["dimmax"] != -1 else "")
        return (v if k == kind else None)

    for kind, lst in found.items():
        lst.sort(key=lambda t: t[0])
        upto, case, what, exp, obs = lst[0]
        if not replay and kind.split(":")[0] in ("Z", "F", "S") and case["col"] in bins and "reversal" not in kind and "insertion-only" not in kind:
            cur = dict(case)
            budget = 60
            changed = True
            while changed and budget > 0:
                changed = False
                ol = cur["ops"]
                cands = []
                for j in range(len(ol) - 1, -1, -1):
                    cands.append(ol[:j] + ol[j + 1:])
                    if ol[j].startswith("R "):
                        key = ol[j].split()[1]
                        ins = [i for i in range(j) if ol[i].startswith("I %s " % key)]
                        if ins:
                            i = ins[-1]
                            cands.append(ol[:i] + ol[i + 1:j] + ol[j + 1:])
                for cand in cands:
                    if not cand or budget <= 0:
                        continue
                    budget -= 1
                    t = dict(cur, ops=cand)
                    v = fails(kind, t)
                    if v:
                        cur = dict(t, ops=cand[:v[0] + 1])
                        exp, obs = v[2], v[3]
                        what = what.split(" at arrow ")[0] + " at arrow %d (%s)" % (v[0], cur["ops"][v[0]] if v[0] < len(cur["ops"]) else "-")
                        changed = True
                        break
            case = cur
        for _ in lst:
            res.violation(kind, what, case, expected=exp, observed=obs)

    # the specification against two independent Python implementations (right-filtration algorithm; lim->colim ranks from the definition)
    if not replay:
        nx = 5000 if ctx.tier == "thorough" else 600
        import sys
        rc, out = core.sh([sys.executable, os.path.join(core.ROOT, "tools", "c07_xval.py"), "--gen", str(nx), "--seed", str(ctx.seed + 100),
                           "--maxB", "30", "--oracle", orc], timeout=3000)
        tail = [l for l in out.splitlines() if l.startswith("cases=")]
        if rc != 0 or not tail or "disagreements=0" not in tail[-1]:      # confirm once before reporting
            rc, out = core.sh([sys.executable, os.path.join(core.ROOT, "tools", "c07_xval.py"), "--gen", str(nx), "--seed", str(ctx.seed + 100),
                               "--maxB", "30", "--oracle", orc], timeout=3000)
            tail = [l for l in out.splitlines() if l.startswith("cases=")]
        res.count("specification cross-validated against tools/c07_xval.py (independent Python, methods A, B, C)", nx)
        res.notes.append("cross-validation of the extracted specification: " + (tail[-1] if tail else "no summary"))
        if rc != 0 or not tail or "disagreements=0" not in tail[-1]:
            dis = [l for l in out.splitlines() if l.startswith("DISAGREE")]
            res.violation("spec-selfcheck:python-cross-validation", "the extracted specification disagrees with the independent Python implementations "
                          "(machinery error): " + (dis[0][:300] if dis else out[-300:]), {"ops": [], "mode": "xval", "detail": dis[:3]}, expected="disagreements=0",
                          observed=(tail[-1] if tail else "rc=%d" % rc))
        res.evaluations += nx

    res.rule = ("one case = one zigzag sequence (list of insert/remove/identity arrows with keys, dimensions, values); distinct = distinct operation "
                "lists; each is run through Zigzag_persistence, Filtered_zigzag_persistence, Filtered_zigzag_persistence_with_storage (dimmax -1 and a "
                "random one) for 8 column types; after EVERY arrow the streamed interval, the open intervals, the index diagram, the value diagrams and "
                "the index->value table are compared with the specification; evaluations = arrows compared (+ metamorphic comparisons)")
    res.exhaustive = False
    res.notes.append("exhaustive sub-domain this run: every valid zigzag of %d arrows (and all its prefixes) over the full triangle (3 vertices, "
                     "3 edges, 1 triangle; a re-inserted simplex is a new cell)" % (8 if ctx.tier == "thorough" else 6))
    rs = [s for s in seqs if s["origin"] == "random"] or seqs
    res.samples = [{"style": s["style"], "ops": s["ops"][:14]} for s in rs[:6]]
    return core.finish(ctx, None, res, TRUSTED, ASSUMPTIONS, LEVEL,
                       "cd /verif/coq && make -f Makefile.coq Properties_C07.vo  (coqc 8.16.1; Print Assumptions after every theorem)",
                       explanation=EXPLANATION, correspondence_name=CORRESPONDENCE)
