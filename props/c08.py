"""C08 - representative cycles really represent their bars."""
import zlib
from vlib import core
from props import pm_common as pm
from props import c05

LEVEL = "proof"
MANIFEST = dict(
    cat="proof", tech="Coq theorems on what a cycle with a given youngest cell represents + verified checker applied to every returned cycle",
    text="Coq theorems (all primes, all sizes, any decomposition accepted by the matrix checker): a chain accepted by check_rep (zero boundary, "
         "youngest cell b) is, while b is unpaired among the first J cells, not homologous in K_J to any chain of older cells (C08_rep_alive); "
         "from the death cell d on it is homologous to a cycle of older cells (C08_rep_dies); representatives of alive bars with distinct births "
         "are linearly independent modulo boundaries (C08_alive_reps_independent); the youngest cell of an accepted chain is a birth cell of "
         "every reduced decomposition (C08_rep_birth_is_positive). Every cycle returned by get_representative_cycles / "
         "get_representative_cycle(bar) after insertions, removals and swaps, for RU and chain flavours, Z2 and Zp, all column types, is run "
         "through the extracted check_rep / check_dims (for Zp, where the API returns supports only, through a certified witness on that "
         "support), and the set of represented births is compared with the certified barcode.",
    note="Trusted: as C05. Not proved: that the alive representatives span (C08_alive_reps_span_full; counting is compared per run).",
    ref="DESIGN.md section 4 C08")
CORRESPONDENCE = c05.CORRESPONDENCE
TRUSTED = c05.TRUSTED
ASSUMPTIONS = c05.ASSUMPTIONS + [
    "a returned representative is accepted when it is a chain of cells of one dimension with zero boundary whose youngest cell is the birth cell "
    "of the bar (checked by the oracle on every returned cycle); that such a chain represents the bar in the sense of the property (independent "
    "of older classes until the death, a boundary from the death on, representatives of alive bars independent) is the Coq theorem "
    "C08_cycle_with_low_represents_bar",
]


def scripts_for_factory(ctx, ncases, steps):
    def scripts_for(cfg):
        rng = ctx.rng.__class__(ctx.seed * 15485863 + zlib.crc32(cfg.tag.encode()) % 100000)
        out = []
        for i in range(ncases):
            cx = pm.random_complex(rng, maxcells=18)
            name = "%s#%d(%s)" % (cfg.tag, i, cx.desc)
            p = 2 if cfg.z2 else rng.choice([3, 5, 7, 11])
            out.append((name, pm.script_walk(rng, cx, cfg, name, rng.randint(0, steps), with_rep=True, p=p, custom_ids=(cfg.kind == "chain" or not cfg.d["VINE"]) and rng.random() < 0.5)))
        return out
    return scripts_for


def check(ctx, replay=None):
    res = core.Result()
    if not getattr(ctx, "skip_proof", False):
        ctx.prove(["Extract_PM.vo"])
    if replay:
        pm.replay_case(ctx, res, replay)
    else:
        cfgs = pm.grid_rep(ctx.rng, ctx.tier)
        cfgs = cfgs + [c.release_copy() for c in cfgs]      # every option set as a debug build and as a release build (NDEBUG)
        pm.run_cases(ctx, res, cfgs, scripts_for_factory(ctx, 50 if ctx.tier == "quick" else 300, 12), per_case=True)
        res.extra["instantiations"] = [c.tag for c in cfgs]
    res.rule = ("one case = (Matrix option set with representative cycles, filtered cell complex, history of insertions / removals "
                "(/ swaps where offered) with update_representative_cycles + get_representative_cycles + get_representative_cycle(bar) "
                "validated after most steps); distinct = distinct (options, script)")
    res.samples = [{"options": t, "script": list(s)[:30]} for (t, s) in list(res.distinct)[:3]]
    return core.finish(ctx, None, res, TRUSTED, ASSUMPTIONS, LEVEL,
                       "cd /verif/coq && make -f Makefile.coq Properties_C08.vo", correspondence_name=CORRESPONDENCE)
