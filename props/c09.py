"""C09 - general matrices behave as dense matrices, whatever the column representation."""
import hashlib, json, os, time
from concurrent.futures import ThreadPoolExecutor
from vlib import core

LEVEL = "proof"
MANIFEST = dict(
    cat="proof",
    tech="Coq proofs that the transcribed column representations (sorted sparse merge with its three specialisations, heap column "
         "as multiset with duplicates, lazy vector column with erased set) and the lazy row permutation refine a dense matrix over Z_p "
         "+ differential correspondence: operation sequences on Matrix<Options> over the option grid, full dump after every operation, "
         "compared with the extracted algorithm models and the extracted dense specification",
    text="Theorems (unbounded in column length, values and histories of column operations): sparse axpy = dense axpy and keeps the column "
         "sorted and zero-free (p prime); heap content lemmas (add / multiply-target / multiply-source / prune invariance / empty iff "
         "content zero); lazy-vector content lemmas including 'clearing an absent entry is a no-op'; a lazy row swap equals the eager "
         "swap and the deferred reordering is invisible; rows are the transpose; every Base_matrix operation on the algorithm model "
         "commutes with the abstraction to the dense matrix (one step, any pending row permutation, any of the three representations); "
         "refuted-as-found witnesses for three repaired defects.  The transcriptions are "
         "tied to the C++ by running identical operation sequences (<= 50 operations, coefficients 0, 1, -1, unreduced, cancelling; "
         "empty targets; self-addition; zero_entry on present and absent entries) through harness/c09_drv.cpp for 9 column types x "
         "{Z2, Z5, Z65521, ...} x row access {off, intrusive, set} x removable rows x map/vector container x swaps x compression and "
         "comparing the whole observable state after every operation.",
    note="Trusted: Coq kernel, extraction + OCaml driver, the hand transcription (validated by the differential run), g++/Boost. "
         "Compression = plain and the induction over whole histories (one matrix-wide invariant) are compared per input only (kept as "
         "*_full definitions); every single operation is proved to commute with the abstraction.  Entry-range operands aliasing their "
         "target and inserted values that are multiples of p are outside the exercised preconditions.",
    ref="design/C09.md")
CORRESPONDENCE = ("coq/C09_Model.v (extracted: dense specification d_* and algorithm models a_*/k_*, driver ocaml/c09_oracle.ml) "
                  "vs harness/c09_drv.cpp on identical operation lines, full dump after every operation")
TRUSTED = [
    "Coq 8.16.1 kernel (coqc, full .vo build)",
    "extraction (ExtrOcamlBasic only; Z/positive stay inductive) + OCaml 4.13.1 + ocaml/prelude.ml, ocaml/c09_oracle.ml",
    "hand-written algorithm models of coq/C09_Model.v (column_utilities.h merge, heap_column.h, vector_column.h, base_swap.h, "
    "Base_matrix.h, Base_matrix_with_column_compression.h); tied to the C++ by the differential runs, not by translation",
    "harness/c09_drv.cpp (observes only the public API of Matrix<Options>), g++ 12.2, Boost (intrusive containers, disjoint_sets)",
    "the field operators Zp_field_operators / Z2_field_operators are exact modular arithmetic (property C10)",
]
ASSUMPTIONS = [
    "the characteristic is prime (the zero-freeness theorems need it; the content theorems do not)",
    "inserted columns are strictly increasing in the row index and their values are not multiples of p (documented input format)",
    "an entry range passed as source does not alias its target (plain matrix: same column; compressed: same class of identical columns)",
]

COLTYPES = ["LIST", "SET", "HEAP", "VECTOR", "NAIVE_VECTOR", "SMALL_VECTOR", "UNORDERED_SET", "INTRUSIVE_LIST", "INTRUSIVE_SET"]
ROWOPTS = [(0, 1, 0), (1, 1, 0), (1, 0, 0), (1, 1, 1), (1, 0, 1)]   # (rows, intrusive, removable)
PRIMES = [5, 257, 2, 3, 7]
BIG = 65521    # set_characteristic(65521) takes seconds (inverse table): only a few sequences per option set use it


class Cfg:
    def __init__(self, col, z2, rows, intr, remrows, mapc, swaps, compr):
        self.d = dict(COLT=col, Z2=z2, ROWS=rows, INTR_ROWS=intr, REM_ROWS=remrows, MAPC=mapc, SWAPS=swaps, COMPR=compr)

    @property
    def flags(self):
        return ["-D%s=%s" % kv for kv in sorted(self.d.items())]

    @property
    def tag(self):
        d = self.d
        return "%s_%s_r%d%d%d_m%d_s%d_k%d" % (d["COLT"].lower(), "z2" if d["Z2"] else "zp", d["ROWS"], d["INTR_ROWS"], d["REM_ROWS"],
                                             d["MAPC"], d["SWAPS"], d["COMPR"])

    def header(self, p, nr, b, mode):
        d = self.d
        return "NEW %s %d %d %d %d %d %d %d %d %d %d %d" % (d["COLT"], d["Z2"], d["ROWS"], d["INTR_ROWS"], d["REM_ROWS"], d["MAPC"],
                                                           d["SWAPS"], d["COMPR"], p, nr, b, mode)


def all_cfgs():
    out = []
    for col in COLTYPES:
        for z2 in (0, 1):
            for (rows, intr, rem) in ROWOPTS:
                if col == "HEAP" and rows:
                    continue
                for mapc in (0, 1):
                    for swaps in (0, 1):
                        out.append(Cfg(col, z2, rows, intr, rem, mapc, swaps, 0))
                if col != "HEAP":
                    out.append(Cfg(col, z2, rows, intr, rem, 0, 0, 1))
    return out


def grid(rng, tier):
    allc = all_cfgs()
    n = 150 if tier == "thorough" else 30
    rng.shuffle(allc)
    chosen = {}
    # every column type with both coefficient modes; every row variant, container, swaps, compression at least once
    need = set(("col", c, z) for c in COLTYPES for z in (0, 1)) | set(("rows", r) for r in ROWOPTS) | {("mapc", 0), ("mapc", 1), ("swaps", 0),
           ("swaps", 1), ("compr", 1)} | set(("swaprows", c) for c in ("VECTOR", "HEAP", "SET", "INTRUSIVE_LIST"))
    for c in allc:
        d = c.d
        keys = {("col", d["COLT"], d["Z2"]), ("rows", (d["ROWS"], d["INTR_ROWS"], d["REM_ROWS"])), ("mapc", d["MAPC"]), ("swaps", d["SWAPS"])}
        if d["COMPR"]:
            keys.add(("compr", 1))
        if d["SWAPS"]:
            keys.add(("swaprows", d["COLT"]))
        if keys & need:
            need -= keys
            chosen[c.tag] = c
    for c in allc:
        if len(chosen) >= n:
            break
        chosen.setdefault(c.tag, c)
    return list(chosen.values())[:max(n, len(chosen))]


# ------------------------------------------------------------------------------------------------ sequences
class Shadow:
    """a dense shadow of the matrix, used ONLY to steer the generator towards the interesting operands (empty targets,
    cancelling coefficients, present / absent entries); the expected answers come from the extracted Coq models"""

    def __init__(self, p, nr, mapc):
        self.p, self.nr, self.mapc = p, nr, mapc
        self.cols = {}
        self.next = 0

    def present(self):
        return sorted(self.cols)

    def ncols(self):
        return len(self.cols) if self.mapc else self.next


def gen_entries(rng, p, nr, z2, density=None, maxrow=None):
    density = density if density is not None else rng.choice([0.0, 0.2, 0.4, 0.6, 0.9])
    es = []
    for r in range(nr if maxrow is None else maxrow):
        if rng.random() < density:
            if z2:
                v = 1
            else:
                v = rng.randrange(1, p)
                if rng.random() < 0.15 and p < 60000:
                    v += p * rng.randint(1, 3)          # unreduced value (not a multiple of p)
            es.append((r, v))
    return es


def estr(es):
    return " ".join("%d:%d" % e for e in es)


def coef(rng, p, sh, s, t):
    """coefficient for the fused operations: 0, 1, -1, unreduced, negative, cancelling"""
    k = rng.random()
    if k < 0.14:
        return 0
    if k < 0.26:
        return 1
    if k < 0.34:
        return -1
    if k < 0.42:
        return rng.choice([p, p + 1, 2 * p, p - 1, -p, -p - 1, 2 * p + 1])
    if k < 0.5:
        return rng.choice([2147483647, -2147483647, 65536, -65537, 1000003])
    if k < 0.75 and s in sh.cols and t in sh.cols:
        # cancelling: choose c so that an entry of the result vanishes
        for r in rng.sample(range(sh.nr), sh.nr):
            a, b = sh.cols[t][r], sh.cols[s][r]
            if a and b:
                inv = pow(b, p - 2, p) if p > 2 else 1
                return rng.choice([(-a * inv) % p, ((-b) * pow(a, p - 2, p)) % p if p > 2 else 1])
    return rng.randrange(p) if p < 100 else rng.choice([rng.randrange(p), rng.randrange(10)])


def gen_sequence(rng, cfg, p, nops):
    d = cfg.d
    z2 = bool(d["Z2"])
    compr = bool(d["COMPR"])
    mapc = bool(d["MAPC"]) and not compr
    swaps = bool(d["SWAPS"]) and not compr
    rows = bool(d["ROWS"])
    nr = rng.randint(2, 8)
    # compressed matrices: in four sequences out of ten few rows and many columns, mostly additions: classes of identical columns
    # merge, split off and merge again all the time (union-find ranks grow, representatives change slot)
    merging = compr and rng.random() < 0.4
    if merging:
        nr = rng.choice([2, 3, 3, 4])
    B = 16 if merging else 8
    mode = rng.choice([0, 0, nr, B]) if not compr else rng.choice([0, 0, B])
    sh = Shadow(p, nr, mapc)
    ops = []
    tags = set()

    def dense(es):
        v = [0] * nr
        for (r, x) in es:
            v[r] = x % p
        return v

    def do_insert(idx, es):
        if not mapc:
            for j in range(sh.next, idx):
                sh.cols.setdefault(j, [0] * nr)
        sh.cols[idx] = dense(es)
        if idx >= sh.next:
            sh.next = idx + 1

    def pick_col(prefer_empty=False):
        pres = sh.present() if mapc else list(range(sh.next))
        if not pres:
            return rng.randrange(B)
        if rng.random() < 0.04:
            return rng.randrange(B)            # possibly absent / out of range
        if prefer_empty:
            em = [j for j in pres if not any(sh.cols.get(j, []))]
            if em and rng.random() < 0.5:
                return rng.choice(em)
        return rng.choice(pres)

    ninit = rng.randint(8, 14) if merging else rng.randint(1, 5)
    for i in range(ninit):
        if i and rng.random() < (0.5 if merging else 0.25) and sh.cols:
            src = rng.choice(list(sh.cols.values()))
            es = [(r, x) for r, x in enumerate(src) if x]      # duplicate of an existing column (compression classes)
        else:
            es = gen_entries(rng, p, nr, z2)
        ops.append("IC " + estr(es))
        do_insert(sh.next, es)
    while len(ops) < nops:
        k = rng.random()
        if merging:
            k *= 0.6                # additions five times out of six
        if k < 0.50:
            form = rng.choice(["ADD", "MTA", "MSA", "ADD", "MTA", "MSA", "ADDR", "MTAR", "MSAR"])
            t = pick_col(prefer_empty=True)
            s = pick_col(prefer_empty=rng.random() < 0.2)
            if rng.random() < 0.06:
                s = t
            if form.endswith("R") and (s == t or (compr and s in sh.cols and t in sh.cols and sh.cols[s] == sh.cols[t])):
                form = form[:-1]                   # an entry range aliasing its target is outside the preconditions
                                                   # (compressed: identical columns are one stored column)
            if compr and s in sh.cols and t in sh.cols and sh.cols[s] == sh.cols[t]:
                tags.add("same-class")
            c = 1 if form.startswith("ADD") else coef(rng, p, sh, s, t)
            if form.startswith("ADD"):
                ops.append("%s %d %d" % (form, s, t))
                a, b = 1, 1
            elif form.startswith("MTA"):
                ops.append("%s %d %d %d" % (form, s, c, t))
                a, b = c % p, 1
            else:
                ops.append("%s %d %d %d" % (form, c, s, t))
                a, b = 1, c % p
            if s in sh.cols and t in sh.cols and (mapc or (s < sh.next and t < sh.next)):
                if not any(sh.cols[t]):
                    tags.add("empty-target")
                if not any(sh.cols[s]):
                    tags.add("empty-source")
                if s == t:
                    tags.add("self")
                tags.add("coef0" if (c % p == 0 and not form.startswith("ADD")) else "coef1" if c % p == 1 else "coef")
                if not (0 <= c < p):
                    tags.add("unreduced-coef")
                new = [(a * x + b * y) % p for x, y in zip(sh.cols[t], sh.cols[s])]
                if compr:
                    old = sh.cols[t]
                    for j in list(sh.cols):
                        if sh.cols[j] == old and (any(old) or j == t):
                            # (zero columns are never compressed together)
                            sh.cols[j] = list(new)
                else:
                    sh.cols[t] = new
                if any(x and not y for x, y in zip(sh.cols[s], new)) or not any(new):
                    tags.add("cancel")
        elif k < 0.64:
            c = pick_col()
            if c in sh.cols and rng.random() < 0.5 and any(sh.cols[c]):
                r = rng.choice([i for i, x in enumerate(sh.cols[c]) if x])
                tags.add("ZE-present")
            else:
                r = rng.randrange(nr)
                if c in sh.cols and not sh.cols[c][r]:
                    tags.add("ZE-absent")
            ops.append("ZE %d %d" % (c, r))
            if not compr and c in sh.cols and (mapc or c < sh.next):
                sh.cols[c][r] = 0                   # (harmless if the harness skips it: unknown row => entry is 0 anyway)
        elif k < 0.68:
            c = pick_col()
            ops.append("ZC %d" % c)
            if not compr and c in sh.cols and (mapc or c < sh.next):
                sh.cols[c] = [0] * nr
        elif k < 0.77:
            es = gen_entries(rng, p, nr, z2)
            if rng.random() < 0.3 and sh.cols:
                src = rng.choice(list(sh.cols.values()))
                es = [(r, x) for r, x in enumerate(src) if x]
            ops.append("IC " + estr(es))
            do_insert(sh.next, es)
        elif k < 0.80:
            idx = rng.randrange(B)
            es = gen_entries(rng, p, nr, z2)
            ops.append("IA %d %s" % (idx, estr(es)))
            if not rows and not compr and ((mapc and idx not in sh.cols) or (not mapc and idx >= sh.next)):
                do_insert(idx, es)
        elif k < 0.83:
            idx = pick_col()
            ops.append("RC %d" % idx)
            if mapc:
                sh.cols.pop(idx, None)
                if idx == sh.next - 1:
                    sh.next -= 1
        elif k < 0.86:
            ops.append("RL")
            if not compr and sh.next > 0:
                sh.next -= 1
                sh.cols.pop(sh.next, None)
        elif k < 0.95:
            a, b = rng.randrange(nr), rng.randrange(nr)
            ops.append("SR %d %d" % (a, b))
            if swaps:
                # (the harness skips rows unknown to the dictionaries; such rows are zero everywhere in the shadow only if
                # never touched, so the shadow may drift: it only steers)
                for v in sh.cols.values():
                    v[a], v[b] = v[b], v[a]
        else:
            a, b = pick_col(), pick_col()
            ops.append("SC %d %d" % (a, b))
            if swaps and a in sh.cols and b in sh.cols and (mapc or (a < sh.next and b < sh.next)):
                sh.cols[a], sh.cols[b] = sh.cols[b], sh.cols[a]
    ops = ops[:nops]
    if rng.random() < 0.35:
        # mutations without reads in between (the dump reads every column, which applies the pending row permutation)
        tags.add("quiet-stretches")
        q = rng.choice([0.3, 0.6, 0.9])
        ops = [("Q " + o) if (i >= ninit and i < len(ops) - 1 and rng.random() < q) else o for i, o in enumerate(ops)]
    return cfg.header(p, nr, B, mode), ops, tags


def gen_merge_tree(rng, cfg, p):
    """compressed matrices: groups of identical columns (sizes 1-3) merged into one another along a random tree, each merge by
    adding a fresh helper column (target content minus own content) to one member of the group that moves: union-find ranks
    of every shape, the surviving representative on either side, stored columns changing slot"""
    g = rng.randint(3, 6)
    nr = g + rng.randint(0, 1)
    ops = []
    members = {}                    # group -> list of column indices
    content = {}                    # group -> row of its unit vector
    nxt = 0
    order = list(range(g))
    rng.shuffle(order)
    for k in order:
        content[k] = k
        members[k] = []
    slots = [k for k in order for _ in range(rng.choice([1, 2, 2, 3]))]
    if rng.random() < 0.5:
        rng.shuffle(slots)
    for k in slots:
        ops.append("IC %d:1" % content[k])
        members[k].append(nxt)
        nxt += 1
    alive = list(order)
    while len(alive) > 1 and nxt < 30:
        a, b = rng.sample(alive, 2)          # group a moves into group b
        es = sorted([(content[b], 1), (content[a], (p - 1) % p or 1)])
        ops.append("IC " + " ".join("%d:%d" % e for e in es))
        h = nxt
        nxt += 1
        ops.append("%s %d %d" % (rng.choice(["ADD", "ADD", "ADDR"]), h, rng.choice(members[a])))
        members[b] += members[a]
        alive.remove(a)
        if rng.random() < 0.3:
            ops.append("NOP")
    return cfg.header(p, nr, 32, 0), ops, {"merge-tree"}


def boundary_sequences(cfg, p):
    """fixed scripts aimed at the case splits of the proofs and at the corner operands named by the property"""
    d = cfg.d
    z2 = bool(d["Z2"])
    one = 1
    two = 1 if z2 else 2 % p or 1
    three = 1 if z2 else 3 % p or 1
    H = cfg.header(p, 5, 6, 0)
    out = []
    # scaling by a coefficient into an empty column, every form, then cancelling it again
    out.append((H, ["IC 0:%d 2:%d" % (one, three), "IC", "IC", "IC", "MSA 2 0 1", "MTA 0 %d 2" % (p + 3), "ADD 0 3", "MSAR 3 0 1",
                    "MSA -2 0 1", "MSA -3 0 1", "NOP", "MTA 1 0 2", "MTA 1 0 1", "MSA 0 0 3", "MTA 2 1 2", "ADD 1 1"]))
    # zeroing an absent entry, then really zeroing the column, then filling it again
    out.append((H, ["IC 1:%d" % two, "IC 0:1 1:1 3:1", "ZE 0 3", "ZE 0 0", "NOP", "ZE 0 1", "ZE 0 1", "ADD 1 0", "ZE 0 2", "ZE 0 0", "ZE 0 1",
                    "ZE 0 3", "MSA 1 1 0", "ZC 0", "ZE 0 4", "MTA 1 1 0"]))
    # lazily applied swaps: more rows than columns, swaps back to back, operations between swap and read
    out.append((H, ["IC 0:1 2:%d" % three, "IC", "IC 1:%d 4:1" % two, "SR 0 4", "NOP", "SR 2 3", "ZE 0 3", "SR 0 4", "SR 1 2", "ADD 2 0",
                    "SC 0 2", "SR 3 4", "ZE 1 4", "IC 0:1 4:1", "SR 0 1", "MSA 1 3 1", "RL", "SR 4 4", "SC 1 1"]))
    # heaps of duplicates: repeated additions that cancel, prune threshold
    out.append((H, ["IC 0:1 1:1 2:1 3:1 4:1", "IC 0:1", "ADD 1 0", "ADD 1 0", "ADD 1 0", "ADD 1 0", "ADD 1 0", "IC 4:1", "ADD 2 0", "ADD 2 0",
                    "ZE 0 4", "MSA -1 0 0", "ADD 0 0", "MTA 0 -1 0", "ADD 1 1", "IC 0:1 3:1", "IC 0:1 3:1", "ADD 3 4", "MSA -1 3 4", "ADD 4 3"]))
    # column container: holes, removal, re-insertion
    out.append((H, ["IA 3 0:1", "NOP", "IA 1 1:1", "RC 3", "RL", "IC 2:1", "RC 0", "RC 0", "IA 0 4:1", "ADD 0 1", "ADD 5 1", "RL", "RL", "RL", "RL",
                    "RL", "IC 1:1"]))
    return out


# ------------------------------------------------------------------------------------------------ running
def build_all(ctx, cfgs, workers=6):
    bins, errs = {}, []

    def one(c):
        try:
            return c.tag, ctx.build_harness("c09_drv.cpp", c.tag, list(c.flags) + core.release_flags(c.tag))
        except core.CheckError as e:
            errs.append(str(e))
            return c.tag, None
    with ThreadPoolExecutor(max_workers=workers) as ex:
        for tag, b in ex.map(one, cfgs):
            bins[tag] = b
    if errs:
        raise core.CheckError(errs[0])
    return bins


def op_situation(cfg, line):
    w = line.split()
    if w[0] == "Q":
        w = w[1:]
    op = w[0]
    sit = op
    if op in ("ADD", "ADDR") and w[1] == w[2]:
        sit += ":self"
    if op in ("MTA", "MTAR") and w[1] == w[3]:
        sit += ":self"
    if op in ("MSA", "MSAR") and w[2] == w[3]:
        sit += ":self"
    return sit


def classify(cfg, hdr, ops, k, exp, obs):
    """kind of a mismatch at operation k (k = -1: the NEW line)"""
    d = cfg.d
    fam = "heap" if d["COLT"] == "HEAP" else "lazyvector" if d["COLT"] == "VECTOR" else "sparse"
    var = "compressed" if d["COMPR"] else "plain"
    line = ops[k] if k >= 0 else hdr
    sit = op_situation(cfg, line) if k >= 0 else "NEW"
    if exp.startswith("MODELDIFF"):
        return "model-vs-specification:%s:%s" % (fam, sit)
    if obs.startswith("CRASH") or obs.startswith("DIED"):
        return "crash:%s:%s:%s" % (var, fam, sit)
    es, os_ = exp.split(" ", 1)[0], obs.split(" ", 1)[0]
    if es != os_:
        return "status:%s:%s:%s" % (var, fam, sit)
    # which part of the dump differs
    ef, of = exp.split(" "), obs.split(" ")
    part = "dump"
    for a, b in zip(ef, of):
        if a != b:
            if a.startswith("N="):
                part = "number-of-columns"
            elif a.startswith("R"):
                part = "row"
            elif a.startswith("C"):
                ea, ob = a.split("=", 1)[1].split("/"), b.split("=", 1)[1].split("/")
                if len(ea) != len(ob):
                    part = "column-presence"
                elif ea[0] != ob[0]:
                    part = "content"
                elif ea[1] != ob[1]:
                    part = "is_zero_column"
                else:
                    part = "is_zero_entry"
            break
    return "%s:%s:%s:%s" % (part, var, fam, sit)


def run_pair(drv, orc, groups):
    obs = core.run_grouped_parallel(drv, groups, nchunks=4, timeout=1800, cpu=120)
    exp = core.run_grouped_parallel(orc, groups, nchunks=4, timeout=120)
    return obs, exp


def first_mismatch(hdr, ops, o, e):
    (ho, ao), (he, ae) = o, e
    if ho != he:
        return -1, he, ho
    for k, (x, y) in enumerate(zip(ao, ae)):
        if x != y:
            return k, y, x
    return None


def shrink(drv, orc, cfg, hdr, ops, k, kind):
    """shortest failing prefix, then greedy removal of single operations keeping the same kind of mismatch"""
    cur = ops[:k + 1]
    budget = 60
    i = len(cur) - 2
    while i >= 0 and budget > 0:
        cand = cur[:i] + cur[i + 1:]
        budget -= 1
        o, e = run_pair(drv, orc, [(hdr, cand)])
        mm = first_mismatch(hdr, cand, o[0], e[0])
        if mm is not None and mm[0] == len(cand) - 1 and classify(cfg, hdr, cand, mm[0], mm[1], mm[2]) == kind:
            cur = cand
        i -= 1
    o, e = run_pair(drv, orc, [(hdr, cur)])
    mm = first_mismatch(hdr, cur, o[0], e[0])
    return cur, mm


def check(ctx, replay=None):
    res = core.Result()
    if not getattr(ctx, "skip_proof", False):
        ctx.prove(["Extract_C09.vo"])
    orc = ctx.build_oracle("c09")
    rng = ctx.rng
    thorough = ctx.tier == "thorough"
    work = []   # (cfg, hdr, ops, tags)
    if replay:
        case = replay["case"]
        cfg = Cfg("LIST", 0, 0, 1, 0, 0, 0, 0)
        cfg.d = dict(case["options"])
        work.append((cfg, case["header"], list(case["ops"]), set()))
        cfgs = [cfg]
    else:
        cfgs = grid(rng, ctx.tier)
        # corpus first
        cdir = os.path.join(core.ROOT, "corpus", "C09")
        if os.path.isdir(cdir):
            for f in sorted(os.listdir(cdir)):
                if f.endswith(".json"):
                    case = json.load(open(os.path.join(cdir, f)))
                    case = case.get("case", case)
                    c = Cfg("LIST", 0, 0, 1, 0, 0, 0, 0)
                    c.d = dict(case["options"])
                    if c.tag not in [x.tag for x in cfgs]:
                        cfgs.append(c)
                    work.append((c, case["header"], list(case["ops"]), {"corpus"}))
        nseq = 80 if thorough else 45
        for c in cfgs:
            primes = [2] if c.d["Z2"] else PRIMES
            for (h, ops) in boundary_sequences(c, primes[0]):
                work.append((c, h, ops, {"boundary-stream"}))
            nbig = 4 if thorough else 1
            if not c.d["Z2"]:
                for (h, ops) in boundary_sequences(c, BIG)[:nbig]:
                    work.append((c, h, ops, {"boundary-stream"}))
            for i in range(nseq * (4 if c.d["COMPR"] else 1)):     # compressed matrices: more sequences (class-merging histories)
                p = 2 if c.d["Z2"] else BIG if i < nbig else (primes[i % 2] if i % 5 else rng.choice(primes))
                if c.d["COMPR"] and i % 3 == 2:
                    h, ops, tags = gen_merge_tree(rng, c, p)
                else:
                    h, ops, tags = gen_sequence(rng, c, p, rng.choice([12, 25, 50]))
                work.append((c, h, ops, tags))
    bins = build_all(ctx, cfgs)
    ctx.log("%d option sets, %d operation sequences" % (len(cfgs), len(work)))
    by_cfg = {}
    for w in work:
        by_cfg.setdefault(w[0].tag, []).append(w)

    PACK = 12

    def run_cfg(tag):
        """several sequences share one process (a NEW line starts the next one); a sequence whose answers differ, and every
        sequence after it in the same process, is run again alone, so that a failure is attributed to its own history"""
        ws = by_cfg[tag]
        packs = []
        for i in range(0, len(ws), PACK):
            chunk = ws[i:i + PACK]
            lines = []
            for (_, h, ops, _) in chunk:
                lines.append(h)
                lines += ops
            packs.append((lines[0], lines[1:]))
        t0 = time.time()
        pobs, pexp = run_pair(bins[tag], orc, packs)
        if time.time() - t0 > 30:
            ctx.log("slow option set %s: %.0fs" % (tag, time.time() - t0))
        obs, exp = [], []
        redo = []
        for pi, ((ho, ao), (he, ae)) in enumerate(zip(pobs, pexp)):
            lo, le = [ho] + ao, [he] + ae
            pos = 0
            dirty = False
            for (_, h, ops, _) in ws[pi * PACK:(pi + 1) * PACK]:
                o = (lo[pos], lo[pos + 1:pos + 1 + len(ops)])
                e = (le[pos], le[pos + 1:pos + 1 + len(ops)])
                pos += 1 + len(ops)
                if dirty or o != e:
                    dirty = True
                    redo.append(len(obs))
                obs.append(o)
                exp.append(e)
        if redo:
            groups = [(ws[i][1], ws[i][2]) for i in redo]
            robs, rexp = run_pair(bins[tag], orc, groups)
            for i, o, e in zip(redo, robs, rexp):
                obs[i], exp[i] = o, e
        return tag, (obs, exp)
    with ThreadPoolExecutor(max_workers=4) as ex:
        results = list(ex.map(run_cfg, list(by_cfg)))
    seen_kinds = set()
    for tag, (obs, exp) in results:
        for (c, h, ops, tags), o, e in zip(by_cfg[tag], obs, exp):
            d = c.d
            res.evaluations += 1 + len(ops)
            res.traces_validated += 1
            res.distinct.add(hashlib.sha256((tag + h + "\n".join(ops)).encode()).hexdigest()[:16])
            res.count("column:" + d["COLT"])
            res.count("field:" + ("Z2" if d["Z2"] else "Z" + h.split()[9]))
            res.count("rows:" + ("off" if not d["ROWS"] else ("intrusive" if d["INTR_ROWS"] else "set") + ("+removable" if d["REM_ROWS"] else "")))
            res.count("container:" + ("map" if d["MAPC"] else "vector"))
            res.count("swaps:%d" % d["SWAPS"])
            res.count("compression:%d" % d["COMPR"])
            for l in ops:
                ww = l.split()
                res.count("op:" + (ww[1] if ww[0] == "Q" else ww[0]))
            for t in tags:
                res.count("situation:" + t)
            for a in e[1]:
                st = a.split(" ", 1)[0]
                if st != "OK":
                    res.count("status:" + st)
            mm = first_mismatch(h, ops, o, e)
            if mm is None:
                continue
            k, ex_, ob_ = mm
            kind = classify(c, h, ops, k, ex_, ob_)
            case_ops = ops[:k + 1]
            if kind not in seen_kinds and not replay:
                seen_kinds.add(kind)
                try:
                    sops, mm2 = shrink(bins[tag], orc, c, h, ops, k, kind)
                    if mm2 is not None and classify(c, h, sops, mm2[0], mm2[1], mm2[2]) == kind:
                        case_ops, k, ex_, ob_ = sops, mm2[0], mm2[1], mm2[2]
                except Exception:
                    pass
            what = "options %s, %s, after %s: the dense specification gives [%s], the implementation [%s]" % (
                tag, h, " ; ".join(case_ops[-6:]), ex_[:300], ob_[:300])
            res.violation(kind, what, {"options": d, "header": h, "ops": case_ops}, expected=ex_, observed=ob_)
    res.rule = ("one case = (option set, characteristic, number of rows, constructor mode, operation sequence of <= 50 operations); the whole "
                "observable state (number of columns, content / is_zero_column / is_zero_entry of every column index, every row) is compared "
                "after every operation; distinct = distinct (option set, header, sequence); all are non-trivial (at least one column inserted "
                "and at least 11 operations)")
    res.samples = [{"options": w[0].tag, "header": w[1], "ops": w[2][:12]} for w in work[:3] + work[-5:]]
    res.notes.append("option sets this run: " + ", ".join(sorted(by_cfg)))
    return core.finish(ctx, None, res, TRUSTED, ASSUMPTIONS, LEVEL,
                       "cd /verif/coq && make -f Makefile.coq Properties_C09.vo  (coqc 8.16.1; Print Assumptions after every theorem)",
                       correspondence_name=CORRESPONDENCE)
