"""C10 - coefficient fields implement exact modular arithmetic."""
import itertools, os
from vlib import core

LEVEL = "proof"
MANIFEST = dict(
    cat="proof", tech="Coq proof of algorithm models (wrap-around arithmetic) + exhaustive differential correspondence with the C++",
    text="Coq theorems (unbounded in the operands, all moduli below 2^32 resp. the documented bounds) that the transcribed helpers "
         "_add/_subtract/_multiply/get_value/fused ops/times_minus/plus_times_equal compute exact residues, that the inverse table holds "
         "inverses and is complete for primes; the transcription is tied to the C++ by running both on identical operation lines, "
         "exhaustively for small primes and small prime ranges and boundary-directed beyond, over all 13 classes; the partial-inverse "
         "specification is a decidable predicate evaluated on every answer.",
    note="Trusted: Coq kernel, extraction+OCaml driver, the hand transcription (validated by the differential run), g++/GMP. "
         "Not proved in Coq (kept as *_full definitions, evaluated per input): refusal of composites, extended-Euclid inverse, CRT partial inverse.",
    ref="DESIGN.md section 4 C10")
CORRESPONDENCE = "coq/C10_Model.v (extracted: ocaml/c10_oracle.ml) vs harness/c10_drv.cpp on identical operation lines"
TRUSTED = [
    "Coq 8.16.1 kernel (coqc, full .vo build); vm_compute used only inside Example sanity checks",
    "extraction (ExtrOcamlBasic only; Z/positive stay inductive) + OCaml 4.13.1 + ocaml/prelude.ml, ocaml/c10_oracle.ml",
    "hand-written model coq/C10_Model.v of the private helpers _add/_subtract/_multiply/get_value/fused ops/"
    "inverse tables/_get_inverse/partial inverses; tied to the C++ by exhaustive differential runs, not by translation",
    "harness/c10_drv.cpp, g++ 12.2, GMP (mpz_class parsing/printing)",
]
ASSUMPTIONS = [
    "machine 'unsigned int' is 32 bits, 'int' 32 bits two's complement, 'long' 64 bits (checked by the harness build)",
    "GMP's mpz_gcd/mpz_invert/mpz_powm_ui/mpz_nextprime are modelled by Z.gcd, extended Euclid, square-and-multiply, trial division",
    "signed conversions are exercised through int and long only, with |P| < 2^31 for int (the classes cast P to the integer type)",
]
SMALL_PRIMES = [2, 3, 5, 7, 11, 13, 17, 19, 23, 29, 31]
ZPEL = [2, 3, 5, 7, 13, 31, 257, 65521]
MFEL = [(2, 3), (2, 5), (3, 7), (5, 5), (2, 13), (5, 13), (2, 31)]
MFSEL = [(2, 3), (2, 5), (3, 7), (5, 5), (2, 13), (5, 13), (2, 17), (2, 19), (65519, 65521)]


def primes_in(lo, hi):
    return [q for q in range(max(lo, 2), hi + 1) if all(q % d for d in range(2, int(q ** 0.5) + 1))]


def prod(l):
    r = 1
    for x in l:
        r *= x
    return r


def divisors_from_primes(ps):
    out = []
    for k in range(len(ps) + 1):
        for c in itertools.combinations(ps, k):
            out.append(prod(c))
    return sorted(set(out))


def boundary_operands(P, rng, n_extra=4):
    s = {0, 1, 2, P - 2, P - 1, P // 2, P // 2 + 1, P // 2 - 1, P // 3}
    s |= {x for x in (65535, 65536, 46340, 46341, (1 << 31) // max(P, 1)) if 0 <= x < P}
    for _ in range(n_extra):
        s.add(rng.randrange(P))
    return sorted(x for x in s if 0 <= x < P)


def signed_values(P, width):
    lim = 1 << (width - 1)
    s = set(range(-3 * min(P, 40) - 3, 3 * min(P, 40) + 4))
    for k in (1, 2, 3, 7):
        for d in (-1, 0, 1):
            s.add(-k * P + d)
            s.add(k * P + d)
    s |= {-lim, -lim + 1, lim - 1, -(1 << 16), -(1 << 16) - 1, -46341, -65537, -(lim // 2)}
    return sorted(x for x in s if -lim <= x < lim)


class Gen:
    def __init__(self, rng, tier):
        self.rng = rng
        self.tier = tier
        self.groups = []   # (header line, [op lines])

    def G(self, cls, *cfg):
        self.groups.append((("G %s %s" % (cls, " ".join(map(str, cfg)))).strip(), []))

    def op(self, op, *args):
        self.groups[-1][1].append("%s %s" % (op, " ".join(map(str, args))))


def gen_single(g, cls, P, exhaustive, is_ops, machine, signed, has_mixed, fused, rng):
    """operations for a class whose modulus is P (prime for Zp classes; the product for multi-fields is handled apart)"""
    ops2 = ["add", "sub", "mul", "eq"]
    if exhaustive:
        dom = list(range(P))
        for a in dom:
            for b in dom:
                for o in ops2:
                    g.op(o, a, b)
        if fused:
            for a in dom:
                for b in dom:
                    for c in dom:
                        g.op("mad", a, b, c)
                        g.op("aam", a, b, c)
    else:
        dom = boundary_operands(P, rng)
        for a in dom:
            for b in dom:
                for o in ops2:
                    g.op(o, a, b)
        if fused:
            for a in dom:
                for b in dom:
                    for c in (0, 1, P - 1, P // 2, rng.randrange(P)):
                        g.op("mad", a, b, c)
                        g.op("aam", a, b, c)
    # unreduced unsigned operands (converted by residue)
    for x in sorted({0, 1, P, P + 1, 2 * P - 1, 2 * P, 3 * P + 2, 65535, 65536, (1 << 32) - 1, (1 << 31), (1 << 31) - 1,
                     ((1 << 32) - 1) // P * P, ((1 << 32) - 1) // P * P - 1} | {rng.randrange(1 << 32) for _ in range(6)}):
        if 0 <= x < (1 << 32):
            g.op("val", x)
            if machine:
                g.op("val_u", x)
    if is_ops:
        for a in (P, P + 1, 2 * P + 3, (1 << 32) - 1):
            for b in (1, P - 1, P + 2):
                if a < (1 << 32) and b < (1 << 32):
                    for o in ops2:
                        g.op(o, a, b)
    if signed:
        for x in signed_values(P, 32):
            g.op("val_i", x)
        for x in signed_values(P, 64):
            g.op("val_l", x)
    if machine:
        for x in (0, 5, (1 << 40) + 3, (1 << 63) + 11, (1 << 64) - 1):
            g.op("val_ul", x)
    if has_mixed:
        fs = [0, 1, P - 1, P // 2]
        for f in fs:
            for v in sorted(set(list(range(-2 * min(P, 12) - 1, 2 * min(P, 12) + 2)) + [-(1 << 31), (1 << 31) - 1, -65537, -P * 3 - 1])):
                for o in ("addi", "iadd", "subi", "isub", "muli", "imul", "eqi", "assigni"):
                    g.op(o + "_i", f, v)
            for v in (0, 1, P, P + 1, 7 * P + 3, (1 << 32) - 1):
                for o in ("addi", "subi", "muli", "eqi", "assigni"):
                    g.op(o + "_u", f, v)
            for v in (-(1 << 40) - 7, -P - 1, -1, 0, P, (1 << 40) + 9):
                for o in ("addi", "subi", "muli", "eqi", "assigni"):
                    g.op(o + "_l", f, v)
    g.op("ids")


def generate(rng, tier):
    g = Gen(rng, tier)
    thorough = tier == "thorough"
    exh = [p for p in SMALL_PRIMES if thorough or p <= 13]
    big = [251, 257, 32749, 46337, 65519, 65521] if thorough else [257, 46337, 65521]
    # ---- Z2
    for cls in ("z2ops", "z2el"):
        g.G(cls)
        gen_single(g, cls, 2, True, cls == "z2ops", True, True, cls == "z2el", True, rng)
        for x in (0, 1, 2, 3):
            if x % 2:
                g.op("inv", x)
                g.op("pinv", x, 2)
        g.op("pmid", 2)
        if cls == "z2el":
            g.op("move", 1)
    # ---- Zp, run-time characteristic
    for cls in ("zpops", "zpsh"):
        for p in exh + big:
            g.G(cls, p)
            gen_single(g, cls, p, p in exh, cls == "zpops", cls != "zpops", True, cls == "zpsh", True, rng)
            xs = range(1, p) if p in exh else [x for x in boundary_operands(p, rng, 12) if x]
            for x in xs:
                g.op("inv", x)
                g.op("pinv", x, p)
            g.op("pmid", p)
            if cls == "zpsh":
                g.op("move", p - 1)
    # ---- Zp, compile-time characteristic
    for p in ZPEL:
        g.G("zpel", p)
        gen_single(g, "zpel", p, p <= (31 if thorough else 13), False, True, True, True, True, rng)
        xs = range(1, p) if p <= 257 else [x for x in boundary_operands(p, rng, 30) if x]
        for x in xs:
            g.op("inv", x)
            g.op("pinv", x, p)
        g.op("pmid", p)
        g.op("move", p - 1)
    # ---- refusal of non-prime characteristics
    for cls in ("zpops", "zpsh", "cohzp"):
        for p in [0, 1, 4, 6, 8, 9, 15, 21, 25, 49, 91, 121, 169, 221, 1001, 2047, 4, 46337, 46349, 46351]:
            if cls != "cohzp" and p > 3000:
                continue
            g.G(cls, p)
    # ---- cohomology engine Field_Zp
    for p in exh + [46337, 46327] + ([32749, 251] if thorough else []):
        g.G("cohzp", p)
        dom = list(range(p)) if p in exh and p <= (31 if thorough else 13) else boundary_operands(p, rng, 6)
        for x in dom:
            for y in dom:
                g.op("times", x, y)
                g.op("plus", x, y)
                g.op("tm", x, y)
                for w in (dom if len(dom) <= 13 else (0, 1, p - 1, p // 2)):
                    g.op("pte", x, y, w)
        for x in (dom if p in exh else [d for d in dom]):
            if x % p:
                g.op("inv", x, p)
        g.op("ids")
    # ---- multi-fields
    ranges_rt = [(2, 3), (2, 5), (3, 7), (5, 5), (2, 7), (3, 5), (5, 7), (7, 11), (2, 4), (4, 7), (6, 12), (11, 13)]
    ranges_big_small = [(2, 13), (2, 17), (2, 19), (2, 23), (17, 19), (65519, 65521), (251, 257)]
    ranges_big_gmp = [(2, 13), (2, 31), (2, 47), (65519, 65521), (40000, 40100)]
    invalid = [(8, 10), (4, 4), (0, 1), (9, 3)]

    def multi(cls, lo, hi, exhaustive, is_ops, small, machine, mixed_sfx):
        ps = primes_in(lo, hi)
        P = prod(ps)
        g.G(cls, lo, hi)
        divs = divisors_from_primes(ps) if len(ps) <= 8 else [1, P, ps[0], P // ps[-1], ps[1] * ps[2]]
        if exhaustive:
            dom = list(range(P))
        else:
            dom = sorted(set(boundary_operands(P, rng, 6) + [q for q in ps] + [P // q for q in ps] + [d for d in divs if d < P][:12]))
        pair_dom = dom if len(dom) <= 40 else sorted(set(boundary_operands(P, rng, 10)))
        for a in pair_dom:
            for b in pair_dom:
                for o in ("add", "sub", "mul", "eq"):
                    g.op(o, a, b)
        tri = pair_dom if len(pair_dom) <= 12 else sorted(set([0, 1, P - 1, P // 2, ps[0] % P, (P // ps[-1]) % P, rng.randrange(P), rng.randrange(P)]))
        for a in tri:
            for b in tri:
                for c in tri:
                    g.op("mad", a, b, c)
                    g.op("aam", a, b, c)
        for x in dom:
            g.op("val", x)
            if x:
                g.op("inv", x)
            for Q in divs:
                if Q >= 1 and (small is False or Q < (1 << 32)):
                    g.op("pinv", x, Q)
        for Q in divs:
            g.op("pmid", Q)
        lim = (1 << 32) if small else (1 << 70)
        for x in (P, P + 1, 2 * P + 1, 5 * P - 1, (1 << 32) - 1, (1 << 64) + 5):
            if x < lim:
                g.op("val", x)
        if not small:                 # arbitrary-precision elements: negative integers of any size are converted too
            for x in (-1, -2, -P + 1, -P, -P - 1, -2 * P, -3 * P - 1, -(1 << 31), -(1 << 63), -(1 << 70) - 3):
                g.op("val", x)
        if machine and P < (1 << 31):
            for x in signed_values(P, 32):
                g.op("val_i", x)
            for x in signed_values(P, 64):
                g.op("val_l", x)
            for f in (0, 1, P - 1):
                for v in sorted(set(list(range(-12, 13)) + [-(1 << 31), (1 << 31) - 1, -3 * P - 1, -P, P + 1])):
                    if -(1 << 31) <= v < (1 << 31):
                        for o in ("addi", "iadd", "subi", "isub", "muli", "imul", "eqi", "assigni"):
                            g.op(o + "_i", f, v)
        if mixed_sfx == "_z":
            for f in (0, 1, P - 1):
                for v in (0, 1, P, P + 1, 7 * P + 3, (1 << 70) + 1):
                    for o in ("addi", "iadd", "subi", "isub", "muli", "imul", "eqi", "assigni"):
                        g.op(o + "_z", f, v)
        g.op("ids")
        if not is_ops:
            g.op("move", P - 1)

    for (lo, hi) in ranges_rt:
        P = prod(primes_in(lo, hi))
        ex = P <= (1024 if thorough else 110)
        multi("mfops", lo, hi, ex, True, False, False, "")
        multi("mfsh", lo, hi, ex, False, False, False, "_z")
        multi("mfsops", lo, hi, ex, True, True, False, "")
        multi("mfssh", lo, hi, ex, False, True, True, "")
        multi("cohmf_as_mf", lo, hi, ex, True, False, False, "") if False else None
    for (lo, hi) in ranges_big_small:
        multi("mfsops", lo, hi, False, True, True, False, "")
        multi("mfssh", lo, hi, False, False, True, True, "")
    for (lo, hi) in ranges_big_gmp:
        multi("mfops", lo, hi, False, True, False, False, "")
        multi("mfsh", lo, hi, False, False, False, False, "_z")
    for (lo, hi) in MFEL:
        multi("mfel", lo, hi, prod(primes_in(lo, hi)) <= 110, False, False, False, "_z")
    for (lo, hi) in MFSEL:
        multi("mfsel", lo, hi, prod(primes_in(lo, hi)) <= 110, False, True, True, "")
    for cls in ("mfops", "mfsops", "mfsh", "mfssh"):
        for (lo, hi) in invalid:
            g.G(cls, lo, hi)
    # ---- cohomology engine Multi_field
    for (lo, hi) in ranges_rt + [(2, 13), (2, 31), (46327, 46337)]:
        ps = primes_in(lo, hi)
        P = prod(ps)
        g.G("cohmf", lo, hi)
        divs = divisors_from_primes(ps) if len(ps) <= 6 else [1, P, ps[0], P // ps[-1]]
        dom = list(range(P)) if P <= 110 else sorted(set(boundary_operands(P, rng, 6) + ps + [P // q for q in ps]))
        pd = dom if len(dom) <= 40 else boundary_operands(P, rng, 8)
        for x in pd:
            for y in pd:
                g.op("times", x, y)
                g.op("plus", x, y)
                g.op("tm", x, y)
        td = pd if len(pd) <= 12 else [0, 1, P - 1, P // 2, ps[0], rng.randrange(P)]
        for x in td:
            for y in td:
                for w in td:
                    g.op("pte", x, y, w)
        for x in dom:
            for Q in divs:
                g.op("inv", x, Q)
        for Q in divs:
            g.op("pmid", Q)
        g.op("ids")
    return g


def compare(ctx, g, res, drv, orc):
    groups = [(h, ops) for (h, ops) in g.groups]
    # big groups are split so that the parallel chunks balance
    split = []
    for (h, ops) in groups:
        if len(ops) <= 6000:
            split.append((h, ops))
        else:
            for k in range(0, len(ops), 6000):
                split.append((h, ops[k:k + 6000]))
    obs = core.run_grouped_parallel(drv, split)
    exp = core.run_grouped_parallel(orc, split)
    for (h, ops), (ho, ao), (he, ae) in zip(split, obs, exp):
        cls = h.split()[1]
        res.evaluations += 1
        res.count("class:" + cls, 1 + len(ops))
        if ho != he:
            res.violation("%s:init" % cls, "%s -> implementation %s, specification %s" % (h, ho, he), {"group": h, "line": ""},
                          expected=he, observed=ho)
        if "refused" in (ho, he):
            res.count("refusal-groups")
        for line, o, e in zip(ops, ao, ae):
            op = line.split()[0]
            res.evaluations += 1
            res.count("op:" + op)
            if e.startswith("MODELDIFF"):
                res.violation("model:%s:%s" % (cls, op), "algorithm model and specification disagree (outside the theorems' hypotheses?) "
                              "%s | %s: %s" % (h, line, e), {"group": h, "line": line}, expected=e, observed=o)
                continue
            if e == "UNSUPPORTED" and o == "UNSUPPORTED":
                res.count("unsupported")
                continue
            if e != o:
                res.violation("%s:%s" % (cls, op), "%s | %s -> implementation %s, exact arithmetic %s" % (h, line, o, e),
                              {"group": h, "line": line}, expected=e, observed=o)
        res.traces_validated += 1 + len(ops)


def check(ctx, replay=None):
    res = core.Result()
    if not getattr(ctx, "skip_proof", False):
        ctx.prove(["Extract_C10.vo"])
    drv = ctx.build_harness("c10_drv.cpp", flags=[])
    orc = ctx.build_oracle("c10")
    if replay:
        g = Gen(ctx.rng, ctx.tier)
        g.groups = [(replay["case"]["group"], [replay["case"]["line"]] if replay["case"]["line"] else [])]
    else:
        g = generate(ctx.rng, ctx.tier)
    compare(ctx, g, res, drv, orc)
    alll = [(h, l) for (h, ops) in g.groups for l in ops]
    res.distinct = set(alll)
    res.rule = ("one case = (class, characteristic or range, operation, operands); exhaustive over all operand pairs/triples "
                "for the small primes and for multi-field ranges with small product, boundary-directed operands otherwise "
                "(0,1,2,P-2,P-1,P/2+-1, values around 2^16, 2^31, 2^32, multiples of P, negative machine integers); "
                "distinct = distinct input lines; every line is non-trivial in that it calls the implementation once")
    res.exhaustive = False
    res.samples = [{"group": alll[i][0], "line": alll[i][1]} for i in sorted(ctx.rng.sample(range(len(alll)), min(8, len(alll))))]
    res.notes.append("exhaustive sub-domains this run: all operand pairs (and triples for fused ops) for primes %s; all x and all Q | P for "
                     "ranges with product <= %d" % ([p for p in SMALL_PRIMES if ctx.tier == "thorough" or p <= 13], 1024 if ctx.tier == "thorough" else 110))
    return core.finish(ctx, None, res, TRUSTED, ASSUMPTIONS, LEVEL,
                       "cd /verif/coq && make -f Makefile.coq Properties_C10.vo  (coqc 8.16.1; Print Assumptions after every theorem)",
                       correspondence_name=CORRESPONDENCE)
