"""C11 - Ripser computes the persistence of the Rips filtration, for every input form."""
import itertools, json, os, zlib, random
from vlib import core

LEVEL = "proof"
MANIFEST = dict(
    cat="proof",
    tech="Coq-certified persistence oracle (flag filtration in Gallina + certified_lows, canonical for every prime) compared with "
         "Ripser's output on every generated input + Coq proofs (unbounded) of the leaf arithmetic (compressed-matrix indexing, "
         "bitfield and combinatorial-number-system encodings, binary search, dispatcher budget) tied to the C++ by a differential run",
    text="PROVED (Coq, unbounded): both compressed layouts address each unordered pair exactly once, symmetrically, with zero diagonal; "
         "the bitfield encoding and the coefficient packing round-trip without overflow within the dispatcher's bit budget; the "
         "combinatorial number system is a bijection between k-subsets of [n] and [0,C(n,k)) and the binary search get_max returns the "
         "largest admissible vertex; the table filled by Pascal's rule holds the binomial coefficients and the constructor's wrap-around "
         "test throws exactly when the largest entry exceeds the word; the clamped dim_max fits dimension_t.  The barcode oracle is the "
         "certified pairing of Reduce.v/ReduceExec.v applied to the Rips flag filtration built in Gallina; proved about it: its complex is "
         "exactly the flag complex of the threshold graph up to dimension dim_max+1 with diameters as values, faces precede cofaces "
         "(run-time checked), the pairing is canonical for every prime.  COMPARED, NOT PROVED: the "
         "Ripser reduction engine (clearing, apparent/emergent pairs, coboundary enumerators, union-find) - its intervals are compared "
         "with the oracle as multisets on every input (all input forms, thresholds, dimensions, moduli, the three encodings observed "
         "through a recording hook), and with a second independent route (Rips_complex + Simplex_tree + Persistent_cohomology).",
    note="The engine is compared, not proved.  Trusted: Coq kernel, extraction + OCaml driver, hand-written models, harness, g++; "
         "un-formalised mathematics: pivot pairing = interval decomposition; independence of the barcode from the order of ties; the cone "
         "argument behind the enclosing radius (checked per input by evaluating the oracle with and without it).  Oracle complexes are "
         "capped at ~135 simplices (the verified checker is O(N^4)); larger inputs are compared with the second route only.",
    ref="design/C11.md")
CORRESPONDENCE = ("coq/C11_Model.v (extracted: ocaml/c11_oracle.ml) vs harness/c11_drv.cpp: barcode multisets of ripser_auto/ripser for every "
                  "input form against the certified oracle and the Simplex_tree route; leaf classes against their algorithm models")
TRUSTED = [
    "Coq 8.16.1 kernel (coqc, full .vo build)",
    "extraction (ExtrOcamlBasic only) + OCaml 4.13.1 + ocaml/prelude.ml, ocaml/c11_oracle.ml (parsing, printing)",
    "hand-written specification coq/C11_Model.v of the Rips flag filtration (cliques, diameters, (diameter, dimension, lexicographic) order, "
    "signed boundary) - cross-checked on every input by the independent Simplex_tree route",
    "hand-written leaf algorithm models (Compressed_distance_matrix rows/operator(), log2up, Bitfield_encoding, Cns_encoding table and get_max, "
    "get_simplex_vertices, entry_with_coeff_t, help1) tied to the C++ by the differential run, not by translation",
    "harness/c11_drv.cpp, g++ 12.2; the GUDHI_VERIF_HOOKS hook in help1 that records the chosen encoding",
    "mathematics not formalised: pivot pairing of the boundary matrix = barcode; the multiset of (dim, birth, death) does not depend on how ties are "
    "ordered; beyond the enclosing radius the Rips complex is a cone (evaluated per input, not proved)",
    "NOT PROVED, compared per input: the Ripser reduction engine (Persistent_cohomology of ripser.h, coboundary enumerators, union-find)",
]
ASSUMPTIONS = [
    "dissimilarities are non-negative integers, or square roots of integers (Euclidean clouds with integer coordinates: squared distances "
    "< 2^20, for which the correctly rounded sqrt is strictly monotone); double arithmetic is then exact and values are compared as integer keys",
    "for a sparse input the threshold argument is ignored by ripser (documented: 'Ignored if input_type is distance coo_matrix'); the caller "
    "filters the edge list, as utilities/ripser.cc and the Python wrapper do",
    "n <= 40 vertices for the proved oracle (<= ~135 simplices); up to 700 vertices against the second route only",
    "moduli: primes <= 65521 (the largest accepted: inverse table of uint16_t); composite or larger moduli must be refused by an exception",
    "vertex_t = int, dimension_t = int8_t, simplex_t = uint64_t / unsigned __int128 (and the portable Fake_uint128 in a second build)",
    "the budget of the encodings is part of the contract: dim_max is clamped to min(n-2, 125) (dimension_t = int8_t; lossless, see design/C11.md) and an "
    "input whose simplices cannot be indexed in 128 bits (cns table overflow, or no room for the coefficient) must be REFUSED by overflow_error - "
    "the check demands an exception there, never an answer",
]

CAP = 135                # simplices handled by the certified oracle
MODULI = [2, 3, 5, 7, 65521]
BADMOD = [0, 1, 4, 6, 9, 15, 65535, 65536, 65537]
INTMAX = 2147483647


def log2up(n):
    n -= 1
    k = 0
    while n > 0:
        n >>= 1
        k += 1
    return k


DIM_LIMIT = 125          # dimension_t = int8_t: dim_max + 2 <= 127


def py_dispatch(n, dim, mod):
    d = min(dim, n - 2, DIM_LIMIT)
    s = log2up(n) * (d + 2) + log2up(mod - 1)
    return 64 if s <= 64 else 128 if s <= 128 else 129


def py_accepts(n, dim, mod):
    """replica of the budget guards: does ripser accept (n, dim_max, modulus) or refuse it with an exception?
    cns-128: the table must fit 128 bits and leave room for the coefficient (dim_max is first clamped to n-2 and to 125)"""
    import math
    k = min(dim, n - 2, DIM_LIMIT) + 2
    if py_dispatch(n, dim, mod) != 129:
        return True
    C = math.comb(n, min(n // 2, k))
    return C < 2 ** 128 and 128 - log2up(C + 1) >= log2up(mod - 1)


# ------------------------------------------------------------------------------------------------ metric helpers
def tri(n):
    return [(i, j) for i in range(1, n) for j in range(i)]


def lower_to_full(n, keys):
    M = [[0] * n for _ in range(n)]
    for (i, j), k in zip(tri(n), keys):
        M[i][j] = M[j][i] = k
    return M


def upper_keys(n, M):
    return [M[i][j] for i in range(n) for j in range(i + 1, n)]


def count_simplices(n, M, thr, kmax, cap):
    """number of cliques with <= kmax vertices of the graph {key >= 0 and key <= thr}; stops above cap"""
    adj = [[j for j in range(n) if j != i and M[i][j] >= 0 and (thr is None or M[i][j] <= thr)] for i in range(n)]
    adjs = [set(a) for a in adj]
    cnt = 0
    stack = [((v,), [w for w in adj[v] if w > v]) for v in range(n)]
    while stack:
        s, cand = stack.pop()
        cnt += 1
        if cnt > cap:
            return cnt
        if len(s) >= kmax:
            continue
        for idx, w in enumerate(cand):
            stack.append((s + (w,), [x for x in cand[idx + 1:] if x in adjs[w]]))
    return cnt


def enclosing(n, M):
    return min(max(M[i]) for i in range(n)) if n else None


# ------------------------------------------------------------------------------------------------ cases
def case_lines(c):
    """-> (harness lines [(tag, line)], oracle lines [(tag, line)])"""
    n, dim, mod, thr, sq = c["n"], c["dim"], c["mod"], c["thr"], c.get("sq", 0)
    keys = c["keys"]
    M = lower_to_full(n, keys)
    ts = "inf" if thr is None else str(thr)
    H, O = [], []
    # no threshold is passed either as +infinity (Python binding) or as the largest finite value (command-line tool)
    ks = " ".join(map(str, keys))
    # one case in four is run in another unit of length (2^-40 or 2^30; exact): a function of the data
    u = {1: 1, 2: 2}.get(zlib.crc32(ks.encode()) % 8, 0)
    head = "%d %d %s %d %d" % (n, dim, "max" if (thr is None and c.get("thrmax")) else ts, mod, sq + 2 * u)
    dense = c["kind"] in ("dense", "points")
    if dense:
        for form in c.get("forms", ["lower", "lowerdirect", "upper", "full", "fullraw", "upconv", "sparsector", "sparse"]):
            if form in ("lower", "lowerdirect", "full", "fullraw", "sparsector"):
                H.append((form, "R %s %s %s" % (form, head, ks)))
            elif form in ("upper", "upconv"):
                H.append((form, "R %s %s %s" % (form, head, " ".join(map(str, upper_keys(n, M))))))
            elif form == "sparse":
                ed = [(i, j, M[i][j]) for (i, j) in tri(n) if thr is None or M[i][j] <= thr]
                if c.get("shuffle"):
                    random.Random(c["shuffle"]).shuffle(ed)
                H.append((form, "R sparse %s %s" % (head, " ".join("%d %d %d" % e for e in ed))))
            elif form == "points":
                P = c["points"]
                H.append((form, "R points %s %d %s" % (head, len(P[0]) if P else 0, " ".join(str(x) for p in P for x in p))))
    else:
        ed = [(i, j, M[i][j]) for (i, j) in tri(n) if M[i][j] >= 0 and (thr is None or M[i][j] <= thr)]
        if c.get("shuffle"):
            random.Random(c["shuffle"]).shuffle(ed)
        H.append(("sparse", "R sparse %s %s" % (head, " ".join("%d %d %d" % e for e in ed))))
        if n <= 64 and n >= 2:
            # the same graph as a dense matrix with a threshold: absent edges get a key above the threshold
            big = max([k for k in keys if k >= 0] + [0]) + 7
            t2 = thr if thr is not None else big - 7
            H.append(("lower+thr", "R lower %d %d %d %d %d %s" % (n, dim, t2, mod, sq + 2 * u, " ".join(str(k if k >= 0 else big) for k in keys))))
    if c.get("second", True) and mod <= 251:
        H.append(("second", "S %d %d %s %d %d %s" % (n, dim, ts, mod, sq, ks)))
    if c.get("proved", True):
        othr = ts
        if dense and thr is None:
            othr = "enc"
            if c.get("cone"):
                O.append(("cone", "O %d %d inf %d %s" % (n, dim, mod, ks)))
        O.append(("oracle", "O %d %d %s %d %s" % (n, dim, othr, mod, ks)))
    O.append(("dispatch", "D %d %d %d" % (n, dim, mod)))
    return H, O


def parse_bars(ans):
    """'OK ... bars=d:b:e;...' -> sorted list of tuples, or None"""
    if not ans.startswith("OK"):
        return None
    f = dict(x.split("=", 1) for x in ans.split()[1:] if "=" in x)
    out = []
    if f.get("bars", "-") != "-":
        for t in f["bars"].split(";"):
            d, b, e = t.split(":")
            if "BAD" in b or "BAD" in e:
                return None
            out.append((int(d), int(b), float("inf") if e == "inf" else int(e)))
    return sorted(out), f


def gen_dense(rng, n, style=None):
    R = rng.choice([1, 2, 2, 3, 3, 4, 6, 9, 30])
    lo = 0 if rng.random() < 0.08 else 1
    style = style or rng.choice(["random", "random", "random", "two-clusters", "cycle", "ultra"])
    keys = []
    if style == "random":
        keys = [rng.randint(lo, R) for _ in tri(n)]
    elif style == "two-clusters":
        cl = [rng.randrange(2) for _ in range(n)]
        keys = [rng.randint(lo, max(lo, R // 2)) if cl[i] == cl[j] else rng.randint(R, R + 2) for (i, j) in tri(n)]
    elif style == "cycle":
        perm = list(range(n))
        rng.shuffle(perm)
        pos = {v: k for k, v in enumerate(perm)}
        keys = [min((pos[i] - pos[j]) % n, (pos[j] - pos[i]) % n) for (i, j) in tri(n)]
    else:
        h = [rng.randint(1, R) for _ in range(n)]
        keys = [max(h[i], h[j]) for (i, j) in tri(n)]
    return keys


def thresholds_for(keys, rng, full):
    vals = sorted(set(k for k in keys if k >= 0))
    out = [None]
    if vals:
        out.append(vals[0] - 1)          # below the minimum: no edge
        if full:
            out += vals
        else:
            out += rng.sample(vals, min(2, len(vals)))
    return out


def gen_sparse(rng, n, target_edges):
    """few edges: small cliques, cycles and paths thrown on random (often high-numbered) vertices"""
    E = {}
    def pick():
        return rng.randrange(n) if rng.random() < 0.5 else n - 1 - min(rng.randrange(n), rng.randrange(n))
    R = rng.choice([1, 2, 3, 5])
    while len(E) < target_edges:
        r = rng.random()
        if r < 0.35:
            vs = set(pick() for _ in range(rng.choice([3, 3, 4, 4, 5])))
            for a in vs:
                for b in vs:
                    if a > b:
                        E.setdefault((a, b), rng.randint(1, R))
        elif r < 0.7:
            L = rng.choice([3, 4, 5, 6, 7])
            vs = list(set(pick() for _ in range(L)))
            for k in range(len(vs)):
                a, b = vs[k], vs[(k + 1) % len(vs)]
                if a != b:
                    E.setdefault((max(a, b), min(a, b)), rng.randint(1, R))
        else:
            a, b = pick(), pick()
            if a != b:
                E.setdefault((max(a, b), min(a, b)), rng.randint(0 if rng.random() < 0.05 else 1, R))
    return [E.get((i, j), -1) for (i, j) in tri(n)]


def dim_for_encoding(n, mod, want):
    """a dim_max for which help1 picks the wanted encoding, or None"""
    ds = [d for d in range(0, max(n - 1, 1)) if py_dispatch(n, d, mod) == want]
    return ds


def generate(rng, tier):
    thorough = tier == "thorough"
    cases = []
    cdir = os.path.join(core.ROOT, "corpus", "C11")
    if os.path.isdir(cdir):
        for f in sorted(os.listdir(cdir)):
            if f.endswith(".json"):
                c = json.load(open(os.path.join(cdir, f)))
                if "line" in c:
                    continue                     # leaf lines: see leaf_lines
                if "edges" in c:                 # compact form of a sparse case
                    E = {(max(a, b), min(a, b)): k for (a, b, k) in c.pop("edges")}
                    c["keys"] = [E.get(ij, -1) for ij in tri(c["n"])]
                    c.setdefault("nsimp", c["n"] + len(E))
                c["refuse"] = c.get("refuse", False) or (c["kind"] == "sparse" and not py_accepts(c["n"], c["dim"], c["mod"]))
                if c["refuse"]:
                    c["proved"] = False
                c["origin"] = "corpus"
                cases.append(c)

    def add(c, origin):
        n = c["n"]
        M = lower_to_full(n, c["keys"])
        dmc = max(0, min(c["dim"], n - 2))
        thr = c["thr"]
        if c["kind"] != "sparse" and thr is None:
            thr_eff = enclosing(n, M)
        else:
            thr_eff = thr
        cnt = count_simplices(n, M, thr_eff, dmc + 2, 6000)
        c["nsimp"] = cnt
        if cnt > 6000:
            return
        c["proved"] = cnt <= CAP
        if c["kind"] != "sparse" and thr is None and c["proved"] and (not thorough or rng.random() < 0.4):
            c["cone"] = count_simplices(n, M, None, dmc + 2, CAP + 1) <= CAP
        c["origin"] = origin
        cases.append(c)

    # ---- dense integer matrices with ties
    nd = 150 if thorough else 70
    for t in range(nd):
        n = rng.choice([1, 2, 3, 4, 4, 5, 5, 6, 6, 6, 7, 7, 7, 8, 8, 9, 9])
        keys = gen_dense(rng, n)
        thrs = thresholds_for(keys, rng, thorough)
        dims = list(range(0, max(n - 1, 1)))
        if not thorough:
            dims = sorted(set(rng.sample(dims, min(2, len(dims))) + [max(n - 2, 0)]))
        for thr in thrs:
            for dim in dims:
                mods = MODULI if (thorough and rng.random() < 0.3) else [rng.choice(MODULI)] + ([2] if rng.random() < 0.3 else [])
                for mod in sorted(set(mods)):
                    d = INTMAX if (dim == max(n - 2, 0) and rng.random() < 0.15) else dim
                    add(dict(kind="dense", n=n, keys=keys, thr=thr, dim=d, mod=mod, sq=0, shuffle=rng.randrange(1, 10**6),
                             thrmax=(thr is None and rng.random() < 0.4)), "dense")
    # ---- more points, many ties, dimension 3 and 4: columns of dimension >= 2 that are reduced explicitly and whose pivots
    #      have cofacets to be reduced in the next dimension (compared with the second oracle: too many simplices for the certified one)
    for t in range(800 if thorough else 160):
        n = rng.choice([6, 7, 8, 9, 10, 11, 12, 13])
        R = rng.choice([2, 3, 3, 4, 5, 8])
        keys = [rng.randint(1, R) for _ in tri(n)]
        thr = None if rng.random() < 0.6 else rng.choice(sorted(set(keys)))
        add(dict(kind="dense", n=n, keys=keys, thr=thr, dim=rng.choice([3, 3, 4, 5]), mod=rng.choice([2, 2, 3, 3, 5, 7, 251]), sq=0, shuffle=rng.randrange(1, 10**6),
                 forms=rng.sample(["lower", "lowerdirect", "upper", "full", "sparse", "sparsector"], 2)), "dense-ties-highdim")
    # ---- Euclidean clouds with integer coordinates
    npnt = 50 if thorough else 24
    for t in range(npnt):
        n = rng.choice([2, 3, 4, 5, 6, 6, 7, 7, 8])
        m = rng.choice([1, 2, 2, 3])
        side = rng.choice([1, 2, 3, 4, 6])
        P = [[rng.randint(0, side) for _ in range(m)] for _ in range(n)]
        keys = [sum((a - b) ** 2 for a, b in zip(P[i], P[j])) for (i, j) in tri(n)]
        thrs = thresholds_for(keys, rng, thorough)
        thrs = [x for x in thrs if x is None or x >= 0]
        for thr in thrs:
            for dim in sorted(set([rng.randrange(0, max(n - 1, 1)), max(n - 2, 0)] if not thorough else range(0, max(n - 1, 1)))):
                add(dict(kind="points", n=n, keys=keys, thr=thr, dim=dim, mod=rng.choice(MODULI), sq=1, points=P,
                         forms=["points", "lower", "upper", "full", "sparse", "sparsector"], shuffle=rng.randrange(1, 10**6)), "points")
    # ---- sparse inputs, few edges, large dim_max: every encoding
    nsp = 300 if thorough else 90
    for t in range(nsp):
        want = [64, 128, 129][t % 3]
        mod = rng.choice(MODULI)
        if want == 64:
            n = rng.choice([10, 12, 16, 17, 24, 32, 33, 40])
        elif want == 128:
            n = rng.choice([16, 16, 17, 20, 28, 32, 33, 36, 40])
            if n == 16 and mod == 2:
                mod = 3
        else:
            n = rng.choice([26, 27, 30, 32, 33, 34, 38, 40])
        ds = dim_for_encoding(n, mod, want)
        if not ds:
            continue
        dim = rng.choice([ds[0], ds[-1], rng.choice(ds)])
        if dim == n - 2 and rng.random() < 0.2:
            dim = INTMAX
        keys = gen_sparse(rng, n, rng.choice([4, 8, 12, 16, 22]))
        for thr in ([None] if not thorough else thresholds_for(keys, rng, False)):
            add(dict(kind="sparse", n=n, keys=keys, thr=thr, dim=dim, mod=mod, sq=0, shuffle=rng.randrange(1, 10**6)), "sparse")
    # ---- larger sparse inputs whose simplices really need more than 64 bits (second route only)
    nbig = 12 if thorough else 4
    for t in range(nbig):
        kind = t % 2
        mod = rng.choice([2, 3, 5, 7])
        if kind == 0:      # bitfield-128: a clique on high vertices
            n = rng.choice([40, 64, 100]); q = rng.choice([8, 9, 10]); dim = q + rng.choice([2, 4])
        else:              # cns: large n, 12 or 13 bits per vertex
            n = rng.choice([300, 500, 700]); q = rng.choice([9, 10, 11]); dim = rng.choice([12, 13, 14])
        top = sorted(rng.sample(range(n - 2 * q, n), q))
        E = {}
        for a in top:
            for b in top:
                if a > b:
                    E[(a, b)] = rng.randint(1, 4)
        for _ in range(q):
            a, b = rng.randrange(n), rng.randrange(n)
            if a != b:
                E.setdefault((max(a, b), min(a, b)), rng.randint(1, 4))
        keys = [E.get((i, j), -1) for (i, j) in tri(n)]
        c = dict(kind="sparse", n=n, keys=keys, thr=None, dim=dim, mod=mod, sq=0)
        c["nsimp"] = 2 ** q
        c["proved"] = False
        c["origin"] = "sparse-big"
        cases.append(c)
    # ---- the limits of the budget: beyond them ripser must refuse (exception), never answer something else
    for (n, dim, mod) in [(129, 127, 2), (129, 126, 2), (129, 125, 2), (130, 128, 2), (131, 129, 2), (131, 125, 2), (131, 125, 3), (132, 125, 2),
                          (132, 64, 2), (133, 63, 2), (150, 148, 2), (200, INTMAX, 2), (200, 66, 5), (200, 40, 5), (300, INTMAX, 3), (130, 100, 3),
                          (130, 100, 5), (140, 62, 7), (258, INTMAX, 2), (258, 256, 2), (300, 254, 2), (300, 257, 2), (129, INTMAX, 2), (131, INTMAX, 2),
                          (128, 126, 2), (128, 125, 2), (127, 125, 2), (127, INTMAX, 3)]:
        m = rng.choice([4, 5, 6])
        E = {}
        vs = rng.sample(range(n), m)
        for k in range(m):
            a, b = vs[k], vs[(k + 1) % m]
            E[(max(a, b), min(a, b))] = rng.randint(1, 2)
        keys = [E.get((i, j), -1) for (i, j) in tri(n)]
        c = dict(kind="sparse", n=n, keys=keys, thr=None, dim=dim, mod=mod, sq=0, nsimp=n + m, second=False, origin="budget-limit")
        c["refuse"] = not py_accepts(n, dim, mod)
        c["proved"] = not c["refuse"]
        cases.append(c)
    # ---- moduli that must be refused
    for mod in BADMOD:
        keys = gen_dense(rng, 4)
        c = dict(kind="dense", n=4, keys=keys, thr=None, dim=1, mod=mod, sq=0, forms=["lower", "sparse"], badmod=True, proved=False,
                 second=False, origin="bad-modulus", nsimp=0)
        cases.append(c)
    return cases


def leaf_lines(rng, tier):
    thorough = tier == "thorough"
    L = []
    cdir = os.path.join(core.ROOT, "corpus", "C11")
    if os.path.isdir(cdir):
        for f in sorted(os.listdir(cdir)):
            if f.endswith(".json"):
                c = json.load(open(os.path.join(cdir, f)))
                if "line" in c:
                    L.append(c["line"])
    for n in range(1, 41 if thorough else 25):
        L.append("CM lower %d" % n)
        L.append("CM upper %d" % n)
    for n in range(1, 13):
        for a in ("lower", "upper"):
            for b in ("lower", "upper"):
                L.append("CMC %s %s %d" % (a, b, n))
    # Cns table overflow boundary: C(131,65) < 2^128 <= C(132,66)
    for n in (128, 130, 131, 132, 133, 136, 200):
        for dim in (100, 40):
            L.append("ENC cns %d %d 2 1 3 0 %d %d" % (n, dim, n // 2, n - 1))
    L.append("ENC cns 131 100 65521 65520 2 129 130")
    ne = 5000 if thorough else 900
    for t in range(ne):
        which = rng.choice(["b64", "b64", "b128", "b128", "cns"])
        n = rng.choice([2, 3, 4, 5, 8, 9, 16, 17, 31, 32, 33, 40, 64, 65, 100, 127, 128, 129, 200])
        if which == "cns":
            # the extracted model recomputes Pascal rows for every table look-up: keep n moderate, a few large ones
            r0 = rng.random()
            n = rng.choice([2, 3, 5, 9, 16, 17, 26, 33, 40]) if r0 < 0.85 else rng.choice([64, 65]) if r0 < 0.96 else rng.choice([100, 130, 200])
        mod = rng.choice([2, 3, 5, 7, 251, 65521])
        bpv, cb = log2up(n), log2up(mod - 1)
        W = 64 if which == "b64" else 128
        r = rng.random()
        if which != "cns" and r < 0.6 and bpv > 0:      # around the budget boundary
            kk = (W - cb) // bpv + rng.choice([-2, -1, 0, 0, 1])
            dim = max(0, min(kk - 2, 100))
        else:
            dim = rng.choice([0, 1, 2, 3, 5, 8, 12, 20, 30, 60, 100])
        k = min(dim, n - 2) + 2
        m = rng.randint(1, max(1, min(k, n)))
        if rng.random() < 0.3:
            m = max(1, min(k, n))
        if which == "cns":
            m = min(m, 9)
        if rng.random() < 0.3:
            vs = sorted(rng.sample(range(max(0, n - m - 2), n), min(m, n - max(0, n - m - 2))))
        else:
            vs = sorted(rng.sample(range(n), m))
        coef = rng.choice([1, mod - 1, rng.randint(1, mod - 1)])
        L.append("ENC %s %d %d %d %d %d %s" % (which, n, dim, mod, coef, len(vs), " ".join(map(str, vs))))
    return L


# ------------------------------------------------------------------------------------------------ running and judging
def run_cases(drv, orc, cases, env=None):
    hl, ol, idx = [], [], []
    for ci, c in enumerate(cases):
        H, O = case_lines(c)
        for tag, l in H:
            idx.append((ci, "H", tag))
            hl.append(l)
        for tag, l in O:
            idx.append((ci, "O", tag))
            ol.append(l)
    # chunks of lines, balanced
    def chunks(lines, k):
        per = max(1, (len(lines) + k - 1) // k)
        return [("G", lines[i:i + per]) for i in range(0, len(lines), per)]
    hres = core.run_grouped_parallel(drv, chunks(hl, 16), nchunks=4, timeout=3600, env=env)
    ores = core.run_grouped_parallel(orc, chunks(ol, 16), nchunks=4, timeout=3600)
    ha = [a for (_, ans) in hres for a in ans]
    oa = [a for (_, ans) in ores for a in ans]
    per = [dict(H={}, O={}) for _ in cases]
    hi = oi = 0
    for (ci, side, tag) in idx:
        if side == "H":
            per[ci]["H"][tag] = ha[hi]; hi += 1
        else:
            per[ci]["O"][tag] = oa[oi]; oi += 1
    return per


def judge(c, out, res=None):
    """-> list of (kind, what, expected, observed)"""
    V = []
    n, dim, mod = c["n"], c["dim"], c["mod"]
    dmc = min(dim, n - 2, DIM_LIMIT)
    exp_dims = ",".join(str(d) for d in range(0, max(dmc, 0) + 1))
    bad = c.get("badmod")
    # the dispatcher
    d = out["O"].get("dispatch", "")
    exp_enc = d.split("enc=")[1] if "enc=" in d else "?"
    if str(py_dispatch(n, dim, mod)) != exp_enc and not bad:
        V.append(("machinery:dispatch-model", "python replica and Coq model of help1 disagree", exp_enc, str(py_dispatch(n, dim, mod))))
    ref = None
    oracle = out["O"].get("oracle")
    if oracle is not None:
        if not oracle.startswith("OK"):
            V.append(("oracle:certificate-failed", "the certified reduction did not certify its own result", "OK", oracle[:60]))
        else:
            ref = parse_bars(oracle)[0]
            cone = out["O"].get("cone")
            if cone is not None:
                cb = parse_bars(cone)
                if cb is None or cb[0] != ref:
                    V.append(("spec:enclosing-radius-cone", "the barcode up to the enclosing radius differs from the barcode of the full filtration",
                              str(cb[0] if cb else cone)[:300], str(ref)[:300]))
                elif res is not None:
                    res.count("cone clause evaluated (full filtration = truncated at enclosing radius)")
    sec = out["H"].get("second")
    secb = None
    if sec is not None:
        p = parse_bars(sec)
        if p is None:
            V.append(("second-route:failed", "Rips_complex+Simplex_tree+Persistent_cohomology failed: " + sec[:80], "OK", sec[:80]))
        else:
            secb = p[0]
            if ref is not None and secb != ref:
                V.append(("oracles-disagree", "certified oracle and Simplex_tree/Persistent_cohomology route disagree (n=%d dim=%d thr=%s p=%d)"
                          % (n, dim, c["thr"], mod), str(ref)[:400], str(secb)[:400]))
    want = ref if ref is not None else secb
    first = None
    for tag, ans in out["H"].items():
        if tag == "second":
            continue
        if ans.startswith("CRASH") or ans.startswith("DIED"):
            V.append((("hang:" if "HANG" in ans else "crash:") + tag, "ripser %s on form %s (n=%d dim=%d thr=%s p=%d)"
                      % ("did not return within 240 s" if "HANG" in ans else "crashed (%s)" % ans[:20], tag, n, dim, c["thr"], mod), "an answer", ans[:60]))
            continue
        if c.get("refuse"):
            if not ans.startswith("EXC"):
                V.append(("out-of-budget-accepted", "n=%d dim_max=%d p=%d is beyond the encodable budget but ripser answered (form %s)" % (n, dim, mod, tag),
                          "exception", ans[:80]))
            elif res is not None:
                res.count("refused out-of-budget input:" + ans)
            continue
        if bad:
            if not ans.startswith("EXC"):
                V.append(("bad-modulus-accepted", "modulus %d was not refused (form %s)" % (mod, tag), "exception", ans[:80]))
            elif res is not None:
                res.count("refused modulus:" + ans)
            continue
        p = parse_bars(ans)
        if p is None:
            V.append(("exception-or-bad-value:" + tag, "ripser failed on a valid input (form %s): %s" % (tag, ans[:80]), "OK", ans[:120]))
            continue
        bars, f = p
        if f.get("enc") != exp_enc:
            V.append(("encoding-choice", "help1 chose encoding %s, the dispatcher model says %s (n=%d dim=%d p=%d)" % (f.get("enc"), exp_enc, n, dim, mod),
                      exp_enc, f.get("enc")))
        if f.get("dims") != exp_dims:
            V.append(("dimensions-announced:" + tag, "output_dim calls are %s, expected %s" % (f.get("dims"), exp_dims), exp_dims, f.get("dims")))
        if f.get("neg") != "0":
            V.append(("negative-interval:" + tag, "an interval with death < birth (or before any dimension) was streamed", "0", f.get("neg")))
        if want is not None and bars != want:
            which = "oracle" if ref is not None else "second-route"
            V.append(("engine-vs-%s:%s:enc%s" % (which, "sparse" if tag in ("sparse", "sparsector", "lower+thr") or c["thr"] is not None else "dense", f.get("enc")),
                      "ripser (form %s, encoding %s) differs from the %s: n=%d dim=%d thr=%s p=%d" % (tag, f.get("enc"), which, n, dim, c["thr"], mod),
                      str(want)[:400], str(bars)[:400]))
        if first is None:
            first = (tag, bars)
        elif bars != first[1]:
            V.append(("forms-disagree", "input forms %s and %s give different barcodes (n=%d dim=%d thr=%s p=%d)" % (first[0], tag, n, dim, c["thr"], mod),
                      str(first[1])[:400], str(bars)[:400]))
        if res is not None:
            res.evaluations += 1
            res.count("form:" + tag)
            res.count("encoding:" + {"64": "bitfield-64", "128": "bitfield-128", "129": "cns-128"}.get(f.get("enc"), "?"))
    return V


def strip(c):
    return {k: v for k, v in c.items() if k not in ("origin",)}


def shrink(drv, orc, c, kind, budget=40):
    """delete vertices while a violation of the same kind remains"""
    cur = dict(c)
    changed = True
    while changed and budget > 0 and cur["n"] > 2:
        changed = False
        n = cur["n"]
        M = lower_to_full(n, cur["keys"])
        for v in range(n - 1, -1, -1):
            budget -= 1
            if budget < 0:
                break
            keep = [i for i in range(n) if i != v]
            c2 = dict(cur)
            c2["n"] = n - 1
            c2["keys"] = [M[keep[i]][keep[j]] for (i, j) in tri(n - 1)]
            if "points" in c2:
                c2["points"] = [cur["points"][i] for i in keep]
            if c2["dim"] != INTMAX:
                c2["dim"] = min(c2["dim"], max(n - 3, 0)) if cur["kind"] != "sparse" else c2["dim"]
            if cur["kind"] == "sparse" and py_dispatch(c2["n"], c2["dim"], c2["mod"]) != py_dispatch(n, cur["dim"], cur["mod"]):
                continue
            out = run_cases(drv, orc, [c2])[0]
            if any(k == kind for (k, _, _, _) in judge(c2, out)):
                cur = c2
                changed = True
                break
    return cur


def check(ctx, replay=None):
    res = core.Result()
    if not getattr(ctx, "skip_proof", False):
        ctx.prove(["Extract_C11.vo"])
    drv = ctx.build_harness("c11_drv.cpp", flags=[])
    orc = ctx.build_oracle("c11")
    leaf = []
    if replay:
        rc = replay["case"]
        if "line" in rc:
            cases, leaf = [], [rc["line"]]
        else:
            cases = [dict(rc, origin="replay")]
    else:
        cases = generate(ctx.rng, ctx.tier)
        leaf = leaf_lines(ctx.rng, ctx.tier)
    ctx.log("%d engine cases (%d with certified oracle), %d leaf lines" % (len(cases), sum(1 for c in cases if c.get("proved")), len(leaf)))
    per = run_cases(drv, orc, cases)
    kinds = {}
    for c, out in zip(cases, per):
        res.count("origin:" + c.get("origin", "?"))
        res.count("n:%s" % (c["n"] if c["n"] <= 9 else "10-40" if c["n"] <= 40 else ">40"))
        res.count("threshold:" + ("none" if c["thr"] is None else "below-min" if c["thr"] < min([k for k in c["keys"] if k >= 0] + [10**9]) else "value"))
        res.count("modulus:%d" % c["mod"])
        res.count("oracle:" + ("certified" if c.get("proved") else "second-route-only" if not (c.get("badmod") or c.get("refuse")) else "none (refusal expected)"))
        if c.get("proved"):
            res.traces_validated += 1
            res.count("simplices(certified):%s" % ("<=30" if c["nsimp"] <= 30 else "31-80" if c["nsimp"] <= 80 else "81-%d" % CAP))
        if c["n"] >= 2:
            res.distinct.add((c["kind"], c["n"], tuple(c["keys"]), c["thr"], c["dim"], c["mod"]))
        for (kind, what, exp, obs) in judge(c, out, res):
            kinds.setdefault(kind, []).append((c, what, exp, obs))
    # leaf classes against their algorithm models
    if leaf:
        ha = [a for (_, ans) in core.run_grouped_parallel(drv, [("G", leaf[i:i + 200]) for i in range(0, len(leaf), 200)], nchunks=4) for a in ans]
        oa = [a for (_, ans) in core.run_grouped_parallel(orc, [("G", leaf[i:i + 200]) for i in range(0, len(leaf), 200)], nchunks=4) for a in ans]
        for l, a, b in zip(leaf, ha, oa):
            op = l.split()[0]
            res.evaluations += 1
            res.count("leaf:" + op + (":" + l.split()[1] if op == "ENC" else ""))
            if op == "ENC":
                res.count("leaf:ENC:" + ("overflow refused" if b.startswith("EXC") else "encoded"))
            if a != b:
                kind = "leaf:%s:%s" % (op, "crash" if a.startswith(("CRASH", "DIED")) else "mismatch")
                if op == "CMC":
                    kind += ":" + "-".join(l.split()[1:3])
                kinds.setdefault(kind, []).append(({"line": l}, "leaf class differs from its algorithm model on '%s'" % l[:100], b[:300], a[:300]))
    for kind, lst in kinds.items():
        lst.sort(key=lambda t: len(json.dumps(t[0], default=str)))
        c, what, exp, obs = lst[0]
        if "line" not in c and not replay and not kind.startswith("machinery"):
            small = shrink(drv, orc, c, kind)
            out = run_cases(drv, orc, [small])[0]
            vs = [v for v in judge(small, out) if v[0] == kind]
            if vs:
                c, what, exp, obs = small, vs[0][1], vs[0][2], vs[0][3]
        for _ in lst:
            res.violation(kind, what, strip(c) if "line" not in c else c, expected=exp, observed=obs)
    # the portable 128-bit integer (uint128.h): same inputs, the sparse cases that use 128 bits
    if not replay and not os.environ.get("C11_SKIP_FAKE128"):
        try:
            drv2 = ctx.build_harness("c11_drv.cpp", tag="fake128", flags=["-DGUDHI_FORCE_FAKE_UINT128"])
            sub = [c for c in cases if c["kind"] == "sparse" and py_dispatch(c["n"], c["dim"], c["mod"]) != 64][: (60 if ctx.tier == "thorough" else 16)]
            per2 = run_cases(drv2, orc, [dict(c, second=False) for c in sub])
            for c, out in zip(sub, per2):
                for (kind, what, exp, obs) in judge(dict(c, second=False), out, None):
                    res.violation("fake-uint128:" + kind, "with GUDHI_FORCE_FAKE_UINT128: " + what, strip(c), expected=exp, observed=obs)
                res.count("Fake_uint128 build: cases")
            l2 = [l for l in leaf if l.startswith("ENC b128") or l.startswith("ENC cns")][:400]
            ha = [a for (_, ans) in core.run_grouped_parallel(drv2, [("G", l2)], nchunks=1) for a in ans]
            oa = [a for (_, ans) in core.run_grouped_parallel(orc, [("G", l2)], nchunks=1) for a in ans]
            for l, a, b in zip(l2, ha, oa):
                res.count("Fake_uint128 build: leaf lines")
                if a != b:
                    res.violation("fake-uint128:leaf", "with GUDHI_FORCE_FAKE_UINT128 the encoding differs from its model on '%s'" % l[:100], {"line": l},
                                  expected=b[:300], observed=a[:300])
        except core.CheckError as e:
            res.notes.append("Fake_uint128 variant not built: " + str(e)[:200])
    res.rule = ("one engine case = (metric, threshold, dim_max, modulus) run through every applicable input form; distinct = distinct such tuples with n >= 2; "
                "every form's streamed intervals (zero-length dropped) are compared as a multiset with the certified oracle (complexes <= %d simplices) "
                "and with the Simplex_tree route; evaluations = form runs + leaf lines compared" % CAP)
    res.samples = [strip(c) for c in cases if c.get("origin") in ("dense", "sparse", "points")][:6]
    res.samples = [{k: (v if k != "keys" or len(v) <= 40 else "<%d keys>" % len(v)) for k, v in s.items()} for s in res.samples]
    res.notes.append("certified-oracle complexes are capped at %d simplices (O(N^4) verified checker); %d cases were above the cap and were compared with the "
                     "Rips_complex+Simplex_tree+Persistent_cohomology route only" % (CAP, sum(1 for c in cases if not c.get("proved") and not c.get("badmod") and not c.get("refuse"))))
    return core.finish(ctx, None, res, TRUSTED, ASSUMPTIONS, LEVEL,
                       "cd /verif/coq && make -f Makefile.coq Properties_C11.vo  (coqc 8.16.1; Print Assumptions after every theorem)",
                       correspondence_name=CORRESPONDENCE)
